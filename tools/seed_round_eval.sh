#!/bin/bash
# usage: tools/seed_round_eval.sh <round number> <Cxx> [other checks]   (/tmp/seed<r>/<Cxx>/_out -> seeded/<Cxx>-r<r>-k)
cd /verif
R=$1; shift
SEEDROOT=/tmp/seed$R SEEDTAG=r$R- tools/seed_import.sh "$@" 2>&1 | grep -v "conda.cli"
