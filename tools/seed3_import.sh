#!/bin/bash
# usage: tools/seed3_import.sh <advN>   — adversarial round: the sub-agent chose the property itself
A=$1; S=${SEEDROOT:-/tmp/seed3}/$A/_out
for k in 1 2 3; do
  [ -f $S/patch$k.diff ] || continue
  D=/verif/seeded/$A-$k
  if [ -f $D/eval.txt ] && grep -q "check C[0-9]*: exit [01] ::" $D/eval.txt && [ -z "$FORCE" ]; then continue; fi
  mkdir -p $D; cp $S/patch$k.diff $D/patch.diff; cp $S/demo$k.py $D/demo.py; cp $S/meta$k.json $D/meta.json
  IDS=$(python3 -c "import json,re,sys; m=json.load(open('$D/meta.json')); print(' '.join(sorted(set(re.findall(r'C\d\d', str(m.get('property','')))))))")
  FIRST=$(echo $IDS | cut -d' ' -f1); REST=$(echo $IDS | cut -s -d' ' -f2-)
  echo "=== $A-$k (claims: $IDS)"
  /verif/tools/seed_eval.sh $FIRST $D $REST | tee $D/eval.txt
  if ! grep -q "exit 1 :: VIOLATION" $D/eval.txt; then
    echo "--- not detected by the claimed checks; running all checks" | tee -a $D/eval.txt
    ALL=$(ls /verif/obligations | sed 's/.json//' | tr '\n' ' ')
    /verif/tools/seed_eval.sh $FIRST $D $ALL | grep "^check" | tee -a $D/eval.txt
  fi
done
