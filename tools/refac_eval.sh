#!/bin/bash
# usage: tools/refac_eval.sh <dir with patch.diff> [check ids... default: all]
# Applies a behaviour-preserving refactoring to a scratch copy of /repo and runs the checks
# against it: every check must stay quiet (exit 0).
SRC=$1; shift
CHECKS="$@"; [ -z "$CHECKS" ] && CHECKS=$(ls /verif/obligations | sed 's/.json//')
TMP=$(mktemp -d /tmp/refrun.XXXXXX)
rsync -a --exclude .git --exclude htmlcov /repo/ $TMP/
cd $TMP && patch -p1 -s < $SRC/patch.diff || { echo "RESULT patch-does-not-apply"; rm -rf $TMP; exit 3; }
SUITE=$(cd $TMP && PYTHONPATH=$TMP /venv/bin/python -m pytest -q -p no:cacheprovider --timeout=900 netaddr 2>&1 | grep -E "passed|failed" | tail -1)
echo "suite: $SUITE"
cd /verif
for c in $CHECKS; do
  OUT=$(NETADDR_REPO=$TMP VERIF_SEED=${VERIF_SEED:-0} timeout 1200 ./check $c quick 2>&1); RC=$?
  if [ $RC -ne 0 ]; then echo "ALARM check $c: exit $RC :: $(echo "$OUT" | grep -E "^VIOLATION|FAILURE|mismatch" | head -1)"; echo "$OUT" | grep -E "^  input:|^  broken:" | head -2 | cut -c1-500; fi
done
echo "done $(basename $SRC)"
rm -rf $TMP
