#!/bin/bash
# usage: tools/seed_recheck.sh [-P n]   — re-evaluate every kept seeded change against the current checks
# (regression of the detection matrix after the harness / models changed); rewrites seeded/<id>/eval.txt
P=${1:-6}
cd /verif
ls seeded | xargs -P $P -I{} bash -c '
  D=/verif/seeded/{}
  IDS=$(python3 -c "import json,re; m=json.load(open(\"$D/meta.json\")); c=m.get(\"confirmed\",{}).get(\"checks\",{}); ids=[k for k,v in c.items() if v.get(\"exit\")==1] or sorted(set(re.findall(r\"C\d\d\", str(m.get(\"property\",\"\"))))); print(\" \".join(ids))")
  set -- $IDS; F=$1; shift
  /verif/tools/seed_eval.sh $F $D "$@" > $D/eval.new 2>&1
  if grep -q "exit 1 :: VIOLATION" $D/eval.new; then mv $D/eval.new $D/eval.txt; echo "ok {}"; else echo "MISSED {} ($IDS)"; mv $D/eval.new $D/eval.recheck-missed.txt; fi
'
