#!/bin/bash
# usage: tools/seed6_eval.sh <Cxx> [other checks]   (round 6: /tmp/seed6/<Cxx>/_out -> seeded/<Cxx>-r6-k)
cd /verif
SEEDROOT=/tmp/seed6 SEEDTAG=r6- tools/seed_import.sh "$@" 2>&1 | grep -v "conda.cli"
