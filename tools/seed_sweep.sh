#!/bin/bash
# evaluate every sub-agent seed output (round given by SEEDROOT/SEEDTAG) not evaluated yet
ROOT=${SEEDROOT:-/tmp/seed}; TAG=${SEEDTAG:-}
for d in $ROOT/C*; do
  P=$(basename $d)
  [ -f $d/_out/patch1.diff ] || continue
  [ -f /verif/obligations/$P.json ] || { echo "skip $P (check not merged)"; continue; }
  SEEDROOT=$ROOT SEEDTAG=$TAG /verif/tools/seed_import.sh $P 2>&1 | grep -v "^  input" | cut -c1-220
done
