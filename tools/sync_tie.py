#!/usr/bin/env python3
"""Write tie_theorems / tie_modules of obligations/*.json from harness/pytrans.py (FUNCS: which
translated function belongs to which property and which NV.Tie theorem ties it) and the
Props/Tie*.lean files (which module states the theorem)."""
import glob, json, os, re, sys
V = os.path.dirname(os.path.dirname(os.path.abspath(__file__)))
sys.path.insert(0, os.path.join(V, 'harness'))
import pytrans
where = {}
for f in sorted(glob.glob(os.path.join(V, 'lean/NetaddrVerif/Props/Tie*.lean'))):
    mod = 'NetaddrVerif.Props.' + os.path.basename(f)[:-5]
    for m in re.finditer(r'(?m)^theorem\s+(\w+)', open(f, encoding='utf-8').read()):
        where['NV.Tie.' + m.group(1)] = mod
by = {}
for fn in pytrans.FUNCS:
    assert fn['tie'] in where, fn['tie']
    by.setdefault(fn['prop'], []).append(fn['tie'])
for f in sorted(glob.glob(os.path.join(V, 'obligations', '*.json'))):
    pid = os.path.basename(f)[:-5]
    d = json.load(open(f))
    names = by.get(pid, [])
    if names:
        d['tie_theorems'] = names
        d['tie_modules'] = sorted(set(where[n] for n in names))
    else:
        d.pop('tie_theorems', None)
        d.pop('tie_modules', None)
    with open(f, 'w') as g:
        json.dump(d, g, indent=1, sort_keys=True)
        g.write('\n')
    if names:
        print(pid, len(names), d['tie_modules'])
