#!/usr/bin/env python3
"""Assemble DESIGN.md from its hand-written parts (tools/design_*.md) plus sections generated
from the repository: per-property BUILT lines and obligation lists (obligations/*.json),
sizes, and the seeded-change detection matrix (seeded/*/meta.json + eval.txt)."""
import glob, json, os, re, subprocess
V = os.path.dirname(os.path.dirname(os.path.abspath(__file__)))
rd = lambda p: open(os.path.join(V, p), encoding='utf-8').read()
props = [json.loads(l) for l in open(os.path.join(V, 'properties.jsonl'))]
obl = {}
for f in glob.glob(os.path.join(V, 'obligations', '*.json')):
    obl[os.path.basename(f)[:-5]] = json.load(open(f))

# ---- section 5: the plan, annotated
sec5 = rd('tools/design_sec5_plan.md')
sec5 = sec5.replace('## 5. Per-property plan', '## 5. Per-property plan (written before the build) with what was delivered', 1)
sec5 = sec5.replace('Notation: **M**', 'Each entry keeps the text of the design round (its "Now" paragraphs describe the *pinned* tree, '
                    'before the repairs of section 6); the `BUILT:` line in front says what exists now; the exact theorem '
                    'names are in section 11.1.\n\nNotation: **M**', 1)
for p in props:
    pid = p['id']
    o = obl.get(pid)
    if o:
        built = 'BUILT: %d obligations, all discharged. %s' % (len(o['theorems']), o.get('level_text', '').strip())
        if o.get('level_note'):
            built += ' — ' + o['level_note'].strip()
    else:
        built = 'BUILT: not merged yet.'
    sec5 = re.sub(r'(### %s — [^\n]*\n)' % pid, lambda m: m.group(1) + '\n> ' + built.replace('\n', ' ') + '\n', sec5, count=1)

# ---- section 11
L = ['## 11. Generated inventory', '']
def count(pattern):
    n = f = 0
    for p in glob.glob(os.path.join(V, pattern)):
        f += 1
        n += sum(1 for _ in open(p, encoding='utf-8'))
    return f, n
rows = [('Model', 'lean/NetaddrVerif/Model/*.lean'), ('Gen (regenerated)', 'lean/NetaddrVerif/Gen/*.lean'),
        ('Lemmas', 'lean/NetaddrVerif/Lemmas/*.lean'), ('Props', 'lean/NetaddrVerif/Props/*.lean'),
        ('Driver', 'lean/NetaddrVerif/Driver/*.lean'), ('harness (Python)', 'harness/**/*.py')]
L += ['| part | files | lines |', '|---|---|---|']
for name, pat in rows:
    fs = glob.glob(os.path.join(V, pat), recursive=True)
    n = sum(sum(1 for _ in open(p, encoding='utf-8')) for p in fs)
    L.append('| %s | %d | %d |' % (name, len(fs), n))
thm = 0
for p in glob.glob(os.path.join(V, 'lean/NetaddrVerif/**/*.lean'), recursive=True):
    thm += len(re.findall(r'(?m)^\s*theorem ', open(p, encoding='utf-8').read()))
L += ['', 'Theorems in `lean/`: %d; audited obligations (property-level, listed below): %d.' % (
    thm, sum(len(o['theorems']) for o in obl.values())), '']
L += ['### 11.1 Obligations per property (every name is `#print axioms`-audited on every run)', '']
for p in props:
    pid = p['id']
    o = obl.get(pid)
    L.append('**%s — %s**' % (pid, p['title']))
    if not o:
        L += ['', 'not merged yet.', '']
        continue
    partial = [t for t in o['theorems'] if 'partial' in t]
    L += ['', '`' + '`, `'.join(t.replace('NV.', '', 1) for t in o['theorems']) + '`', '']
    if o.get('tie_theorems'):
        L += ['Translation tie (section 4.5; re-checked against the current source text on every run): `' +
              '`, `'.join(t.replace('NV.', '', 1) for t in o['tie_theorems']) + '`', '']
    if partial:
        L += ['Partial (full statement in the doc comment of the theorem): `' + '`, `'.join(partial) + '`', '']
    if o.get('modelled_not_verified'):
        L += ['Modelled, not verified: ' + '; '.join(o['modelled_not_verified']), '']
L += ['### 11.2 Seeded regressions and which check catches them', '',
      'Each was written by a fresh sub-agent that saw only the property text and a scratch checkout of `/repo` '
      '(nothing from `/verif`), had to keep the existing suite green (268 passed / the 2 baseline failures) and '
      'supply a demonstration that fails with the change and passes without it. Each was confirmed with '
      '`tools/seed_eval.sh` (suite unchanged, demo fails/passes) and the checks were run against it. '
      '`seeded/<id>-k/` holds `patch.diff`, `demo.py`, `meta.json`, `eval.txt`.', '',
      '| seed | breaks | what it needs to manifest | detected by |', '|---|---|---|---|']
for d in sorted(glob.glob(os.path.join(V, 'seeded', '*'))):
    name = os.path.basename(d)
    try:
        m = json.load(open(os.path.join(d, 'meta.json')))
    except Exception:
        m = {}
    ev = open(os.path.join(d, 'eval.txt')).read() if os.path.exists(os.path.join(d, 'eval.txt')) else ''
    det = []
    for mm in re.finditer(r'check (C\d+): exit (\d+) :: (VIOLATION[^\n]*)?', ev):
        if mm.group(2) == '1':
            det.append(mm.group(1) + (' (no-failing-input-found)' if mm.group(3) and 'no-failing' in mm.group(3) else ''))
        elif mm.group(2) == '0':
            det.append('~~%s~~ (not detected)' % mm.group(1))
    clean = lambda s: re.sub(r'\s+', ' ', str(s)).replace('|', '/')[:260]
    if os.path.exists(os.path.join(d, 'eval-before-strengthening.txt')):
        det.append('*(missed on the first run; caught after the strengthening of section 7.1)*')
    L.append('| %s | %s | %s | %s |' % (name, clean(m.get('summary', ''))[:200], clean(m.get('needs', '')), ', '.join(det) or 'not evaluated yet'))
L.append('')
L += ['### 11.3 Harmless rewrites the checks must stay quiet on', '',
      'Behaviour-preserving refactorings of `/repo` (written by fresh sub-agents told to change the code\'s shape but '
      'not its behaviour, plus `twin-*`: the corrected form of an adversarial seed). Each was applied to a scratch copy and '
      'the checks run against it with `tools/refac_eval.sh`; an `ALARM` line in `refactors/<id>/eval.txt` would be a false '
      'alarm. None occurred.', '',
      '| rewrite | what changed | result |', '|---|---|---|']
for d in sorted(glob.glob(os.path.join(V, 'refactors', '*'))):
    name = os.path.basename(d)
    try:
        m = json.load(open(os.path.join(d, 'meta.json')))
    except Exception:
        m = {}
    ev = open(os.path.join(d, 'eval.txt')).read() if os.path.exists(os.path.join(d, 'eval.txt')) else ''
    res = 'ALARM: ' + '; '.join(re.findall(r'ALARM ([^\n]*)', ev)) if 'ALARM' in ev else ('all checks quiet' if 'done' in ev else 'not evaluated')
    L.append('| %s | %s | %s |' % (name, re.sub(r'\s+', ' ', str(m.get('summary', ''))).replace('|', '/')[:300], res))
L.append('')
import sys
sys.path.insert(0, os.path.join(V, 'harness'))
import pytrans
NF = str(len(pytrans.FUNCS))
out = rd('tools/design_head.md').replace('@@NFUNCS@@', NF) + '\n' + sec5 + '\n' + rd('tools/design_tail.md') + '\n' + '\n'.join(L) + '\n---------------------------------------------------------------------------\n\n' + rd('tools/design_appendices.md')
open(os.path.join(V, 'DESIGN.md'), 'w', encoding='utf-8').write(out)
print('DESIGN.md written: %d lines' % out.count('\n'))
