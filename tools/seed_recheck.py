#!/usr/bin/env python3
"""Re-evaluate every kept seeded change against the current checks (regression of the detection
matrix after the harness / models changed).  usage: tools/seed_recheck.py [parallel=4]
Rewrites seeded/<id>/eval.txt when the change is still detected; otherwise leaves eval.txt alone,
writes seeded/<id>/eval.recheck-missed.txt and prints MISSED."""
import concurrent.futures as cf, glob, json, os, re, subprocess, sys
V = os.path.dirname(os.path.dirname(os.path.abspath(__file__)))


def one(d):
    name = os.path.basename(d)
    m = json.load(open(os.path.join(d, 'meta.json')))
    checks = m.get('confirmed', {}).get('checks', {})
    ids = [k for k, v in checks.items() if v.get('exit') == 1] or sorted(set(re.findall(r'C\d\d', str(m.get('property', '')))))
    p = subprocess.run([os.path.join(V, 'tools', 'seed_eval.sh'), ids[0], d] + ids[1:], stdout=subprocess.PIPE,
                       stderr=subprocess.STDOUT, timeout=7200)
    out = p.stdout.decode('utf-8', 'replace')
    if 'exit 1 :: VIOLATION' in out:
        open(os.path.join(d, 'eval.txt'), 'w').write(out)
        return 'ok %s %s' % (name, ' '.join(ids))
    open(os.path.join(d, 'eval.recheck-missed.txt'), 'w').write(out)
    return 'MISSED %s (%s)' % (name, ' '.join(ids))


if __name__ == '__main__':
    par = int(sys.argv[1]) if len(sys.argv) > 1 else 4
    only = sys.argv[2:]
    ds = sorted(glob.glob(os.path.join(V, 'seeded', '*')))
    if only:
        ds = [d for d in ds if os.path.basename(d) in only]
    with cf.ThreadPoolExecutor(par) as ex:
        for r in ex.map(one, ds):
            print(r, flush=True)
