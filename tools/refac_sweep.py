#!/usr/bin/env python3
"""Run every harmless rewrite (refactors/<id>/patch.diff) against the checks whose anchored files it touches
(harness/fingerprint.py decides which) and report any alarm.  Sequential on purpose: the checks regenerate
lean/NetaddrVerif/Gen from the tree under test.  usage: tools/refac_sweep.py [ids...]"""
import glob, json, os, subprocess, sys, tempfile, shutil
V = os.path.dirname(os.path.dirname(os.path.abspath(__file__)))
sys.path.insert(0, os.path.join(V, 'harness'))
import fingerprint
only = sys.argv[1:]
pids = sorted(os.path.basename(f)[:-5] for f in glob.glob(os.path.join(V, 'obligations', '*.json')))
for d in sorted(glob.glob(os.path.join(V, 'refactors', '*'))):
    name = os.path.basename(d)
    if only and name not in only:
        continue
    tmp = tempfile.mkdtemp(prefix='refrun.')
    try:
        subprocess.run(['rsync', '-a', '--exclude', '.git', '--exclude', 'htmlcov', '/repo/', tmp + '/'], check=True)
        p = subprocess.run(['patch', '-p1', '-s', '-i', os.path.join(d, 'patch.diff')], cwd=tmp)
        if p.returncode != 0:
            print('%s: patch does not apply (the tree moved on)' % name, flush=True)
            continue
        rel = [pid for pid in pids if fingerprint.changed_for(pid, tmp)]
        alarms = []
        for pid in rel:
            env = dict(os.environ, NETADDR_REPO=tmp, VERIF_SEED=os.environ.get('VERIF_SEED', '0'))
            q = subprocess.run([os.path.join(V, 'check'), pid, 'quick'], cwd=V, env=env, stdout=subprocess.PIPE,
                               stderr=subprocess.STDOUT, timeout=3600)
            if q.returncode != 0:
                out = q.stdout.decode('utf-8', 'replace')
                alarms.append('%s exit %d: %s' % (pid, q.returncode, ' | '.join(
                    l[:300] for l in out.split('\n') if l.startswith(('VIOLATION', '  input', '  broken', 'platform')))[:900]))
        print('%s: %d checks run (%s): %s' % (name, len(rel), ' '.join(rel), 'quiet' if not alarms else 'ALARM'), flush=True)
        for a in alarms:
            print('   ' + a, flush=True)
    finally:
        shutil.rmtree(tmp, ignore_errors=True)
# put the generated tables back to /repo's
subprocess.run([os.path.join(V, 'check'), '--setup'], cwd=V, stdout=subprocess.DEVNULL, stderr=subprocess.DEVNULL)
