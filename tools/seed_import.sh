#!/bin/bash
# usage: tools/seed_import.sh <Cxx>  — copy the sub-agent's seeded changes into seeded/<Cxx>-k/ and evaluate them
P=$1
for k in 1 2 3; do
  S=/tmp/seed/$P/_out
  [ -f $S/patch$k.diff ] || continue
  D=/verif/seeded/$P-$k; mkdir -p $D
  cp $S/patch$k.diff $D/patch.diff; cp $S/demo$k.py $D/demo.py; cp $S/meta$k.json $D/meta.json 2>/dev/null
  echo "=== $P-$k"; /verif/tools/seed_eval.sh $P $D "${@:2}" | tee $D/eval.txt
done
