#!/bin/bash
# usage: [SEEDROOT=/tmp/seed2 SEEDTAG=r2-] tools/seed_import.sh <Cxx> [other checks]
# copy the sub-agent's seeded changes into seeded/<Cxx>-<tag>k/ and evaluate those not evaluated yet
P=$1
for k in 1 2 3; do
  S=${SEEDROOT:-/tmp/seed}/$P/_out
  [ -f $S/patch$k.diff ] || continue
  D=/verif/seeded/$P-${SEEDTAG:-}$k
  if [ -f $D/eval.txt ] && grep -q "check $P: exit [01] ::" $D/eval.txt && [ -z "$FORCE" ]; then continue; fi
  mkdir -p $D
  cp $S/patch$k.diff $D/patch.diff; cp $S/demo$k.py $D/demo.py; cp $S/meta$k.json $D/meta.json 2>/dev/null
  echo "=== $P-${SEEDTAG:-}$k"; /verif/tools/seed_eval.sh $P $D "${@:2}" | tee $D/eval.txt
done
