#!/bin/bash
# usage: tools/seed_eval.sh <Cxx> <dir containing patch.diff + demo.py> [more check ids...]
# Confirms a seeded change (suite unchanged, demo fails with it / passes without) on a scratch
# copy of /repo, then runs the given checks against that copy (NETADDR_REPO) and reports.
PID=$1; SRC=$2; shift 2; CHECKS="$PID $@"
TMP=$(mktemp -d /tmp/seedrun.XXXXXX)
rsync -a --exclude .git --exclude htmlcov /repo/ $TMP/
cd $TMP && patch -p1 -s < $SRC/patch.diff || { echo "RESULT $PID patch-does-not-apply"; rm -rf $TMP; exit 3; }
SUITE=$(cd $TMP && PYTHONPATH=$TMP /venv/bin/python -m pytest -q -p no:cacheprovider --timeout=900 netaddr 2>&1 | grep -E "passed|failed" | tail -1)
(cd /tmp && PYTHONPATH=$TMP timeout 300 /venv/bin/python $SRC/demo.py >/dev/null 2>&1); DEMO_MUT=$?
(cd /tmp && PYTHONPATH=/repo timeout 300 /venv/bin/python $SRC/demo.py >/dev/null 2>&1); DEMO_ORIG=$?
echo "suite: $SUITE | demo with change: exit $DEMO_MUT | demo without: exit $DEMO_ORIG"
cd "$(dirname "$(dirname "$(readlink -f "$0")")")"
for c in $CHECKS; do
  OUT=$(NETADDR_REPO=$TMP timeout 1200 ./check $c quick 2>&1); RC=$?
  echo "check $c: exit $RC :: $(echo "$OUT" | grep -E "^VIOLATION" | head -1)"
  echo "$OUT" | grep -E "^  input:|^  broken:" | head -2 | cut -c1-400
done
rm -rf $TMP
