#!/usr/bin/env python3
"""Fold the evaluation record (eval.txt, written by tools/seed_eval.sh) into each seeded
change's meta.json: which property it breaks, what it needs to manifest (from the sub-agent),
and what was run to confirm it and with what result."""
import glob, json, os, re
V = os.path.dirname(os.path.dirname(os.path.abspath(__file__)))
for d in sorted(glob.glob(os.path.join(V, 'seeded', '*'))):
    name = os.path.basename(d)
    mp = os.path.join(d, 'meta.json')
    try:
        m = json.load(open(mp))
    except Exception:
        m = {}
    ev = open(os.path.join(d, 'eval.txt')).read() if os.path.exists(os.path.join(d, 'eval.txt')) else ''
    prop = name.split('-')[0]
    adv = name.startswith('adv')
    m['property'] = m.get('property', prop)
    m['id'] = name
    m['round'] = 3 if adv else (int(re.search(r'-r(\d+)-', name).group(1)) if re.search(r'-r(\d+)-', name) else 1)
    if adv:
        claimed = sorted(set(re.findall(r'C\d\d', str(m['property']))))
        prop = ' '.join(claimed)
        m['origin'] = ('adversarial round: written by a fresh sub-agent that was given the texts of all twenty properties '
                       'and a scratch git worktree of /repo (nothing from /verif), asked for changes that a '
                       'model-plus-differential-testing checker would be least likely to notice; it chose the properties itself')
    else:
        m['origin'] = ('written by a fresh sub-agent that was given only the text of property %s and a scratch '
                       'git worktree of /repo (nothing from /verif)' % prop)
    if os.path.exists(os.path.join(d, 'eval-before-strengthening.txt')):
        before = open(os.path.join(d, 'eval-before-strengthening.txt')).read()
        m['detection_history'] = {
            'first_run': {mm.group(1): int(mm.group(2)) for mm in re.finditer(r'check (C\d+): exit (\d+) ::', before)},
            'note': 'not detected by the claimed checks on the first run; detected after the harness was strengthened '
                    '(DESIGN.md section 7.1); eval.txt is the run after strengthening'}
    conf = {'ran': 'tools/seed_eval.sh %s seeded/%s  (rsync copy of /repo + patch; pytest suite; demo.py with and '
                   'without the change; ./check <id> quick with NETADDR_REPO=<copy>)' % (prop, name)}
    s = re.search(r'suite: ([^|]*)\| demo with change: exit (\d+) \| demo without: exit (\d+)', ev)
    if s:
        conf.update({'suite_with_change': s.group(1).strip(), 'demo_exit_with_change': int(s.group(2)),
                     'demo_exit_without_change': int(s.group(3))})
    conf['checks'] = {}
    for mm in re.finditer(r'check (C\d+): exit (\d+) :: ([^\n]*)', ev):
        conf['checks'][mm.group(1)] = {'exit': int(mm.group(2)), 'line': mm.group(3).strip()}
    m['confirmed'] = conf  # 'detection_history' (hand-written for seeds first missed) is kept as is
    json.dump(m, open(mp, 'w'), indent=1)
print('updated', len(glob.glob(os.path.join(V, 'seeded', '*'))), 'meta files')
