#!/venv/bin/python
"""./check <Cxx> <quick|thorough> | --replay <file> | --setup      (DESIGN.md section 3.4)

GEN    regenerate lean/NetaddrVerif/Gen/*.lean from /repo's working tree
PROOF  lake build the property's Props module + the driver; audit `#print axioms` of every
       obligation; grep for sorry/admit/axiom/native_decide/...
CORR   run the model (native Lean driver) and the implementation on the same cases; diff
ORACLE the property stated directly over the implementation's outputs (independent reference)
KNOWN  replay known_findings.json
VERDICT / EVIDENCE

exit 0 = held on everything explored; exit 1 = VIOLATION line printed; exit 2 = infrastructure."""
import fcntl
import hashlib
import importlib
import json
import os
import random
import re
import signal
import subprocess
import sys
import time
import traceback

HERE = os.path.dirname(os.path.abspath(__file__))
sys.path.insert(0, HERE)
if os.environ.get('NETADDR_REPO'):
    # development aid: run the checks against a scratch copy of netaddr (mutation self-tests)
    sys.path.insert(0, os.environ['NETADDR_REPO'])
import common
from common import Case, VERIF, LEAN

ALLOWED_AXIOMS = {'propext', 'Classical.choice', 'Quot.sound'}
FORBIDDEN = re.compile(r'\bsorry\b|\badmit\b|^\s*axiom\s|native_decide|bv_decide|implemented_by|\bunsafe\s|maxHeartbeats\s+0\b', re.M)
TRUSTED_BASE = [
    'Lean 4.33.0 kernel (thorough tier: leanchecker re-check of the .olean files)',
    'axioms allowed: propext, Classical.choice, Quot.sound (audited with #print axioms on every run); no native_decide, no bv_decide, no sorry/admit, no own axioms',
    'Lean compiler/runtime executing the same Model definitions in the native driver',
    'harness/gen/*.py (tables regenerated from the imported netaddr of /repo)',
    'correspondence harness + canonicalisers (harness/props/*.py) and the independent oracle reference code',
]


def log(*a):
    print(*a, flush=True)


class Timeout(Exception):
    pass


def _alarm(signum, frame):
    raise Timeout()


# ---------------------------------------------------------------- lean side

def lean_lock():
    f = open(os.path.join(LEAN, '.lock'), 'w')
    fcntl.flock(f, fcntl.LOCK_EX)
    return f


def lake(args, timeout=3000):
    p = subprocess.run(['lake'] + args, cwd=LEAN, stdout=subprocess.PIPE, stderr=subprocess.STDOUT, timeout=timeout)
    return p.returncode, p.stdout.decode('utf-8', 'replace')


def strip_comments(src):
    # remove nested /- -/ block comments and -- line comments (string literals in our
    # sources never contain comment markers)
    out = []
    i = 0
    depth = 0
    n = len(src)
    while i < n:
        if src.startswith('/-', i):
            depth += 1
            i += 2
        elif depth and src.startswith('-/', i):
            depth -= 1
            i += 2
        elif depth:
            i += 1
        elif src.startswith('--', i):
            j = src.find('\n', i)
            i = n if j < 0 else j
        else:
            out.append(src[i])
            i += 1
    return ''.join(out)


def forbidden_scan():
    hits = []
    for dp, dn, fn in os.walk(LEAN):
        if '.lake' in dp:
            continue
        for f in fn:
            if f.endswith('.lean'):
                p = os.path.join(dp, f)
                src = strip_comments(open(p, encoding='utf-8').read())
                for m in FORBIDDEN.finditer(src):
                    hits.append('%s: %s' % (os.path.relpath(p, LEAN), m.group(0).strip()))
    return hits


def load_obligations(pid):
    p = os.path.join(VERIF, 'obligations', pid + '.json')
    d = json.load(open(p))
    return d


def audit(pid, obl):
    """#print axioms for every obligation; returns (results dict name -> axioms list | None, raw)"""
    names = obl['theorems']
    src = ''.join('import %s\n' % m for m in obl['modules'])
    src += ''.join('#print axioms %s\n' % n for n in names)
    fn = os.path.join(LEAN, 'Audit_%s.lean' % pid)
    with open(fn, 'w') as f:
        f.write(src)
    try:
        p = subprocess.run(['lake', 'env', 'lean', os.path.basename(fn)], cwd=LEAN, stdout=subprocess.PIPE,
                           stderr=subprocess.STDOUT, timeout=1200)
        raw = p.stdout.decode('utf-8', 'replace')
    finally:
        try:
            os.remove(fn)
        except OSError:
            pass
    res = {}
    flat = re.sub(r'\s+', ' ', raw)
    for n in names:
        m = re.search(r"'%s' depends on axioms: \[([^\]]*)\]" % re.escape(n), flat)
        if m:
            res[n] = [a.strip() for a in m.group(1).split(',') if a.strip()]
        elif re.search(r"'%s' does not depend on any axioms" % re.escape(n), flat):
            res[n] = []
        else:
            res[n] = None
    return res, raw


# ---------------------------------------------------------------- case running

# CPython >= 3.11 refuses int <-> str conversions beyond 4300 digits by default.  The harness itself (protocol
# lines, evidence, messages) must be able to print any integer it generates, so the limit is lifted for the
# harness - and put back to the interpreter's default around every call into the implementation, which must
# behave as it does for a user with a stock interpreter.
_INT_STR_DEFAULT = sys.get_int_max_str_digits() if hasattr(sys, 'get_int_max_str_digits') else None
if _INT_STR_DEFAULT is not None:
    sys.set_int_max_str_digits(0)


class _stock_interpreter(object):
    def __enter__(self):
        if _INT_STR_DEFAULT is not None:
            sys.set_int_max_str_digits(_INT_STR_DEFAULT)

    def __exit__(self, *exc):
        if _INT_STR_DEFAULT is not None:
            sys.set_int_max_str_digits(0)
        return False


def run_cases(mod, cases, use_driver=True, per_case_timeout=20):
    """returns dict with per-case results"""
    got = []
    signal.signal(signal.SIGALRM, _alarm)
    for c in cases:
        signal.alarm(per_case_timeout)
        try:
            with _stock_interpreter():
                g = mod.impl(c)
        except Timeout:
            g = '!timeout'
        except Exception as e:       # impl() canonicalises expected errors itself
            g = '!harness:' + type(e).__name__ + ':' + str(e)[:80]
        finally:
            signal.alarm(0)
        got.append(g)
    # second evaluation: every 5th case is put to the implementation again after all the others have run.
    # The API under test is a function of its arguments and of the history of the object it is called on -
    # not of what else happened in the process - so the answer must be the same (caches with the wrong key,
    # shared mutable results and class-level state written by other calls show up here).
    if len(cases) > 1 and os.environ.get('VERIF_RERUN', '1') != '0':
        for i in range(0, len(cases), 5):
            if got[i].startswith('!timeout'):
                continue
            signal.alarm(per_case_timeout)
            try:
                with _stock_interpreter():
                    g2 = mod.impl(cases[i])
            except Timeout:
                g2 = got[i]
            except Exception as e:
                g2 = '!harness:' + type(e).__name__ + ':' + str(e)[:80]
            finally:
                signal.alarm(0)
            common.COUNTS['call/second-evaluation'] += 1
            if g2 != got[i]:
                got[i] = '!harness:unstable: asked again after the other cases of this run, the implementation answered %s; first answer %s' % (g2[:200], got[i][:200])
    model = [None] * len(cases)
    if use_driver:
        idx = [i for i, c in enumerate(cases) if c.line is not None]
        outs = common.run_driver([cases[i].line for i in idx])
        for i, o in zip(idx, outs):
            model[i] = o
    oracle = []
    for c, g in zip(cases, got):
        signal.alarm(per_case_timeout)
        try:
            o = mod.oracle(c, g)
        except Timeout:
            o = None
        except Exception as e:
            o = 'oracle crashed: %s: %s' % (type(e).__name__, str(e)[:120])
        finally:
            signal.alarm(0)
        oracle.append(o)
    return got, model, oracle


def equivalent(mod, c, g, m):
    eq = getattr(mod, 'equivalent', None)
    if eq is not None:
        return eq(c, g, m)
    return g == m


def shrink_failure(mod, c, g, m, o, driver_ok):
    """delta-debugging hook: a property module may offer shrink(case, fails) -> smaller case"""
    sh = getattr(mod, 'shrink', None)
    if sh is None:
        return c, g, m, o

    def fails(c2):
        got, model, orc = run_cases(mod, [c2], use_driver=False)
        return orc[0] is not None and not got[0].startswith('!harness')
    try:
        signal.signal(signal.SIGALRM, _alarm)
        c2 = sh(c, fails)
        got, model, orc = run_cases(mod, [c2], use_driver=driver_ok)
        if orc[0] is not None:
            return c2, got[0], model[0], orc[0]
    except Exception:
        pass
    return c, g, m, o


def write_replay(pid, kind, payload):
    os.makedirs(os.path.join(VERIF, 'replays'), exist_ok=True)
    blob = json.dumps(payload, sort_keys=True, indent=1)
    sha = hashlib.sha1(blob.encode()).hexdigest()[:12]
    rel = os.path.join('replays', '%s-%s-%s.json' % (pid, kind, sha))
    with open(os.path.join(VERIF, rel), 'w') as f:
        f.write(blob)
    return rel


def load_known(pid):
    p = os.path.join(VERIF, 'known_findings.json')
    if not os.path.exists(p):
        return []
    found = [e for e in json.load(open(p))['findings'] if e['property'] == pid]
    # staging area used while a property check is being built in a separate worktree;
    # entries are merged into known_findings.json on integration
    extra = os.path.join(VERIF, 'known_findings.d', pid + '.json')
    if os.path.exists(extra):
        found += [e for e in json.load(open(extra))['findings'] if e['property'] == pid]
    return found


# ---------------------------------------------------------------- translation tie (DESIGN.md section 4.5)

def tie_stage(pid, obl, tier='quick'):
    """Gen/Trans.lean was regenerated from the current source by harness/pytrans.py; re-check the theorems
    NV.Tie.* (translated function = hand-written model function) this property relies on.  Returns None when the
    property has none, else {'theorems', 'proved', 'lost': {name: why}, 'functions': {name: 'file Class.func'}}.
    A lost tie theorem is NOT a violation: for that function the tie falls back to the correspondence, which is
    widened, and the evidence says so."""
    names = obl.get('tie_theorems') or []
    if not names:
        return None
    import pytrans
    res = {'theorems': names, 'proved': [], 'lost': {}, 'functions': {}}
    for f in pytrans.FUNCS:
        if f.get('tie') in names:
            res['functions'][f['tie']] = 'netaddr/%s %s.%s' % (f['file'], f['cls'], f['func'])
    try:
        _lean, report = pytrans.translate_all()
    except Exception as e:
        report = {}
        res['lost'] = {n: 'translator failed: %s: %s' % (type(e).__name__, e) for n in names}
        return res
    untrans = {f['tie']: report[f['name']]['why'] for f in pytrans.FUNCS
               if f.get('tie') in names and not report.get(f['name'], {}).get('ok')}
    ax = {}

    def parse(raw):
        flat = re.sub(r'\s+', ' ', raw)
        for n in names:
            m = re.search(r"'%s' depends on axioms: \[([^\]]*)\]" % re.escape(n), flat)
            if m:
                got = [a.strip() for a in m.group(1).split(',') if a.strip()]
            elif re.search(r"'%s' does not depend on any axioms" % re.escape(n), flat):
                got = []
            else:
                continue
            if ax.get(n) is None or set(got) <= ALLOWED_AXIOMS:
                ax[n] = got

    with lean_lock():
        for tmod in obl.get('tie_modules') or ['NetaddrVerif.Props.Tie']:
            rc, out = lake(['build', tmod])
            if rc == 0:
                _ax, raw = audit(pid + '_tie', {'theorems': names, 'modules': [tmod]})
                parse(raw)
                if tier == 'thorough':
                    pc = subprocess.run(['lake', 'env', 'leanchecker', tmod], cwd=LEAN, stdout=subprocess.PIPE,
                                        stderr=subprocess.STDOUT, timeout=3000)
                    res.setdefault('leanchecker', {})[tmod] = pc.returncode
                continue
            # some theorem no longer elaborates against the regenerated definitions: elaborate a copy of the file
            # with error recovery and ask for the axioms of every theorem (a broken one, and everything that
            # depends on it, shows sorryAx or is missing)
            path = os.path.join(LEAN, *tmod.split('.')) + '.lean'
            src = open(path, encoding='utf-8').read()
            deps = [m for m in re.findall(r'^import\s+(\S+)', src, re.M)]
            lake(['build'] + deps)
            src += '\n' + ''.join('#print axioms %s\n' % n for n in names)
            fn = os.path.join(LEAN, 'Audit_%s_tiecopy.lean' % pid)
            with open(fn, 'w', encoding='utf-8') as f:
                f.write(src)
            try:
                p = subprocess.run(['lake', 'env', 'lean', os.path.basename(fn)], cwd=LEAN, stdout=subprocess.PIPE,
                                   stderr=subprocess.STDOUT, timeout=1200)
                parse(p.stdout.decode('utf-8', 'replace'))
            finally:
                try:
                    os.remove(fn)
                except OSError:
                    pass
    for n in names:
        a = ax.get(n)
        if n in untrans:
            res['lost'][n] = 'source no longer in the translatable subset: %s' % untrans[n]
        elif a is None:
            res['lost'][n] = 'theorem does not elaborate against the current source'
        elif not set(a) <= ALLOWED_AXIOMS:
            res['lost'][n] = 'proof no longer closes against the current source (axioms %s)' % a
        else:
            res['proved'].append(n)
    return res


# ---------------------------------------------------------------- main flows

def do_setup():
    import gen_tables
    gen_tables.regenerate()
    # build the driver and every proof module any check will ask for (≈ 1 min on 16 cores)
    mods = set(['NetaddrVerif'])
    import glob
    for f in glob.glob(os.path.join(VERIF, 'obligations', '*.json')):
        mods.update(json.load(open(f)).get('modules', []))
    with lean_lock():
        rc, out = lake(['build'] + sorted(mods) + ['driver'])
        if rc == 0:
            tmods = set()
            for f in glob.glob(os.path.join(VERIF, 'obligations', '*.json')):
                tmods.update(json.load(open(f)).get('tie_modules', []))
            rc_t, out_t = lake(['build'] + sorted(tmods)) if tmods else (0, '')
            if rc_t != 0:
                out += '\n(translation tie module did not build; the checks fall back to correspondence for it)\n' + out_t[-600:]
    sys.stdout.write(out[-3000:])
    return 0 if rc == 0 else 2


def do_replay(path):
    d = json.load(open(path))
    pid = d['property']
    mod = importlib.import_module('props.' + pid.lower())
    log('replay of %s (%s): %s' % (pid, d.get('kind'), d.get('what', '')))
    if 'case' not in d:
        log('no concrete input in this replay: %s' % d.get('broken'))
        return 1
    c = Case.from_json(d['case'])
    use_driver = os.path.exists(common.DRIVER) and c.line is not None
    got, model, oracle = run_cases(mod, [c], use_driver=use_driver)
    log('case     :', c.line, c.args)
    log('impl     :', got[0])
    log('model    :', model[0])
    log('oracle   :', oracle[0] or 'ok')
    if 'repro' in d:
        log('repro    :', d['repro'])
    bad = oracle[0] is not None or (use_driver and not equivalent(mod, c, got[0], model[0]))
    log('RESULT   :', 'still failing' if bad else 'passes now')
    return 1 if bad else 0


def main(argv):
    if len(argv) >= 2 and argv[1] == '--setup':
        return do_setup()
    if len(argv) >= 3 and argv[1] == '--replay':
        return do_replay(argv[2])
    if len(argv) < 3 or argv[2] not in ('quick', 'thorough'):
        log(__doc__)
        return 2
    pid, tier = argv[1].upper(), argv[2]
    seed = int(os.environ.get('VERIF_SEED', '0') or 0)
    t0 = time.time()
    try:
        return run_check(pid, tier, seed, t0)
    except Timeout:
        log('TIMEOUT (infrastructure)')
        return 2
    except Exception:
        traceback.print_exc()
        log('INFRASTRUCTURE FAILURE')
        return 2


def _seed_worker(job):
    """generate + run one derived seed; returns summaries only (cheap to send between processes)"""
    pid, seed, s, tier, driver_ok = job
    mod = importlib.import_module('props.' + pid.lower())
    rng = random.Random('%s/%d/%d' % (pid, seed, s))
    cases = list(mod.corpus()) if s == 0 and hasattr(mod, 'corpus') else []
    cases += list(mod.generate(rng, tier))
    common.COUNTS.clear()
    got, model, oracle = run_cases(mod, cases, use_driver=driver_ok)
    r = {'evaluations': 0, 'distinct': set(), 'hist': {}, 'samples': [], 'platform_fail': [],
         'oracle_fail': [], 'corr_fail': []}
    for k, v in common.COUNTS.items():
        r['hist']['~' + k] = v           # how objects were built / what was done around the calls (not case tags)
    for c, g, m, o in zip(cases, got, model, oracle):
        r['evaluations'] += 1
        r['hist'][c.tag] = r['hist'].get(c.tag, 0) + 1
        if not g.startswith('!'):
            r['distinct'].add(hashlib.md5(('%s|%r' % (c.line, c.args)).encode('utf-8', 'replace')).hexdigest()[:16])
        if len(r['samples']) < 6 and (r['evaluations'] % 97 == 1):
            r['samples'].append({'op': c.line, 'args': repr(c.args)[:200], 'impl': g[:200], 'model': (m or '')[:200]})
        kf = mod.known(c) if hasattr(mod, 'known') else None
        c.extra = None
        if o is not None and len(r['oracle_fail']) < 50:
            r['oracle_fail'].append((c, g, m, o, kf))
        if driver_ok and c.line is not None and not equivalent(mod, c, g, m):
            if c.platform:
                if len(r['platform_fail']) < 5:
                    r['platform_fail'].append((c, g, m))
            elif len(r['corr_fail']) < 50:
                r['corr_fail'].append((c, g, m, kf))
    return r


def _search_worker(job):
    """one fresh generator round of the failing-input search, oracle only; returns (case, impl output, message) or None"""
    pid, seed, s, open_ids = job
    mod = importlib.import_module('props.' + pid.lower())
    rng = random.Random('%s/search/%d/%d' % (pid, seed, s))
    cases = list(mod.generate(rng, 'thorough' if s % 2 else 'quick'))
    got, model, oracle = run_cases(mod, cases, use_driver=False)
    for c, g, o in zip(cases, got, oracle):
        if o is not None:
            kf = mod.known(c) if hasattr(mod, 'known') else None
            if kf and kf in open_ids:
                continue
            c.extra = None
            return (c, g, o)
    return None


def run_check(pid, tier, seed, t0):
    broken = []          # names of theorems / builds / correspondence ops that no longer check
    notes = []
    # ---- GEN
    import gen_tables
    try:
        changed = gen_tables.regenerate()
        if changed:
            notes.append('Gen files changed: %s' % changed)
    except Exception as e:
        broken.append('translator gen_tables: %s: %s' % (type(e).__name__, e))
    mod = importlib.import_module('props.' + pid.lower())
    obl = load_obligations(pid)
    # ---- PROOF
    with lean_lock():
        rc, out = lake(['build'] + obl['modules'] + ['driver'])
        proof_ok = rc == 0
        driver_ok = proof_ok
        if not proof_ok:
            errs = [l for l in out.split('\n') if 'error' in l][:8]
            broken.append('lake build %s failed: %s' % (' '.join(obl['modules']), ' | '.join(errs)))
            rc2, out2 = lake(['build', 'driver'])
            driver_ok = rc2 == 0 and os.path.exists(common.DRIVER)
        ax = {}
        if proof_ok:
            ax, raw = audit(pid, obl)
        leanchecker = None
        if proof_ok and tier == 'thorough':
            p = subprocess.run(['lake', 'env', 'leanchecker'] + obl['modules'], cwd=LEAN,
                               stdout=subprocess.PIPE, stderr=subprocess.STDOUT, timeout=3000)
            leanchecker = p.returncode
            if p.returncode != 0:
                broken.append('leanchecker failed: ' + p.stdout.decode('utf-8', 'replace')[-300:])
    discharged = 0
    for n in obl['theorems']:
        a = ax.get(n)
        if a is None:
            broken.append('theorem %s: missing or not checked' % n)
        elif not set(a) <= ALLOWED_AXIOMS:
            broken.append('theorem %s depends on axioms %s' % (n, a))
        else:
            discharged += 1
    hits = forbidden_scan()
    if hits:
        broken.append('forbidden constructs: %s' % hits[:5])
    log('[%s] proof: %d/%d obligations discharged (%s)' % (pid, discharged, len(obl['theorems']),
                                                           'build ok' if proof_ok else 'BUILD BROKEN'))

    # ---- translation tie: functions whose current source text is translated and proved equal to the model
    tie = None
    try:
        tie = tie_stage(pid, obl, tier)
    except Exception as e:
        notes.append('translation tie could not be checked (%s: %s)' % (type(e).__name__, e))
        tie = {'theorems': obl.get('tie_theorems') or [], 'proved': [], 'functions': {},
               'lost': {n: 'tie stage failed' for n in (obl.get('tie_theorems') or [])}}
    if tie:
        log('[%s] translation tie: %d/%d functions of the current source proved equal to their model function%s' % (
            pid, len(tie['proved']), len(tie['theorems']),
            '' if not tie['lost'] else ' - LOST (falls back to correspondence, widened): ' + '; '.join(
                '%s [%s]: %s' % (n, tie['functions'].get(n, '?'), w) for n, w in sorted(tie['lost'].items()))[:900]))

    # ---- where did the code move?  (effort allocation only, see harness/fingerprint.py)
    moved = {}
    try:
        import fingerprint
        moved = fingerprint.changed_for(pid)
    except Exception as e:
        notes.append('fingerprint comparison failed (%s: %s); search widened' % (type(e).__name__, e))
        moved = {'?': ['?']}
    if tie and tie['lost']:
        moved = dict(moved)
        moved['<translation tie>'] = sorted(tie['lost'])
    if moved:
        log('[%s] source differs from the revision the model was validated against in %s - correspondence widened' % (
            pid, '; '.join('%s: %s' % (f, ', '.join(u[:6]) + (' ...' if len(u) > 6 else '')) for f, u in sorted(moved.items()))[:600]))
        notes.append('functions that differ from fingerprints.json: %s' % json.dumps(moved, sort_keys=True)[:2000])

    # ---- CORR + ORACLE
    # quick: 4 derived seeds side by side (12, half of them with the thorough generators, when the anchored
    # code moved); thorough: 8 (16 when it moved) with the thorough generators
    if tier == 'quick':
        nseeds = int(os.environ.get('VERIF_QUICK_SEEDS', '4') or 4) * (3 if moved else 1)
    else:
        nseeds = 16 if moved else 8
    evaluations = 0
    distinct = set()
    hist = {}
    samples = []
    corr_fail = []
    oracle_fail = []
    platform_fail = []
    known_hit = {}
    known = load_known(pid)
    open_known = [e for e in known if e.get('status') == 'open']
    jobs = [(pid, seed, s, ('thorough' if (moved and s % 2) else tier), driver_ok) for s in range(nseeds)]
    if nseeds > 1:
        import multiprocessing
        results = []
        with multiprocessing.Pool(min(nseeds, max(2, (os.cpu_count() or 4) - 2), 12)) as pool:
            # seed 0 (it carries the corpus) is always waited for; once any seed has found a violation of the
            # property the remaining ones are not needed for the verdict
            open_ids0 = set(e['id'] for e in open_known)
            pending = [pool.apply_async(_seed_worker, (j,)) for j in jobs]
            done = [False] * len(pending)
            hit = False
            while not all(done):
                for i, a in enumerate(pending):
                    if not done[i] and a.ready():
                        r = a.get()
                        done[i] = True
                        results.append(r)
                        if any(not (kf and kf in open_ids0) for (_c, _g, _m, _o, kf) in r['oracle_fail']):
                            hit = True
                if hit and done[0]:
                    break
                time.sleep(0.05)
            pool.terminate()
    else:
        results = [_seed_worker(j) for j in jobs]
    open_ids = set(e['id'] for e in open_known)
    for r in results:
        evaluations += r['evaluations']
        distinct |= r['distinct']
        for k, v in r['hist'].items():
            hist[k] = hist.get(k, 0) + v
        samples += r['samples'][:max(0, 6 - len(samples))]
        platform_fail += r['platform_fail']
        for c, g, m, o, kf in r['oracle_fail']:
            if kf and kf in open_ids:
                known_hit[kf] = known_hit.get(kf, 0) + 1
            else:
                oracle_fail.append((c, g, m, o))
        for c, g, m, kf in r['corr_fail']:
            if kf and kf in open_ids:
                known_hit[kf] = known_hit.get(kf, 0) + 1
            else:
                corr_fail.append((c, g, m))
    log('[%s] correspondence: %d cases, %d disagreements; oracle failures: %d' %
        (pid, evaluations, len(corr_fail), len(oracle_fail)))

    if platform_fail:
        c, g, m = platform_fail[0]
        log('platform model mismatch (not a violation of netaddr): %s impl=%s model=%s' % (c.line, g, m))
        return 2

    # ---- KNOWN
    for e in open_known:
        log('KNOWN-FINDING: property=%s %s' % (pid, e['what']))

    # ---- VERDICT
    status = 0
    replay = None
    if oracle_fail:
        c, g, m, o = min(oracle_fail, key=lambda t: len(repr(t[0].args)))
        c, g, m, o = shrink_failure(mod, c, g, m, o, driver_ok)
        replay = write_replay(pid, 'oracle', {
            'property': pid, 'kind': 'oracle', 'what': o, 'case': c.to_json(), 'impl_output': g,
            'model_output': m, 'repro': getattr(mod, 'repro', lambda c: '')(c),
            'also_broken': broken[:10]})
        log('VIOLATION property=%s replay=%s' % (pid, replay))
        log('  input: %s -> %s ; %s' % (c.line or c.args, g, o))
        status = 1
    elif corr_fail or broken:
        # search harder on the real code for a failing input
        found = None
        budget = 20 if tier == 'quick' else 40
        tsearch = time.time()
        open_ids1 = [e['id'] for e in open_known]
        # the disagreeing cases themselves first (cheap), then fresh generator rounds side by side, oracle only
        cases0 = [c for c, g, m in corr_fail]
        if cases0:
            got, model, oracle = run_cases(mod, cases0, use_driver=False)
            for c, g, o in zip(cases0, got, oracle):
                if o is not None:
                    kf = mod.known(c) if hasattr(mod, 'known') else None
                    if not (kf and kf in open_ids1):
                        found = (c, g, o)
                        break
        if not found:
            import multiprocessing
            limit = 150 if tier == 'quick' else 600
            with multiprocessing.Pool(min(budget, max(2, (os.cpu_count() or 4) - 2), 12)) as pool:
                pending = [pool.apply_async(_search_worker, ((pid, seed, s, open_ids1),)) for s in range(budget)]
                done = [False] * len(pending)
                while not all(done) and not found and time.time() - tsearch < limit:
                    for i, a in enumerate(pending):
                        if not done[i] and a.ready():
                            done[i] = True
                            try:
                                r = a.get()
                            except Exception:
                                r = None
                            if r is not None and found is None:
                                found = r
                    time.sleep(0.05)
                pool.terminate()
        what = broken[:] + ['correspondence op `%s`: impl=%s model=%s' % (c.line, g, m) for c, g, m in corr_fail[:5]]
        if found:
            c, g, o = found
            c, g, _m, o = shrink_failure(mod, c, g, None, o, False)
            replay = write_replay(pid, 'oracle', {
                'property': pid, 'kind': 'oracle', 'what': o, 'case': c.to_json(), 'impl_output': g,
                'repro': getattr(mod, 'repro', lambda c: '')(c), 'also_broken': what[:10]})
            log('VIOLATION property=%s replay=%s' % (pid, replay))
            log('  input: %s -> %s ; %s' % (c.line or c.args, g, o))
        else:
            payload = {'property': pid, 'kind': 'correspondence' if corr_fail else 'proof',
                       'what': 'no longer shown to hold', 'broken': what[:20]}
            if corr_fail:
                c, g, m = min(corr_fail, key=lambda t: len(repr(t[0].args)))
                payload['case'] = c.to_json()
                payload['impl_output'] = g
                payload['model_output'] = m
                payload['repro'] = getattr(mod, 'repro', lambda c: '')(c)
            replay = write_replay(pid, 'tie', payload)
            log('VIOLATION property=%s replay=%s no-failing-input-found' % (pid, replay))
            for w in what[:6]:
                log('  broken: %s' % w)
        status = 1

    # ---- EVIDENCE
    wall = time.time() - t0
    ev = {
        'property_id': pid, 'tier': tier, 'seed': seed, 'level': 'proof',
        'coverage': {
            'obligations': len(obl['theorems']),
            'discharged': discharged,
            'checker_cmd': 'cd lean && lake build %s && lake env lean <#print axioms of each obligation>%s' % (
                ' '.join(obl['modules']), ' && lake env leanchecker ' + ' '.join(obl['modules']) if tier == 'thorough' else ''),
            'trusted_base': TRUSTED_BASE + list(obl.get('modelled_not_verified', [])),
            'theorems': obl['theorems'],
            'axioms_used': sorted(set(a for v in ax.values() if v for a in v)),
            'evaluations': evaluations,
            'distinct_nontrivial': len(distinct),
            'rule': getattr(mod, 'RULE', 'cases generated by harness/props/%s.py from one PRNG; non-trivial = distinct '
                            '(op line, args) whose implementation output is not an error' % pid.lower()),
            'samples': samples or [{'note': 'no cases generated'}],
            'input_distribution': dict(sorted(hist.items())),
            'correspondence_disagreements': len(corr_fail),
            'oracle_failures': len(oracle_fail),
            'known_finding_hits': known_hit,
            'proof_build_ok': proof_ok,
            'tie_by_translation': (None if not tie else {
                'what': 'harness/pytrans.py translates the CURRENT source text of these functions into Gen/Trans.lean; '
                        'the listed NV.Tie theorems (kernel-checked, same axiom audit) state that each translated function '
                        'equals the hand-written model function under the code\'s own range guards; a lost theorem falls '
                        'back to the (widened) correspondence and is not a violation by itself',
                'functions': tie['functions'], 'proved': tie['proved'], 'lost': tie['lost'],
                'leanchecker_exit': tie.get('leanchecker')}),
            'leanchecker_exit': leanchecker,
            'broken': broken[:10],
            'notes': notes,
            'exhaustive': False,
        },
        'assumptions': list(obl.get('assumptions', [])),
        'wall_s': round(wall, 2),
        'violations': 1 if status else 0,
    }
    # evidence describes /repo; a run against a scratch copy (NETADDR_REPO, used to evaluate seeded changes
    # and harmless rewrites) must not overwrite it
    evdir = os.path.join(VERIF, 'evidence') if not os.environ.get('NETADDR_REPO') else \
        os.path.join(os.environ.get('TMPDIR', '/tmp'), 'verif-scratch-evidence')
    os.makedirs(evdir, exist_ok=True)
    with open(os.path.join(evdir, pid + '.json'), 'w') as f:
        json.dump(ev, f, indent=1, sort_keys=True)
        f.write('\n')
    log('[%s] %s in %.1fs' % (pid, 'OK' if status == 0 else 'VIOLATION', wall))
    return status


if __name__ == '__main__':
    sys.exit(main(sys.argv))
