"""Gen/Trans.lean: the source translator's output (harness/pytrans.py) for the current tree.
A function outside the translatable subset is emitted as a comment only; its tie theorem then no
longer elaborates, which the check reports as 'tie by translation lost' for that function."""
import os, sys
sys.path.insert(0, os.path.dirname(os.path.dirname(os.path.abspath(__file__))))
import pytrans


def emit():
    lean, report = pytrans.translate_all()
    lean = lean.replace('namespace NV.Trans\n', 'set_option linter.unusedVariables false\nnamespace NV.Trans\n', 1)
    notes = ''.join('-- UNTRANSLATABLE %s: %s\n' % (k, v['why']) for k, v in report.items() if not v['ok'])
    return {'Trans.lean': lean + notes}
