"""C10 — ranged objects (IPNetwork, IPRange, IPGlob) behave exactly like the list of their addresses.
Ops: ll_iter OBJ cap ; ll_len OBJ maxsize ; ll_index OBJ i ; ll_slice OBJ a b c ; iter_iprange A B step cap
OBJ = N:ver:val:plen | R:ver:lo:hi (IPRange and IPGlob; the glob text travels in args only)."""
import itertools
import sys

from common import Case, W, errname, plist, optint, rand_value, harvest_literals
import common
import platform_cases
import netaddr
from netaddr import IPNetwork, IPAddress, IPRange, IPGlob, iter_iprange

ID = 'C10'
RULE = ('objects of size 1..8 (networks with and without host bits, ranges, globs) at address 0 / mid-space / top '
        'address of both families, plus big objects (IPv4 /0../8, IPv6 ranges of size 2^63-1, 2^63, 2^63+1, /64, /0); '
        'll_index: every i in -n-3..n+3 and word-size/size boundaries on big objects; ll_slice: the small slice grid '
        '(None/negative/zero-crossing/over-long start and stop, steps +-1,2,3,7,100 and 0) on small objects, bounded '
        'slices with large strides on big IPv4 objects, IPv6 slices (TypeError); ll_len at sys.maxsize +-1; '
        'iter_iprange with both step signs, steps that do and do not divide the span, windows at both ends of the '
        'space; pyslice platform cases. non-trivial = distinct case whose implementation output is not an error')

MAXSIZE = sys.maxsize
CAP = 64


# ---------------------------------------------------------------- objects

def _bounds(o):
    """(ver, lo, hi) computed from the integers of the case — never from netaddr"""
    k = o[0]
    if k == 'N':
        _, ver, val, plen = o
        h = 1 << (W[ver] - plen)
        lo = val - val % h
        return ver, lo, lo + h - 1
    if k == 'R':
        return o[1], o[2], o[3]
    if k == 'G':
        return 4, o[1], o[2]
    raise ValueError(o)


def _tok(o):
    if o[0] == 'N':
        return 'N:%d:%d:%d' % o[1:]
    ver, lo, hi = _bounds(o)
    return 'R:%d:%d:%d' % (ver, lo, hi)


def _build(o):
    k = o[0]
    if k == 'N':
        return common.make_net(o[1], o[2], o[3])
    if k == 'R':
        return common.make_range(o[1], o[2], o[3])
    return common.make_glob(o[3])


def _glob(prefix_octets, x, y):
    """glob text + bounds for `p1.p2.x-y.*.*` shapes; x == y means a plain octet"""
    k = len(prefix_octets)
    stars = 3 - k
    parts = [str(p) for p in prefix_octets]
    parts.append(str(x) if x == y else ('*' if (x, y) == (0, 255) else '%d-%d' % (x, y)))
    parts += ['*'] * stars
    base = 0
    for p in prefix_octets:
        base = base * 256 + p
    lo = (base * 256 + x) << (8 * stars)
    hi = ((base * 256 + y + 1) << (8 * stars)) - 1
    return ('G', lo, hi, '.'.join(parts))


def small_objects(rng, count):
    """size 1..8 objects at address 0 / mid / top"""
    out = []
    for ver in (4, 6):
        w = W[ver]
        m = (1 << w) - 1
        bases = [0, m, m - 7, 1 << (w - 1), (1 << (w - 1)) - 4, rand_value(rng, w) & ~7, rand_value(rng, w)]
        for base in bases:
            for plen in (w, w - 1, w - 2, w - 3):
                out.append(('N', ver, base, plen))
                out.append(('N', ver, min(base | rng.randrange(8), m), plen))
            for ln in (1, 2, 3, 4, 5, 6, 7, 8):
                lo = min(base, m - ln + 1)
                out.append(('R', ver, lo, lo + ln - 1))
    # globs (IPv4 only)
    for pre in ([0, 0, 0], [255, 255, 255], [10, 0, 0], [rng.randrange(256) for _ in range(3)]):
        for x, y in ((0, 0), (255, 255), (0, 1), (0, 3), (250, 255), (254, 255), (3, 7), (rng.randrange(0, 100), rng.randrange(100, 108))):
            if y - x < 8:
                out.append(_glob(pre, x, y))
    rng.shuffle(out)
    # always keep the corner objects
    keep = [('N', 4, 0, 29), ('N', 4, (1 << 32) - 1, 29), ('R', 4, 0, 2), ('R', 4, (1 << 32) - 3, (1 << 32) - 1),
            ('N', 4, 0, 32), ('R', 4, (1 << 32) - 1, (1 << 32) - 1), ('N', 4, 5, 31), _glob([0, 0, 0], 0, 3),
            _glob([255, 255, 255], 250, 255), ('R', 6, 0, 4), ('N', 6, (1 << 128) - 1, 126)]
    return keep + out[:count]


def big_objects(rng):
    out = []
    m4 = (1 << 32) - 1
    for plen in (0, 1, 2, 8, 16, 20, 24):
        out.append(('N', 4, rng.choice([0, m4, rand_value(rng, 32)]), plen))
    out.append(('R', 4, 0, m4))
    out.append(('R', 4, 1, m4))
    out.append(('R', 4, rng.randrange(0, 1 << 31), rng.randrange(1 << 31, 1 << 32)))
    out.append(_glob([], 0, 255))
    out.append(_glob([rng.randrange(256)], 0, 255))
    out.append(_glob([rng.randrange(256), rng.randrange(256)], 3, 200))
    m6 = (1 << 128) - 1
    for sz in (MAXSIZE - 1, MAXSIZE, MAXSIZE + 1, MAXSIZE + 2, 1 << 64, (1 << 64) + 1, 1 << 32, (1 << 32) + 1):
        out.append(('R', 6, 0, sz - 1))
        out.append(('R', 6, m6 - sz + 1, m6))
        lo = rng.randrange(0, m6 - sz)
        out.append(('R', 6, lo, lo + sz - 1))
    for plen in (0, 1, 63, 64, 65, 66, 96, 100):
        out.append(('N', 6, rng.choice([0, m6, rand_value(rng, 128)]), plen))
    return out


# ---------------------------------------------------------------- cases

def c_iter(o, cap=CAP):
    return Case('ll_iter %s %d' % (_tok(o), cap), 'iter/%s%d' % (o[0], _bounds(o)[0]), ('iter', o, cap))


def c_len(o):
    return Case('ll_len %s %d' % (_tok(o), MAXSIZE), 'len/%s%d' % (o[0], _bounds(o)[0]), ('len', o, MAXSIZE))


def c_index(o, i):
    return Case('ll_index %s %d' % (_tok(o), i), 'index/%s%d' % (o[0], _bounds(o)[0]), ('index', o, i))


def c_slice(o, a, b, c, tag=None):
    ver = _bounds(o)[0]
    t = tag or ('slice/v6' if ver == 6 else 'slice/zero' if c == 0 else 'slice/%s' % ('neg' if (c or 1) < 0 else 'pos'))
    return Case('ll_slice %s %s %s %s' % (_tok(o), optint(a), optint(b), optint(c)), t, ('slice', o, a, b, c))


def c_ipr(ver, a, ver2, b, step, cap=CAP):
    return Case('iter_iprange A:%d:%d A:%d:%d %d %d' % (ver, a, ver2, b, step, cap),
                'iprange/%s' % ('mixed' if ver != ver2 else 'zero' if step == 0 else 'neg' if step < 0 else 'pos'),
                ('ipr', ver, a, ver2, b, step, cap))


def corpus():
    n29 = ('N', 4, 0x0a000000, 29)
    out = [
        # F4 (fixed): /29[::3] dropped the last element; net[0:0] yielded one address; negative steps wrong
        c_slice(n29, None, None, 3), c_slice(n29, 0, 0, None), c_slice(n29, None, None, -1),
        c_slice(n29, None, None, -3), c_slice(n29, 6, 1, -2), c_slice(n29, 1, 7, 4),
        c_slice(('N', 4, 0, 29), None, None, -3), c_slice(('N', 4, 0, 30), 0, 0, None),
        c_slice(('N', 4, 0, 29), 5, 2, None), c_slice(('R', 4, 0, 4), -100, 100, 2),
        c_slice(('N', 6, 0, 126), 0, 2, None), c_slice(n29, None, None, 0),
        c_len(('R', 6, 0, MAXSIZE - 1)), c_len(('R', 6, 0, MAXSIZE)), c_len(('N', 6, 0, 64)), c_len(('N', 6, 0, 65)),
        c_index(('N', 4, 0, 29), -8), c_index(('N', 4, 0, 29), -9), c_index(('N', 4, 0, 29), 8),
        c_index(('N', 6, 0, 0), -1), c_iter(('R', 4, (1 << 32) - 3, (1 << 32) - 1)),
        c_ipr(4, (1 << 32) - 3, 4, (1 << 32) - 1, 2), c_ipr(4, 3, 4, 0, -2), c_ipr(4, 0, 4, 10, -3),
        c_ipr(4, 10, 4, 0, 3), c_ipr(4, 0, 4, 0, -1), c_ipr(4, 1, 4, 2, 0), c_ipr(4, 1, 6, 2, 1),
    ]
    return out


def _slice_vals(n):
    return [None, 0, 1, 2, -1, -2, 3, n, n + 1, n - 1, -n, -n - 1, -n + 1, 7, 100, -100]


STEPS = [None, 1, 2, 3, -1, -2, -3, 7, -7, 100, -100, 0]


def generate(rng, tier):
    mult = 1 if tier == 'quick' else 3
    cases = []
    small = small_objects(rng, 90 * mult)
    big = big_objects(rng)
    # ---- iteration, len, integer index on small objects
    for o in small:
        ver, lo, hi = _bounds(o)
        n = hi - lo + 1
        cases.append(c_iter(o))
        cases.append(c_len(o))
        for i in range(-n - 3, n + 4):
            cases.append(c_index(o, i))
        for i in (MAXSIZE, -MAXSIZE - 1, 1 << 64, -(1 << 64), 1 << 130, -(1 << 130)):
            if rng.random() < 0.3:
                cases.append(c_index(o, i))
    # ---- slices on small objects: the full grid on a few, a sample on the others
    v4small = [o for o in small if _bounds(o)[0] == 4]
    for k, o in enumerate(v4small):
        ver, lo, hi = _bounds(o)
        n = hi - lo + 1
        vals = _slice_vals(n)
        grid = [(a, b, c) for a in vals for b in vals for c in STEPS]
        if k >= 10 * mult:
            grid = rng.sample(grid, 250)
        for a, b, c in grid:
            cases.append(c_slice(o, a, b, c))
        for _ in range(20):
            a, b = (rng.choice([None, rng.randrange(-12, 13), rng.choice([1 << 63, -(1 << 63), 1 << 70, -(1 << 70)])])
                    for _ in range(2))
            c = rng.choice([None, rng.randrange(-12, 13), rng.choice([1 << 63, -(1 << 63), (1 << 64) + 1])])
            cases.append(c_slice(o, a, b, c))
    for o in small:
        if _bounds(o)[0] == 6 and rng.random() < 0.5:
            cases.append(c_slice(o, rng.choice([None, 0, 1, -1]), rng.choice([None, 0, 2, -1]), rng.choice([None, 1, 2, -1, 0])))
    # ---- big objects
    lits = harvest_literals()
    for o in big:
        ver, lo, hi = _bounds(o)
        n = hi - lo + 1
        cases.append(c_len(o))
        cases.append(c_iter(o, rng.choice([1, 3, CAP])))
        idx = [0, 1, -1, -2, n - 1, n, n + 1, -n, -n - 1, -n + 1, n // 2, MAXSIZE, MAXSIZE + 1, -MAXSIZE - 1, -MAXSIZE - 2,
               rng.randrange(-n - 5, n + 5), rng.randrange(-n, n), rng.choice(lits), -rng.choice(lits)]
        for i in idx:
            cases.append(c_index(o, i))
        if ver == 6:
            cases.append(c_slice(o, rng.choice([None, 0, 5]), rng.choice([None, 9, -1]), rng.choice([None, 2, -1, 0])))
            continue
        made = 0
        tries = 0
        while made < 12 * mult and tries < 400:
            tries += 1
            st = rng.choice([n // 2, n // 3, n // 7 + 1, n - 1, n, n + 1, (1 << 20) + 1, rng.randrange(1, n + 2), 1 << 40])
            if rng.random() < 0.5:
                st = -st
            a = rng.choice([None, 0, 1, -1, n - 1, -n, rng.randrange(-n - 2, n + 3), rng.randrange(-20, 20), n - rng.randrange(1, 50)])
            b = rng.choice([None, 0, -1, n, n + 1, -n - 1, rng.randrange(-n - 2, n + 3), rng.randrange(-20, 20),
                            (a or 0) + rng.randrange(-40, 40)])
            if rng.random() < 0.3:
                st = rng.choice([1, -1, 2, -2, 3, -3, None])
            cnt = len(range(n)[a:b:st])
            if cnt > 512:
                continue
            cases.append(c_slice(o, a, b, st, tag='slice/big'))
            made += 1
    # ---- iter_iprange
    for ver in (4, 6):
        w = W[ver]
        m = (1 << w) - 1
        for _ in range(120 * mult):
            base = rng.choice([0, m - 12, 1 << (w - 1), rand_value(rng, w)])
            base = min(base, m - 12)
            a, b = base + rng.randrange(13), base + rng.randrange(13)
            r = rng.random()
            if r < 0.08:
                a = b
            step = rng.choice([1, 2, 3, 4, 5, -1, -2, -3, -4, -5, 7, -7, 12, -12, 13, -13, 100, -100,
                               1 << 130, -(1 << 130), rng.randrange(-15, 16) or 1])
            cases.append(c_ipr(ver, a, ver, b, step))
        for _ in range(30 * mult):
            a, b = rand_value(rng, w), rand_value(rng, w)
            span = abs(b - a) + 1
            step = rng.choice([span, span - 1 or 1, span + 1, span // 2 + 1, span // 3 + 1, span // 5 + 1, span // 40 + 1])
            if rng.random() < 0.5:
                step = -step
            if rng.random() < 0.5:
                a, b = b, a
            cases.append(c_ipr(ver, a, ver, b, step))
        for _ in range(6):
            a, b = sorted((rand_value(rng, w), rand_value(rng, w)))
            cases.append(c_ipr(ver, a, ver, b, rng.choice([1, 2]), cap=rng.choice([1, 5, CAP])))
            cases.append(c_ipr(ver, b, ver, a, rng.choice([-1, -2]), cap=rng.choice([1, 5, CAP])))
        cases.append(c_ipr(ver, rng.randrange(100), ver, rng.randrange(100), 0))
        cases.append(c_ipr(ver, rng.randrange(100), 10 - ver, rng.randrange(100), rng.choice([1, -1, 0])))
    cases += platform_cases.pyslice_cases(rng, 300 * mult)
    return cases


# ---------------------------------------------------------------- implementation side

def _ints(it, cap):
    """first `cap` items of an iterator of IPAddress, '+' if more follow"""
    out = []
    more = False
    for x in it:
        if len(out) == cap:
            more = True
            break
        out.append(x)
    return out, more


def _show_addrs(xs, ver):
    for x in xs:
        if not isinstance(x, IPAddress) or x.version != ver:
            return '!badelement:%r' % (x,)
    return plist(str(int(x)) for x in xs)


def impl(c):
    if c.platform:
        return platform_cases.impl(c)
    a = c.args
    if a[0] == 'ipr':
        _, ver, s, ver2, e, step, cap = a
        try:
            xs, more = _ints(common.paired(lambda: iter_iprange(IPAddress(s, ver), IPAddress(e, ver2), step)), cap)
        except Exception:
            return '!'
        return _show_addrs(xs, ver) + ('+' if more else '')
    o = a[1]
    x = _build(o)
    ver = _bounds(o)[0]
    if a[0] == 'iter':
        try:
            xs, more = _ints(common.paired(lambda: iter(x)), a[2])
        except Exception as e:
            return '!' + errname(e)
        return _show_addrs(xs, ver) + ('+' if more else '')
    if a[0] == 'len':
        try:
            ln = str(len(x))
        except IndexError:
            ln = '!index'
        except Exception as e:
            ln = '!other:' + errname(e)
        return '%d %s' % (x.size, ln)
    if a[0] == 'index':
        try:
            r = x[a[2]]
        except Exception as e:
            return '!' + errname(e)
        if not isinstance(r, IPAddress):
            return '!badelement:%r' % (r,)
        return '%d:%d' % (r.version, int(r))
    if a[0] == 'slice':
        try:
            xs = list(itertools.islice(common.paired(lambda: x[a[2]:a[3]:a[4]]), 5000))
        except Exception as e:
            return '!' + errname(e)
        return _show_addrs(xs, ver)
    raise ValueError(a)


# ---------------------------------------------------------------- oracle (integers only)

def oracle(c, got):
    if c.platform:
        return None
    a = c.args
    if a[0] == 'ipr':
        _, ver, s, ver2, e, step, cap = a
        if ver != ver2 or step == 0:
            return None if got == '!' else 'iter_iprange with %s gave %s, expected an exception' % (
                'mixed versions' if ver != ver2 else 'step 0', got)
        exp = []
        i = s
        more = False
        while (i <= e) if step > 0 else (i >= e):
            if len(exp) == cap:
                more = True
                break
            exp.append(i)
            i += step
        exp = plist(str(v) for v in exp) + ('+' if more else '')
        return None if got == exp else 'iter_iprange(%d, %d, %d) gave %s, expected %s' % (s, e, step, got, exp)
    o = a[1]
    ver, lo, hi = _bounds(o)
    n = hi - lo + 1
    if a[0] == 'iter':
        cap = a[2]
        exp = plist(str(v) for v in range(lo, min(hi, lo + cap - 1) + 1)) + ('+' if n > cap else '')
        return None if got == exp else 'iteration gave %s, expected %s' % (got, exp)
    if a[0] == 'len':
        exp = '%d %s' % (n, str(n) if n <= sys.maxsize else '!index')
        return None if got == exp else 'size/len gave %s, expected %s' % (got, exp)
    if a[0] == 'index':
        i = a[2]
        if 0 <= i < n:
            exp = '%d:%d' % (ver, lo + i)
        elif -n <= i < 0:
            exp = '%d:%d' % (ver, hi + 1 + i)
        else:
            exp = '!index'
        if n <= 64:          # cross-check the reference against a real Python list
            L = list(range(lo, hi + 1))
            try:
                e2 = '%d:%d' % (ver, L[i])
            except IndexError:
                e2 = '!index'
            if e2 != exp:
                return 'oracle self-check failed'
        return None if got == exp else 'x[%d] gave %s, list(x)[%d] is %s' % (i, got, i, exp)
    if a[0] == 'slice':
        _, _, sa, sb, sc = a
        if ver == 6:
            exp = '!type'
        elif sc == 0:
            exp = '!value'
        else:
            r = range(lo, hi + 1)[sa:sb:sc]          # CPython's own slicing of a sequence lo..hi
            exp = plist(str(v) for v in r)
            if n <= 64 and list(r) != list(range(lo, hi + 1))[sa:sb:sc]:
                return 'oracle self-check failed'
        return None if got == exp else 'x[%s:%s:%s] gave %s, list(x)[...] is %s' % (sa, sb, sc, got[:300], exp[:300])
    return None


def repro(c):
    a = c.args
    if c.platform:
        return repr(a)
    if a[0] == 'ipr':
        return 'list(itertools.islice(iter_iprange(IPAddress(%d, %d), IPAddress(%d, %d), %d), %d))' % (a[2], a[1], a[4], a[3], a[5], a[6])
    o = a[1]
    b = {'N': 'IPNetwork((%d, %d), version=%d)' % (o[2], o[3], o[1]) if o[0] == 'N' else '',
         'R': 'IPRange(IPAddress(%d, %d), IPAddress(%d, %d))' % (o[2], o[1], o[3], o[1]) if o[0] == 'R' else '',
         'G': 'IPGlob(%r)' % (o[3],) if o[0] == 'G' else ''}[o[0]]
    if a[0] == 'iter':
        return 'list(itertools.islice(iter(%s), %d))' % (b, a[2])
    if a[0] == 'len':
        return 'x = %s; x.size, len(x)' % b
    if a[0] == 'index':
        return '%s[%d]' % (b, a[2])
    return 'list(%s[%s:%s:%s])' % (b, a[2], a[3], a[4])
