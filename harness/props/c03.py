"""C03 — all network notations denote the same network; str() round-trips; abbreviations; rejections.

Ops (driver side in lean/NetaddrVerif/Driver/C03.lean):
  net_parse be argkind arg implicit ver flags   (argkind in str, tuple, copyA, copyN)
  abbrev S · expand S · net_str be F V P
  abbrev_x kind val  (non-str arguments of cidr_abbrev_to_verbose: i int, b bool, f finite float by truncation, n None/tuple/list)
  net_repr be F V P  (repr(IPNetwork) and the network built from its quoted part)
plus the modelled runtime op `pyint` (the model reads prefixes and partial octets through Py.pyInt)."""
import re
import socket

from common import Case, W, hexs, optint, plist, tf, errname, value_classes, rand_value
import common
import platform_cases
from props.c01 import (ref_strict4, ref_rfc4291, ref_quad, ref_ntop6, ref_pyint10, std_parse, edits, NEAR4, NEAR6, spelling6)
import random as _random
from zlib import crc32 as _crc32

ID = 'C03'
RULE = ('every prefix 0..width x structured values x both families, each spelled as a/p, a/netmask, a/hostmask, tuple, '
        'copy of IPNetwork, bare address, copy of IPAddress, with explicit and implicit version, flags in {0, NOHOST}, '
        'implicit_prefix in {False, True}; str() round trip of every (version, value, prefix); out-of-range prefixes '
        '(-1, width+1, huge), single-bit-hole and random non-contiguous masks, malformed addresses, second slash; 1-4 '
        'octet partial and classful abbreviations at every class boundary; edit-distance<=2 neighbours of the spelled '
        'strings; random strings; 1-5 octet pieces in every spelling int() reads or nearly reads (zero-padded, signed, '
        'spaced, underscored, hex, empty) with no suffix / numeral / signed numeral / netmask / hostmask / broken mask '
        'suffix under every (implicit_prefix, version, flags); signed and huge numeral prefixes after arbitrary address '
        'parts; tuples over boundary values x boundary prefixes x version None/4/6 x flags x implicit_prefix. '
        'cidr_abbrev_to_verbose on non-str arguments: every int -2..300, class boundaries, +-2^32, ints around the '
        'interpreter int-to-str digit limit (10^4299 .. 10^5000, both signs), True / False, finite floats (fractions around '
        'every class boundary, negative fractions, 1e300), None / tuple / list; repr(IPNetwork) of every generated '
        '(version, value, prefix) with the eval-free round trip; every spelled network also under the OTHER explicit '
        'version; cross-family masks: IPv6 address / IPv4-text mask and IPv4 address / IPv6-text mask where the mask '
        'integer is a contiguous netmask or hostmask in the other family (::1/0.0.0.255, 1.2.3.4/::ffff:ff00, ...). '
        'non-trivial = distinct case whose implementation output is not an error')
NOHOST = 4
ALPHA = '0123456789abcdefABCDEFxX.:/ +-_\t\n'


def strict_int(s):
    return int(s) if s and all(c in '0123456789' for c in s) else None


def lenient_int(s):
    if not all(ord(c) < 128 for c in s):
        return None
    return ref_pyint10(s)


def classful(o):
    if o <= 127:
        return 8
    if o <= 191:
        return 16
    if o <= 223:
        return 24
    if o <= 239:
        return 4
    return 32


def ref_abbrev(s, pyint):
    """documented behaviour of cidr_abbrev_to_verbose for str arguments"""
    if ':' in s or s == '':
        return s
    i = pyint(s)
    if i is not None:
        return '%d.0.0.0/%d' % (i, classful(i)) if 0 <= i <= 255 else s
    if '/' in s:
        part, prefix = s.split('/', 1)
        q = pyint(prefix)
        if q is None or not 0 <= q <= 32:
            return s
    else:
        part, prefix = s, None
    toks = part.split('.')
    if len(toks) > 4:
        return s
    toks += ['0'] * (4 - len(toks))
    if prefix is None:
        o = pyint(toks[0])
        if o is None or not 0 <= o <= 255:
            return s
        prefix = str(classful(o))
    return '.'.join(toks) + '/' + prefix


def ref_expand(a, pyint):
    """expand_partial_address: 1-4 decimal octets padded with zero octets; None = AddrFormatError"""
    if ':' in a:
        return None
    toks = a.split('.') if '.' in a else [a]
    vals = [pyint(t) for t in toks]
    if any(x is None for x in vals) or not 1 <= len(vals) <= 4:
        return None
    vals += [0] * (4 - len(vals))
    return '.'.join('%d' % x for x in vals)


def ref_addr(a, ver, pyint):
    if ver == 4:
        v = ref_strict4(a)
        if v is not None:
            return v
        e = ref_expand(a, pyint)
        return None if e is None else ref_strict4(e)
    return ref_rfc4291(a)


def ref_net1(s, ver, pyint):
    if s.count('/') > 1:
        return None
    if '/' in s:
        a, q = s.split('/', 1)
    else:
        a, q = s, None
    v = ref_addr(a, ver, pyint)
    if v is None:
        return None
    w = W[ver]
    if q is None:
        p = w
    else:
        p = pyint(q)
        if p is None:
            m = ref_strict4(q) if ver == 4 else ref_rfc4291(q)
            if m is None:
                return None
            full = (1 << w) - 1
            nm = [k for k in range(w + 1) if m == full ^ ((1 << (w - k)) - 1)]
            hm = [k for k in range(w + 1) if m == (1 << (w - k)) - 1]
            if nm:
                p = nm[0]
            elif hm:
                p = hm[0]
            else:
                return None
    if not 0 <= p <= w:
        return None
    return v, p


def ref_net(s, implicit, ver, flags, pyint):
    if ver not in (None, 4, 6):
        return '!value'
    if implicit:
        s = ref_abbrev(s, pyint)
    r = None
    for vv in ([ver] if ver else [4, 6]):
        x = ref_net1(s, vv, pyint)
        if x is not None:
            r = (vv,) + x
            break
    if r is None:
        return '!addrFormat'
    vv, v, p = r
    if flags & NOHOST:
        v &= ((1 << W[vv]) - 1) ^ ((1 << (W[vv] - p)) - 1)
    return '%d:%d/%d' % (vv, v, p)


def ref_addr_str(ver, v):
    return ref_quad(v) if ver == 4 else ref_ntop6(v)


# ------------------------------------------------------------------ cases

def _line(kind, arg, implicit, ver, flags):
    return 'net_parse pl %s %s %s %s %d' % (kind, arg, tf(implicit), optint(ver), flags)


def spell_case(ver, v, p, form, explicit, flags, implicit):
    w = W[ver]
    full = (1 << w) - 1
    a = ref_addr_str(ver, v)
    if ver == 6 and _crc32(('%d/%d/%s' % (v, p, form)).encode()) % 3 == 0:
        # another valid RFC 4291 spelling of the same address (padded groups, dotted-quad tail, '::' for any zero run,
        # up to 45 characters) - every notation of the property is a notation whatever the spelling of its address part
        a = spelling6(_random.Random('%d/%d/%s' % (v, p, form)), v)
    pver = ver if explicit else None
    if form == 'prefix':
        s = '%s/%d' % (a, p)
    elif form == 'netmask':
        s = '%s/%s' % (a, ref_addr_str(ver, full ^ ((1 << (w - p)) - 1)))
    elif form == 'hostmask':
        s = '%s/%s' % (a, ref_addr_str(ver, (1 << (w - p)) - 1))
    elif form == 'bare':
        s = a
    else:
        s = None
    if s is not None:
        line = _line('str', hexs(s), implicit, pver, flags)
    elif form == 'tuple':
        line = _line('tuple', plist([str(v), str(p)]), implicit, pver, flags)
    elif form == 'copyN':
        line = _line('copyN', 'N:%d:%d:%d' % (ver, v, p), implicit, pver, flags)
    else:
        line = _line('copyA', 'A:%d:%d' % (ver, v), implicit, pver, flags)
    return Case(line, 'spell/%s/v%d' % (form, ver), ('spell', ver, v, p, form, explicit, flags, implicit, s))


def raw_case(s, implicit, ver, flags, tag):
    ascii_ = all(ord(c) < 128 for c in s)
    return Case(_line('str', hexs(s), implicit, ver, flags) if ascii_ else None, 'raw/' + tag,
                ('raw', s, implicit, ver, flags))


NEARN = ['1.2.3.4/33', '1.2.3.4/32', '1.2.3.4/-1', '1.2.3.4/ 24', '1.2.3.4/+24', '1.2.3.4/2_4', '1.2.3.4/24 ', '1.2.3.4/0x18',
         '1.2.3.4/255.0.255.0', '1.2.3.4/', '1.2.3.4//', '1.2.3.4/24/', '1.2.3.4/1.2.3.4/5', '/24', '/', '1.2.3.4/0.0.0.0',
         '1.2.3.4/255.255.255.255', '::/::', '::1/ffff::', '::1/::ffff', '::1/129', '::1/128', '::1/-1', '::1/',
         '10/8', '10', '10.1', '10.1.2', '192.168/16', '1.2.3.4/24\n', '1.2.3.4/1e1', '::ffff:1.2.3.4/112',
         '0x10.1.1.1/8', '010.1.1.1/8', '1.2.3/24', '256/8', '1.2.3.4.5/8', ' 1.2.3.4/8', '1.2.3.4 /8', '300.1.1.1', '1.300',
         '1.2.3.4/032', '1/0.0.0.255', '1.2.3.4/255.255.255.0', '1.2.3.4/0.0.0.255', '1.2.3.4/255.255.255.1',
         '1.2.3.4/0.255.255.255', '1.2.3.4/128.0.0.0', '1.2.3.4/127.255.255.255', '1.2.3.4/99999999999999999999',
         '1.2.3.4/4294967296', '::1/340282366920938463463374607431768211456', '::1/0::', '::1/::1', '::1/::2',
         '::1/8000::', '::1/7fff:ffff:ffff:ffff:ffff:ffff:ffff:ffff', '::1/1.2.3.4', '1.2.3.4/::', '1.2.3.4/ffff::',
         '', ' ', '0', '0/0', '255', '256', '-1', '10.', '.10', '1..2', '1.2.3.4/2 4', '1.2.3.4/-0',
         '127', '128', '191', '192', '223', '224', '239', '240', '127/8', '128.1', '192.0.2', '224.1/4', '240.0.0.1',
         '10/33', '10/-1', '10/x', '1.2/x', '192.168.300', '1e1', '0x10', '010', ' 10', '1_0', '+10', '10/ 8', '10/+8',
         '1.2.3.4.5', 'abc', '::1', '1.2.3.4/24', '01.2.3.4/24', '1.2.3.4/024', '1.2.3.04']



OCTV = [0, 1, 7, 9, 10, 99, 100, 126, 127, 128, 191, 192, 223, 224, 239, 240, 254, 255, 256, 300, 1000]
SUFFIX = ['', '', '/0', '/8', '/16', '/24', '/31', '/32', '/33', '/-1', '/-0', '/+8', '/ 8', '/8 ', '/08', '/1_6', '/0x8',
          '/255.0.0.0', '/255.255.0.0', '/255.255.255.255', '/0.0.0.0', '/0.0.255.255', '/0.255.255.255', '/255.0.255.0',
          '/1.2.3.4', '/255.255.0', '/ffff::', '/', '//', '/8/', '/128', '/129']


def _oct_spell(rng, n):
    """one octet value in a spelling int() reads - or just does not"""
    k = rng.randrange(14)
    d = '%d' % n
    if k <= 3:
        return d
    if k == 4:
        return '0' + d
    if k == 5:
        return '00' + d
    if k == 6:
        return '+' + d
    if k == 7:
        return rng.choice([' ', '\t', '\n', '  ']) + d
    if k == 8:
        return d + rng.choice([' ', '\t', '\n'])
    if k == 9:
        return d[0] + '_' + d[1:] if len(d) > 1 else d + '_'
    if k == 10:
        return '-' + d
    if k == 11:
        return rng.choice(['0x%x' % n, '%do' % n, '%de0' % n, d + '.', '', ' ', '+', '-', '+-' + d, '_' + d])
    if k == 12:
        return '+0' + d
    return d


def octet_strings(rng, count):
    out = []
    for _ in range(count):
        k = rng.choice([1, 1, 2, 2, 3, 3, 4, 4, 5])
        toks = [_oct_spell(rng, rng.choice(OCTV + [rng.randrange(256)])) for _ in range(k)]
        out.append('.'.join(toks) + rng.choice(SUFFIX))
    return out


def signed_prefix_strings(rng, count):
    out = []
    for _ in range(count):
        ver = rng.choice([4, 6])
        a = rng.choice([ref_addr_str(ver, rand_value(rng, W[ver])), '10', '10.1', '192.168.1', '::', '1.2.3', 'x', '', '256',
                        '1.2.3.4.5', '010.1', '::ffff:1.2.3.4'])
        n = rng.choice([0, 1, 2, 8, 31, 32, 33, 64, 127, 128, 129, 255, 256, 1 << 32, 1 << 70])
        out.append(a + '/' + rng.choice(['-', '+', ' -', '- ', '-0', '+0', '']) + '%d' % n)
    return out


def tuple_cases(rng, count):
    vals = [-1, 0, 1, 5, (1 << 31), (1 << 32) - 1, 1 << 32, (1 << 32) + 1, (1 << 64) + 12345, (1 << 128) - 1, 1 << 128,
            (1 << 128) + 1, -(1 << 32), 0xC0A80105, 0xfe80 << 112 | 0xabcdef]
    prefs = [-1, 0, 1, 8, 24, 31, 32, 33, 64, 127, 128, 129, 1 << 20, -32]
    out = []
    for _ in range(count):
        v = rng.choice(vals + [rng.getrandbits(32), rng.getrandbits(128)])
        pl = rng.choice(prefs + [rng.randrange(0, 129)])
        pver = rng.choice([None, None, 4, 6])
        flags = rng.choice([0, NOHOST])
        implicit = rng.random() < 0.5
        out.append(Case(_line('tuple', plist([str(v), str(pl)]), implicit, pver, flags), 'tuple/all',
                        ('tuple2', v, pl, pver, flags, implicit)))
    return out


def cross_family_strings(rng, count):
    """address of one family, mask text of the other whose INTEGER is a contiguous netmask / hostmask of the address's
    family (a constructor that resolved the mask without the family would accept them)"""
    from props.c01 import ref_ntop6
    out = []
    for _ in range(count):
        if rng.random() < 0.5:
            a = ref_addr_str(6, rand_value(rng, 128))
            k = rng.randrange(0, 33)
            m = rng.choice([(1 << k) - 1, ((1 << 32) - 1) ^ ((1 << k) - 1), 0, (1 << 32) - 1])
            out.append('%s/%s' % (a, ref_quad(m)))
        else:
            a = ref_quad(rand_value(rng, 32))
            k = rng.randrange(0, 33)
            m = rng.choice([(1 << k) - 1, ((1 << 32) - 1) ^ ((1 << k) - 1), 0, ((1 << 128) - 1) ^ ((1 << (128 - k)) - 1),
                            (1 << k) - 1 | (0xffff << 32)])
            t = ref_ntop6(m)
            if rng.random() < 0.3 and m < (1 << 32):
                t = '::' + ref_quad(m)
            out.append('%s/%s' % (a, t))
    return out


def abbrevx_cases(rng, mult):
    out = []

    def add(kind, line_val, arg_val, tag):
        out.append(Case('abbrev_x %s %s' % (kind, line_val), 'abbrevx/' + tag, ('abbrevx', kind, arg_val)))
    ints = list(range(-2, 301)) + [-255, -256, 1000, 65535, (1 << 32) - 1, 1 << 32, -(1 << 32), 1 << 128]
    for e in (4298, 4299, 4300, 4301, 5000):
        for d in (-1, 0, 1):
            ints += [10 ** e + d, -(10 ** e) - d]
    for i in ints:
        add('i', '%d' % i, i, 'int' if abs(i) < 10 ** 4000 else 'hugeint')
    add('b', 'T', True, 'bool')
    add('b', 'F', False, 'bool')
    floats = [0.0, -0.0, 0.5, -0.5, -0.999, -1.0, -1.5, 1.5, 255.0, 255.9, 256.0, 256.5, 1e300, -1e300, 1e15, 2.0 ** 53 + 2]
    for b in (127, 128, 191, 192, 223, 224, 239, 240, 255):
        floats += [b - 0.5, b + 0.0, b + 0.5, b + 0.999]
    floats += [rng.uniform(-3, 300) for _ in range(20 * mult)]
    for f in floats:
        add('f', '%d' % int(f), repr(f), 'float')
    for nm in ('none', 'tuple', 'list'):
        add('n', '-', nm, 'nonint')
    return out


def corpus():
    """witnesses of the fixed finding F14 (IndexError escaping / second slash)"""
    out = []
    for s in ['300.1.1.1', '1.2.3.4//', '256', '1.2.3.4/24/']:
        for implicit in (False, True):
            for ver in (None, 4):
                out.append(raw_case(s, implicit, ver, 0, 'corpus'))
    out.append(Case('abbrev ' + hexs('300.1.1.1'), 'abbrev/corpus', ('abbrev', '300.1.1.1')))
    out.append(Case('abbrev ' + hexs('300'), 'abbrev/corpus', ('abbrev', '300')))
    # F18: tuple members beyond the int-to-str digit limit (the error message must not decide the error class)
    big = 10 ** 5000
    for vv, q in ((big, 8), (1, big), (-big, 8), (big, big)):
        for pver in (None, 4, 6):
            out.append(Case(_line('tuple', plist([str(vv), str(q)]), False, pver, 0), 'tuple/corpus', ('tuple', vv, q, pver, 0)))
    return out


def _octs(rng):
    return [rng.choice([0, 1, 9, 10, 99, 100, 126, 127, 128, 129, 190, 191, 192, 193, 222, 223, 224, 225, 238, 239, 240,
                        241, 254, 255, 256, 300, rng.randrange(256)]) for _ in range(rng.randrange(1, 5))]


def generate(rng, tier):
    mult = 3 if tier == 'quick' else 8
    cases = []
    strings = []
    for ver in (4, 6):
        w = W[ver]
        full = (1 << w) - 1
        for p in range(w + 1):
            vals = value_classes(rng, w, n_random=1)
            vals = rng.sample(vals, min(len(vals), 3 * mult)) + [rand_value(rng, w)]
            if ver == 6:
                vals.append((0xffff << 32) | rng.getrandbits(32))
                vals.append(rng.getrandbits(32))
            for v in vals:
                forms = ['prefix', 'netmask', 'hostmask', 'tuple', 'copyN', rng.choice(['bare', 'copyA'])]
                for form in forms:
                    explicit = rng.random() < 0.5
                    flags = rng.choice([0, NOHOST])
                    implicit = rng.random() < 0.25
                    c = spell_case(ver, v, p, form, explicit, flags, implicit)
                    cases.append(c)
                    if c.args[8] is not None and rng.random() < 0.15:
                        strings.append(c.args[8])
                cases.append(Case('net_str pl %d %d %d' % (ver, v, p), 'net_str/v%d' % ver, ('netstr', ver, v, p)))
                cases.append(Case('net_repr pl %d %d %d' % (ver, v, p), 'net_repr/v%d' % ver, ('netrepr', ver, v, p)))
                # the same network text under the OTHER explicit version (finding 18: must be refused)
                form = rng.choice(['prefix', 'netmask', 'hostmask', 'bare'])
                sc = spell_case(ver, v, p, form, True, 0, False)
                cases.append(raw_case(sc.args[8], rng.random() < 0.3, 10 - ver, rng.choice([0, NOHOST]), 'mismatch'))
                cases.append(Case(None, 'str_rt/v%d' % ver, ('str_rt', ver, v, p, rng.choice([None, ver]))))
            # non-contiguous masks and out-of-range prefixes on this address
            v = rand_value(rng, w)
            a = ref_addr_str(ver, v)
            mask = full ^ ((1 << (w - p)) - 1)
            for bad in (mask ^ (1 << rng.randrange(w)), rng.getrandbits(w) | 5 if w else 5):
                strings.append('%s/%s' % (a, ref_addr_str(ver, bad & full)))
        a = ref_addr_str(ver, rand_value(rng, w))
        big = 10 ** rng.choice([4300, 4301, 5000, 6000]) + rng.getrandbits(40)     # beyond the interpreter's int-to-str limit
        for q in (-1, w + 1, w + 2, 1 << 40, -w, 129, 33, 255, 256, big, -big):
            if abs(q) < (1 << 64):
                strings.append('%s/%d' % (a, q))
            for pver in (None, ver):
                cases.append(Case(_line('tuple', plist(['5', str(q)]), False, pver, 0), 'tuple/range', ('tuple', 5, q, pver, 0)))
        for vv in (-1, full + 1, full, 1 << 130, 0, (1 << 32) - 1, 1 << 32, big, -big):
            for pver in (None, ver):
                q = rng.choice([0, 8, w, 32, 33])
                cases.append(Case(_line('tuple', plist([str(vv), str(q)]), False, pver, 0),
                                  'tuple/range', ('tuple', vv, q, pver, 0)))
    # partial / classful IPv4
    for _ in range(150 * mult):
        o = _octs(rng)
        s = '.'.join('%d' % x for x in o)
        if rng.random() < 0.4:
            s += '/%d' % rng.choice([0, 1, 8, 16, 24, 31, 32, 33, rng.randrange(0, 33)])
        strings.append(s)
    for o in (0, 1, 126, 127, 128, 129, 190, 191, 192, 193, 222, 223, 224, 225, 238, 239, 240, 241, 254, 255, 256, 257):
        strings.append('%d' % o)
        strings.append('%d.%d' % (o, rng.randrange(256)))
    strings += NEARN + NEAR4[:40] + NEAR6[:40]
    dense = set(octet_strings(rng, 150 * mult) + signed_prefix_strings(rng, 50 * mult))
    strings += sorted(dense)
    base = list(strings)
    for s in rng.sample(base, min(len(base), 250 * mult)):
        strings.append(edits(rng, s, 1))
        if rng.random() < 0.3:
            strings.append(edits(rng, s, 2))
    for _ in range(40 * mult):
        strings.append(''.join(rng.choice(ALPHA) for _ in range(rng.randrange(0, 9))))
    seen = set()
    for s in strings:
        if s in seen or not all(ord(ch) < 128 for ch in s):
            continue        # prefix / octet numerals go through int(): non-ASCII digits are outside the domain
        seen.add(s)
        grid = [(i, v, f) for i in (False, True) for v in (None, 4, 6) for f in (0, NOHOST)]
        pick = grid if s in NEARN else rng.sample(grid, 5 if s in dense else 3)
        for implicit, ver, flags in pick:
            cases.append(raw_case(s, implicit, ver, flags, 'near' if s in NEARN else 'oct' if s in dense else 'gen'))
        if all(ord(c) < 128 for c in s):
            cases.append(Case('abbrev ' + hexs(s), 'abbrev', ('abbrev', s)))
            if rng.random() < 0.5 or s in NEARN:
                cases.append(Case('expand ' + hexs(s), 'expand', ('expand', s)))
    for t in cross_family_strings(rng, 60 * mult):
        for implicit, ver, flags in rng.sample([(i, v, f) for i in (False, True) for v in (None, 4, 6) for f in (0, NOHOST)], 4):
            cases.append(raw_case(t, implicit, ver, flags, 'crossmask'))
    cases += abbrevx_cases(rng, mult)
    cases += tuple_cases(rng, 150 * mult)
    cases.append(raw_case('1.2.3.4/8', False, 5, 0, 'badversion'))
    cases.append(raw_case('1.2.3.4/8', False, 0, 0, 'badversion'))
    cases += platform_cases.pyint_cases(rng, 200 * mult)
    return cases


# ------------------------------------------------------------------ impl / oracle

def _show(n):
    return '%d:%d/%d' % (n.version, n.value, n.prefixlen)


def _bystanders(s):
    """the pure validity helpers asked about the same text (and its address part) first, under other flags:
    must not colour the parse that follows"""
    import zlib
    import netaddr
    if not isinstance(s, str):
        return
    h = zlib.crc32(s.encode('utf-8', 'replace'))
    if h & 1:
        for t in (s, s.split('/')[0]):
            for f in ((0, 1, 2), (2, 0), (1,), (2, 1, 0))[(h >> 1) % 4]:
                try:
                    netaddr.valid_ipv4(t, f)
                except Exception:
                    pass
            try:
                netaddr.valid_ipv6(t)
            except Exception:
                pass


def impl(c):
    if c.platform:
        return platform_cases.impl(c)
    import netaddr
    from netaddr import IPNetwork, IPAddress
    a = c.args
    op = a[0]
    try:
        if op == 'spell':
            _, ver, v, p, form, explicit, flags, implicit, s = a
            pver = ver if explicit else None
            if s is not None:
                arg = s
            elif form == 'tuple':
                arg = (v, p)
            elif form == 'copyN':
                arg = IPNetwork((v, p), version=ver)
            else:
                arg = common.make_addr(ver, v)
            if form == 'copyN':
                arg = common.make_net(ver, v, p)
            _bystanders(arg)
            n = IPNetwork(arg, implicit_prefix=implicit, version=pver, flags=flags)
            common.disturb(arg)           # a copy-constructed network does not follow its source
            return _show(n)
        if op == 'raw':
            _, s, implicit, ver, flags = a
            _bystanders(s)
            return _show(IPNetwork(s, implicit_prefix=implicit, version=ver, flags=flags))
        if op == 'tuple':
            _, v, p, ver, flags = a
            return _show(IPNetwork((v, p), version=ver, flags=flags))
        if op == 'tuple2':
            _, v, p, ver, flags, implicit = a
            return _show(IPNetwork((v, p), implicit_prefix=implicit, version=ver, flags=flags))
        if op == 'netstr':
            _, ver, v, p = a
            return hexs(str(common.make_net(ver, v, p)))      # fresh, lived-in (moved here by +=, -=, the setters) or a clone
        if op == 'str_rt':
            _, ver, v, p, pver = a
            s = str(common.make_net(ver, v, p))
            return hexs(s) + ' ' + _show(IPNetwork(s, version=pver))
        if op == 'abbrev':
            return hexs(netaddr.cidr_abbrev_to_verbose(a[1]))
        if op == 'abbrevx':
            arg = _abbrevx_arg(a[1], a[2])
            r = netaddr.cidr_abbrev_to_verbose(arg)
            if r is arg:
                return '='
            return hexs(r) if isinstance(r, str) else '!weird:' + type(r).__name__
        if op == 'netrepr':
            _, ver, v, p = a
            r = repr(common.make_net(ver, v, p))
            pre_, suf = "IPNetwork('", "')"
            if not (r.startswith(pre_) and r.endswith(suf) and len(r) >= len(pre_) + len(suf)):
                return hexs(r) + ' !unquote'
            return hexs(r) + ' ' + _show(IPNetwork(r[len(pre_):len(r) - len(suf)]))
        if op == 'expand':
            from netaddr.strategy import ipv4
            return hexs(ipv4.expand_partial_address(a[1]))
    except Exception as e:
        return '!' + errname(e)
    raise ValueError(a)


def _abbrevx_arg(kind, val):
    if kind == 'i':
        return val
    if kind == 'b':
        return bool(val)
    if kind == 'f':
        return float(val)
    return {'none': None, 'tuple': (1, 2), 'list': [10]}[val]


def _unhex(tok):
    return bytes.fromhex(tok[2:]).decode('utf-8', 'surrogatepass')


def oracle(c, got):
    if c.platform:
        return None
    a = c.args
    op = a[0]
    if got.startswith('!harness') or got == '!timeout':
        return 'harness: ' + got
    if op in ('netstr', 'str_rt') and got.startswith('!'):
        return 'IPNetwork((%d, %d), version=%d) / str() raised %s' % (a[2], a[3], a[1], got)
    if op == 'spell':
        _, ver, v, p, form, explicit, flags, implicit, s = a
        w = W[ver]
        ep, ever = p, ver
        if form == 'hostmask' and p in (0, w):
            ep = w - p            # all-zeros / all-ones are netmasks first (documented precedence)
        if form in ('bare', 'copyA'):
            ep = w
            if form == 'bare' and implicit and ver == 4:
                ep = classful(v >> 24)
        if form == 'tuple' and not explicit:
            ever = 4 if (v <= 0xffffffff and p <= 32) else 6
        if form == 'copyN':
            ep = p
        ev = v
        if flags & NOHOST and form not in ('copyN', 'copyA'):
            ew = W[ever]
            ev = v & (((1 << ew) - 1) ^ ((1 << (ew - ep)) - 1))
        exp = '%d:%d/%d' % (ever, ev, ep)
        return None if got == exp else 'IPNetwork(%s as %s, implicit_prefix=%s, version=%s, flags=%d) -> %s, expected %s' % (
            s if s is not None else (v, p), form, implicit, ver if explicit else None, flags, got, exp)
    if op == 'raw':
        _, s, implicit, ver, flags = a
        e1 = ref_net(s, implicit, ver, flags, strict_int)
        e2 = ref_net(s, implicit, ver, flags, lenient_int)
        return None if got in (e1, e2) else 'IPNetwork(%r, implicit_prefix=%s, version=%r, flags=%d) -> %s, expected %s' % (
            s, implicit, ver, flags, got, e1 if e1 == e2 else '%s (or %s)' % (e1, e2))
    if op == 'tuple':
        _, v, p, ver, flags = a
        exp = '!addrFormat'
        for vv in ([ver] if ver else [4, 6]):
            if 0 <= v < (1 << W[vv]) and 0 <= p <= W[vv]:
                exp = '%d:%d/%d' % (vv, v, p)
                break
        return None if got == exp else 'IPNetwork((%d, %d), version=%r) -> %s, expected %s' % (v, p, ver, got, exp)
    if op == 'tuple2':
        _, v, p, ver, flags, implicit = a
        exp = '!addrFormat'
        for vv in ([ver] if ver else [4, 6]):
            w = W[vv]
            if 0 <= v < (1 << w) and 0 <= p <= w:
                ev = (v >> (w - p)) << (w - p) if flags & NOHOST else v
                exp = '%d:%d/%d' % (vv, ev, p)
                break
        return None if got == exp else 'IPNetwork((%d, %d), implicit_prefix=%s, version=%r, flags=%d) -> %s, expected %s' % (
            v, p, implicit, ver, flags, got, exp)
    if op == 'netstr':
        _, ver, v, p = a
        exp = '%s/%d' % (ref_addr_str(ver, v), p)
        return None if _unhex(got) == exp else 'str(IPNetwork((%d, %d), version=%d)) = %r, expected %r' % (v, p, ver, _unhex(got), exp)
    if op == 'str_rt':
        _, ver, v, p, pver = a
        toks = got.split(' ')
        if len(toks) != 2 or toks[1] != '%d:%d/%d' % (ver, v, p):
            return 'str(IPNetwork((%d, %d), version=%d)) parses back to %s' % (v, p, ver, got)
        s = _unhex(toks[0])
        x, y = s.rsplit('/', 1)
        if std_parse(x) != (ver, v) or y != str(p):
            return 'str(IPNetwork((%d, %d), version=%d)) = %r: a standard parser reads %r' % (v, p, ver, s, std_parse(x))
        return None
    if op == 'abbrev':
        s = a[1]
        exp = (hexs(ref_abbrev(s, strict_int)), hexs(ref_abbrev(s, lenient_int)))
        return None if got in exp else 'cidr_abbrev_to_verbose(%r) -> %r, expected %r' % (
            s, _unhex(got) if got.startswith('s:') else got, _unhex(exp[0]))
    if op == 'abbrevx':
        kind, val = a[1], a[2]
        if kind == 'n':
            exp = '='
        else:
            t = int(_abbrevx_arg(kind, val))
            if 0 <= t <= 255:
                exp = hexs('%d.0.0.0/%d' % (t, classful(t)))
            elif abs(t) < 10 ** 4300:
                exp = '='
            else:
                return None            # beyond the int-to-str digit limit: the documentation says nothing; correspondence only
        return None if got == exp else 'cidr_abbrev_to_verbose(%s) -> %s, expected %s' % (
            str(val)[:40], _unhex(got) if got.startswith('s:') else got, _unhex(exp) if exp.startswith('s:') else 'the argument itself')
    if op == 'netrepr':
        _, ver, v, p = a
        toks = got.split(' ')
        exp = "IPNetwork('%s/%d')" % (ref_addr_str(ver, v), p)
        if len(toks) != 2 or not toks[0].startswith('s:') or _unhex(toks[0]) != exp or toks[1] != '%d:%d/%d' % (ver, v, p):
            return 'repr(IPNetwork((%d, %d), version=%d)) = %s, expected %r parsing back to the same network' % (
                v, p, ver, (_unhex(toks[0]) if toks[0].startswith('s:') else toks[0]) + ' -> ' + ' '.join(toks[1:]), exp)
        return None
    if op == 'expand':
        s = a[1]
        e = []
        for f in (strict_int, lenient_int):
            r = ref_expand(s, f)
            e.append('!addrFormat' if r is None else hexs(r))
        return None if got in e else 'expand_partial_address(%r) -> %s, expected %s' % (s, got, e[0])
    return None


def repro(c):
    a = c.args
    pre = 'from netaddr import *; '
    if a[0] == 'spell':
        _, ver, v, p, form, explicit, flags, implicit, s = a
        arg = repr(s) if s is not None else ('(%d, %d)' % (v, p) if form == 'tuple' else
                                             'IPNetwork((%d, %d), version=%d)' % (v, p, ver) if form == 'copyN' else
                                             'IPAddress(%d, %d)' % (v, ver))
        return pre + 'IPNetwork(%s, implicit_prefix=%s, version=%r, flags=%d)' % (arg, implicit, ver if explicit else None, flags)
    if a[0] == 'raw':
        return pre + 'IPNetwork(%r, implicit_prefix=%s, version=%r, flags=%d)' % (a[1], a[2], a[3], a[4])
    if a[0] == 'tuple':
        return pre + 'IPNetwork((%d, %d), version=%r, flags=%d)' % (a[1], a[2], a[3], a[4])
    if a[0] == 'tuple2':
        return pre + 'IPNetwork((%d, %d), implicit_prefix=%s, version=%r, flags=%d)' % (a[1], a[2], a[5], a[3], a[4])
    if a[0] in ('netstr', 'str_rt'):
        return pre + 'n = IPNetwork((%d, %d), version=%d); str(n), IPNetwork(str(n))' % (a[2], a[3], a[1])
    if a[0] == 'abbrev':
        return pre + 'cidr_abbrev_to_verbose(%r)' % (a[1],)
    if a[0] == 'abbrevx':
        return pre + 'cidr_abbrev_to_verbose(%s)' % ({'none': 'None', 'tuple': '(1, 2)', 'list': '[10]'}.get(a[2], str(a[2])[:60]) if a[1] != 'b' else bool(a[2]),)
    if a[0] == 'netrepr':
        return pre + 'n = IPNetwork((%d, %d), version=%d); repr(n), IPNetwork(repr(n)[11:-2])' % (a[2], a[3], a[1])
    if a[0] == 'expand':
        return 'from netaddr.strategy import ipv4; ipv4.expand_partial_address(%r)' % (a[1],)
    return repr(a)
