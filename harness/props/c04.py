"""C04 — containment and CIDR matching are exactly interval inclusion.
Ops: contains own|mixin <y> <x> ; match_all / match_small / match_large <ip> [cands]
Raw ops (the model coerces the non-object operand itself, Model/Coerce.lean):
     contains_raw <y> <item> ; match_raw all|small|large <item> [item,...]
     item = S:<hex of utf-8> | I:<int> | A:ver:val | N:ver:val:plen | R:ver:lo:hi
contains forms: obj | str (as before, converted by the real code) | rstr (the string reaches the model: address text,
CIDR text, netmask / hostmask text) | rint (a bare int operand) | rcidr (a CIDR string against a range container)"""
import ipaddress
from common import Case, W, rand_value, rand_block, errname, plist, tf
import common
import netaddr
from netaddr import IPNetwork, IPAddress, IPRange, IPGlob
from netaddr.ip import IPListMixin

ID = 'C04'
RULE = ('contains: container y (network with any host bits and prefix, range, glob; both families) and operand x '
        '(address, network, range, glob, address string, CIDR string) built relative to y: sharing first and/or last '
        'address, off by one on either side, nested, supernet, sibling, other family, bottom/top of the space; own '
        '__contains__ and IPListMixin.__contains__. match_*: address and 0-8 candidates (networks with host bits, '
        'addresses, strings) clustered round the address: nested chains, duplicates, disjoint, overlapping, mixed '
        'version, shuffled; ~30% of the string-operand cases reach the model uncoerced (contains_raw / match_raw) with '
        'netmask / hostmask spellings, plus bare-int operands and CIDR strings against range containers (outside the '
        "property's operand list: the oracle only requires that an answer, if given, is interval inclusion). "
        'non-trivial = distinct case whose implementation output is not an error')


# ------------------------------------------------------------------ independent integer helpers

def _block(ver, v, p):
    w = W[ver]
    h = 1 << (w - p)
    f = v - v % h
    return f, f + h - 1


def _astr(ver, v):
    return str(ipaddress.IPv4Address(v)) if ver == 4 else str(ipaddress.IPv6Address(v))


def _span(o):
    """(ver, first, last) of an operand/container tuple, from integers only"""
    k = o[0]
    if k == 'A':
        return o[1], o[2], o[2]
    if k == 'N':
        f, l = _block(o[1], o[2], o[3])
        return o[1], f, l
    return o[1], o[2], o[3]          # R, G


def _tok(o):
    k = o[0]
    if k == 'A':
        return 'A:%d:%d' % (o[1], o[2])
    if k == 'N':
        return 'N:%d:%d:%d' % (o[1], o[2], o[3])
    return 'R:%d:%d:%d' % (o[1], o[2], o[3])


def _glob_for(rng, lo_hint):
    """a valid glob string near the IPv4 value lo_hint, with its (lo, hi) computed here"""
    oc = [(lo_hint >> s) & 255 for s in (24, 16, 8, 0)]
    k = rng.randrange(0, 5)                  # number of literal octets
    parts, lo, hi = [], 0, 0
    for i in range(k):
        parts.append(str(oc[i]))
        lo = (lo << 8) | oc[i]
        hi = (hi << 8) | oc[i]
    rest = 4 - k
    if rest and rng.random() < 0.5:
        a = rng.choice([oc[k], max(oc[k] - 1, 0), 0, rng.randrange(0, 255)])
        a = min(a, 254)
        b = rng.choice([a + 1, 255, min(255, a + rng.randrange(1, 40)), max(a + 1, oc[k])])
        parts.append('%d-%d' % (a, b))
        lo = (lo << 8) | a
        hi = (hi << 8) | b
        rest -= 1
    for _ in range(rest):
        parts.append('*')
        lo = lo << 8
        hi = (hi << 8) | 255
    return '.'.join(parts), lo, hi


# ------------------------------------------------------------------ object construction (implementation side)

def _mk(o):
    k = o[0]
    if k == 'A':
        return IPAddress(o[2], o[1])
    if k == 'N':
        return common.make_net(o[1], o[2], o[3])
    if k == 'R':
        return common.make_range(o[1], o[2], o[3])
    if k == 'G':
        return common.make_glob(o[4])
    raise ValueError(o)


def _xstr(o, style=0):
    """string form of an address / network operand (style 1: netmask text, 2: hostmask text where unambiguous)"""
    if o[0] == 'A':
        return _astr(o[1], o[2])
    w = W[o[1]]
    host = (1 << (w - o[3])) - 1
    if style == 1:
        return '%s/%s' % (_astr(o[1], o[2]), _astr(o[1], ((1 << w) - 1) ^ host))
    if style == 2 and 0 < o[3] < w:
        return '%s/%s' % (_astr(o[1], o[2]), _astr(o[1], host))
    return '%s/%d' % (_astr(o[1], o[2]), o[3])


def _style(x):
    """deterministic spelling choice for raw string operands (from the integers of the operand)"""
    return (x[2] + x[-1]) % 3 if x[0] == 'N' else 0


def _raw_operand(x, form):
    """what the caller passes for a raw form"""
    if form == 'rint':
        return x[2]
    return _xstr(x, _style(x))


def _raw_tok(x, form):
    if form == 'rint':
        return 'I:%d' % x[2]
    if form in ('rstr', 'rcidr'):
        return 'S:' + _xstr(x, _style(x)).encode('utf-8').hex()
    return _tok(x)


# ------------------------------------------------------------------ cases

def _contains_case(mode, y, x, form):
    if form in ('rstr', 'rint', 'rcidr'):
        yt = _tok(y)
        return Case('contains_raw %s %s' % (yt, _raw_tok(x, form)), 'contains_raw/%s-in-%s/%s' % (x[0], y[0], form),
                    ('contains', mode, y, x, form))
    # what the code converts a string operand to: IPNetwork(s) for a network container,
    # IPAddress(s) for a range/glob container
    if form == 'str':
        if y[0] == 'N':
            mx = x if x[0] == 'N' else ('N', x[1], x[2], W[x[1]])
        else:
            mx = x
    else:
        mx = x
    line = 'contains %s %s %s' % (mode, _tok(y), _tok(mx))
    tag = 'contains/%s/%s-in-%s%s' % (mode, x[0], y[0], '/str' if form == 'str' else '')
    return Case(line, tag, ('contains', mode, y, x, form))


def _cand_tok(c):
    ver, v, p, form = c
    if form == 'net':
        return 'N:%d:%d:%d' % (ver, v, p)
    if form == 'addr':
        return 'A:%d:%d' % (ver, v)
    return 'S:' + _cand_obj(c).encode('utf-8').hex()


def _match_case(which, ver, ipv, ipform, cands, raw=False):
    if raw:
        ip = 'A:%d:%d' % (ver, ipv) if ipform == 'obj' else 'S:' + _astr(ver, ipv).encode('utf-8').hex()
        return Case('match_raw %s %s %s' % (which, ip, plist(_cand_tok(c) for c in cands)), 'match_raw/%s' % which,
                    ('match', which, ver, ipv, ipform, tuple(cands)))
    line = 'match_%s A:%d:%d %s' % (which, ver, ipv, plist('N:%d:%d:%d' % (c[0], c[1], c[2]) for c in cands))
    return Case(line, 'match/%s' % which, ('match', which, ver, ipv, ipform, tuple(cands)))


def corpus():
    out = []
    # F1 (fixed 4a3aa59): network ending at / one below the range end
    a = 167772160
    for y, x in [(('R', 4, a, a + 255), ('N', 4, a, 24)),
                 (('R', 4, a, a + 256), ('N', 4, a, 24)),
                 (('R', 4, a, a + 254), ('N', 4, a, 24)),
                 (('R', 4, a + 1, a + 255), ('N', 4, a, 24)),
                 (('R', 4, 0, (1 << 32) - 1), ('N', 4, 5, 0)),
                 (('R', 6, 0, (1 << 128) - 1), ('N', 6, 1 << 127, 1)),
                 (('R', 4, 4009754624, 4026531839), ('N', 4, 4009754624, 8)),
                 (('N', 4, a, 24), ('R', 4, a, a + 255)),
                 (('N', 4, a, 24), ('R', 4, a, a + 256)),
                 (('N', 4, (1 << 32) - 1, 24), ('R', 4, (1 << 32) - 256, (1 << 32) - 1)),
                 (('N', 6, (1 << 128) - 1, 0), ('N', 6, 0, 0))]:
        out.append(_contains_case('own', y, x, 'obj'))
        out.append(_contains_case('mixin', y, x, 'obj'))
    out.append(_contains_case('own', ('G', 4, a, a + 255, '10.0.0.*'), ('N', 4, a, 24), 'obj'))
    out.append(_contains_case('own', ('N', 4, a, 24), ('G', 4, a, a + 255, '10.0.0.*'), 'obj'))
    out.append(_contains_case('own', ('N', 4, a, 24), ('N', 4, a + 5, 24), 'str'))
    out.append(_contains_case('own', ('R', 4, a, a + 5), ('A', 4, a + 5), 'str'))
    # the same with the model doing IPNetwork(other) / IPAddress(other); ints; CIDR text against a range
    out.append(_contains_case('own', ('N', 4, a, 24), ('N', 4, a + 5, 24), 'rstr'))
    out.append(_contains_case('own', ('N', 4, a, 24), ('N', 4, a + 6, 25), 'rstr'))
    out.append(_contains_case('own', ('N', 4, a, 24), ('N', 4, a + 7, 25), 'rstr'))
    out.append(_contains_case('own', ('N', 4, a, 24), ('A', 4, a + 5), 'rstr'))
    out.append(_contains_case('own', ('R', 4, a, a + 5), ('A', 4, a + 5), 'rstr'))
    out.append(_contains_case('own', ('R', 4, a, a + 5), ('A', 4, a + 5), 'rint'))
    out.append(_contains_case('own', ('R', 6, 1 << 32, (1 << 32) + 5), ('A', 6, 1 << 32), 'rint'))
    out.append(_contains_case('own', ('N', 4, a, 24), ('A', 4, a + 5), 'rint'))
    out.append(_contains_case('own', ('R', 4, a, a + 5), ('N', 4, a + 4, 31), 'rcidr'))
    # matching: nested chain with a non-matching sibling between matches
    cands = [(4, a, 8, 'net'), (4, a, 24, 'net'), (4, a + 256, 24, 'net'), (4, a + 1, 32, 'addr'), (4, a, 16, 'str'),
             (6, a, 100, 'net')]
    for which in ('all', 'small', 'large'):
        out.append(_match_case(which, 4, a + 1, 'obj', cands))
        out.append(_match_case(which, 4, a + 300, 'str', cands))
        out.append(_match_case(which, 4, 5, 'obj', cands))
        out.append(_match_case(which, 4, 5, 'obj', []))
        out.append(_match_case(which, 4, a + 1, 'obj', cands, raw=True))
        out.append(_match_case(which, 4, a + 300, 'str', cands, raw=True))
    return out


def _near(rng, ver, f, l):
    m = (1 << W[ver]) - 1
    pts = [f, l, f - 1, l + 1, f + 1, l - 1, 0, m]
    return [p for p in pts if 0 <= p <= m]


def _rand_y(rng, ver):
    w = W[ver]
    m = (1 << w) - 1
    r = rng.random()
    v, p = rand_block(rng, ver)
    if r < 0.45:
        return ('N', ver, v, p)
    f, l = _block(ver, v, p)
    if r < 0.8 or ver == 6:
        pts = _near(rng, ver, f, l) + [rand_value(rng, w)]
        kind = rng.randrange(4)
        if kind == 0:
            lo, hi = f, l                                   # exactly a CIDR block
        elif kind == 1:
            lo, hi = f, min(m, l + rng.choice([0, 1, 2]))   # block start, ends at/after block end
            hi = max(lo, l - rng.choice([0, 0, 1])) if rng.random() < 0.5 else hi
        else:
            a, b = rng.choice(pts), rng.choice(pts)
            lo, hi = min(a, b), max(a, b)
        return ('R', ver, lo, hi)
    g, lo, hi = _glob_for(rng, rng.choice([f, l, v]))
    return ('G', 4, lo, hi, g)


def _rand_x(rng, y):
    yv, yf, yl = _span(y)
    ver = yv if rng.random() < 0.9 else 10 - yv
    w = W[ver]
    m = (1 << w) - 1
    pts = [p for p in _near(rng, yv, yf, yl) if p <= m] + [rand_value(rng, w)]
    if y[0] == 'N':
        pts += [y[2] & m]
    kind = rng.choice('AANNNRRG') if ver == 4 else rng.choice('AANNNRR')
    if kind == 'A':
        return ('A', ver, rng.choice(pts))
    if kind == 'N':
        r = rng.random()
        if r < 0.35 and ver == yv:
            # a block whose first or last address is exactly (or one off) an end of y
            k = rng.randrange(0, w + 1)
            h = 1 << k
            anchor = rng.choice([yf, yl, yf - 1, yl + 1])
            anchor = min(max(anchor, 0), m)
            v = anchor | rng.getrandbits(k) if rng.random() < 0.5 else anchor
            return ('N', ver, v & m, w - k)
        if r < 0.55 and y[0] == 'N' and ver == yv:
            v, p = rand_block(rng, ver, near=(y[2], y[3]))
            return ('N', ver, v, p)
        p = rng.choice([w, w - 1, w - 2, 0, 1, rng.randrange(0, w + 1)])
        return ('N', ver, rng.choice(pts), p)
    if kind == 'R':
        a, b = rng.choice(pts), rng.choice(pts)
        return ('R', ver, min(a, b), max(a, b))
    g, lo, hi = _glob_for(rng, rng.choice(pts))
    return ('G', 4, lo, hi, g)


def _rand_cands(rng, ver, ipv):
    w = W[ver]
    m = (1 << w) - 1
    n = rng.choice([0, 1, 2, 3, 4, 5, 6, 8])
    out = []
    style = rng.randrange(4)
    for _ in range(n):
        r = rng.random()
        if r < 0.1:
            ov = 10 - ver
            out.append((ov, ipv & ((1 << W[ov]) - 1) if rng.random() < 0.7 else rand_value(rng, W[ov]),
                        rng.randrange(0, W[ov] + 1), 'net'))
            continue
        if style == 0 or r < 0.4:      # nested chain round ip (with host bits)
            p = rng.choice([0, 1, 2, w - 8, w - 4, w - 2, w - 1, w, rng.randrange(0, w + 1)])
            v = ipv if rng.random() < 0.6 else (ipv ^ rng.getrandbits(max(w - p, 1))) & m
        elif style == 1:               # neighbours: blocks just before/after the address
            p = rng.choice([w, w - 1, w - 2, w - 8, rng.randrange(0, w + 1)])
            h = 1 << (w - p)
            v = min(max(ipv + rng.choice([-1, 1, -h, h, -2 * h, 2 * h, 0]), 0), m)
        else:
            v, p = rand_block(rng, ver)
            if rng.random() < 0.5:
                v = min(max(ipv + rng.choice([0, 1, -1, 2, 7, 8, 255, 256, -256]), 0), m)
        p = min(max(p, 0), w)
        form = rng.choice(['net', 'net', 'net', 'addr', 'str', 'astr'])
        if form in ('addr', 'astr'):
            p = w
        out.append((ver, v, p, form))
    if out and rng.random() < 0.3:
        out.append(rng.choice(out))
    rng.shuffle(out)
    return out


def generate(rng, tier):
    mult = 1 if tier == 'quick' else 4
    cases = []
    for _ in range(9000 * mult):
        ver = rng.choice((4, 6))
        y = _rand_y(rng, ver)
        x = _rand_x(rng, y)
        mode = 'own' if rng.random() < 0.75 or y[0] == 'G' and False else 'mixin'
        form = 'obj'
        if mode == 'own' and x[0] in 'AN' and rng.random() < 0.3:
            # address strings for any container, CIDR strings for network containers
            if x[0] == 'A' or y[0] == 'N':
                form = 'str' if rng.random() < 0.6 else 'rstr'
            elif rng.random() < 0.15:
                form = 'rcidr'                      # CIDR text against a range / glob container
        elif mode == 'own' and x[0] == 'A' and rng.random() < 0.04:
            # a bare int: its family is read off its magnitude (IPAddress(int)) for a range container
            if not (x[1] == 6 and x[2] < (1 << 32)):
                form = 'rint'
        cases.append(_contains_case(mode, y, x, form))
    for _ in range(1500 * mult):
        ver = rng.choice((4, 6))
        w = W[ver]
        m = (1 << w) - 1
        hot = rng.choice([0, m, 1 << (w - 1), 0x0a000000, rand_value(rng, w)])
        ipv = min(m, max(0, hot + rng.choice([0, 1, -1, 5])))
        cands = _rand_cands(rng, ver, ipv)
        ipform = rng.choice(['obj', 'obj', 'str'])
        raw = rng.random() < 0.3
        for which in ('all', 'small', 'large'):
            cases.append(_match_case(which, ver, ipv, ipform, cands, raw))
    # long candidate lists (more candidates than there are prefix lengths): every supernet of the address, the
    # blocks of the *other* family whose integer bounds coincide with those supernets (::a.b.c.d/(96+p) against
    # a.b.c.d/p), near misses and duplicates, shuffled
    for _ in range(12 * mult):
        ver = rng.choice((4, 4, 6))
        w = W[ver]
        m = (1 << w) - 1
        ipv = rng.choice([rand_value(rng, 32), 0x0a030405, m if ver == 4 else rand_value(rng, 32), rand_value(rng, w)])
        ipv &= m
        cands = []
        for p in range(0, w + 1):
            if rng.random() < 0.8:
                cands.append((ver, ipv | rng.getrandbits(3) if p < w - 3 else ipv, p, 'net'))
        if ipv <= 0xffffffff:
            ov = 10 - ver
            for p in range(0, 33):
                if rng.random() < 0.7:
                    cands.append((ov, ipv, p + (96 if ov == 6 else 0), 'net') if ov == 6 else (ov, ipv, p, 'net'))
        for _k in range(rng.randrange(20, 90)):
            v, p = rand_block(rng, ver)
            cands.append((ver, v, p, 'net'))
            cands.append((ver, min(max(ipv + rng.choice([1, -1, 256, -256, 1 << 16]), 0), m), rng.choice([w, w - 1, w - 8]), 'net'))
        rng.shuffle(cands)
        for which in ('all', 'small', 'large'):
            c = _match_case(which, ver, ipv, 'obj', cands)
            c.tag = 'match-long/%s' % which
            cases.append(c)
    return cases


# ------------------------------------------------------------------ implementation

def _shown(n):
    return '%d:%d/%d' % (n.version, n.value, n.prefixlen)


def _cand_obj(c):
    ver, v, p, form = c
    if form == 'net':
        return common.make_net(ver, v, p)
    if form == 'addr':
        return IPAddress(v, ver)
    if form == 'astr':
        return _astr(ver, v)
    return '%s/%d' % (_astr(ver, v), p)


def impl(c):
    a = c.args
    try:
        if a[0] == 'contains':
            _, mode, y, x, form = a
            yo = _mk(y)
            xo = _xstr(x) if form == 'str' else (_raw_operand(x, form) if form in ('rstr', 'rint', 'rcidr') else _mk(x))
            if mode == 'own':
                r = xo in yo
            else:
                r = IPListMixin.__contains__(yo, xo)
            if r is not True and r is not False:
                return '!notbool:%r' % (r,)
            return tf(r)
        _, which, ver, ipv, ipform, cands = a
        ip = IPAddress(ipv, ver) if ipform == 'obj' else _astr(ver, ipv)
        # asked twice with freshly built candidates; the blocks of the first answer are moved in place in between
        if which == 'all':
            return plist(_shown(n) for n in common.twice(
                lambda: netaddr.all_matching_cidrs(ip, common.as_iterable([_cand_obj(k) for k in cands]))))
        f = netaddr.smallest_matching_cidr if which == 'small' else netaddr.largest_matching_cidr
        r = common.twice(lambda: [f(ip, common.as_iterable([_cand_obj(k) for k in cands]))])[0]
        return '-' if r is None else _shown(r)
    except Exception as e:
        return '!' + errname(e)


# ------------------------------------------------------------------ oracle

def _parse_shown(s):
    ver, rest = s.split(':')
    v, p = rest.split('/')
    return int(ver), int(v), int(p)


def oracle(c, got):
    a = c.args
    if a[0] == 'contains':
        _, mode, y, x, form = a
        yv, yf, yl = _span(y)
        xv, xf, xl = _span(x)
        exp = tf(xv == yv and yf <= xf and xl <= yl)
        if form in ('rint', 'rcidr') and got.startswith('!'):
            # outside the property's operand list (a bare int, a CIDR string against a range): refusing is allowed,
            # the correspondence with the model fixes what exactly happens
            return None
        if got != exp:
            return 'x in y gave %s; interval inclusion (ver %d [%d,%d] in ver %d [%d,%d]) is %s' % (
                got, xv, xf, xl, yv, yf, yl, exp)
        return None
    _, which, ver, ipv, ipform, cands = a
    if got.startswith('!'):
        return 'raised %s' % got
    match = []
    for (cv, v, p, form) in cands:
        f, l = _block(cv, v, p)
        if cv == ver and f <= ipv <= l:
            match.append((cv, v, p))
    if which == 'all':
        res = [_parse_shown(s) for s in got[1:-1].split(',')] if got != '[]' else []
        if sorted(res) != sorted(match):
            return 'all_matching_cidrs gave %s, the candidates containing the address are %s' % (got, sorted(match))
        pl = [r[2] for r in res]
        if pl != sorted(pl):
            return 'all_matching_cidrs result %s is not ordered from least to most specific' % got
        return None
    if not match:
        return None if got == '-' else '%s_matching gave %s but no candidate contains the address' % (which, got)
    if got == '-':
        return '%s_matching gave None but %s contain the address' % (which, sorted(match))
    r = _parse_shown(got)
    if r not in match:
        return '%s_matching gave %s which is not a candidate containing the address' % (which, got)
    want = max(m[2] for m in match) if which == 'small' else min(m[2] for m in match)
    if r[2] != want:
        return '%s_matching gave prefix %d, expected %d' % (which, r[2], want)
    return None


def equivalent(c, got, model):
    """order among candidates denoting the same block (same prefix, different host bits) and
    which of them smallest/largest returns is left open by the property"""
    if got == model:
        return True
    a = c.args
    if a[0] != 'match' or got.startswith('!') or model is None or model.startswith('!') or model.startswith('?'):
        return False
    try:
        if a[1] == 'all':
            g = [_parse_shown(s) for s in got[1:-1].split(',')] if got != '[]' else []
            m = [_parse_shown(s) for s in model[1:-1].split(',')] if model != '[]' else []
            return sorted(g) == sorted(m) and [x[2] for x in g] == [x[2] for x in m]
        if got == '-' or model == '-':
            return False
        g, m = _parse_shown(got), _parse_shown(model)
        return (g[0], _block(*g), g[2]) == (m[0], _block(*m), m[2])
    except Exception:
        return False


def repro(c):
    a = c.args
    if a[0] == 'contains':
        _, mode, y, x, form = a

        def src(o):
            if o[0] == 'A':
                return 'IPAddress(%d, %d)' % (o[2], o[1])
            if o[0] == 'N':
                return 'IPNetwork((%d, %d), version=%d)' % (o[2], o[3], o[1])
            if o[0] == 'R':
                return 'IPRange(IPAddress(%d, %d), IPAddress(%d, %d))' % (o[2], o[1], o[3], o[1])
            return 'IPGlob(%r)' % o[4]
        xs = repr(_xstr(x)) if form == 'str' else (repr(_raw_operand(x, form)) if form in ('rstr', 'rint', 'rcidr') else src(x))
        if mode == 'own':
            return '%s in %s' % (xs, src(y))
        return 'netaddr.ip.IPListMixin.__contains__(%s, %s)' % (src(y), xs)
    _, which, ver, ipv, ipform, cands = a
    fn = {'all': 'all_matching_cidrs', 'small': 'smallest_matching_cidr', 'large': 'largest_matching_cidr'}[which]
    items = []
    for (cv, v, p, form) in cands:
        if form == 'net':
            items.append('IPNetwork((%d, %d), version=%d)' % (v, p, cv))
        elif form == 'addr':
            items.append('IPAddress(%d, %d)' % (v, cv))
        elif form == 'astr':
            items.append(repr(_astr(cv, v)))
        else:
            items.append(repr('%s/%d' % (_astr(cv, v), p)))
    ip = 'IPAddress(%d, %d)' % (ipv, ver) if ipform == 'obj' else repr(_astr(ver, ipv))
    return 'netaddr.%s(%s, [%s])' % (fn, ip, ', '.join(items))
