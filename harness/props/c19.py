"""C19 — IANA and IEEE registry lookups are exact with respect to the shipped data.

Ops (driver side in lean/NetaddrVerif/Driver/C19.lean):
  iana_query ver val                     IPAddress(val, ver).info            (model: Registry.query over Gen.iana*)
  oui_index h:<hex> / iab_index h:<hex>  OUIIndexParser / IABIndexParser     (model: Registry.ouiIndex / iabIndex)
  ieee_lookup oui|iab key rows slices    OUI(key) / IAB(key << 12)           (model: Registry.ouiRecords / iabRecord)
  ieee_load oui|iab h:<hex>              create_index_from_registry + load_index (model: Registry.ouiPipeline / iabPipeline)
  ieee_genlookup oui|iab key h:<hex>     the same, then OUI(key) / IAB(key) reading that very text (index and registry
                                         file swapped in for the duration of the call)
  iana_query_obj A:..|N:..|R:..          .info of ANY BaseIP object (IPAddress / IPNetwork / IPRange)   (model: Registry.queryObjD)
  eui_info ver val h:<oui> h:<iab>       EUI(val, version=ver).oui / .iab / .info over a generated OUI registry and a generated
                                         IAB registry that are the registries of a fresh interpreter (model: Registry.euiOui /
                                         euiIab / euiInfo); the EUI objects come from common.make_eui, half of them built with
                                         ANOTHER registered value, read (.oui / .iab / .info), then moved (value setter or e[i] = w)
oracle-only: idxcheck (shipped index files against the loaded OUI_INDEX / IAB_INDEX and the text).

Independent side: the four IANA XML files are re-read with xml.etree and normalised with own
code (stdlib ipaddress for IPv6 prefixes); iab.idx / oui.idx are re-read as plain text; records of
iab.txt are re-read with regular expressions; generated registries carry their own structure
(identifier, record bytes) from which offsets and sizes are summed directly."""
import hashlib
import io
import zlib
import ipaddress
import os
import re
import xml.etree.ElementTree as ET

import common
from common import Case, errname, plist, hexs

import netaddr
from netaddr import IPAddress
from netaddr.core import Subscriber, NotRegisteredError
from netaddr.eui import ieee, OUI, IAB

ID = 'C19'
RULE = ('iana_query: every record of the four shipped IANA registries (independently re-read from the XML) at '
        'first-1, first, last, last+1, the multicast block edges, the same integers in the other family, family '
        'boundary values and random addresses; oui_index/iab_index: generated well-formed registries (1-30 records, '
        'LF/CRLF/mixed line ends, with/without header, duplicate identifiers, 0-6 address lines, blank and '
        'whitespace-only lines, non-ASCII bytes, optional missing final newline) and the shipped iab.txt as a whole; '
        'pipeline: a quarter of the generated registries also through create_index_from_registry + load_index (IAB records '
        'without a (base 16) line included: load_index must raise ValueError); genlookup: generated registries swapped in '
        'for the shipped ones, every identifier of the text and two absent ones looked up with OUI()/IAB(); '
        'ieee_lookup: every IAB key of iab.idx, 2500 sampled OUI keys of oui.idx, the duplicated identifiers, and '
        'unregistered neighbours; idxcheck: whole shipped index files; iana_query_obj: per registry record its own block (network '
        'or range), the block widened by one address at either end, sub-blocks, networks with host bits, supernets, /32 (/128) '
        'networks and one-address ranges at single-address records, ranges straddling the multicast block edges, the same '
        'integers in the other family, random blocks near records (objects from common.make_net / make_range / make_addr); '
        'eui_info: pairs of generated registries (OUI, IAB; the OUI text also carries the IAB prefixes for most pairs), EUI-48 '
        'and EUI-64 values under registered / unregistered OUIs and IABs, in and outside the two IAB ranges, every object '
        'from common.make_eui and half of them first built under another registered identifier, read, and moved by the value '
        'setter or by word assignment. non-trivial = distinct case whose '
        'implementation output is not an error (registered identifier, non-empty answer or parsed registry)')

PKG = os.path.dirname(netaddr.__file__)
NS = '{http://www.iana.org/assignments}'
TOPICS = ('IPv4', 'IPv6', 'IPv6_unicast', 'Multicast')
UKEY = {'IPv4': 'prefix', 'IPv6': 'prefix', 'IPv6_unicast': 'prefix', 'Multicast': 'address'}
M4 = (1 << 32) - 1
M6 = (1 << 128) - 1
MC_LO, MC_HI = 224 << 24, (240 << 24) - 1       # IPv4 multicast 224.0.0.0/4 (RFC 5771)

_D = {}


# ---------------------------------------------------------------- independent readers

def _text(el):
    return ''.join(el.itertext())


def _quad(s):
    parts = s.strip().split('.')
    if len(parts) != 4:
        raise ValueError('not a dotted quad: %r' % s)
    v = 0
    for p in parts:
        o = int(p)
        if not 0 <= o <= 255:
            raise ValueError(s)
        v = (v << 8) | o
    return v, '.'.join(str(int(p)) for p in parts)


def _xml_tables():
    """{topic: [(lo, hi, keytext)]} straight from the XML files (own normalisation)"""
    if 'xml' in _D:
        return _D['xml']
    T = {}
    rows = []
    for r in ET.parse(os.path.join(PKG, 'ip', 'ipv4-address-space.xml')).getroot().iter(NS + 'record'):
        e = r.find(NS + 'prefix')
        octet, plen = _text(e).strip().split('/')
        octet, plen = int(octet), int(plen)
        size = 1 << (32 - plen)
        lo = ((octet << 24) // size) * size
        rows.append((lo, lo + size - 1, '%d/%d' % (octet, plen)))
    T['IPv4'] = rows
    for topic, fn in (('IPv6', 'ipv6-address-space.xml'), ('IPv6_unicast', 'ipv6-unicast-address-assignments.xml')):
        rows = []
        for r in ET.parse(os.path.join(PKG, 'ip', fn)).getroot().iter(NS + 'record'):
            p = _text(r.find(NS + 'prefix')).strip()
            n = ipaddress.IPv6Network(p, strict=False)
            rows.append((int(n.network_address), int(n.broadcast_address), p))
        T[topic] = rows
    rows = []
    for r in ET.parse(os.path.join(PKG, 'ip', 'multicast-addresses.xml')).getroot().iter(NS + 'record'):
        e = r.find(NS + 'addr')
        if e is None:
            continue
        a = _text(e)
        if '-' in a:
            x, y = a.split('-')
            (lo, ls), (hi, hs) = _quad(x), _quad(y)
            rows.append((lo, hi, ls + '-' + hs))
        else:
            lo, ls = _quad(a)
            rows.append((lo, lo, ls))
    T['Multicast'] = rows
    _D['xml'] = T
    return T


def _read_idx(name):
    """rows (key, offset, size) of a shipped index file, read as plain text"""
    if name in _D:
        return _D[name]
    rows = []
    with open(os.path.join(PKG, 'eui', name), 'rb') as f:
        for ln in f.read().decode('ascii').split('\n'):
            if ln.strip():
                k, o, s = ln.strip().split(',')
                rows.append((int(k), int(o), int(s)))
    _D[name] = rows
    return rows


def _read_txt(name):
    if name not in _D:
        with open(os.path.join(PKG, 'eui', name), 'rb') as f:
            _D[name] = f.read()
    return _D[name]


def _by_key(rows):
    d = {}
    for k, o, s in rows:
        d.setdefault(k, []).append((o, s))
    return d


def _idx_by_key(kind):
    if ('bk', kind) not in _D:
        _D[('bk', kind)] = _by_key(_read_idx(kind + '.idx'))
    return _D[('bk', kind)]


def _regex_rows_cached(kind):
    if ('rx', kind) not in _D:
        _D[('rx', kind)] = _regex_rows(_read_txt(kind + '.txt'), kind)
    return _D[('rx', kind)]


_HEXLINE = re.compile(rb'^[^\n]*\(hex\)[^\n]*(?:\n|\Z)', re.M)


def _regex_rows(data, kind):
    """independent reading of a registry text: records start at lines containing (hex)"""
    starts = [m.start() for m in _HEXLINE.finditer(data)]
    rows = []
    for i, st in enumerate(starts):
        en = starts[i + 1] if i + 1 < len(starts) else len(data)
        rec = data[st:en]
        m = re.match(rb'\s*([0-9A-Fa-f]{2})-([0-9A-Fa-f]{2})-([0-9A-Fa-f]{2})\s', rec)
        key = None
        if m:
            p = int(m.group(1) + m.group(2) + m.group(3), 16)
            if kind == 'oui':
                key = p
            else:
                b = re.search(rb'(?m)^\s*([0-9A-Fa-f]{6})-[0-9A-Fa-f]{6}\s+\(base 16\)', rec)
                if b:
                    key = (p << 12) | (int(b.group(1), 16) >> 12)
        rows.append((key, st, en - st))
    return rows


_WS = (' \t\n\r\x0b\x0c\x1c\x1d\x1e\x1f\x85\xa0\u1680\u2028\u2029\u202f\u205f\u3000' +
       ''.join(chr(c) for c in range(0x2000, 0x200b)))


def _ref_record(text):
    """independent reading of one registry record (str): (org or None, address lines)"""
    org = None
    addr = []
    for ln in text.split('\n'):
        ln = ln.strip(_WS)
        if not ln:
            continue
        if '(hex)' in ln:
            m = re.match(r'[^%s]+[%s]+[^%s]+[%s]+(.*)\Z' % ((re.escape(_WS),) * 4), ln, re.S)
            org = m.group(1) if m else '!index'
        elif '(base 16)' in ln:
            pass
        else:
            addr.append(ln)
    return org, addr


# ---------------------------------------------------------------- case builders

def _iana_case(ver, v, tag):
    return Case('iana_query %d %d' % (ver, v), 'iana/' + tag, ('iana', ver, v))


def _hexline(data):
    return 'h:' + data.hex()


def _idx_case(kind, header, recs, tag):
    """recs: tuple of (key, record bytes)"""
    data = header + b''.join(r for _, r in recs)
    return Case('%s_index %s' % (kind, _hexline(data)), 'index/%s/%s' % (kind, tag), ('index', kind, header, tuple(recs)))


def _pipeline_case(c):
    """the same generated registry through create_index_from_registry + load_index (oracle-only)"""
    _, kind, header, recs = c.args
    data = header + b''.join(r for _, r in recs)
    return Case('ieee_load %s %s' % (kind, _hexline(data)), c.tag.replace('index/', 'pipeline/'), ('pipeline', kind, header, recs))


def _genlookup_cases(rng, c):
    """every identifier of a generated registry (and two absent ones) looked up through index + load + seek/read"""
    _, kind, header, recs = c.args
    data = header + b''.join(r for _, r in recs)
    keys = []
    for k, _r in recs:
        if k not in keys:
            keys.append(k)
    if any(isinstance(k, str) for k in keys):
        keys = keys[:1]                      # load_index raises: one lookup is enough
        keys = [k if isinstance(k, int) else 0 for k in keys]
    ints = [k for k in keys if isinstance(k, int)]
    if kind == 'iab':
        ints = [k for k in ints if (k >> 12) in (0x0050c2, 0x40d855)]
        absent = [(0x0050c2 << 12) | rng.getrandbits(12), (0x40d855 << 12) | rng.getrandbits(12)]
    else:
        absent = [rng.getrandbits(24), (ints[0] ^ 1) if ints else 0]
    out = []
    for k in ints[:6] + absent:
        present = any(k == kk for kk, _ in recs)
        out.append(Case('ieee_genlookup %s %d %s' % (kind, k, _hexline(data)),
                        c.tag.replace('index/', 'genlookup/') + ('/hit' if present else '/miss'),
                        ('genlookup', kind, header, recs, k)))
    return out


def _lookup_case(kind, key, tag, spelling='int'):
    rows = _idx_by_key(kind).get(key, [])
    text = _read_txt(kind + '.txt')
    use = rows if kind == 'oui' else rows[:1]
    sl = ['%d:%d:%s' % (o, s, text[o:o + s].hex()) for o, s in use]
    line = 'ieee_lookup %s %d %s %s' % (kind, key, plist(['%d:%d:%d' % (key, o, s) for o, s in rows]), plist(sl))
    return Case(line, 'lookup/%s/%s/%s' % (kind, tag, spelling), ('lookup', kind, key, spelling))


def _obj_tok(kind, ver, x, y):
    if kind == 'A':
        return 'A:%d:%d' % (ver, x)
    return '%s:%d:%d:%d' % (kind, ver, x, y)


def _ianaobj_case(kind, ver, x, y, tag):
    return Case('iana_query_obj ' + _obj_tok(kind, ver, x, y), 'ianaobj/%s/%s' % (kind, tag), ('ianaobj', kind, ver, x, y))


def _obj_bounds(kind, ver, x, y):
    """first, last of the operand from its integers"""
    if kind == 'A':
        return x, x
    if kind == 'R':
        return x, y
    w = 32 if ver == 4 else 128
    size = 1 << (w - y)
    first = x // size * size
    return first, first + size - 1


def _block_as_obj(ver, lo, hi):
    """the block lo..hi as a network when it is one, else as a range"""
    w = 32 if ver == 4 else 128
    size = hi - lo + 1
    if size & (size - 1) == 0 and lo % size == 0:
        return ('N', ver, lo, w - (size.bit_length() - 1))
    return ('R', ver, lo, hi)


def _ianaobj_cases(rng, mult):
    T = _xml_tables()
    out = []

    def add(kind, ver, x, y, tag):
        m = M4 if ver == 4 else M6
        w = 32 if ver == 4 else 128
        if kind == 'N':
            if 0 <= x <= m and 0 <= y <= w:
                out.append(_ianaobj_case(kind, ver, x, y, tag))
        elif kind == 'R':
            if 0 <= x <= y <= m:
                out.append(_ianaobj_case(kind, ver, x, y, tag))
        elif 0 <= x <= m:
            out.append(_ianaobj_case('A', ver, x, 0, tag))

    for topic, ver in (('IPv4', 4), ('Multicast', 4), ('IPv6', 6), ('IPv6_unicast', 6)):
        w = 32 if ver == 4 else 128
        for lo, hi, _k in T[topic]:
            variants = []
            kind, _v, bx, by = _block_as_obj(ver, lo, hi)
            variants.append((kind, bx, by, 'own-block'))
            variants.append(('R', lo, hi, 'own-range'))
            variants.append(('R', lo - 1, hi, 'first-1'))
            variants.append(('R', lo, hi + 1, 'last+1'))
            variants.append(('R', lo + (1 if hi > lo else 0), hi, 'inner-range'))
            variants.append(('N', lo, w, 'host-net-at-first'))
            variants.append(('N', hi, w, 'host-net-at-last'))
            variants.append(('R', hi, hi, 'one-address-range'))
            variants.append(('A', lo, 0, 'address-at-first'))
            if kind == 'N':
                variants.append(('N', rng.randint(lo, hi), by, 'own-block-host-bits'))
                if by > 0:
                    variants.append(('N', lo, by - 1, 'supernet'))
                if by < w:
                    variants.append(('N', rng.randint(lo, hi), rng.randint(by + 1, w), 'subnet'))
            else:
                a = rng.randint(lo, hi)
                variants.append(('R', a, rng.randint(a, hi), 'sub-range'))
            for k, x, y, tag in rng.sample(variants, min(len(variants), 2 + mult)):
                add(k, ver, x, y, topic + '/' + tag)
    for x, y, tag in ((MC_LO - 1, MC_LO, 'straddle-low'), (MC_LO, MC_HI, 'whole'), (MC_HI, MC_HI + 1, 'straddle-high'),
                      (MC_LO, MC_LO, 'low'), (MC_HI, MC_HI, 'high'), (MC_LO - 1, MC_HI + 1, 'around'), (0, M4, 'everything')):
        add('R', 4, x, y, 'mcast-edge/' + tag)
    for x, y in ((MC_LO, 4), (MC_LO, 3), (MC_LO, 5), (MC_HI, 4), (MC_HI, 32), (MC_LO, 32), (MC_LO - 1, 32), (MC_HI + 1, 32), (0, 0)):
        add('N', 4, x, y, 'mcast-edge/net')
    add('N', 6, 0, 0, 'everything')
    add('R', 6, 0, M6, 'everything')
    # the same integers in the other family, and random blocks near records
    for _ in range(150 * mult):
        topic = rng.choice(('IPv4', 'Multicast', 'Multicast', 'IPv6', 'IPv6_unicast'))
        ver = 4 if topic in ('IPv4', 'Multicast') else 6
        w = 32 if ver == 4 else 128
        lo, hi, _k = rng.choice(T[topic])
        size = hi - lo + 1
        near = (lo, w - (size.bit_length() - 1))
        v, p = common.rand_block(rng, ver, near)
        add('N', ver, v, p, 'near/' + topic)
        a, b = sorted((rng.randint(max(0, lo - 3), hi + 3), rng.randint(max(0, lo - 3), hi + 3)))
        add('R', ver, a, b, 'near/' + topic)
        if ver == 4:
            add('R', 6, lo, hi, 'v4-int-as-v6')
        elif hi <= M4:
            add('R', 4, lo, hi, 'v6-int-as-v4')
    for ver, w in ((4, 32), (6, 128)):
        for _ in range(100 * mult):
            v, p = common.rand_block(rng, ver)
            add('N', ver, v, p, 'random')
            a, b = sorted((rng.getrandbits(w), rng.getrandbits(w)))
            add('R', ver, a, b, 'random')
    return out


def _simple_rec(rng, kind, key):
    """a plain well-formed record for identifier `key` (OUI: 24 bits; IAB: 36 bits)"""
    eol = rng.choice((b'\n', b'\r\n'))
    org = _phrase(rng, 1, 3)
    while b'(hex)' in org or b'(base 16)' in org:
        org = _phrase(rng, 1, 3)
    if kind == 'oui':
        p = key
        b16 = ('%06X' % p).encode()
    else:
        p, x = key >> 12, key & 0xfff
        b16 = ('%03X000-%03XFFF' % (x, x)).encode()
    ids = ('%02X-%02X-%02X' % (p >> 16, (p >> 8) & 0xff, p & 0xff)).encode()
    lines = [ids + b'   (hex)\t\t' + org, b16 + b'     (base 16)\t\t' + org]
    for _ in range(rng.randint(0, 3)):
        a = _phrase(rng, 1, 4)
        while b'(hex)' in a or b'(base 16)' in a:
            a = _phrase(rng, 1, 4)
        lines.append(b'\t\t\t\t' + a)
    lines.append(b'')
    return (key, b''.join(l + eol for l in lines))


IAB_PREFIXES = (0x0050c2, 0x40d855)


def _euiinfo_cases(rng):
    """one pair of generated registries and the EUI questions asked of it"""
    co = _gen_registry(rng, 'oui')
    ci = _gen_registry(rng, 'iab', iabpref=True)
    oh, orecs = co.args[2], list(co.args[3])
    ih, irecs = ci.args[2], list(ci.args[3])
    mode = rng.randrange(4)          # 0: the OUI text knows neither IAB prefix; 1, 2: one of them; 3: both
    for i, pfx in enumerate(IAB_PREFIXES):
        if (mode >> i) & 1:
            for _ in range(rng.choice((1, 1, 2))):
                orecs.insert(rng.randint(0, len(orecs)), _simple_rec(rng, 'oui', pfx))
        else:
            orecs = [(k, r) for k, r in orecs if k != pfx]
    if not orecs:
        orecs = [_simple_rec(rng, 'oui', rng.getrandbits(24))]
    if not any((k >> 12) in IAB_PREFIXES for k, _ in irecs):
        irecs.append(_simple_rec(rng, 'iab', (rng.choice(IAB_PREFIXES) << 12) | rng.getrandbits(12)))
    # only the last record of a text may lack its final newline
    orecs = [(k, r if r.endswith(b'\n') or i == len(orecs) - 1 else r + b'\n') for i, (k, r) in enumerate(orecs)]
    irecs = [(k, r if r.endswith(b'\n') or i == len(irecs) - 1 else r + b'\n') for i, (k, r) in enumerate(irecs)]
    okeys = []
    for k, _r in orecs:
        if k not in okeys:
            okeys.append(k)
    ikeys = []
    for k, _r in irecs:
        if (k >> 12) in IAB_PREFIXES and k not in ikeys:
            ikeys.append(k)

    def eui_under(ver, ident, bits):
        return (ident << (ver - bits)) | rng.getrandbits(ver - bits)

    qs = []          # (ver, value, tag)
    for ver in (48, 64):
        for k in rng.sample(okeys, min(len(okeys), 3)):
            qs.append((ver, eui_under(ver, k, 24), 'oui-registered'))
        for k in rng.sample(ikeys, min(len(ikeys), 3)):
            qs.append((ver, eui_under(ver, k, 36), 'iab-registered'))
        for pfx in IAB_PREFIXES:
            qs.append((ver, eui_under(ver, (pfx << 12) | rng.getrandbits(12), 36), 'iab-range'))
        qs.append((ver, eui_under(ver, rng.getrandbits(24), 24), 'random-oui'))
        if okeys:
            qs.append((ver, eui_under(ver, okeys[0] ^ (1 << rng.randrange(24)), 24), 'oui-one-bit-off'))
        if ikeys:
            qs.append((ver, eui_under(ver, ikeys[0] ^ (1 << rng.randrange(12)), 36), 'iab-one-bit-off'))
    # where the lived-in objects come from: EUIs under OTHER registered identifiers
    homes = {48: [], 64: []}
    for ver in (48, 64):
        for k in okeys:
            homes[ver].append(eui_under(ver, k, 24))
        for k in ikeys:
            homes[ver].append(eui_under(ver, k, 36))
    out = []
    od = oh + b''.join(r for _, r in orecs)
    idt = ih + b''.join(r for _, r in irecs)
    for n, (ver, v, tag) in enumerate(qs):
        prev, route = None, 0
        if rng.random() < 0.5 and homes[ver]:
            prev = rng.choice(homes[ver])
            route = rng.randrange(2)
        line = 'eui_info %d %d %s %s' % (ver, v, _hexline(od), _hexline(idt))
        out.append(Case(line, 'euiinfo/eui%d/%s/%s' % (ver, tag, 'fresh' if prev is None else ('moved-by-setter', 'moved-by-words')[route]),
                        ('euiinfo', ver, v, prev, route, oh, tuple(orecs), ih, tuple(irecs))))
    return out


def corpus():
    cs = []
    for ver, v in ((4, 0), (4, M4), (4, MC_LO), (4, MC_LO - 1), (4, MC_HI), (4, MC_HI + 1), (4, (224 << 24) + 0x1ff),
                   (4, (224 << 24) + 0x200), (4, 0x0a000001), (6, 0), (6, 1), (6, M6), (6, 0x20010db8 << 96),
                   (6, MC_LO), (6, 0xff << 120), (6, (0xff << 120) - 1)):
        cs.append(_iana_case(ver, v, 'corpus'))
    # the sample of netaddr's own IEEE tests, LF and CRLF
    for eol in (b'\n', b'\r\n'):
        rec = eol.join([b'00-CA-FE   (hex)\t\tACME CORPORATION', b'00CAFE     (base 16)\t\tACME CORPORATION',
                        b'\t\t\t\t1 MAIN STREET', b'\t\t\t\tSPRINGFIELD', b'\t\t\t\tUNITED STATES', b''])
        cs.append(_idx_case('oui', b'', ((0xcafe, rec),), 'corpus'))
        cs.append(_idx_case('oui', b'OUI\t\t\t\tOrganization' + eol + eol, ((0xcafe, rec), (0xcafe, rec)), 'corpus'))
        rec = eol.join([b'00-50-C2   (hex)\t\tACME CORPORATION', b'ABC000-ABCFFF     (base 16)\t\tACME CORPORATION',
                        b'\t\t\t\t1 MAIN STREET', b'\t\t\t\tSPRINGFIELD', b'\t\t\t\tUNITED STATES', b''])
        cs.append(_idx_case('iab', b'', ((0x0050c2abc, rec),), 'corpus'))
    # .info of blocks: a /32 and a one-address range at a single-address multicast record (224.0.0.1), the multicast
    # block itself and ranges straddling its edges, a network with host bits inside 10/8
    for kind, ver, x, y in (('N', 4, MC_LO + 1, 32), ('R', 4, MC_LO + 1, MC_LO + 1), ('A', 4, MC_LO + 1, 0), ('N', 4, MC_LO, 4),
                            ('R', 4, MC_LO - 1, MC_LO), ('R', 4, MC_HI, MC_HI + 1), ('N', 4, 0x0a010203, 8), ('N', 4, 0x0a010203, 7),
                            ('N', 6, 0x20010db8 << 96, 32), ('R', 6, 0, M6), ('N', 4, 0, 0)):
        cs.append(_ianaobj_case(kind, ver, x, y, 'corpus'))
    return cs


_WORDS = [b'ACME', b'CORPORATION', b'GmbH', b'Ltd.', b'Stra\xc3\x9fe', b'12', b'St.', b'\xe6\xa0\xaa\xe5\xbc\x8f', b'(base', b'16)',
          b'hex', b'(hex', b'hex)', b'P.O.', b'Box', b'CA', b'94043', b'-', b'00-00-00', b'#', b'\xc2\xa0x', b'a\rb',
          # characters that str.splitlines() treats as line boundaries but the registry format (lines end in LF) does not
          b'v\x0bt', b'f\x0cf', b'f\x1cs', b'g\x1ds', b'r\x1es', b'n\xc2\x85l', b'l\xe2\x80\xa8s', b'p\xe2\x80\xa9s']
_HEADERS = [b'OUI/MA-L\t\t\tOrganization', b'company_id\t\t\tOrganization', b'\t\t\t\tAddress', b'', b'   ',
            b'Generated: Mon, 01 Jan 2024', b'IAB Range\t\tOrganization', b'note (base 16) values', b'( hex )', b'(HEX)']


def _phrase(rng, lo, hi):
    return b' '.join(rng.choice(_WORDS) for _ in range(rng.randint(lo, hi)))


def _gen_registry(rng, kind, nobase16=False, iabpref=False):
    mode = rng.choice(('lf', 'crlf', 'mixed'))

    def eol():
        if mode == 'lf':
            return b'\n'
        if mode == 'crlf':
            return b'\r\n'
        return rng.choice((b'\n', b'\r\n'))

    def gap():
        return rng.choice((b' ', b'   ', b'\t', b'\t\t', b'     '))

    header = b''
    with_header = rng.random() < 0.5
    if with_header:
        for _ in range(rng.randint(1, 5)):
            header += rng.choice(_HEADERS) + eol()
    n = rng.choice((1, 1, 2, 3, rng.randint(1, 30), rng.randint(1, 30)))
    pool = [rng.choice((0, 0xffffff, 0x0050c2, 0x40d855, rng.getrandbits(24), rng.getrandbits(8), rng.getrandbits(16)))
            for _ in range(max(1, n // 2))]
    sufpool = [rng.choice((0, 0xfff, rng.getrandbits(12))) for _ in range(3)]
    recs = []
    for _ in range(n):
        p = rng.choice(pool) if rng.random() < 0.4 else rng.choice((rng.getrandbits(24), rng.getrandbits(24), 0, 0xffffff, 0x0050c2))
        if iabpref and rng.random() < 0.8:
            p = rng.choice((0x0050c2, 0x40d855))
        ids = '%02X-%02X-%02X' % (p >> 16, (p >> 8) & 0xff, p & 0xff)
        if rng.random() < 0.15:
            ids = ids.lower()
        org = _phrase(rng, 1, 4)
        while b'(hex)' in org or b'(base 16)' in org:
            org = _phrase(rng, 1, 4)
        if rng.random() < 0.05:
            org += b' (hex) again'            # the marker twice on the record's first line
        lead = rng.choice((b'', b'', b'', b' ', b'\t'))
        lines = [lead + ids.encode() + gap() + b'(hex)' + gap() + org]
        nad = rng.choice((0, 1, 2, 3, 4, 5, 6))
        addr = []
        for _ in range(nad):
            r = rng.random()
            if r < 0.12:
                addr.append(b'')
            elif r < 0.2:
                addr.append(rng.choice((b' ', b'\t\t', b' \t ')))
            else:
                a = _phrase(rng, 1, 5)
                while b'(hex)' in a or (b'(base 16)' in a and kind == 'iab'):
                    a = _phrase(rng, 1, 5)
                addr.append(rng.choice((b'\t\t\t\t', b'    ', b'')) + a + rng.choice((b'', b'', b'  ')))
        if kind == 'oui':
            key = p
            if rng.random() < 0.85:
                lines.append(('%06X' % p).encode() + gap() + b'(base 16)' + gap() + org.replace(b'(hex)', b'hex'))
            lines += addr
        else:
            x = rng.choice(sufpool) if rng.random() < 0.4 else rng.getrandbits(12)
            key = (p << 12) | x
            low = rng.choice((0, 0, 0, rng.getrandbits(12)))
            tok = '%03X%03X-%03XFFF' % (x, low, x)
            if rng.random() < 0.15:
                tok = tok.lower()
            b16 = rng.choice((b'', b'', b' ')) + tok.encode() + gap() + b'(base 16)' + gap() + org.replace(b'(hex)', b'hex')
            pos = 0 if rng.random() < 0.8 else rng.randint(0, len(addr))
            if nobase16 and rng.random() < 0.4:
                # no (base 16) line: the parser leaves the first token (bytes) as the row key
                key = 'raw' + (lead + ids.encode()).split()[0].hex()
                lines += addr
            else:
                lines += addr[:pos] + [b16] + addr[pos:]
        if rng.random() < 0.7:
            lines.append(b'')
        recs.append((key, b''.join(l + eol() for l in lines)))
    if rng.random() < 0.15:
        key, last = recs[-1]
        if last.endswith(b'\r\n') and rng.random() < 0.5:
            last = last[:-2]
        else:
            last = last[:-1]
        if b'(hex)' in last:        # still a record
            recs[-1] = (key, last)
    tag = '%s/%s/%s' % (mode, 'hdr' if with_header else 'nohdr', 'n1' if n == 1 else ('n2-5' if n <= 5 else 'n6-30'))
    if any(isinstance(k, str) for k, _ in recs):
        tag += '/nobase16'
    return _idx_case(kind, header, tuple(recs), tag)


def _breakpoints():
    T = _xml_tables()
    pts = {4: {}, 6: {}}

    def add(ver, v, tag):
        if 0 <= v <= (M4 if ver == 4 else M6):
            pts[ver].setdefault(v, tag)

    for topic, ver in (('IPv4', 4), ('Multicast', 4), ('IPv6', 6), ('IPv6_unicast', 6)):
        for lo, hi, _ in T[topic]:
            add(ver, lo - 1, topic + '/first-1')
            add(ver, lo, topic + '/first')
            add(ver, hi, topic + '/last')
            add(ver, hi + 1, topic + '/last+1')
    for v in (MC_LO - 1, MC_LO, MC_HI, MC_HI + 1):
        add(4, v, 'mcast-edge')
    return pts


def generate(rng, tier):
    mult = 1 if tier == 'quick' else 4
    cases = []
    pts = _breakpoints()
    for ver in (4, 6):
        for v, tag in sorted(pts[ver].items()):
            cases.append(_iana_case(ver, v, tag))
    # the same integers in the other family, boundary values, random
    v4pts = sorted(pts[4])
    for v in rng.sample(v4pts, min(len(v4pts), 150 * mult)):
        cases.append(_iana_case(6, v, 'v4-int-as-v6'))
    for v in sorted(pts[6]):
        if v <= M4:
            cases.append(_iana_case(4, v, 'v6-int-as-v4'))
    for ver, m in ((4, M4), (6, M6)):
        w = 32 if ver == 4 else 128
        for v in (0, 1, m, m - 1, 1 << (w - 1), (1 << (w - 1)) - 1):
            cases.append(_iana_case(ver, v, 'boundary'))
        for _ in range(600 * mult):
            cases.append(_iana_case(ver, rng.getrandbits(w), 'random'))
    T = _xml_tables()
    for _ in range(800 * mult):              # random addresses inside random records
        topic = rng.choice(('IPv4', 'Multicast', 'Multicast', 'IPv6', 'IPv6_unicast'))
        lo, hi, _k = rng.choice(T[topic])
        cases.append(_iana_case(4 if topic in ('IPv4', 'Multicast') else 6, rng.randint(lo, hi), 'inside/' + topic))
    # generated registries
    for i in range(600 * mult):
        for kind in ('oui', 'iab'):
            c = _gen_registry(rng, kind, nobase16=(kind == 'iab' and i % 10 == 3), iabpref=(kind == 'iab' and i % 6 == 1))
            cases.append(c)
            if i % 4 == 0 or i % 10 == 3:
                cases.append(_pipeline_case(c))
            if i % 60 == 1 or i % 200 == 3:       # each such registry costs one fresh interpreter (see _genlookup)
                cases += _genlookup_cases(rng, c)
    # .info of blocks
    cases += _ianaobj_cases(rng, mult)
    # EUI.oui / .iab / .info over pairs of generated registries (one fresh interpreter per pair)
    for _ in range(6 * mult):
        cases += _euiinfo_cases(rng)
    # lookups against the shipped indices
    for kind, bits in (('iab', 36), ('oui', 24)):
        rows = _read_idx(kind + '.idx')
        keys = sorted(set(k for k, _, _ in rows))
        bk = _idx_by_key(kind)
        dups = [k for k in keys if len(bk[k]) > 1]
        n = len(keys) if kind == 'iab' else min(len(keys), 2500 * mult)
        pick = rng.sample(keys, n)
        for k in pick:
            cases.append(_lookup_case(kind, k, 'registered', 'str' if rng.random() < 0.25 else 'int'))
        for k in dups + [keys[0], keys[-1]]:
            cases.append(_lookup_case(kind, k, 'dup-or-edge'))
        for off, (ok, ik) in sorted(_collisions().items()):
            cases.append(_lookup_case(kind, ok if kind == 'oui' else ik, 'offset-shared-with-other-registry'))
        keyset = set(keys)
        un = []
        for k in rng.sample(keys, min(len(keys), 150 * mult)):
            un += [k - 1, k + 1]
        if kind == 'iab':
            un += [(0x0050c2 << 12) | rng.getrandbits(12) for _ in range(40 * mult)]
            un += [(0x40d855 << 12) | rng.getrandbits(12) for _ in range(40 * mult)]
            un = [k for k in un if (k >> 12) in (0x0050c2, 0x40d855)]
        else:
            un += [0, 0xffffff] + [rng.getrandbits(24) for _ in range(60 * mult)]
            un = [k for k in un if 0 <= k <= 0xffffff]
        for k in un:
            cases.append(_lookup_case(kind, k, 'registered' if k in keyset else 'unregistered'))
    # whole shipped files (kept last: their protocol lines are megabytes)
    cases.append(Case(None, 'idxcheck/oui', ('idxcheck', 'oui')))
    cases.append(Case(None, 'idxcheck/iab', ('idxcheck', 'iab')))
    for kind in ('iab', 'oui'):
        data = _read_txt(kind + '.txt')
        if data:
            note = ('the whole shipped %s.txt (%d bytes, sha1 %s) through the index parser; the rows must equal '
                    '%s.idx row for row' % (kind, len(data), hashlib.sha1(data).hexdigest(), kind))
            cases.append(Case('%s_index %s' % (kind, _hexline(data)), 'index/%s/shipped-file' % kind, ('file', kind, note)))
    return cases


# ---------------------------------------------------------------- implementation side

class _Collect(Subscriber):
    def __init__(self):
        self.rows = []

    def update(self, data):
        self.rows.append(list(data))


def _peeked(data):
    """a binary handle on the registry text of which the caller has already read some header lines
    (never a record line): 0 lines for half of the texts, else 1, 2 or all of them.  The documented row
    offsets are relative to the start of the file, wherever the handle stood when parse() began."""
    fh = io.BytesIO(data)
    h = zlib.crc32(data)
    if h & 1:
        for _ in range((1, 2, 1 << 30)[(h >> 1) % 3]):
            pos = fh.tell()
            line = fh.readline()
            if not line or b'(hex)' in line:
                fh.seek(pos)
                break
    return fh


def _run_parser(kind, data):
    klass = ieee.OUIIndexParser if kind == 'oui' else ieee.IABIndexParser
    c = _Collect()
    p = klass(_peeked(data))
    p.attach(c)
    try:
        p.parse()
    except Exception as e:
        en = errname(e)
        return '!' + ('other' if en.startswith('other') else en)
    out = []
    for k, o, s in c.rows:
        ks = ('raw' + bytes(k).hex()) if isinstance(k, (bytes, bytearray)) else str(int(k))
        out.append('%s:%d:%d' % (ks, o, s))
    return plist(out)


def _norm_key(topic, text):
    """own reading of a returned record's prefix/address text -> 'lo-hi' (identity of the record
    at the level the property speaks: its published block or range)"""
    try:
        text = str(text).strip()
        if topic == 'IPv4':
            octet, plen = text.split('/')
            size = 1 << (32 - int(plen))
            lo = ((int(octet) << 24) // size) * size
            return '%d-%d' % (lo, lo + size - 1)
        if topic in ('IPv6', 'IPv6_unicast'):
            n = ipaddress.IPv6Network(text, strict=False)
            return '%d-%d' % (int(n.network_address), int(n.broadcast_address))
        if '-' in text:
            x, y = text.split('-')
            return '%d-%d' % (_quad(x)[0], _quad(y)[0])
        v = _quad(text)[0]
        return '%d-%d' % (v, v)
    except Exception:
        return 'unreadable:' + str(text)


def _idmaps():
    if 'idmaps' in _D:
        return _D['idmaps']
    from netaddr.ip import iana
    m = {}
    for topic, dk in (('IPv4', 'IPv4'), ('IPv6', 'IPv6'), ('IPv6_unicast', 'IPv6_unicast'), ('Multicast', 'multicast')):
        m[topic] = dict((rec[UKEY[topic]], i) for i, rec in enumerate(iana.IANA_INFO[dk].values()))
    _D['idmaps'] = m
    return m


def _oui_str(key):
    return '%02X-%02X-%02X' % (key >> 16, (key >> 8) & 0xff, key & 0xff)


def _iab_str(key):
    v = key << 12
    return '-'.join('%02X' % ((v >> sh) & 0xff) for sh in (40, 32, 24, 16, 8, 0))


def _collisions():
    """byte offsets that start a record in both shipped registries -> (oui key, iab key)"""
    if 'coll' not in _D:
        o = {}
        for k, off, _s in _read_idx('oui.idx'):
            o.setdefault(off, k)
        _D['coll'] = {off: (o[off], k) for k, off, _s in _read_idx('iab.idx') if off in o}
    return _D['coll']


def _neighbour_lookup(kind, key):
    """the two registries are separate files: what was read from one must not colour what is read from
    the other.  Before a lookup whose record starts at a byte offset that also starts a record of the
    *other* registry, look that other identifier up (and, for every 8th lookup, some identifier of the
    other registry anyway)."""
    rows = _idx_by_key(kind).get(key, [])
    coll = _collisions()
    other = None
    for off, _s in rows:
        if off in coll:
            other = coll[off][1 if kind == 'oui' else 0]
            break
    if other is None and key % 8 == 0:
        ks = _D.setdefault(('keys', kind), sorted(_idx_by_key('iab' if kind == 'oui' else 'oui')))
        other = ks[key % len(ks)] if ks else None
    if other is None:
        return
    try:
        if kind == 'oui':
            IAB(other << 12).registration()
        else:
            o = OUI(other)
            [o.registration(i) for i in range(o.reg_count)]
    except Exception:
        pass


class _Resources(object):
    """stands in for netaddr.eui's importlib resources handle: the registry text of `kind` is `data`"""
    def __init__(self, real, name, data):
        self.real, self.name, self.data = real, name, data

    def open_binary(self, package, name):
        if name == self.name:
            return io.BytesIO(self.data)
        return self.real.open_binary(package, name)


def _genlookup_here(kind, data, key):
    """index `data` with netaddr's parser, load the index with load_index, make that index and text the
    registry of `kind` for the duration of one OUI(key) / IAB(key) call, and restore everything"""
    import netaddr.eui as E
    out = io.StringIO()
    new = {}
    try:
        ieee.create_index_from_registry(_peeked(data), out, ieee.OUIIndexParser if kind == 'oui' else ieee.IABIndexParser)
        ieee.load_index(new, io.BytesIO(out.getvalue().encode('utf-8')))
    except Exception as e:
        en = errname(e)
        return '!' + ('other' if en.startswith('other') else en)
    live = ieee.OUI_INDEX if kind == 'oui' else ieee.IAB_INDEX
    saved = dict(live)
    real = E._importlib_resources
    try:
        live.clear()
        live.update(new)
        E._importlib_resources = _Resources(real, kind + '.txt', data)
        try:
            if kind == 'oui':
                o = OUI(key)
                recs = [o.registration(i) for i in range(o.reg_count)]
            else:
                o = IAB(key)
                recs = [o.registration()]
            if int(o) != key:
                return '!wrongvalue:%d' % int(o)
        except NotRegisteredError:
            return '!notRegistered'
        except Exception as e:
            en = errname(e)
            return '!' + ('other' if en.startswith('other') else en)
    finally:
        E._importlib_resources = real
        live.clear()
        live.update(saved)
    return ';'.join('%d/%d/%s' % (r['offset'], r['size'], _show_parsed(r['org'], list(r['address']))) for r in recs)



_GENWORKER = {'key': None, 'proc': None}

_GENWORKER_SRC = r"""
import sys, json
sys.path.insert(0, sys.argv[1])          # harness
import common                            # puts the netaddr under test on sys.path
from props import c19
kind, data = sys.argv[2], bytes.fromhex(sys.argv[3])
for line in sys.stdin:
    key = int(line)
    try:
        print(json.dumps(c19._genlookup_here(kind, data, key)), flush=True)
    except BrokenPipeError:          # the check that asked has its verdict and is gone
        break
"""


def _genlookup(kind, data, key):
    """OUI(key) / IAB(key) reading a generated registry.  The registry of a process is package data and does not
    change while the process lives (a record cache may rely on that: `refactors/twin-7`), so every generated
    registry gets an interpreter of its own in which it is the registry from the start to the end; all the
    lookups into one registry share that interpreter"""
    import subprocess
    import sys as _sys
    import json as _json
    w = _GENWORKER
    if w['key'] != (kind, data) or w['proc'] is None or w['proc'].poll() is not None:
        if w['proc'] is not None:
            try:
                w['proc'].stdin.close()
                w['proc'].wait(timeout=5)
            except Exception:
                w['proc'].kill()
        here = os.path.dirname(os.path.dirname(os.path.abspath(__file__)))
        w['proc'] = subprocess.Popen([_sys.executable, '-c', _GENWORKER_SRC, here, kind, data.hex()],
                                     stdin=subprocess.PIPE, stdout=subprocess.PIPE, universal_newlines=True, env=os.environ.copy())
        w['key'] = (kind, data)
    w['proc'].stdin.write('%d\n' % key)
    w['proc'].stdin.flush()
    line = w['proc'].stdout.readline()
    if not line:
        return '!harness:genlookup worker died'
    return _json.loads(line)


def _tag(e):
    if isinstance(e, NotRegisteredError):
        return '!notRegistered'
    en = errname(e)
    return '!' + ('other' if en.startswith('other') else en)


def _euiinfo_install(odata, idata):
    """make the two generated texts THE registries of this process: index each with netaddr's parser, load the index
    with load_index, swap index and text in for good (the caller is a process of its own).  Returns an error tag when
    indexing / loading fails (the OUI text first), else None"""
    import netaddr.eui as E
    new = {}
    for kind, data, klass in (('oui', odata, ieee.OUIIndexParser), ('iab', idata, ieee.IABIndexParser)):
        out = io.StringIO()
        d = {}
        try:
            ieee.create_index_from_registry(_peeked(data), out, klass)
            ieee.load_index(d, io.BytesIO(out.getvalue().encode('utf-8')))
        except Exception as e:
            return _tag(e)
        new[kind] = d
    ieee.OUI_INDEX.clear()
    ieee.OUI_INDEX.update(new['oui'])
    ieee.IAB_INDEX.clear()
    ieee.IAB_INDEX.update(new['iab'])
    E._importlib_resources = _Resources(_Resources(E._importlib_resources, 'oui.txt', odata), 'iab.txt', idata)
    return None


def _reg_text(r):
    return '%d/%d/%s' % (r['offset'], r['size'], _show_parsed(r['org'], list(r['address'])))


def _euiinfo_here(ver, v, prev, route):
    """EUI(v, version=ver).oui / .iab / .info in a process whose registries are the generated ones.  The object comes
    from common.make_eui (half of those are lived-in already); with `prev` it is first built under ANOTHER identifier,
    asked everything (errors ignored), and only then moved to v - by the value setter or word by word"""
    from netaddr import EUI
    if prev is None:
        e = common.make_eui(v, ver)
    else:
        e = common.make_eui(prev, ver)
        for f in (lambda: e.oui.registration(), lambda: e.iab, lambda: e.info, lambda: e.is_iab(), lambda: e.oui.reg_count,
                  lambda: e.info['OUI'], lambda: e.iab.registration()):
            try:
                f()
            except Exception:
                pass
        if route == 0:
            e.value = v
        else:
            common.COUNTS['object/eui:moved-by-word-assignment'] += 1
            ws, nw = e.dialect.word_size, e.dialect.num_words
            for i in range(nw):
                e[i] = (v >> (ws * (nw - 1 - i))) & ((1 << ws) - 1)
                if i == 0:
                    try:
                        e.oui, e.info
                    except Exception:
                        pass
    if int(e) != v or e.version != ver:
        return '!harness:object is EUI-%d %#x, wanted EUI-%d %#x' % (e.version, int(e), ver, v)
    ids = []
    try:
        o = e.oui
        if o is None:
            so = '-'
        else:
            so = ';'.join(_reg_text(o.registration(i)) for i in range(o.reg_count))
            ids.append('oui=%d' % int(o))
    except Exception as ex:
        so = _tag(ex)
    try:
        b = e.iab
        if b is None:
            sb = '-'
        else:
            sb = _reg_text(b.registration())
            ids.append('iab=%d' % int(b))
    except Exception as ex:
        sb = _tag(ex)
    try:
        info = e.info
        keys = sorted(vars(info))
        sf = 'OUI=' + _reg_text(info['OUI'])
        if info['IAB'] is not None:
            sf += ';IAB=' + _reg_text(info['IAB'])
        ids.append('keys=' + '+'.join(keys))
        ids.append('isiab=%s' % bool(e.is_iab()))
    except Exception as ex:
        sf = _tag(ex)
    return so + '|' + sb + '|' + sf + '#' + ','.join(ids)


_EUIWORKER = {'key': None, 'proc': None}

_EUIWORKER_SRC = r"""
import sys, json
sys.path.insert(0, sys.argv[1])          # harness
import common                            # puts the netaddr under test on sys.path
from props import c19
err = c19._euiinfo_install(bytes.fromhex(sys.argv[2]), bytes.fromhex(sys.argv[3]))
for line in sys.stdin:
    ver, v, prev, route = json.loads(line)
    try:
        res = err if err is not None else c19._euiinfo_here(ver, int(v), None if prev is None else int(prev), route)
        print(json.dumps(res), flush=True)
    except BrokenPipeError:
        break
"""


def _euiinfo(odata, idata, ver, v, prev, route):
    """one interpreter per pair of generated registries (they are its registries from the first import to the end);
    all the questions about one pair go to that interpreter"""
    import subprocess
    import sys as _sys
    import json as _json
    w = _EUIWORKER
    if w['key'] != (odata, idata) or w['proc'] is None or w['proc'].poll() is not None:
        if w['proc'] is not None:
            try:
                w['proc'].stdin.close()
                w['proc'].wait(timeout=5)
            except Exception:
                w['proc'].kill()
        here = os.path.dirname(os.path.dirname(os.path.abspath(__file__)))
        w['proc'] = subprocess.Popen([_sys.executable, '-c', _EUIWORKER_SRC, here, odata.hex(), idata.hex()],
                                     stdin=subprocess.PIPE, stdout=subprocess.PIPE, universal_newlines=True, env=os.environ.copy())
        w['key'] = (odata, idata)
    w['proc'].stdin.write(_json.dumps([ver, str(v), None if prev is None else str(prev), route]) + '\n')
    w['proc'].stdin.flush()
    line = w['proc'].stdout.readline()
    if not line:
        return '!harness:euiinfo worker died'
    return _json.loads(line)


def _show_parsed(org, addr):
    return ('-' if not org else hexs(org)) + '/' + plist([hexs(a) for a in addr])


def impl(c):
    a = c.args
    if a[0] in ('iana', 'ianaobj'):
        if a[0] == 'iana':
            _, ver, v = a
            info = IPAddress(v, ver).info
        else:
            _, kind, ver, x, y = a
            o = (common.make_addr(ver, x) if kind == 'A' else common.make_net(ver, x, y) if kind == 'N'
                 else common.make_range(ver, x, y))
            try:
                info = o.info
            except Exception as e:
                return '!' + errname(e)
        maps = _idmaps()
        items, attrs, keys = [], [], []
        for topic in TOPICS:
            recs = info[topic]                      # DictDotLookup.__getitem__: None for an absent key
            if recs is None:
                items.append('-')
            else:
                ks = [str(r[UKEY[topic]]) for r in recs]
                items.append(plist([str(i) for i in sorted(maps[topic].get(k, -1) for k in ks)]))
            try:
                arecs = getattr(info, topic)        # attribute access: AttributeError for an absent key
                ks = [str(r[UKEY[topic]]) for r in arecs]
                attrs.append(plist([str(i) for i in sorted(maps[topic].get(k, -1) for k in ks)]))
            except Exception as e:
                en = errname(e)
                attrs.append('!' + ('other' if en.startswith('other') else en))
            keys.append(','.join(sorted(_norm_key(topic, str(r[UKEY[topic]])) for r in (recs or []))))
        return ';'.join(items) + '|' + ';'.join(attrs) + '#' + ';'.join(keys)
    if a[0] == 'index':
        _, kind, header, recs = a
        return _run_parser(kind, header + b''.join(r for _, r in recs))
    if a[0] == 'file':
        return _run_parser(a[1], _read_txt(a[1] + '.txt'))
    if a[0] == 'pipeline':
        _, kind, header, recs = a
        out = io.StringIO()
        try:
            ieee.create_index_from_registry(_peeked(header + b''.join(r for _, r in recs)), out,
                                            ieee.OUIIndexParser if kind == 'oui' else ieee.IABIndexParser)
            idx = {}
            ieee.load_index(idx, io.BytesIO(out.getvalue().encode('utf-8')))
        except Exception as e:
            return '!' + errname(e)
        return ';'.join('%d=%s' % (k, '+'.join('%d:%d' % t for t in idx[k])) for k in sorted(idx))
    if a[0] == 'genlookup':
        _, kind, header, recs, key = a
        return _genlookup(kind, header + b''.join(r for _, r in recs), key)
    if a[0] == 'euiinfo':
        _, ver, v, prev, route, oh, orecs, ih, irecs = a
        return _euiinfo(oh + b''.join(r for _, r in orecs), ih + b''.join(r for _, r in irecs), ver, v, prev, route)
    if a[0] == 'lookup':
        _, kind, key = a[:3]
        spelling = a[3] if len(a) > 3 else 'int'
        _neighbour_lookup(kind, key)
        try:
            if kind == 'oui':
                o = OUI(_oui_str(key) if spelling == 'str' else key)
                recs = [o.registration(i) for i in range(o.reg_count)]
            else:
                o = IAB(_iab_str(key) if spelling == 'str' else key << 12)
                recs = [o.registration()]
            if int(o) != key:
                return '!wrongvalue:%d' % int(o)
        except NotRegisteredError:
            return '!notRegistered'
        except Exception as e:
            return '!' + errname(e)
        return ';'.join('%d/%d/%s' % (r['offset'], r['size'], _show_parsed(r['org'], list(r['address']))) for r in recs)
    if a[0] == 'idxcheck':
        idx = ieee.OUI_INDEX if a[1] == 'oui' else ieee.IAB_INDEX
        rows = sorted((o, s, k) for k, v in idx.items() for o, s in v)
        h = hashlib.sha1(repr(rows).encode()).hexdigest()
        return '%d %d %s' % (len(idx), len(rows), h)
    raise ValueError(a)


def equivalent(c, got, model):
    if c.args[0] in ('iana', 'ianaobj', 'euiinfo'):
        return got.split('#')[0] == model
    return got == model


# ---------------------------------------------------------------- oracle

def oracle(c, got):
    a = c.args
    if a[0] == 'iana':
        _, ver, v = a
        T = _xml_tables()
        exp = []
        for topic in TOPICS:
            tv = 4 if topic in ('IPv4', 'Multicast') else 6
            if tv != ver or (topic == 'Multicast' and not (MC_LO <= v <= MC_HI)):
                exp.append('')
                continue
            exp.append(','.join(sorted('%d-%d' % (lo, hi) for lo, hi, k in T[topic] if lo <= v <= hi)))
        exp = ';'.join(exp)
        if '#' not in got:
            return '.info failed: %s' % got
        have = got.split('#', 1)[1]
        if have != exp:
            return '.info of %s returned the records with ranges {%s} (IPv4;IPv6;IPv6_unicast;Multicast), the registry files give {%s}' % (
                ipaddress.IPv6Address(v) if ver == 6 else ipaddress.IPv4Address(v), have, exp)
        # which keys exist: a registry with no record containing the address has no key at all
        # (info[k] is None, info.k raises AttributeError); a present key never maps to []
        items, attrs = [x.split(';') for x in got.split('#', 1)[0].split('|')]
        for topic, e, it, at in zip(TOPICS, exp.split(';'), items, attrs):
            if (it == '-') != (e == '') or it == '[]':
                return '.info[%r] is %s but the registry files give {%s}' % (topic, it, e)
            if at != (it if it != '-' else '!other'):
                return '.info.%s gives %s while .info[%r] gives %s' % (topic, at, topic, it)
        return None
    if a[0] == 'ianaobj':
        _, kind, ver, x, y = a
        first, last = _obj_bounds(kind, ver, x, y)
        T = _xml_tables()
        exp = []
        for topic in TOPICS:
            tv = 4 if topic in ('IPv4', 'Multicast') else 6
            if tv != ver or (topic == 'Multicast' and not (MC_LO <= first and last <= MC_HI)):
                exp.append('')
                continue
            # a record is reported iff its published block or range contains the WHOLE operand; a record published as a
            # single address is compared by equality with the operand, which only an IPAddress can satisfy
            exp.append(','.join(sorted('%d-%d' % (lo, hi) for lo, hi, k in T[topic] if lo <= first and last <= hi and
                                       (kind == 'A' or not (topic == 'Multicast' and '-' not in k)))))
        exp = ';'.join(exp)
        if '#' not in got:
            return '.info failed: %s' % got
        have = got.split('#', 1)[1]
        if have != exp:
            return '.info of %s %d..%d (IPv%d) returned the records with ranges {%s} (IPv4;IPv6;IPv6_unicast;Multicast), the registry files give {%s}' % (
                {'A': 'address', 'N': 'network', 'R': 'range'}[kind], first, last, ver, have, exp)
        items, attrs = [z.split(';') for z in got.split('#', 1)[0].split('|')]
        for topic, e, it, at in zip(TOPICS, exp.split(';'), items, attrs):
            if (it == '-') != (e == '') or it == '[]':
                return '.info[%r] is %s but the registry files give {%s}' % (topic, it, e)
            if at != (it if it != '-' else '!other'):
                return '.info.%s gives %s while .info[%r] gives %s' % (topic, at, topic, it)
        return None
    if a[0] == 'euiinfo':
        _, ver, v, prev, route, oh, orecs, ih, irecs = a

        def regs(header, recs, key):
            off = len(header)
            out = []
            for k, rec in recs:
                if k == key:
                    org, addr = _ref_record(rec.decode('utf-8'))
                    out.append('%d/%d/%s' % (off, len(rec), _show_parsed(org, addr)))
                off += len(rec)
            return out

        ko, ki = v >> (ver - 24), v >> (ver - 36)
        ro = regs(oh, orecs, ko)
        in_iab = ko in IAB_PREFIXES
        ri = regs(ih, irecs, ki) if in_iab else []
        eo = ';'.join(ro) if ro else '!notRegistered'
        ei = '-' if not in_iab else (ri[0] if ri else '!notRegistered')
        if not ro or (in_iab and not ri):
            ef = '!notRegistered'
        else:
            ef = 'OUI=' + ro[0] + (';IAB=' + ri[0] if in_iab else '')
        exp = eo + '|' + ei + '|' + ef
        have, _sep, ids = got.partition('#')
        if have != exp:
            return 'EUI-%d %#x over generated registries: .oui | .iab | .info = %s, the records carrying OUI %#x / IAB %#x give %s' % (
                ver, v, have[:400], ko, ki, exp[:400])
        want = []
        if ro:
            want.append('oui=%d' % ko)
        if in_iab and ri:
            want.append('iab=%d' % ki)
        if ro and (ri or not in_iab):
            want += ['keys=' + ('IAB+OUI' if in_iab else 'OUI'), 'isiab=%s' % in_iab]
        if ids != ','.join(want):
            return 'EUI-%d %#x: identifiers / keys of the answers are %s, expected %s' % (ver, v, ids, ','.join(want))
        return None
    if a[0] == 'index':
        _, kind, header, recs = a
        off = len(header)
        exp = []
        for key, rec in recs:
            exp.append('%s:%d:%d' % (key, off, len(rec)))
            off += len(rec)
        exp = plist(exp)
        if got != exp:
            return '%s index rows %s, the records are delimited by %s' % (kind, got[:300], exp[:300])
        return None
    if a[0] == 'pipeline':
        _, kind, header, recs = a
        off = len(header)
        d = {}
        for key, rec in recs:
            d.setdefault(key, []).append((off, len(rec)))
            off += len(rec)
        if any(isinstance(k, str) for k in d):
            exp = '!value'          # a bytes key in the key column: int() in load_index raises ValueError
        else:
            exp = ';'.join('%d=%s' % (k, '+'.join('%d:%d' % t for t in d[k])) for k in sorted(d))
        if got != exp:
            return '%s index written and loaded back is %s, the records are delimited by %s' % (kind, got[:300], exp[:300])
        return None
    if a[0] == 'genlookup':
        _, kind, header, recs, key = a
        if any(isinstance(k, str) for k, _ in recs):
            return None if got == '!value' else 'a record without (base 16) line: load_index must raise ValueError, got %s' % got[:120]
        off = len(header)
        exp = []
        for k, rec in recs:
            if k == key:
                org, addr = _ref_record(rec.decode('utf-8'))
                exp.append('%d/%d/%s' % (off, len(rec), _show_parsed(org, addr)))
            off += len(rec)
        if kind == 'iab':
            exp = exp[:1]
        exp = ';'.join(exp) if exp else '!notRegistered'
        if got != exp:
            return '%s %#x over a generated registry: registration %s, the records carrying it give %s' % (
                kind.upper(), key, got[:300], exp[:300])
        return None
    if a[0] == 'file':
        kind = a[1]
        data = _read_txt(kind + '.txt')
        ref = plist(['%s:%d:%d' % (k, o, s) for k, o, s in _regex_rows_cached(kind)])
        if got != ref:
            return 'parser rows over shipped %s.txt differ from an independent reading of the text' % kind
        idx = plist(['%d:%d:%d' % r for r in _read_idx(kind + '.idx')])
        if got != idx:
            return 'parser rows over shipped %s.txt differ from the shipped %s.idx' % (kind, kind)
        return None
    if a[0] == 'lookup':
        _, kind, key = a[:3]
        rows = _idx_by_key(kind).get(key, [])
        if not rows:
            return None if got == '!notRegistered' else 'identifier %#x has no index row but lookup gave %s' % (key, got[:120])
        text = _read_txt(kind + '.txt')
        use = rows if kind == 'oui' else rows[:1]
        exp = []
        for o, s in use:
            org, addr = _ref_record(text[o:o + s].decode('utf-8'))
            exp.append('%d/%d/%s' % (o, s, _show_parsed(org, addr)))
        exp = ';'.join(exp)
        if got != exp:
            return '%s %#x: registration %s, index + registry text give %s' % (kind.upper(), key, got[:300], exp[:300])
        return None
    if a[0] == 'idxcheck':
        kind = a[1]
        rows = _read_idx(kind + '.idx')
        srt = sorted((o, s, k) for k, o, s in rows)
        exp = '%d %d %s' % (len(set(k for k, _, _ in rows)), len(rows), hashlib.sha1(repr(srt).encode()).hexdigest())
        if got != exp:
            return 'loaded %s index differs from the shipped %s.idx file (%s vs %s)' % (kind, kind, got, exp)
        if [(k, o, s) for o, s, k in srt] != rows:
            return '%s.idx rows are not in ascending offset order' % kind
        for (k1, o1, s1), (k2, o2, s2) in zip(rows, rows[1:]):
            if o1 + s1 != o2:
                return '%s.idx rows %r and %r overlap or leave a gap' % (kind, (k1, o1, s1), (k2, o2, s2))
        bits = 24 if kind == 'oui' else 36
        for k, o, s in rows:
            if not (0 <= k < (1 << bits)) or s <= 0:
                return '%s.idx row %r out of range' % (kind, (k, o, s))
        data = _read_txt(kind + '.txt')
        if data:
            if rows[-1][1] + rows[-1][2] != len(data):
                return '%s.idx does not end at the end of %s.txt' % (kind, kind)
            if _regex_rows_cached(kind) != rows:
                return '%s.idx differs from an independent reading of %s.txt' % (kind, kind)
        return None
    return None


def repro(c):
    a = c.args
    if a[0] == 'iana':
        return "from netaddr import IPAddress; vars(IPAddress(%d, %d).info)" % (a[2], a[1])   # dict(info) raises TypeError on Python 3
    if a[0] == 'ianaobj':
        _, kind, ver, x, y = a
        mk = ('IPAddress(%d, %d)' % (x, ver) if kind == 'A' else 'IPNetwork((%d, %d), version=%d)' % (x, y, ver) if kind == 'N'
              else 'IPRange(IPAddress(%d, %d), IPAddress(%d, %d))' % (x, ver, y, ver))
        return "from netaddr import *; vars(%s.info)" % mk
    if a[0] == 'euiinfo':
        od = a[5] + b''.join(r for _, r in a[6])
        idt = a[7] + b''.join(r for _, r in a[8])
        return ("import sys; sys.path.insert(0, 'harness'); sys.path.insert(0, 'harness/props'); import c19; "
                "c19._euiinfo(%r, %r, %d, %d, %r, %d)" % (od, idt, a[1], a[2], a[3], a[4]))
    if a[0] == 'index':
        data = a[2] + b''.join(r for _, r in a[3])
        return ("import io; from netaddr.eui import ieee; from netaddr.core import Subscriber; "
                "C = type('C', (Subscriber,), {'update': lambda self, d: print(d)}); "
                "p = ieee.%sIndexParser(io.BytesIO(%r)); p.attach(C()); p.parse()" % (a[1].upper(), data))
    if a[0] == 'pipeline':
        data = a[2] + b''.join(r for _, r in a[3])
        return ("import io; from netaddr.eui import ieee; o = io.StringIO(); "
                "ieee.create_index_from_registry(io.BytesIO(%r), o, ieee.%sIndexParser); d = {}; "
                "ieee.load_index(d, io.BytesIO(o.getvalue().encode())); d" % (data, a[1].upper()))
    if a[0] == 'genlookup':
        data = a[2] + b''.join(r for _, r in a[3])
        return ("import sys; sys.path.insert(0, 'harness'); sys.path.insert(0, 'harness/props'); import c19; "
                "c19._genlookup(%r, %r, %d)" % (a[1], data, a[4]))
    if a[0] == 'file':
        return "run netaddr.eui.ieee.%sIndexParser over the shipped %s.txt and compare with %s.idx" % (a[1].upper(), a[1], a[1])
    if a[0] == 'lookup':
        st = len(a) > 3 and a[3] == 'str'
        if a[1] == 'oui':
            return "from netaddr import OUI; o = OUI(%s); [dict(o.registration(i)) for i in range(o.reg_count)]" % (
                repr(_oui_str(a[2])) if st else a[2])
        return "from netaddr import IAB; dict(IAB(%s).registration())" % (repr(_iab_str(a[2])) if st else a[2] << 12)
    return "compare netaddr.eui.ieee.%s_INDEX with netaddr/eui/%s.idx and %s.txt" % (a[1].upper(), a[1], a[1])
