"""C20 — SubnetSplitter never hands out overlapping space.
Op: splitter N [e:prefix:count|-:hint , r:ver.val.plen , ...]   (one history per line)

Python's set iteration order decides which of several equally long free blocks is split.  No
property fixes that choice, so the history generator (which drives the real implementation to
know what is currently available) records, for every successful extraction, the free block that
was split (`hint`); the model moves that block to the front of its modelled iteration order and
then runs the code's own selection.  A hint that is not a legitimate first choice makes the model
split another block and shows up as a disagreement."""
from common import Case, W, rand_value, errname, plist, tf
import common
from netaddr import IPNetwork
from netaddr.contrib.subnet_splitter import SubnetSplitter

ID = 'C20'
RULE = ('histories of 1..10 (quick) / 1..24 (thorough) calls on one SubnetSplitter: base networks of both families (prefix '
        '0, width, width-1, random, with and without host bits, at the bottom/top of the space); extract_subnet(prefix, count) '
        'with prefix chosen relative to the currently free blocks (equal, +1..+3, up to +10, the family width, one shorter '
        'than every free block) and count in {None, 1, 2, 3, 5, 6, 7, max, max+1, 0, -1}; interleaved remove_subnet of a '
        'currently available block. Enumerations are capped at 4096 blocks per call. non-trivial = history in which at '
        'least one extraction returned blocks. The oracle decides from the previously observed available list which of [] / '
        'ValueError / blocks each extract call must give (best-fitting free block, count within its 2^(prefix-p) slots) and '
        'compares the returned list with the first count aligned blocks of a best-fitting block, in order')
CAP = 12          # log2 of the largest enumeration a call may cause


def _first(ver, v, p):
    w = W[ver]
    return (v >> (w - p)) << (w - p)


def _last(ver, v, p):
    return _first(ver, v, p) + (1 << (W[ver] - p)) - 1


def _optok(op):
    if op[0] == 'e':
        _, prefix, count, hint = op
        return 'e:%d:%s:%s' % (prefix, '-' if count is None else str(count), '-' if hint is None else '%d.%d.%d' % hint)
    return 'r:%d.%d.%d' % op[1:]


def _case(ver, v, p, ops, tag):
    return Case('splitter N:%d:%d:%d %s' % (ver, v, p, plist(_optok(o) for o in ops)), tag, ('hist', ver, v, p, tuple(ops)))


def _triple(n):
    return (n.version, n.value, n.prefixlen)


def _drive(ver, v, p, plan):
    """run `plan(avail) -> op without hint | None` against the real implementation, filling in hints"""
    s = SubnetSplitter(common.make_net(ver, v, p))
    ops = []
    while True:
        try:
            avail = [_triple(x) for x in s.available_subnets()]
        except Exception:
            break
        op = plan(avail, len(ops))
        if op is None:
            break
        if op[0] == 'r':
            ops.append(op)
            try:
                s.remove_subnet(common.make_net(op[1], op[2], op[3]))
            except Exception:
                break
            continue
        _, prefix, count = op
        hint = None
        try:
            got = s.extract_subnet(prefix, count=count)
            if got:
                f = got[0].first
                for a in avail:
                    if _first(*a) <= f <= _last(*a):
                        hint = a
                        break
        except Exception:
            pass
        ops.append(('e', prefix, count, hint))
    return ops


def corpus():
    out = []
    b = IPNetwork('10.0.0.0/24')
    fixed = [
        # F6 (fixed): extract_subnet(26, count=3) on a /24 left the third /26 available
        [('e', 26, 3), ('e', 26, None), ('e', 26, None)],
        [('e', 26, 3), ('e', 25, None), ('e', 26, 1), ('e', 26, 1)],
        # the scenario of test_ip_splitter.py
        [('e', 28, 10), ('e', 28, 1)],
        # audit 2b finding 1: best fit, no fall-through to a larger block, exact blocks
        [('e', 26, 1), ('e', 27, 3), ('e', 27, 2), ('e', 25, 1), ('e', 26, None)],
        [('e', 26, 1), ('e', 25, 2), ('e', 25, None), ('e', 28, 5), ('e', 28, 4), ('e', 28, 0), ('e', 28, -1)],
        [('e', 27, 1), ('e', 28, 3), ('e', 28, 2), ('e', 26, 2), ('e', 26, 1), ('e', 24, 1), ('e', -1, None)],
        [('e', 26, 5)], [('e', 23, None)], [('e', 24, None), ('e', 24, None)], [('e', 32, 256), ('e', 32, 1)],
    ]
    for plan_ops in fixed:
        it = iter(plan_ops)
        ops = _drive(4, b.value, 24, lambda avail, i: next(it, None))
        out.append(_case(4, b.value, 24, ops, 'corpus'))
    it = iter([('e', 26, 3), ('e', 27, 3), ('e', 27, 1), ('e', 26, 1)])
    out.append(_case(4, 167772165, 24, _drive(4, 167772165, 24, lambda avail, i: next(it, None)), 'corpus'))
    it = iter([('e', 127, 3), ('e', 128, 2), ('e', 128, 1), ('e', 126, 1)])
    m = (1 << 128) - 1
    out.append(_case(6, m, 125, _drive(6, m, 125, lambda avail, i: next(it, None)), 'corpus'))
    return out


def _history(rng, ver, tier):
    w = W[ver]
    m = (1 << w) - 1
    r = rng.random()
    if r < 0.15:
        p = rng.choice([0, w, w - 1, w - 2, 1])
    elif r < 0.75:
        p = rng.randrange(max(0, w - 14), w - 2)
    else:
        p = rng.randrange(0, w + 1)
    v = rng.choice([0, m, rand_value(rng, w), rng.getrandbits(w)])
    if rng.random() < 0.7:
        v = _first(ver, v, p)
    n = rng.randrange(1, 11 if tier == 'quick' else 25)

    def plan(avail, i):
        if i >= n:
            return None
        if avail and rng.random() < 0.18:
            a = rng.choice(avail)
            return ('r',) + a
        if not avail:
            if rng.random() < 0.7:
                return None
            return ('e', rng.randrange(p, w + 1), rng.choice([None, 1, 2]))
        plens = [a[2] for a in avail]
        minp = min(plens)
        base = rng.choice(plens + [minp, max(plens)])
        d = rng.choice([0, 1, 1, 1, 2, 2, 2, 3, 3, 4, rng.randrange(0, 11), rng.randrange(0, 11), w - base, -1])
        if d == 0 and i == 0 and rng.random() < 0.85:
            d = rng.choice([1, 2, 3])          # do not exhaust the space with the first call
        prefix = min(max(base + d, 0), w)
        if d == -1:
            prefix = max(minp - 1, 0)
        fits = [q for q in plens if q <= prefix]
        best = max(fits) if fits else None
        mx = (1 << (prefix - best)) if best is not None else 1
        small = [1, 1, 2, 3, 3, 5, 6, 7, 0, -1]
        if prefix - minp <= CAP:
            count = rng.choice([None, mx, mx + 1, max(mx - 1, 1)] + small)
        else:
            count = rng.choice(small + ([mx, mx + 1] if mx <= (1 << CAP) else []))
        return ('e', prefix, count)

    return _case(ver, v, p, _drive(ver, v, p, plan), 'hist/v%d' % ver)


def generate(rng, tier):
    cases = []
    k = 1200 if tier == 'quick' else 2000
    for ver in (4, 6):
        for _ in range(k):
            cases.append(_history(rng, ver, tier))
    return cases


def _show(t):
    return '%d:%d/%d' % t


def _full_sort(ts):
    return sorted(ts, key=lambda t: (-t[2], t[1]))


def impl(c):
    _, ver, v, p, ops = c.args
    s = SubnetSplitter(IPNetwork((v, p), version=ver))
    out = []
    for op in ops:
        try:
            if op[0] == 'e':
                got = s.extract_subnet(op[1], count=op[2])
                obs = plist(_show(_triple(x)) for x in got)
            else:
                s.remove_subnet(IPNetwork((op[2], op[3]), version=op[1]))
                obs = '[]'
        except Exception as e:
            obs = '!' + errname(e)
        raw = [_triple(x) for x in s.available_subnets()]
        desc = all(raw[i][2] >= raw[i + 1][2] for i in range(len(raw) - 1))
        out.append(obs + '|' + plist(_show(t) for t in _full_sort(raw)) + '|' + tf(desc))
    return ';'.join(out)


def _plist_parse(s):
    if not (s.startswith('[') and s.endswith(']')):
        raise ValueError(s)
    out = []
    if s != '[]':
        for it in s[1:-1].split(','):
            ver, rest = it.split(':')
            v, p = rest.split('/')
            out.append((int(ver), int(v), int(p)))
    return out


def _expected_outcome(ver, avail, prefix, count):
    """what extract_subnet(prefix, count) must answer on the free blocks `avail` (triples):
    ('empty', None, None) | ('value', best, None) | ('blocks', best, c); None outside the domain
    (prefix beyond the family width)"""
    w = W[ver]
    if prefix > w or any(a[0] != ver or not 0 <= a[2] <= w for a in avail):
        return None
    fits = [a[2] for a in avail if a[2] <= prefix]
    if not fits:
        return ('empty', None, None)
    best = max(fits)                    # available_subnets() order: longest prefix first
    slots = 1 << (prefix - best)
    c = slots if count is None else count
    if not 1 <= c <= slots:
        return ('value', best, None)    # the loop stops at the first block subnet() is non-empty / raises for
    return ('blocks', best, c)


def oracle(c, got):
    """the history invariant, from integers only"""
    _, ver, v, p, ops = c.args
    w = W[ver]
    bf, bl = _first(ver, v, p), _last(ver, v, p)
    steps = got.split(';') if ops else []
    if len(steps) != len(ops):
        return 'malformed output'
    gone = []                      # (first, last, how) handed out or removed so far
    avail = [(ver, v, p)]
    for i, (op, s) in enumerate(zip(ops, steps)):
        parts = s.split('|')
        if len(parts) != 3:
            return 'malformed step %r' % s
        obs, av_s, desc = parts
        try:
            new_avail = _plist_parse(av_s)
        except Exception:
            return 'unreadable available list at step %d' % i
        where = 'step %d (%s)' % (i, _optok(op))
        if desc != 'T':
            return '%s: available_subnets() is not in descending prefix order' % where
        key = lambda ts: sorted((t[0], _first(*t), t[2]) for t in ts)
        if op[0] == 'r':
            tgt = (op[1], _first(*op[1:]), op[3])
            if obs != '[]':
                return '%s: remove_subnet of an available block gave %s' % (where, obs)
            exp = key(avail)
            if tgt not in exp:
                return None        # outside the quantifier (only generated for available blocks)
            exp.remove(tgt)
            if key(new_avail) != exp:
                return '%s: available space after remove is %s' % (where, av_s)
            gone.append((tgt[1], _last(*op[1:]), 'removed'))
        else:
            _, prefix, count, _hint = op
            # the exact outcome (Props/C20Audit2.lean extract_outcome_iff), from integers only: which of
            # [] / ValueError / blocks must come, and which blocks
            exact = _expected_outcome(ver, avail, prefix, count)
            if exact is not None:
                kind, best, c = exact
                if kind == 'empty' and obs != '[]':
                    return '%s: no free block has a prefix <= %d, [] expected, got %s' % (where, prefix, obs[:120])
                if kind == 'value' and obs != '!value':
                    return ('%s: the best-fitting free block (/%d) has %d slots of /%d, count=%s cannot be met from it: '
                            'ValueError expected, got %s' % (where, best, 1 << (prefix - best), prefix, count, obs[:120]))
                if kind == 'blocks':
                    if obs.startswith('!') or obs == '[]':
                        return ('%s: request refused (%s) although the best-fitting free block (/%d) has room for %d '
                                'blocks of /%d' % (where, obs, best, c, prefix))
                    try:
                        ret = _plist_parse(obs)
                    except Exception:
                        return '%s: unreadable result %s' % (where, obs)
                    if len(ret) != c:
                        return '%s: %d blocks returned, %d expected' % (where, len(ret), c)
                    cands = [a for a in avail if a[2] == best and _first(*a) == ret[0][1]]
                    if not cands:
                        return ('%s: the first returned block %s is not the first /%d block of a best-fitting (/%d) free '
                                'block' % (where, _show(ret[0]), prefix, best))
                    f0, size = _first(*cands[0]), 1 << (w - prefix)
                    for j, t in enumerate(ret):
                        if t != (ver, f0 + j * size, prefix):
                            return ('%s: returned block #%d is %s, expected %s (the first %d aligned /%d blocks of the '
                                    'free block %s, in order)' % (where, j, _show(t), _show((ver, f0 + j * size, prefix)),
                                                                  c, prefix, _show(cands[0])))
            if obs.startswith('!') or obs == '[]':
                if obs not in ('!value', '[]'):
                    return '%s: failed with %s (only [] or ValueError are allowed)' % (where, obs)
                if key(new_avail) != key(avail):
                    return '%s: request failed with %s but the available space changed to %s' % (where, obs, av_s)
                if count in (None, 1) and any(a[2] <= prefix <= w for a in avail):
                    return '%s: request refused (%s) although a free block of prefix <= %d exists' % (where, obs, prefix)
            else:
                try:
                    ret = _plist_parse(obs)
                except Exception:
                    return '%s: unreadable result %s' % (where, obs)
                if count is not None and len(ret) != count:
                    return '%s: %d blocks returned, %d requested' % (where, len(ret), count)
                for t in ret:
                    if t[0] != ver or t[2] != prefix:
                        return '%s: returned block %s does not have the requested prefix' % (where, _show(t))
                    f, l = _first(*t), _last(*t)
                    if t[1] != f:
                        return '%s: returned block %s has host bits' % (where, _show(t))
                    if not (bf <= f and l <= bl):
                        return '%s: returned block %s lies outside the base network' % (where, _show(t))
                    for gf, gl, how in gone:
                        if f <= gl and gf <= l:
                            return '%s: returned block %s overlaps a block %s before (%d..%d)' % (where, _show(t), how, gf, gl)
                    gone.append((f, l, 'handed out'))
        avail = new_avail
        # handed out + removed + available tile the base network
        ivs = sorted([(g[0], g[1]) for g in gone] + [(_first(*t), _last(*t)) for t in avail])
        pos = bf
        for lo, hi in ivs:
            if lo != pos:
                return '%s: handed-out, removed and available blocks do not tile the base: %s at %d' % (
                    where, 'overlap' if lo < pos else 'gap', min(lo, pos))
            pos = hi + 1
        if pos != bl + 1:
            return '%s: handed-out, removed and available blocks do not tile the base: they end at %d' % (where, pos - 1)
        for t in avail:
            if t[0] != ver:
                return '%s: available block of the wrong family' % where
    return None


def repro(c):
    _, ver, v, p, ops = c.args
    calls = []
    for op in ops:
        if op[0] == 'e':
            calls.append('s.extract_subnet(%d, count=%s)' % (op[1], op[2]))
        else:
            calls.append('s.remove_subnet(IPNetwork((%d, %d), version=%d))' % (op[2], op[3], op[1]))
    return ("from netaddr import *; from netaddr.contrib.subnet_splitter import SubnetSplitter; "
            "s = SubnetSplitter(IPNetwork((%d, %d), version=%d)); %s; s.available_subnets()" % (v, p, ver, '; '.join(calls)))


def shrink(c, fails):
    """drop splitter calls one at a time while the history still violates the property"""
    a = c.args
    if a[0] != 'hist':
        return c
    _, ver, v, p, ops = a
    red = common.shrink_seq(ops, lambda l: fails(Case(None, c.tag, ('hist', ver, v, p, tuple(l)))))
    return Case(None, c.tag, ('hist', ver, v, p, tuple(red)))
