"""C02 — CIDR bit identities, setters, mask predicates.
Ops: net_attrs ver v p ; net_sets ver v p [setter ops] ; net_sets_trace ver v p [setter ops] ; mask_pred ver v ;
net_sets_x be ver v p [setter ops] ; net_sets_x_trace be ver v p [setter ops]  (setter ops with every argument form of
the netmask setter: m:s:<hex text> = a str, m:n:ver:val:plen = an IPNetwork object; exact error class printed)"""
from common import Case, W, value_classes, rand_value, errname, plist, tf, optint, hexs
import common
import netaddr
from netaddr import IPNetwork, IPAddress

ID = 'C02'
RULE = ('net_attrs: every prefix 0..width x structured value classes x both families; net_sets: random setter '
        'sequences (value/prefixlen/netmask with in-range, boundary, out-of-range and non-int arguments), every history '
        'also run on an instrumented subclass that counts slot stores per assignment (net_sets_trace); mask_pred: '
        'all contiguous masks, their +-1 neighbours, single-bit-hole masks, random. non-trivial = distinct case whose '
        'implementation output is not an error. net_sets_x / net_sets_x_trace: setter histories whose netmask '
        'assignments take STRING arguments (the netmask / hostmask / one-bit-off mask of every prefix in dotted quad, '
        'C-literal hex / octal / decimal, 2- and 3-part BSD shorthand, IPv6 compact / full / verbose / upper case, with '
        'whitespace tails, with a "/" part, other-family texts, near-miss address texts, junk) and IPNetwork-object '
        'arguments (any prefix length, both families), mixed with the int / IPAddress / junk forms; real setter calls, '
        'exact error class compared with the model, slot stores counted')
ALLOWED = ('addrFormat', 'value', 'type')


def corpus():
    return [
        Case('net_attrs 4 3232235777 24', 'attrs', ('attrs', 4, 3232235777, 24)),
        Case('net_attrs 4 4294967295 31', 'attrs', ('attrs', 4, 4294967295, 31)),
        Case('net_attrs 6 %d 0' % ((1 << 128) - 1), 'attrs', ('attrs', 6, (1 << 128) - 1, 0)),
    ]


def _setop(rng, ver):
    w = W[ver]
    m = (1 << w) - 1
    kind = rng.choice('vvppmmm')
    r = rng.random()
    if kind == 'v':
        if r < 0.6:
            x = ('i', rand_value(rng, w))
        elif r < 0.85:
            x = ('i', rng.choice([-1, m + 1, m + 2, -m, 1 << 130, (1 << 32), (1 << 32) - 1]))
        else:
            x = ('j', rng.choice(['none', 'float', 'floatfrac', 'str', 'list']))
    elif kind == 'p':
        if r < 0.6:
            x = ('i', rng.randrange(0, w + 1))
        elif r < 0.85:
            x = ('i', rng.choice([-1, w + 1, w + 2, 129, 33, 1 << 40, -w]))
        else:
            x = ('j', rng.choice(['none', 'float', 'floatfrac', 'str', 'list', 'frac']))
    else:
        p = rng.randrange(0, w + 1)
        mask = m ^ ((1 << (w - p)) - 1)
        if r < 0.45:
            x = ('i', mask) if (ver == 6 and mask > 0xffffffff) or ver == 4 else ('a', ver, mask)
        elif r < 0.6:
            x = ('a', ver, mask)
        elif r < 0.7:
            x = ('a', 10 - ver, (W[10 - ver] and ((1 << W[10 - ver]) - 1)) ^ ((1 << rng.randrange(0, W[10 - ver] + 1)) - 1))
        elif r < 0.85:
            x = ('i', mask ^ (1 << rng.randrange(0, w)))       # hole or extra bit
        elif r < 0.95:
            x = ('i', rng.choice([-1, 1 << 128, (1 << 128) + 5, rand_value(rng, w)]))
        else:
            x = ('a', ver, rand_value(rng, w))
    return (kind,) + x


def _quad(v):
    return '%d.%d.%d.%d' % (v >> 24, (v >> 16) & 255, (v >> 8) & 255, v & 255)


def _spell4(rng, v):
    """a text inet_aton reads as v (or, for the last few kinds, just does not)"""
    from props.c01 import c_literal
    k = rng.randrange(12)
    o = [v >> 24, (v >> 16) & 255, (v >> 8) & 255, v & 255]
    if k <= 2:
        return _quad(v)
    if k == 3:
        return rng.choice(['0x%08x', '0x%x', '0X%X', '0%o', '%d']) % v
    if k == 4:
        return '.'.join(c_literal(rng, x) for x in o)
    if k == 5:
        return '%s.%s' % (c_literal(rng, o[0]), c_literal(rng, v & 0xffffff))
    if k == 6:
        return '%s.%s.%s' % (c_literal(rng, o[0]), c_literal(rng, o[1]), c_literal(rng, v & 0xffff))
    if k == 7:
        return _quad(v) + rng.choice([' ', '\t', '\n', ' x', ' /24', '\t255.0.0.0'])
    if k == 8:
        return '.'.join(('%%0%dd' % rng.randrange(2, 5)) % x for x in o)       # zero-padded: octal to inet_aton
    if k == 9:
        return rng.choice([' ', '+', '-', '0x']) + _quad(v)
    if k == 10:
        return '.'.join('%d' % x for x in o[:rng.randrange(1, 4)])                # dropped trailing octets: BSD shorthand
    return _quad(v) + rng.choice(['/%d' % rng.randrange(0, 33), '/', '/' + _quad(v), '.', '.0'])


def _spell6(rng, v):
    from props.c01 import ref_ntop6, spelling6
    k = rng.randrange(8)
    if k <= 1:
        return ref_ntop6(v)
    if k == 2:
        return ':'.join('%x' % ((v >> sh) & 0xffff) for sh in range(112, -1, -16))
    if k == 3:
        return ':'.join('%04x' % ((v >> sh) & 0xffff) for sh in range(112, -1, -16))
    if k == 4:
        return ref_ntop6(v).upper()
    if k == 5:
        return spelling6(rng, v)
    if k == 6:
        return ref_ntop6(v) + rng.choice(['/%d' % rng.randrange(0, 129), '/', ' ', '%eth0', ':'])
    return rng.choice([' ', '[', '0x']) + ref_ntop6(v)


MASK_NEAR = ['255.255.0.0', '0xffff0000', '0XFFFF0000', '037777600000', '4294901760', '255.255', '255.255.255', '255.0xffff00',
             '255.255.0xff00', '0377.0377.0.0', '255.255.000.000', 'a/b', 'bad', '', ' ', '/', '255.255.0.0/16', '255.255.0.0 ',
             '255.255.0.0 x', ' 255.255.0.0', '255.255.0.0\n', '0.0.0.0', '0', '00', '0x0', '255.255.255.255', '0xffffffff',
             '4294967295', '4294967296', '0.0.0.255', '0.0.255.255', '255', '65535', '255.0.255.0', '255.255.255.254',
             '255.255.255.253', '128.0.0.0', '0x80000000', '2147483648', '127.255.255.255', '::', 'ffff::', 'FFFF::',
             'ffff:ffff:ffff:ffff::', 'ffff:ffff:ffff:ffff:ffff:ffff:ffff:ffff', '::ffff:255.255.0.0', '::255.255.0.0',
             '::ffff', '8000::', 'ffff:0:ffff::', '::1', 'ffff::/16', '255.255.0.0.', '255,255,0,0', '1e1', '0b1', '+0', '-0',
             '255.255.0.0\x00', '0xffff0000 ', '0x', '0xg', '00000000377.255.0.0', '256.0.0.0', '255.256', '255.16777216']


def _mask_str(rng, ver):
    """a string argument for the netmask setter of a family-`ver` network"""
    from props.c01 import NEAR4, NEAR6, edits
    r = rng.random()
    if r < 0.12:
        return rng.choice(MASK_NEAR)
    if r < 0.17:
        return rng.choice(NEAR4 + NEAR6)
    mver = ver if rng.random() < 0.85 else 10 - ver
    w = W[mver]
    m = (1 << w) - 1
    p = rng.randrange(0, w + 1)
    mask = m ^ ((1 << (w - p)) - 1)
    k = rng.random()
    if k < 0.6:
        val = mask
    elif k < 0.7:
        val = m ^ mask                                   # the hostmask
    elif k < 0.85:
        val = mask ^ (1 << rng.randrange(0, w))          # hole or extra bit
    elif k < 0.9:
        val = rng.choice([mask + 1, mask - 1]) & m
    else:
        val = rand_value(rng, w)
    t = _spell4(rng, val) if mver == 4 else _spell6(rng, val)
    if rng.random() < 0.1:
        t = edits(rng, t, 1)
    return t


def _setop_x(rng, ver):
    r = rng.random()
    if r < 0.45:
        t = _mask_str(rng, ver)
        if all(ord(c) < 128 for c in t):
            return ('m', 's', t)
        return ('m', 's', 'bad')
    if r < 0.6:
        mver = ver if rng.random() < 0.8 else 10 - ver
        w = W[mver]
        m = (1 << w) - 1
        p = rng.randrange(0, w + 1)
        mask = m ^ ((1 << (w - p)) - 1)
        val = rng.choice([mask, mask, mask, m ^ mask, mask ^ (1 << rng.randrange(0, w)), rand_value(rng, w)])
        return ('m', 'n', mver, val, rng.choice([p, 0, w, rng.randrange(0, w + 1)]))
    return _setop(rng, ver)


def _tok_x(op):
    if op[0] == 'm' and op[1] == 's':
        return 'm:' + hexs(op[2])            # hexs gives 's:<hex>'
    return _tok(op)


def _tok(op):
    # the model only needs to know "not an int": the junk kind stays on the implementation side
    return ':'.join(str(t) for t in (op[:2] if op[1] == 'j' else op))


def _junk(kind, cur):
    """a non-int argument; the in-range float / Fraction / str spell the CURRENT value, which an
    over-lenient setter would silently accept"""
    import fractions
    return {'none': None, 'float': float(cur), 'floatfrac': cur + 0.5, 'str': str(cur), 'list': [cur],
            'frac': fractions.Fraction(cur)}[kind]


def generate(rng, tier):
    cases = []
    mult = 1 if tier == 'quick' else 4
    for ver in (4, 6):
        w = W[ver]
        for p in range(w + 1):
            vals = value_classes(rng, w, n_random=2 * mult)
            for v in rng.sample(vals, min(len(vals), 10 * mult)):
                cases.append(Case('net_attrs %d %d %d' % (ver, v, p), 'attrs/v%d' % ver, ('attrs', ver, v, p)))
        # masks
        m = (1 << w) - 1
        seen = set()
        for p in range(w + 1):
            mask = m ^ ((1 << (w - p)) - 1)
            for v in (mask, mask + 1, mask - 1, m ^ mask, (m ^ mask) + 1, mask ^ (1 << rng.randrange(w))):
                if 0 <= v <= m and v not in seen:
                    seen.add(v)
                    cases.append(Case('mask_pred %d %d' % (ver, v), 'mask/v%d' % ver, ('mask', ver, v)))
        for _ in range(60 * mult):
            v = rand_value(rng, w)
            cases.append(Case('mask_pred %d %d' % (ver, v), 'mask/v%d' % ver, ('mask', ver, v)))
        for _ in range(150 * mult):
            v, p = rand_value(rng, w), rng.randrange(0, w + 1)
            ops = tuple(_setop(rng, ver) for _ in range(rng.randrange(1, 9)))
            cases.append(Case('net_sets %d %d %d %s' % (ver, v, p, plist(_tok(o) for o in ops)),
                              'sets/v%d' % ver, ('sets', ver, v, p, ops)))
            cases.append(Case('net_sets_trace %d %d %d %s' % (ver, v, p, plist(_tok(o) for o in ops)),
                              'setsT/v%d' % ver, ('setsT', ver, v, p, ops)))
        for _ in range(250 * mult):
            v, p = rand_value(rng, w), rng.randrange(0, w + 1)
            ops = tuple(_setop_x(rng, ver) for _ in range(rng.randrange(1, 7)))
            cases.append(Case('net_sets_x pl %d %d %d %s' % (ver, v, p, plist(_tok_x(o) for o in ops)),
                              'setsX/v%d' % ver, ('setsX', ver, v, p, ops)))
            cases.append(Case('net_sets_x_trace pl %d %d %d %s' % (ver, v, p, plist(_tok_x(o) for o in ops)),
                              'setsXT/v%d' % ver, ('setsXT', ver, v, p, ops)))
    # every prefix of both families once as printed text, once as C-literal hex, on a network of the same family
    for ver in (4, 6):
        w = W[ver]
        m = (1 << w) - 1
        for p in range(w + 1):
            mask = m ^ ((1 << (w - p)) - 1)
            texts = [_quad(mask), '0x%x' % mask, '%d' % mask] if ver == 4 else [_spell6(rng, mask)]
            ops = tuple(('m', 's', t) for t in texts if all(ord(c) < 128 for c in t))
            v, p0 = rand_value(rng, w), rng.randrange(0, w + 1)
            cases.append(Case('net_sets_x pl %d %d %d %s' % (ver, v, p0, plist(_tok_x(o) for o in ops)),
                              'setsX/every/v%d' % ver, ('setsX', ver, v, p0, ops)))
    return cases


def _net(ver, v, p):
    return common.make_net(ver, v, p)


_SPY = {}


def _spy_net(ver, v, p):
    """an IPNetwork of an instrumented subclass: every store into a slot (`self._value = …`,
    `self._prefixlen = …`, `self._module = …`) is logged, so that a setter which stored before a
    failing check is seen even if it stored the old value back"""
    if 'cls' not in _SPY:
        log = []

        class SpyNet(IPNetwork):
            __slots__ = ()

            def __setattr__(self, k, val):
                if k.startswith('_'):
                    log.append(k)
                IPNetwork.__setattr__(self, k, val)
        _SPY['cls'], _SPY['log'] = SpyNet, log
    n = _SPY['cls']((v, p), version=ver)
    del _SPY['log'][:]
    return n, _SPY['log']


def _show(n):
    return '%d:%d/%d' % (n.version, n.value, n.prefixlen)


def impl(c):
    a = c.args
    if a[0] == 'attrs':
        _, ver, v, p = a
        n = _net(ver, v, p)
        # a first reading whose objects the caller then moves in place: they are the caller's objects, the
        # network (and every other network) must not notice
        common.disturb(n.hostmask, n.netmask, n.network, n.ip, n.cidr, n.broadcast)
        b = n.broadcast
        out = ' '.join([str(int(n.hostmask)), str(int(n.netmask)), str(int(n.network)), str(n.first), str(n.last),
                        str(n.size), optint(None if b is None else int(b)), str(int(n.ip)), _show(n.cidr)])
        # every derived address object must be of the network's own family
        vers = set(x.version for x in (n.hostmask, n.netmask, n.network, n.ip, n.cidr) + ((b,) if b is not None else ()))
        return out if vers == {ver} else out + ' !derived-versions=%s' % sorted(vers)
    if a[0] == 'mask':
        _, ver, v = a
        ip = IPAddress(v, ver)
        try:
            nb = str(ip.netmask_bits())
        except Exception as e:
            nb = '!' + errname(e)
        return ' '.join([tf(ip.is_netmask()), tf(ip.is_hostmask()), nb])
    if a[0] in ('sets', 'setsT', 'setsX', 'setsXT'):
        _, ver, v, p, ops = a
        traced = a[0] in ('setsT', 'setsXT')
        exact = a[0] in ('setsX', 'setsXT')
        if traced:
            n, log = _spy_net(ver, v, p)
        else:
            n, log = _net(ver, v, p), None
        out = []
        for op in ops:
            kind, x = op[0], op[1:]
            if x[0] == 'i':
                arg = x[1]
            elif x[0] == 'a':
                arg = IPAddress(x[2], x[1])
            elif x[0] == 's':
                arg = x[1]
            elif x[0] == 'n':
                arg = common.make_net(x[1], x[2], x[3])
            elif kind == 'm':
                arg = [1, 2]
            else:
                arg = _junk(x[1] if len(x) > 1 else 'none', min(n.prefixlen, 20) if kind == 'p' else min(n.value, 1 << 20))
            if traced:
                del log[:]
            try:
                if kind == 'v':
                    n.value = arg
                elif kind == 'p':
                    n.prefixlen = arg
                else:
                    n.netmask = arg
                common.disturb(arg)
                out.append(_show(n))
            except Exception as e:
                en = errname(e)
                out.append((('!' + en if exact else '!E') if en in ALLOWED else '!other:' + en) + '~' + _show(n))
            if traced:
                out[-1] += '#%d' % len(log)
        return ';'.join(out)
    raise ValueError(a)


def oracle(c, got):
    """independent big-int statement of the property"""
    a = c.args
    if a[0] == 'attrs':
        _, ver, v, p = a
        w = W[ver]
        H = 1 << (w - p)
        first = v - v % H
        last = first + H - 1
        bc = None if (ver == 4 and p >= 31) else last
        exp = ' '.join(str(x) for x in (H - 1, (1 << w) - H, first, first, last, H)) + ' %s %d %d:%d/%d' % (
            optint(bc), v, ver, first, p)
        return None if got == exp else 'attributes %s, CIDR identities give %s' % (got, exp)
    if a[0] == 'mask':
        _, ver, v = a
        w = W[ver]
        m = (1 << w) - 1
        nm = [p for p in range(w + 1) if v == m ^ ((1 << (w - p)) - 1)]
        hm = [p for p in range(w + 1) if v == (1 << (w - p)) - 1]
        exp = '%s %s %d' % (tf(bool(nm)), tf(bool(hm)), nm[0] if nm else w)
        return None if got == exp else 'mask predicates %s, expected %s' % (got, exp)
    if a[0] in ('setsX', 'setsXT'):
        return _oracle_x(a, got)
    if a[0] in ('sets', 'setsT'):
        _, ver, v, p, ops = a
        traced = a[0] == 'setsT'
        w = W[ver]
        m = (1 << w) - 1
        steps = got.split(';')
        if len(steps) != len(ops):
            return 'malformed output'
        for op, s in zip(ops, steps):
            kind, x = op[0], op[1:]
            ok = None          # expected new (v, p) or None = must be rejected
            if kind == 'v' and x[0] == 'i' and 0 <= x[1] <= m:
                ok = (x[1], p)
            elif kind == 'p' and x[0] == 'i' and 0 <= x[1] <= w:
                ok = (v, x[1])
            elif kind == 'm' and x[0] in 'ia':
                if x[0] == 'i':
                    mv = x[1]
                    mver = 4 if 0 <= mv <= 0xffffffff else (6 if 0 <= mv < (1 << 128) else None)
                else:
                    mver, mv = x[1], x[2]
                if mver == ver:
                    nm = [q for q in range(w + 1) if mv == m ^ ((1 << (w - q)) - 1)]
                    if nm:
                        ok = (v, nm[0])
            if ok is None:
                exp = '!E~%d:%d/%d' % (ver, v, p)
            else:
                v, p = ok
                exp = '%d:%d/%d' % (ver, v, p)
            if traced:      # an accepted assignment stores once, a rejected one not at all
                exp += '#1' if ok is not None else '#0'
            if s != exp:
                return 'setter %s gave %s, expected %s' % (_tok(op), s, exp)
        return None
    return None


def _readings(x):
    """the (family, value) readings the property allows for IPAddress(x) of a netmask-setter argument (None = refused),
    from the independent references of the C01 harness (inet_aton grammar, RFC 4291 grammar)"""
    if x[0] == 'i':
        mv = x[1]
        return [(4, mv) if 0 <= mv <= 0xffffffff else ((6, mv) if 0 <= mv < (1 << 128) else None)]
    if x[0] == 'a':
        return [(x[1], x[2])]
    if x[0] == 'n':
        return [(x[1], x[2])]
    if x[0] == 's':
        from props.c01 import expect_parse
        mand, allowed = expect_parse(x[1], None, 0)
        outs = [mand] if mand is not None else sorted(allowed)
        res = []
        for o in outs:
            if o.startswith('!'):
                res.append(None)
            else:
                f, val = o.split(' ')
                res.append((int(f), int(val)))
        return res
    return [None]


def _oracle_x(a, got):
    """the property over the real output: every assignment either keeps the object and raises one of the three
    classes, or changes exactly the assigned field; a netmask assignment is accepted exactly when the argument
    reads (independently) as the netmask of some prefix in the network's own family"""
    _, ver, v, p, ops = a
    traced = a[0] == 'setsXT'
    w = W[ver]
    m = (1 << w) - 1
    steps = got.split(';')
    if len(steps) != len(ops):
        return 'malformed output'
    for op, s in zip(ops, steps):
        kind, x = op[0], op[1:]
        oks = []            # acceptable outcomes: (v, p) or None = must be rejected
        if kind == 'v':
            oks = [(x[1], p) if x[0] == 'i' and 0 <= x[1] <= m else None]
        elif kind == 'p':
            oks = [(v, x[1]) if x[0] == 'i' and 0 <= x[1] <= w else None]
        else:
            for r in _readings(x):
                ok = None
                if r is not None and r[0] == ver:
                    nm = [q for q in range(w + 1) if r[1] == m ^ ((1 << (w - q)) - 1)]
                    if nm:
                        ok = (v, nm[0])
                oks.append(ok)
        exps = []
        for ok in oks:
            if ok is None:
                for cls in ALLOWED:
                    exps.append(('!%s~%d:%d/%d' % (cls, ver, v, p) + ('#0' if traced else ''), (v, p)))
            else:
                exps.append(('%d:%d/%d' % (ver, ok[0], ok[1]) + ('#1' if traced else ''), ok))
        hit = [st for e, st in exps if e == s]
        if not hit:
            return 'setter %s (%r) gave %s, expected %s' % (_tok(op) if x[0] != 's' else 'm:str', x[-1] if x[0] == 's' else x,
                                                            s, ' or '.join(sorted(set(e for e, _ in exps))))
        v, p = hit[0]
    return None


def repro(c):
    a = c.args
    if a[0] == 'attrs':
        return "n = IPNetwork((%d, %d), version=%d); n.hostmask, n.netmask, n.network, n.first, n.last, n.size, n.broadcast, n.cidr" % (a[2], a[3], a[1])
    if a[0] == 'mask':
        return "ip = IPAddress(%d, %d); ip.is_netmask(), ip.is_hostmask(), ip.netmask_bits()" % (a[2], a[1])
    return "n = IPNetwork((%d, %d), version=%d); apply setter ops %r in order (v=value, p=prefixlen, m=netmask)" % (a[2], a[3], a[1], a[4])


def shrink(c, fails):
    """drop setter operations while the history still violates the property"""
    a = c.args
    if a[0] not in ('sets', 'setsT', 'setsX', 'setsXT'):
        return c
    kind, ver, v, p, ops = a
    red = common.shrink_seq(ops, lambda l: len(l) >= 1 and fails(Case(None, c.tag, (kind, ver, v, p, tuple(l)))))
    return Case(None, c.tag, (kind, ver, v, p, tuple(red)))
