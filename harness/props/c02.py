"""C02 — CIDR bit identities, setters, mask predicates.
Ops: net_attrs ver v p ; net_sets ver v p [setter ops] ; net_sets_trace ver v p [setter ops] ; mask_pred ver v"""
from common import Case, W, value_classes, rand_value, errname, plist, tf, optint
import common
import netaddr
from netaddr import IPNetwork, IPAddress

ID = 'C02'
RULE = ('net_attrs: every prefix 0..width x structured value classes x both families; net_sets: random setter '
        'sequences (value/prefixlen/netmask with in-range, boundary, out-of-range and non-int arguments), every history '
        'also run on an instrumented subclass that counts slot stores per assignment (net_sets_trace); mask_pred: '
        'all contiguous masks, their +-1 neighbours, single-bit-hole masks, random. non-trivial = distinct case whose '
        'implementation output is not an error')
ALLOWED = ('addrFormat', 'value', 'type')


def corpus():
    return [
        Case('net_attrs 4 3232235777 24', 'attrs', ('attrs', 4, 3232235777, 24)),
        Case('net_attrs 4 4294967295 31', 'attrs', ('attrs', 4, 4294967295, 31)),
        Case('net_attrs 6 %d 0' % ((1 << 128) - 1), 'attrs', ('attrs', 6, (1 << 128) - 1, 0)),
    ]


def _setop(rng, ver):
    w = W[ver]
    m = (1 << w) - 1
    kind = rng.choice('vvppmmm')
    r = rng.random()
    if kind == 'v':
        if r < 0.6:
            x = ('i', rand_value(rng, w))
        elif r < 0.85:
            x = ('i', rng.choice([-1, m + 1, m + 2, -m, 1 << 130, (1 << 32), (1 << 32) - 1]))
        else:
            x = ('j', rng.choice(['none', 'float', 'floatfrac', 'str', 'list']))
    elif kind == 'p':
        if r < 0.6:
            x = ('i', rng.randrange(0, w + 1))
        elif r < 0.85:
            x = ('i', rng.choice([-1, w + 1, w + 2, 129, 33, 1 << 40, -w]))
        else:
            x = ('j', rng.choice(['none', 'float', 'floatfrac', 'str', 'list', 'frac']))
    else:
        p = rng.randrange(0, w + 1)
        mask = m ^ ((1 << (w - p)) - 1)
        if r < 0.45:
            x = ('i', mask) if (ver == 6 and mask > 0xffffffff) or ver == 4 else ('a', ver, mask)
        elif r < 0.6:
            x = ('a', ver, mask)
        elif r < 0.7:
            x = ('a', 10 - ver, (W[10 - ver] and ((1 << W[10 - ver]) - 1)) ^ ((1 << rng.randrange(0, W[10 - ver] + 1)) - 1))
        elif r < 0.85:
            x = ('i', mask ^ (1 << rng.randrange(0, w)))       # hole or extra bit
        elif r < 0.95:
            x = ('i', rng.choice([-1, 1 << 128, (1 << 128) + 5, rand_value(rng, w)]))
        else:
            x = ('a', ver, rand_value(rng, w))
    return (kind,) + x


def _tok(op):
    # the model only needs to know "not an int": the junk kind stays on the implementation side
    return ':'.join(str(t) for t in (op[:2] if op[1] == 'j' else op))


def _junk(kind, cur):
    """a non-int argument; the in-range float / Fraction / str spell the CURRENT value, which an
    over-lenient setter would silently accept"""
    import fractions
    return {'none': None, 'float': float(cur), 'floatfrac': cur + 0.5, 'str': str(cur), 'list': [cur],
            'frac': fractions.Fraction(cur)}[kind]


def generate(rng, tier):
    cases = []
    mult = 1 if tier == 'quick' else 4
    for ver in (4, 6):
        w = W[ver]
        for p in range(w + 1):
            vals = value_classes(rng, w, n_random=2 * mult)
            for v in rng.sample(vals, min(len(vals), 10 * mult)):
                cases.append(Case('net_attrs %d %d %d' % (ver, v, p), 'attrs/v%d' % ver, ('attrs', ver, v, p)))
        # masks
        m = (1 << w) - 1
        seen = set()
        for p in range(w + 1):
            mask = m ^ ((1 << (w - p)) - 1)
            for v in (mask, mask + 1, mask - 1, m ^ mask, (m ^ mask) + 1, mask ^ (1 << rng.randrange(w))):
                if 0 <= v <= m and v not in seen:
                    seen.add(v)
                    cases.append(Case('mask_pred %d %d' % (ver, v), 'mask/v%d' % ver, ('mask', ver, v)))
        for _ in range(60 * mult):
            v = rand_value(rng, w)
            cases.append(Case('mask_pred %d %d' % (ver, v), 'mask/v%d' % ver, ('mask', ver, v)))
        for _ in range(150 * mult):
            v, p = rand_value(rng, w), rng.randrange(0, w + 1)
            ops = tuple(_setop(rng, ver) for _ in range(rng.randrange(1, 9)))
            cases.append(Case('net_sets %d %d %d %s' % (ver, v, p, plist(_tok(o) for o in ops)),
                              'sets/v%d' % ver, ('sets', ver, v, p, ops)))
            cases.append(Case('net_sets_trace %d %d %d %s' % (ver, v, p, plist(_tok(o) for o in ops)),
                              'setsT/v%d' % ver, ('setsT', ver, v, p, ops)))
    return cases


def _net(ver, v, p):
    return common.make_net(ver, v, p)


_SPY = {}


def _spy_net(ver, v, p):
    """an IPNetwork of an instrumented subclass: every store into a slot (`self._value = …`,
    `self._prefixlen = …`, `self._module = …`) is logged, so that a setter which stored before a
    failing check is seen even if it stored the old value back"""
    if 'cls' not in _SPY:
        log = []

        class SpyNet(IPNetwork):
            __slots__ = ()

            def __setattr__(self, k, val):
                if k.startswith('_'):
                    log.append(k)
                IPNetwork.__setattr__(self, k, val)
        _SPY['cls'], _SPY['log'] = SpyNet, log
    n = _SPY['cls']((v, p), version=ver)
    del _SPY['log'][:]
    return n, _SPY['log']


def _show(n):
    return '%d:%d/%d' % (n.version, n.value, n.prefixlen)


def impl(c):
    a = c.args
    if a[0] == 'attrs':
        _, ver, v, p = a
        n = _net(ver, v, p)
        # a first reading whose objects the caller then moves in place: they are the caller's objects, the
        # network (and every other network) must not notice
        common.disturb(n.hostmask, n.netmask, n.network, n.ip, n.cidr, n.broadcast)
        b = n.broadcast
        out = ' '.join([str(int(n.hostmask)), str(int(n.netmask)), str(int(n.network)), str(n.first), str(n.last),
                        str(n.size), optint(None if b is None else int(b)), str(int(n.ip)), _show(n.cidr)])
        # every derived address object must be of the network's own family
        vers = set(x.version for x in (n.hostmask, n.netmask, n.network, n.ip, n.cidr) + ((b,) if b is not None else ()))
        return out if vers == {ver} else out + ' !derived-versions=%s' % sorted(vers)
    if a[0] == 'mask':
        _, ver, v = a
        ip = IPAddress(v, ver)
        try:
            nb = str(ip.netmask_bits())
        except Exception as e:
            nb = '!' + errname(e)
        return ' '.join([tf(ip.is_netmask()), tf(ip.is_hostmask()), nb])
    if a[0] in ('sets', 'setsT'):
        _, ver, v, p, ops = a
        traced = a[0] == 'setsT'
        if traced:
            n, log = _spy_net(ver, v, p)
        else:
            n, log = _net(ver, v, p), None
        out = []
        for op in ops:
            kind, x = op[0], op[1:]
            if x[0] == 'i':
                arg = x[1]
            elif x[0] == 'a':
                arg = IPAddress(x[2], x[1])
            elif kind == 'm':
                arg = [1, 2]
            else:
                arg = _junk(x[1] if len(x) > 1 else 'none', min(n.prefixlen, 20) if kind == 'p' else min(n.value, 1 << 20))
            if traced:
                del log[:]
            try:
                if kind == 'v':
                    n.value = arg
                elif kind == 'p':
                    n.prefixlen = arg
                else:
                    n.netmask = arg
                common.disturb(arg)
                out.append(_show(n))
            except Exception as e:
                en = errname(e)
                out.append(('!E' if en in ALLOWED else '!other:' + en) + '~' + _show(n))
            if traced:
                out[-1] += '#%d' % len(log)
        return ';'.join(out)
    raise ValueError(a)


def oracle(c, got):
    """independent big-int statement of the property"""
    a = c.args
    if a[0] == 'attrs':
        _, ver, v, p = a
        w = W[ver]
        H = 1 << (w - p)
        first = v - v % H
        last = first + H - 1
        bc = None if (ver == 4 and p >= 31) else last
        exp = ' '.join(str(x) for x in (H - 1, (1 << w) - H, first, first, last, H)) + ' %s %d %d:%d/%d' % (
            optint(bc), v, ver, first, p)
        return None if got == exp else 'attributes %s, CIDR identities give %s' % (got, exp)
    if a[0] == 'mask':
        _, ver, v = a
        w = W[ver]
        m = (1 << w) - 1
        nm = [p for p in range(w + 1) if v == m ^ ((1 << (w - p)) - 1)]
        hm = [p for p in range(w + 1) if v == (1 << (w - p)) - 1]
        exp = '%s %s %d' % (tf(bool(nm)), tf(bool(hm)), nm[0] if nm else w)
        return None if got == exp else 'mask predicates %s, expected %s' % (got, exp)
    if a[0] in ('sets', 'setsT'):
        _, ver, v, p, ops = a
        traced = a[0] == 'setsT'
        w = W[ver]
        m = (1 << w) - 1
        steps = got.split(';')
        if len(steps) != len(ops):
            return 'malformed output'
        for op, s in zip(ops, steps):
            kind, x = op[0], op[1:]
            ok = None          # expected new (v, p) or None = must be rejected
            if kind == 'v' and x[0] == 'i' and 0 <= x[1] <= m:
                ok = (x[1], p)
            elif kind == 'p' and x[0] == 'i' and 0 <= x[1] <= w:
                ok = (v, x[1])
            elif kind == 'm' and x[0] in 'ia':
                if x[0] == 'i':
                    mv = x[1]
                    mver = 4 if 0 <= mv <= 0xffffffff else (6 if 0 <= mv < (1 << 128) else None)
                else:
                    mver, mv = x[1], x[2]
                if mver == ver:
                    nm = [q for q in range(w + 1) if mv == m ^ ((1 << (w - q)) - 1)]
                    if nm:
                        ok = (v, nm[0])
            if ok is None:
                exp = '!E~%d:%d/%d' % (ver, v, p)
            else:
                v, p = ok
                exp = '%d:%d/%d' % (ver, v, p)
            if traced:      # an accepted assignment stores once, a rejected one not at all
                exp += '#1' if ok is not None else '#0'
            if s != exp:
                return 'setter %s gave %s, expected %s' % (_tok(op), s, exp)
        return None
    return None


def repro(c):
    a = c.args
    if a[0] == 'attrs':
        return "n = IPNetwork((%d, %d), version=%d); n.hostmask, n.netmask, n.network, n.first, n.last, n.size, n.broadcast, n.cidr" % (a[2], a[3], a[1])
    if a[0] == 'mask':
        return "ip = IPAddress(%d, %d); ip.is_netmask(), ip.is_hostmask(), ip.netmask_bits()" % (a[2], a[1])
    return "n = IPNetwork((%d, %d), version=%d); apply setter ops %r in order (v=value, p=prefixlen, m=netmask)" % (a[2], a[3], a[1], a[4])


def shrink(c, fails):
    """drop setter operations while the history still violates the property"""
    a = c.args
    if a[0] not in ('sets', 'setsT'):
        return c
    kind, ver, v, p, ops = a
    red = common.shrink_seq(ops, lambda l: len(l) >= 1 and fails(Case(None, c.tag, (kind, ver, v, p, tuple(l)))))
    return Case(None, c.tag, (kind, ver, v, p, tuple(red)))
