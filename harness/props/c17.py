"""C17 — glob and nmap range notations denote exactly their address sets.

Ops: valid_glob S ; glob_conv S ; range2globs A A ; cidr2glob N ; nmap fuel S ; nmap_plan fuel S ; nmap_take fuel S ;
     nmap_multi fuel [S,...] ; nmap_islice fuel [S,...]   (+ platform op pyint)
The nmap ops run the model with the real foreign parsers (Nmap.realForeign = the C03 / C01 models of
IPNetwork(spec) / IPAddress(spec)); nothing of the real code's results is passed to the driver.

The oracle never calls netaddr: glob strings are re-read with its own regex grammar, expected
addresses are computed from the integers the generator started from, CIDR lists by its own greedy
splitter, nmap octet lists by its own reader (stdlib int() for the numerals)."""
import ipaddress
import itertools
import re

from common import Case, W, hexs, unhexs, plist, tf, errname, rand_value, harvest_literals
import common
import platform_cases
import netaddr
from netaddr import IPAddress, IPNetwork, IPGlob, IPRange
from netaddr import (valid_glob, glob_to_iptuple, glob_to_iprange, glob_to_cidrs, iprange_to_globs, cidr_to_glob,
                     valid_nmap_range, iter_nmap_range)

ID = 'C17'
FUEL = 4096
M32 = (1 << 32) - 1
ALPHA = '0123456789.*-,/ +_x'
RULE = ('glob strings: valid globs of every shape L*H?S* with boundary octets, every structured near miss (x>=y, 256, leading '
        'zero, empty/extra octet, second hyphen, literal or hyphen after *, sign/space/underscore/0x numerals, long numerals), '
        'edit-distance-1 neighbours over "%s", random strings over that alphabet; non-ASCII and non-str arguments are oracle-only. '
        'range2globs: IPv4 intervals lo<=hi by alignment class (glob-shaped, CIDR blocks of every prefix, blocks widened/narrowed by '
        'one at either end, octet-boundary values, random) + IPv6 pairs (rejected). cidr2glob: every IPv4 prefix x structured values '
        '(host bits kept) + IPv6 (rejected). nmap: four comma/hyphen octet lists with open ends, overlaps, duplicates, reversed and '
        'overflowing ranges, sloppy numerals, wrong octet counts, a.b.c.d/p with every p in 0..33 and sloppy prefixes, IPv6 '
        'addresses, edit-distance-1 neighbours; enumerations truncated at %d; iter_nmap_range(*specs) with 0-4 arguments of every form '
        '(octet lists, CIDRs, IPv6, malformed) under per-spec and whole-call (islice) budgets placed at, just before and just after every '
        'spec boundary; every third single spec (and every corpus spec) also through islice with the exact budget 0 (three in six), 1, 2 or 3 '
        '(nmap_take): at 0 nothing of the generator runs, malformed specs included. non-trivial = distinct case whose implementation '
        'output is not an error') % (ALPHA, FUEL)


# ================================================================= independent reference

_NUM = re.compile(r'^(0|[1-9][0-9]*)\Z', re.A)


def _plain(t):
    """plain decimal numeral, no leading zero; value or None"""
    if _NUM.match(t) and all(c in '0123456789' for c in t):
        return int(t)
    return None


def spec_glob(s):
    """(lo, hi) denoted by the glob s, or None if s is not a glob.  Grammar: four dot-separated
    octets; literal octets 0..255 first, then at most one x-y (x<y<=255), then only '*'."""
    if not isinstance(s, str):
        return None
    parts = s.split('.')
    if len(parts) != 4:
        return None
    lo = hi = 0
    phase = 0          # 0 literals, 1 after hyphen/asterisk (only '*' may follow)
    for p in parts:
        if p == '*':
            phase = 1
            a, b = 0, 255
        elif '-' in p:
            if phase:
                return None
            xy = p.split('-')
            if len(xy) != 2:
                return None
            a, b = _plain(xy[0]), _plain(xy[1])
            if a is None or b is None or not (a < b <= 255):
                return None
            phase = 1
        else:
            if phase:
                return None
            a = b = _plain(p)
            if a is None or a > 255:
                return None
        lo = lo * 256 + a
        hi = hi * 256 + b
    return lo, hi


def ref_cidrs(lo, hi):
    """greedy minimal CIDR cover of [lo, hi] inside 32 bits: list of (first, prefixlen)"""
    out = []
    while lo <= hi:
        k = 0
        while k < 32 and lo % (1 << (k + 1)) == 0 and lo + (1 << (k + 1)) - 1 <= hi:
            k += 1
        out.append((lo, 32 - k))
        lo += 1 << k
    return out


def glob_shaped(lo, hi):
    a = [(lo >> s) & 255 for s in (24, 16, 8, 0)]
    b = [(hi >> s) & 255 for s in (24, 16, 8, 0)]
    i = 0
    while i < 4 and a[i] == b[i]:
        i += 1
    return i == 4 or all(a[j] == 0 and b[j] == 255 for j in range(i + 1, 4))


_PLAIN_EL = re.compile(r'^(?:[0-9]+|[0-9]*-[0-9]*)\Z', re.A)


def _pyint(t):
    try:
        return int(t)
    except ValueError:
        return None


def ref_octet(tok):
    """(sorted value list or None, plain?) for one nmap octet list"""
    vals = set()
    plain = True
    bad = False
    for el in tok.split(','):
        if not _PLAIN_EL.match(el) or not el.isascii():
            plain = False
        if '-' in el:
            i = el.index('-')
            l, r = el[:i], el[i + 1:]
            a = 0 if l == '' else _pyint(l)
            b = 255 if r == '' else _pyint(r)
            if a is None or b is None or not (0 <= a <= 255 and 0 <= b <= 255) or a > b:
                bad = True
                continue
            vals.update(range(a, b + 1))
        else:
            a = _pyint(el)
            if a is None or not 0 <= a <= 255:
                bad = True
                continue
            vals.add(a)
    return (None if bad else sorted(vals)), plain


def ref_nmap(spec, fuel=FUEL):
    """('ok', [ints]) / ('bad',) / ('open',) for the octet-list form; 'open' = not judged"""
    toks = spec.split('.')
    if spec == '' or len(toks) != 4:
        return ('bad', True)
    sets = [ref_octet(t) for t in toks]
    plain = all(p for _, p in sets)
    if any(v is None for v, _ in sets):
        return ('bad', plain)
    out = []
    for w in sets[0][0]:
        for x in sets[1][0]:
            for y in sets[2][0]:
                for z in sets[3][0]:
                    out.append((w << 24) | (x << 16) | (y << 8) | z)
                    if len(out) >= fuel:
                        return ('ok', plain, out)
    return ('ok', plain, out)


# ================================================================= generators

OCT = [0, 1, 2, 9, 10, 99, 100, 127, 128, 199, 200, 254, 255]


def _oct(rng):
    return rng.choice(OCT) if rng.random() < 0.7 else rng.randrange(256)


def _hyp(rng):
    r = rng.random()
    if r < 0.4:
        return rng.choice([(0, 1), (0, 255), (254, 255), (0, 254), (1, 255), (1, 2), (127, 128), (99, 100), (9, 10)])
    a = rng.randrange(0, 255)
    return a, rng.randrange(a + 1, 256)


def valid_glob_str(rng, nlit=None, hyph=None):
    if nlit is None:
        nlit = rng.randrange(0, 5)
    parts = [str(_oct(rng)) for _ in range(nlit)]
    if len(parts) < 4 and (hyph if hyph is not None else rng.random() < 0.5):
        parts.append('%d-%d' % _hyp(rng))
    while len(parts) < 4:
        parts.append('*')
    return '.'.join(parts)


BAD_OCTETS = ['01', '00', '007', '0255', '', '-', '1-', '-1', '1-2-3', '**', '*-1', '1-*', '*-*', '0x1', '1 ', ' 1', '+1',
              '1_0', '256', '300', '1000', '99999999999999999999', '5-5', '7-3', '0-256', '255-256', '1--2', '0-0',
              '254-255', '0-1', '01-2', '1-02', '1-+2', ' 1-2', '1_0-200', '*', '1,2', '1/2', 'x', '1x']


def near_miss_glob(rng):
    r = rng.random()
    if r < 0.35:
        # any octet kind at any position (shape violations: literal/hyphen after * or -, two hyphens)
        parts = []
        for _ in range(4):
            q = rng.random()
            if q < 0.45:
                parts.append(str(rng.choice(OCT + [256, 300])))
            elif q < 0.7:
                parts.append('*')
            else:
                a, b = rng.randrange(0, 257), rng.randrange(0, 257)
                parts.append('%d-%d' % (a, b))
        return '.'.join(parts)
    if r < 0.75:
        parts = valid_glob_str(rng).split('.')
        parts[rng.randrange(4)] = rng.choice(BAD_OCTETS)
        return '.'.join(parts)
    if r < 0.9:
        parts = valid_glob_str(rng).split('.')
        n = rng.choice([1, 2, 3, 5, 6])
        parts = (parts + [str(_oct(rng)), '*'])[:n]
        return '.'.join(parts)
    return ''.join(rng.choice(ALPHA) for _ in range(rng.randrange(0, 12)))


def edits(rng, s, n):
    out = []
    for _ in range(n):
        k = rng.randrange(3)
        if k == 0 or not s:
            i = rng.randrange(len(s) + 1)
            out.append(s[:i] + rng.choice(ALPHA) + s[i:])
        elif k == 1:
            i = rng.randrange(len(s))
            out.append(s[:i] + s[i + 1:])
        else:
            i = rng.randrange(len(s))
            out.append(s[:i] + rng.choice(ALPHA) + s[i + 1:])
    return out


def all_edits(s):
    out = []
    for i in range(len(s) + 1):
        for ch in ALPHA:
            out.append(s[:i] + ch + s[i:])
    for i in range(len(s)):
        out.append(s[:i] + s[i + 1:])
        for ch in ALPHA:
            if ch != s[i]:
                out.append(s[:i] + ch + s[i + 1:])
    return out


def glob_cases(s):
    return [Case('valid_glob ' + hexs(s), 'glob/valid', ('vglob', s)),
            Case('glob_conv ' + hexs(s), 'glob/conv', ('gconv', s))]


def rand32(rng):
    r = rng.random()
    if r < 0.25:
        return rng.choice([0, 1, 255, 256, 257, 65535, 65536, 0x00ffffff, 0x01000000, M32, M32 - 1, M32 - 255, M32 - 256,
                           0x0a000000, 0x0affffff, 0x7fffffff, 0x80000000])
    if r < 0.65:
        k = rng.choice([0, 8, 16, 24, rng.randrange(0, 33)])
        x = (rng.getrandbits(32) >> k) << k if k < 32 else 0
        return min(M32, max(0, x + rng.choice([-1, 0, 0, 1, 255, 256])))
    if r < 0.8:
        return rand_value(rng, 32)
    return rng.getrandbits(32)


def r2g_case(lo, hi, tag, ver=4):
    return Case('range2globs A:%d:%d A:%d:%d' % (ver, lo, ver, hi), 'r2g/' + tag, ('r2g', ver, lo, hi))


def interval_cases(rng, mult):
    out = []
    # glob-shaped
    for _ in range(500 * mult):
        lo, hi = spec_glob(valid_glob_str(rng))
        out.append(r2g_case(lo, hi, 'shaped'))
    # CIDR blocks of every prefix, and the same widened / narrowed by one at either end
    for p in range(33):
        for _ in range(6 * mult):
            size = 1 << (32 - p)
            first = (rand32(rng) >> (32 - p)) << (32 - p) if p else 0
            last = first + size - 1
            out.append(r2g_case(first, last, 'block'))
            for dlo, dhi in ((-1, 0), (1, 0), (0, -1), (0, 1), (-1, 1), (1, -1)):
                lo, hi = first + dlo, last + dhi
                if 0 <= lo <= hi <= M32:
                    out.append(r2g_case(lo, hi, 'block+-1'))
    for _ in range(1000 * mult):
        a, b = sorted((rand32(rng), rand32(rng)))
        out.append(r2g_case(a, b, 'random'))
    for _ in range(300 * mult):
        a = rand32(rng)
        b = min(M32, a + rng.choice([0, 1, 2, 254, 255, 256, 257, 65535, 65536, rng.randrange(0, 70000)]))
        out.append(r2g_case(a, b, 'short'))
    for _ in range(6):
        a, b = sorted((rng.getrandbits(128), rng.getrandbits(rng.randrange(1, 128))))
        out.append(r2g_case(a, b, 'v6', ver=6))
    return out


def c2g_cases(rng, mult):
    out = []
    for p in range(33):
        for _ in range(12 * mult):
            v = rand32(rng)
            out.append(Case('cidr2glob N:4:%d:%d' % (v, p), 'c2g/v4', ('c2g', 4, v, p)))
    for _ in range(8):
        v, p = rng.getrandbits(128), rng.randrange(0, 129)
        out.append(Case('cidr2glob N:6:%d:%d' % (v, p), 'c2g/v6', ('c2g', 6, v, p)))
    return out


NMAP_BAD_EL = ['7' + '3' * 4300, '1-7' + '3' * 4300, '', ' 1', '1 ', '+1', '1_0', '01', '0x1', '*', '1-2-3', 'a', '1--5', '--', '-1-', '3-2', '1-300', '256',
               '300', '-256', '256-', '255-0', '00', '-0', '0-', '1- 2', ' 1-2', '+1-+2', '1_0-1_1', '-', '-+5', '1-2_0']


def nmap_octet(rng, small=True):
    els = []
    for _ in range(rng.choice([1, 1, 1, 2, 2, 3, 4])):
        q = rng.random()
        if q < 0.45:
            els.append(str(rng.choice([0, 1, 5, 9, 10, 100, 254, 255, rng.randrange(256)])))
        elif q < 0.75:
            a = rng.randrange(0, 256)
            b = min(255, a + rng.choice([0, 1, 2, 3, 5, 10] if small else [0, 1, 3, 40, 255]))
            els.append('%d-%d' % (a, b))
        elif q < 0.85:
            els.append(rng.choice(['-%d' % rng.choice([0, 1, 3, 255]), '%d-' % rng.choice([0, 250, 254, 255]), '-']))
        elif q < 0.93:
            els.append(rng.choice(['3-2', '1-300', '256', '255-0', '-256', '300-', '256-256']))
        else:
            els.append(rng.choice(NMAP_BAD_EL))
    return ','.join(els)


def nmap_spec(rng):
    r = rng.random()
    if r < 0.55:
        n = rng.choice([4] * 12 + [3, 5, 1, 2])
        return '.'.join(nmap_octet(rng, small=rng.random() < 0.8) for _ in range(n))
    if r < 0.62:
        return '.'.join(rng.choice(['-', '0-255', '-255', '0-', '*', '1', '0-254', '1-255']) for _ in range(4))
    if r < 0.85:
        # CIDR form
        v = rand32(rng)
        dq = '.'.join(str((v >> s) & 255) for s in (24, 16, 8, 0))
        q = rng.random()
        if q < 0.7:
            p = str(rng.choice(list(range(0, 35)) + [20, 24, 28, 29, 30, 31, 32] * 3))
        elif q < 0.85:
            p = rng.choice([' 24', '24 ', '+24', '2_4', '024', '0x18', '', 'x', '-1', '255.255.255.0', '24/1', '/', '1-2', '0',
                            '33', '32', '1', '00', '99999999999'])
        else:
            p = str(rng.randrange(1, 33))
            dq = rng.choice(['10.0.0', '10', '1.2.3.4.5', '::1', 'fe80::', '::ffff:1.2.3.4', '1-2.0.0.1', '010.0.0.1', ' 1.2.3.4',
                             '1.2.3.256', '', '::'])
        return dq + '/' + p
    if r < 0.95:
        return rng.choice(['::1', '::', 'fe80::1', '::ffff:1.2.3.4', 'abc:', '1.2.3.4:', ':', '1:2:3:4:5:6:7:8', '1:2:3:4:5:6:7:8:9',
                           '::1.2.3.4', 'g::', '1.2.3.4 :', 'ffff:ffff:ffff:ffff:ffff:ffff:ffff:ffff', ':: ', '0:0:0:0:0:0:0:0',
                           '%x::%x' % (rng.getrandbits(16), rng.getrandbits(16)), '1-2:3.4.5', '::1,2'])
    return ''.join(rng.choice(ALPHA + ':') for _ in range(rng.randrange(0, 10)))


def nmap_cases(s, plan=False, takes=()):
    tag = 'nmap/cidr' if '/' in s else ('nmap/v6' if ':' in s else 'nmap/octets')
    out = [Case('nmap %d %s' % (FUEL, hexs(s)), tag, ('nmap', s))]
    if plan:
        out.append(Case('nmap_plan %d %s' % (FUEL, hexs(s)), 'nmap/plan', ('nplan', s)))
    for f in takes:
        # list(islice(iter_nmap_range(s), f)) with the EXACT f, 0 included: a generator body does not run before
        # the first next(), so at f = 0 nothing is parsed and nothing raised (audit 2b finding 2)
        out.append(Case('nmap_take %d %s' % (f, hexs(s)), 'nmap/take%s' % ('0' if f == 0 else ''), ('ntake', f, s)))
    return out


def multi_spec(rng):
    """one argument of iter_nmap_range(*specs) whose enumeration has at most FUEL items (or fails)"""
    r = rng.random()
    if r < 0.6:
        return '%d.%d.' % (_oct(rng), _oct(rng)) + '.'.join(nmap_octet(rng) for _ in range(rng.choice([2, 2, 2, 2, 1])))
    if r < 0.8:
        v = rand32(rng)
        dq = '.'.join(str((v >> s) & 255) for s in (24, 16, 8, 0))
        return dq + '/' + str(rng.choice([20, 24, 27, 28, 29, 30, 30, 31, 32, 32, 0, 33, 19 + rng.randrange(14)]))
    if r < 0.9:
        return rng.choice(['::1', '::', 'fe80::1', '::ffff:1.2.3.4', '1:2:3:4:5:6:7:8', '%x::%x' % (rng.getrandbits(16), rng.getrandbits(16)),
                           '1:2:3:4:5:6:7:8:9', 'g::', '::1/128', 'fe80::/24'])
    return rng.choice(['', '1.2.3', '1.2.3.4.5', '1.2.3.256', '1.2.3.4-3', 'x/y', '1.2.3.4/x', '1.2.3.4//24', '10.0.0.1', '9.9.9.9'])


def multi_total(ss):
    """number of items of the whole call when every spec is fine and small; None otherwise"""
    n = 0
    for x in ss:
        e = _nmap_expect(x, FUEL + 1)
        if e is None:
            return None
        if e[0] != 'ok':
            break
        if len(e[1]) > FUEL:
            return None
        n += len(e[1])
    return n


def corpus():
    out = []
    # F10 (fixed, e2505da): numerals that int() accepts but the address parser reads differently / rejects
    for s in ['010.0.0.*', ' 1.2.3.4', '1.2.3.+4', '1_0.0.0.0', '1.2.3.4 ', '0x1.2.3.4', '1.2.03-4.*', '00.0.0.0']:
        out += glob_cases(s)
    for s in ['192.0.2.1', '192.0.2.0-31', '192.0.2.*', '192.0.2-3.*', '192.0-1.*.*', '*.*.*.*', '1.2.*.4', '1.2-3.4-5.*',
              '1.2-3.4.*', '*.*.*.0-1', '0-255.*.*.*', '255.255.255.254-255']:
        out += glob_cases(s)
    out += [r2g_case(0, M32, 'corpus'), r2g_case(5, 1000, 'corpus'), r2g_case(0x0a000001, 0x0a0000fe, 'corpus'),
            r2g_case(256, 767, 'corpus'), r2g_case(255, 256, 'corpus'), r2g_case(M32, M32, 'corpus')]
    for s in ['192.0.2.0-3', '10.0.0-1.1,3-5', '-.-.-.-', '1.2.3.4,4,4-5,5', '10.0.0.0/30', '10.0.0.5/30', '10.0.0.0/0',
              '10.0.0.0/33', '::1', '::1/128', '1.2.3', '', '1.2.3.3-2', '1.2.3.-', '1.2.3.250-', '1.2.3.-3', '10.0.0.0/1',
              # int() leniencies of the octet grammar (NmapGrammar productions), sloppy CIDR spellings, the
              # inet_aton tail of the ':' branch, IPv6 CIDRs, second slash, garbage
              '1.2.3.0--0', '1.2.3.--0', '1.2.3.0- -0_0', '1.2.3. +0_7 ', '1.2.3.007', '1.2.3.1--0', '1.2.3.-0', '1.2.3.4,',
              '1.2.3.,4', '1.2.3.1-2-3', '1.2.3.\t5\n', '1.2.3.5 - 6', '1.2.3.+5-+6', '1.2.3.1__0', '1.2.3._1', '1.2.3.1_',
              '10/8', '10.0.0.1/ 8', '010.0.0.1/8', '1.2.3.4 /8', '1.2.3.4/+8', '1.2.3.4/0_8', '1.2.3.4/255.255.255.0',
              '1.2.3.4/8/9', '1.2.3.4//8', '/', '/8', 'x/y', '::/8', '::1/x', 'fe80::/10', '::ffff:1.2.3.4/24', '1.2.3.4/-0',
              '1.2.3.4 :', '1.2.3.4 ::1', '1 :', '0x7f.1 :x', '::ffff:1.2.3.4', '1.2.3.4:', ': 1.2.3.4']:
        out += nmap_cases(s, plan=True, takes=(0, 1))
    for ss in [('10.0.0.0/30', '::1', '1.2.3.4-5'), ('1.2.3.4', '1.2.3', '9.9.9.9'), ('1.2.3.4', 'x/y'), ('::1', '10.0.0.0/33', '1.1.1.1'),
               (), ('',), ('1.2.3.4', '1.2.3.4'), ('1.2.3.4,4', '1.2.3.4 :')]:
        out += multi_cases(ss, [FUEL, 0, 1, 2, 4, 5, 6])
    return out


def multi_cases(ss, fuels):
    out = []
    if multi_total(ss) is not None:
        out.append(Case('nmap_multi %d %s' % (FUEL, plist(hexs(s) for s in ss)), 'nmap/multi', ('nmulti', ss)))
    for f in fuels:
        out.append(Case('nmap_islice %d %s' % (f, plist(hexs(s) for s in ss)), 'nmap/islice', ('nislice', f, ss)))
    return out


def generate(rng, tier):
    mult = 1 if tier == 'quick' else 4
    cases = []
    seen = set()

    def add_glob(s):
        if s in seen or not s.isascii():
            return
        seen.add(s)
        cases.extend(glob_cases(s))

    # every shape, valid
    for nlit in range(5):
        for hyph in (False, True):
            for _ in range(300 * mult):
                add_glob(valid_glob_str(rng, nlit, hyph))
    base = [valid_glob_str(rng) for _ in range(800 * mult)]
    for s in base:
        add_glob(s)
        for e in edits(rng, s, 5):
            add_glob(e)
    for _ in range(6000 * mult):
        add_glob(near_miss_glob(rng))
    # every edit-distance-1 neighbour (insert / delete / replace at every position) of a few representatives
    reps = ['1.2.3.4', '10.0.0-9.*', '*.*.*.*', '255.254-255.*.*', '0.0.0.0-1'] + [valid_glob_str(rng) for _ in range(2 * mult)]
    for s in reps:
        for e in all_edits(s):
            add_glob(e)
    # numerals beyond the interpreter's int-from-str digit limit (4300): plain runs of digits that int() refuses with
    # ValueError - not a glob, and the converters say AddrFormatError like for any other malformed text
    for n in (4300, 4301, rng.choice([5000, 6000])):
        long_ = rng.choice('123456789') + ''.join(rng.choice('0123456789') for _ in range(n - 1))
        for t in ('1.2.3.%s', '%s.2.3.4', '1.2.3.4-%s', '1.2.3.%s-5', '1.2.%s.*', '1.2.3.%s-%s'):
            add_glob(t.replace('%s', long_))
    # octets from the literals of the current source
    lits = [v for v in harvest_literals() if v <= 300]
    for _ in range(300 * mult):
        a, b = rng.choice(lits), rng.choice(lits)
        add_glob('%d.%d.%d-%d.*' % (rng.choice(lits), rng.choice(lits), a, b))
        add_glob('10.0.%d.%d' % (a, b))
    # oracle-only: non-ASCII digits / non-str
    for s in ['١.2.3.4', '1.2.3.４', '1.2.3.4 ', '1.2.3.٤-٥', '¹.2.3.4']:
        cases.append(Case(None, 'glob/nonascii', ('vglob', s)))
        cases.append(Case(None, 'glob/nonascii', ('gconv', s)))
    for tagv in ('none', 'int', 'list'):
        cases.append(Case(None, 'glob/nonstr', ('vglob_nonstr', tagv)))
        cases.append(Case(None, 'nmap/nonstr', ('nvalid_nonstr', tagv)))

    cases += interval_cases(rng, mult)
    cases += c2g_cases(rng, mult)

    nseen = set()

    def add_nmap(s):
        if s in nseen or not s.isascii():
            return
        nseen.add(s)
        cases.extend(nmap_cases(s, plan=len(nseen) % 4 == 0,
                                takes=(rng.choice((0, 0, 0, 1, 2, 3)),) if len(nseen) % 3 == 0 else ()))

    nbase = [nmap_spec(rng) for _ in range(2500 * mult)]
    for s in nbase:
        add_nmap(s)
    for s in rng.sample(nbase, 500 * mult):
        for e in edits(rng, s, 2):
            add_nmap(e)
    # (representatives for the exhaustive neighbourhood must be short: an element beyond the int-from-str digit
    # limit would have 4300 x |alphabet| neighbours of 4300 characters each)
    for s in ['1.2.3.4', '10.0.0-1.1,3-5', '1.2.3.-4', '9.8.7.250-', '10.0.0.0/30', '::1'] + \
            [r for r in ('.'.join(nmap_octet(rng) for _ in range(4)) for _ in range(2 * mult)) if len(r) <= 80]:
        for e in all_edits(s):
            add_nmap(e)
    for _ in range(300 * mult):
        ss = tuple(multi_spec(rng) for _ in range(rng.randrange(0, 5)))
        tot = multi_total(ss)
        fuels = [rng.choice([0, 1, 2, 3, 7, 64, FUEL])]
        if tot is not None:
            # budgets around the end of each spec's items: the call stops exactly at / just before / just after a boundary
            fuels += [max(0, tot + rng.choice([-1, 0, 1]))]
            e0 = _nmap_expect(ss[0], FUEL + 1) if ss else None
            if e0 and e0[0] == 'ok':
                fuels.append(max(0, len(e0[1]) + rng.choice([-1, 0, 0, 1])))
        cases.extend(multi_cases(ss, fuels))

    cases += platform_cases.pyint_cases(rng, 300 * mult)
    return cases


# ================================================================= implementation side

def _try(f):
    try:
        return f()
    except Exception:
        return '!'


def _tryc(f):
    """like _try, with the class of the exception (the nmap ops compare it)"""
    try:
        return f()
    except Exception as e:
        return '!' + errname(e).replace(' ', '_')


def _show(x):
    return str(int(x)) if x.version == 4 else '%d:%d' % (x.version, int(x))


_NONSTR = {'none': None, 'int': 5, 'bytes': b'1.2.3.4', 'list': ['1.2.3.4']}


def impl(c):
    if c.platform:
        return platform_cases.impl(c)
    a = c.args
    k = a[0]
    if k == 'vglob':
        return _try(lambda: tf(valid_glob(a[1])))
    if k == 'vglob_nonstr':
        return _try(lambda: tf(valid_glob(_NONSTR[a[1]])))
    if k == 'nvalid_nonstr':
        return _try(lambda: tf(valid_nmap_range(_NONSTR[a[1]])))
    if k == 'gconv':
        s = a[1]
        # a first round of answers whose objects the caller then moves in place (they are the caller's):
        # the second round - the one compared - must be unaffected
        try:
            x0, y0 = glob_to_iptuple(s)
            c0 = glob_to_cidrs(s)
            common.disturb(x0, y0, *c0)
        except Exception:
            pass

        def t():
            x, y = glob_to_iptuple(s)
            if x.version != 4 or y.version != 4:
                return 'v%d' % x.version
            return '%d,%d' % (int(x), int(y))

        def r():
            g = glob_to_iprange(s)
            if g.version != 4 or type(g) is not IPRange:
                return 'v%d' % g.version
            return '%d,%d' % (g.first, g.last)

        def g():
            o = IPGlob(s)
            if o.version != 4:
                return 'v%d' % o.version
            return '%d,%d,%s' % (o.first, o.last, hexs(str(o)))

        def cl():
            return plist('%d:%d/%d' % (n.version, n.value, n.prefixlen) for n in glob_to_cidrs(s))

        def st():
            o = IPGlob('*.*.*.*')
            try:
                o.glob = s
            except Exception:
                # a rejected assignment must leave the object as it was
                if (o.first, o.last, str(o)) != (0, M32, '*.*.*.*'):
                    return '!changed'
                raise
            if o.version != 4:
                return 'v%d' % o.version
            return '%d,%d,%s' % (o.first, o.last, hexs(str(o)))

        return ' '.join(_tryc(f) for f in (t, r, g, cl, st))
    if k == 'r2g':
        _, ver, lo, hi = a
        def r2g():
            x, y = common.make_addr(ver, lo), common.make_addr(ver, hi)
            out = iprange_to_globs(x, y)
            if (int(x), int(y)) != (lo, hi):
                return '!arguments-modified'
            return plist(hexs(g) for g in out)
        return _tryc(r2g)
    if k == 'c2g':
        _, ver, v, p = a
        return _tryc(lambda: hexs(cidr_to_glob(common.make_net(ver, v, p))))
    if k == 'nmap':
        def it():
            return plist(_show(x) for x in itertools.islice(common.paired(lambda: iter_nmap_range(a[1])), FUEL))
        return _tryc(lambda: tf(valid_nmap_range(a[1]))) + ' ' + _tryc(it)
    if k == 'nplan':
        return _tryc(lambda: plist(_show(x) for x in itertools.islice(iter_nmap_range(a[1]), FUEL)))
    if k == 'ntake':
        return _tryc(lambda: plist(_show(x) for x in itertools.islice(iter_nmap_range(a[2]), a[1])))
    if k in ('nmulti', 'nislice'):
        specs = a[1] if k == 'nmulti' else a[2]
        budget = FUEL * max(1, len(specs)) if k == 'nmulti' else a[1]
        out = []
        try:
            for x in itertools.islice(common.paired(lambda: iter_nmap_range(*specs)), budget):
                out.append(_show(x))
            return plist(out)
        except Exception as e:
            return plist(out) + '!' + errname(e).replace(' ', '_')
    raise ValueError(a)


# ================================================================= oracle

def _strs(tok):
    """'[s:..,s:..]' -> list of str"""
    inner = tok[1:-1]
    return [unhexs(t) for t in inner.split(',')] if inner else []


def _ints(tok):
    inner = tok[1:-1]
    return inner.split(',') if inner else []


def oracle(c, got):
    if c.platform:
        return None
    a = c.args
    k = a[0]
    if k in ('vglob_nonstr', 'nvalid_nonstr'):
        return None if got == 'F' else 'non-str argument gave %s, expected False' % got
    if k == 'vglob':
        exp = tf(spec_glob(a[1]) is not None)
        return None if got == exp else 'valid_glob gave %s, the glob grammar says %s' % (got, exp)
    if k == 'gconv':
        sp = spec_glob(a[1])
        parts = got.split(' ')
        if len(parts) != 5:
            return 'malformed output'
        if sp is None:
            return None if all(x.startswith('!') for x in parts) and len(parts) == 5 else 'not a glob, yet a conversion succeeded: %s' % got
        lo, hi = sp
        pair = '%d,%d' % (lo, hi)
        if parts[0] != pair:
            return 'glob_to_iptuple gave %s, the glob denotes %s' % (parts[0], pair)
        if parts[1] != pair:
            return 'glob_to_iprange gave %s, the glob denotes %s' % (parts[1], pair)
        g = parts[2].split(',')
        if len(g) != 3 or ','.join(g[:2]) != pair:
            return 'IPGlob gave %s, the glob denotes %s' % (parts[2], pair)
        if spec_glob(unhexs(g[2])) != sp:
            return 'str(IPGlob) = %r does not denote %s' % (unhexs(g[2]), pair)
        g = parts[4].split(',')
        if len(g) != 3 or ','.join(g[:2]) != pair or spec_glob(unhexs(g[2])) != sp:
            return 'IPGlob.glob = %r gave %s, the glob denotes %s' % (a[1], parts[4], pair)
        exp = plist('4:%d/%d' % b for b in ref_cidrs(lo, hi))
        if parts[3] != exp:
            return 'glob_to_cidrs gave %s, expected %s' % (parts[3][:120], exp[:120])
        return None
    if k == 'r2g':
        _, ver, lo, hi = a
        if ver != 4:
            return None if got.startswith('!') else 'IPv6 range converted to globs: %s' % got[:80]
        if got.startswith('!'):
            return 'iprange_to_globs raised on an IPv4 range'
        gl = _strs(got)
        cur = lo
        for g in gl:
            sp = spec_glob(g)
            if sp is None:
                return 'returned %r which is not a valid glob' % g
            if sp[0] != cur:
                return 'globs do not tile the range: %r starts at %d, expected %d' % (g, sp[0], cur)
            cur = sp[1] + 1
        if cur != hi + 1:
            return 'globs end at %d, range ends at %d' % (cur - 1, hi)
        if glob_shaped(lo, hi) and len(gl) != 1:
            return 'glob-shaped range returned %d globs' % len(gl)
        return None
    if k == 'c2g':
        _, ver, v, p = a
        if ver != 4:
            return None if got.startswith('!') else 'IPv6 CIDR converted to a glob'
        if got.startswith('!'):
            return 'cidr_to_glob raised on an IPv4 CIDR'
        size = 1 << (32 - p)
        first = v - v % size
        sp = spec_glob(unhexs(got))
        exp = (first, first + size - 1)
        return None if sp == exp else 'cidr_to_glob gave %r = %s, the block is %s' % (unhexs(got), sp, exp)
    if k == 'nmap':
        return _nmap_oracle(a[1], got)
    if k == 'nplan':
        return None                      # judged through the 'nmap' case of the same spec
    if k == 'ntake':
        f, spec = a[1], a[2]
        if f == 0:
            return None if got == '[]' else 'islice(iter_nmap_range(spec), 0) gave %s: nothing of a generator runs before the first next()' % got[:100]
        e = _nmap_expect(spec, f)
        if e is None:
            return None                  # acceptance left open; the 'nmap' case of the spec ties it to valid_nmap_range
        if e[0] == 'bad':
            return None if got in ('!value', '!addrFormat') else 'malformed spec iterated: %s' % got[:100]
        return None if got == plist(e[1][:f]) else 'first %d items %s, expected %s' % (f, got[:100], plist(e[1][:f])[:100])
    if k in ('nmulti', 'nislice'):
        specs = a[1] if k == 'nmulti' else a[2]
        budget = None if k == 'nmulti' else a[1]
        # concatenation in argument order; the first bad spec raises where its items would start; one budget
        exp = []
        failed = False
        for s in specs:
            if budget is not None and len(exp) >= budget:
                break                    # the consumer stopped asking: later specs are never looked at
            e = _nmap_expect(s, FUEL + 1 if budget is None else budget - len(exp))
            if e is None:
                return None              # sloppy numerals / address spellings: acceptance not judged here
            if e[0] != 'ok':
                failed = True
                break
            exp += e[1]
        if budget is not None:
            exp = exp[:budget]
        lst, _, err = got.partition('!')
        if (lst, bool(err) or got.endswith('!')) != (plist(exp), failed):
            return 'iter_nmap_range(*specs) gave %s, expected %s%s' % (got[:100], plist(exp)[:100], '!' if failed else '')
        return None
    return None


def _nmap_expect(spec, fuel=FUEL):
    """('ok', list-of-str) / ('bad',) / ('ok?',) one address, unknown / None = acceptance left open"""
    if '/' in spec:
        m = re.match(r'^((?:0|[1-9][0-9]{0,2})(?:\.(?:0|[1-9][0-9]{0,2})){3})/(0|[1-9][0-9]*)\Z', spec, re.A)
        if m:
            try:
                ip = int(ipaddress.IPv4Address(m.group(1)))
            except ValueError:
                return ('bad',)
            p = int(m.group(2))
            if not 1 <= p <= 32:
                return ('bad',)
            size = 1 << (32 - p)
            first = ip - ip % size
            return ('ok', [str(first + i) for i in range(min(size, fuel))])
        return None
    if ':' in spec:
        try:
            return ('ok', ['6:%d' % int(ipaddress.IPv6Address(spec))])
        except ValueError:
            return None
    r = ref_nmap(spec, fuel)
    if r[0] == 'ok':
        return ('ok', [str(v) for v in r[2]])
    return ('bad',) if r[1] else None


def _nmap_oracle(spec, got):
    exp = _nmap_expect(spec)
    parts = got.split(' ')
    if len(parts) != 2:
        return 'malformed output'
    valid, got = parts
    # valid <=> iteration succeeds, on every spec
    if valid not in ('T', 'F'):
        return 'valid_nmap_range raised'
    if got.startswith('!'):
        if got not in ('!value', '!addrFormat'):
            return 'iteration raised %s (nmap.py raises ValueError / AddrFormatError only)' % got[1:]
        got = '!'
    if (valid == 'T') != (got != '!'):
        return 'valid_nmap_range = %s but iteration %s' % (valid, 'succeeds' if got != '!' else 'raises')
    if exp is not None and (valid == 'T') != (exp[0] == 'ok'):
        return 'valid_nmap_range = %s, reference says %s' % (valid, exp[0])
    if exp is None:
        if got == '!':
            return None
        vals = _ints(got)
        if not vals:
            return 'iteration yielded nothing'
        if '/' in spec:
            # an ascending run of consecutive IPv4 addresses, aligned, of the block's size
            try:
                p = int(spec.split('/', 1)[1])
            except ValueError:
                return 'prefix is not an integer, yet iteration succeeded'
            if not 1 <= p <= 32:
                return 'prefix %d accepted' % p
            size = 1 << (32 - p)
            iv = [int(x) for x in vals] if all(':' not in x for x in vals) else None
            if iv is None or iv[0] % size or iv != list(range(iv[0], iv[0] + min(size, FUEL))):
                return 'CIDR spec did not yield its aligned block: %s' % got[:80]
        elif ':' in spec and len(vals) != 1:
            return 'address spec yielded %d addresses' % len(vals)
        return None
    if exp[0] == 'bad':
        return None if got == '!' else 'malformed spec iterated: %s' % got[:80]
    e = plist(exp[1])
    return None if got == e else 'iteration gave %s, expected %s' % (got[:100], e[:100])


def repro(c):
    a = c.args
    k = a[0]
    if k == 'vglob':
        return 'valid_glob(%r)' % (a[1],)
    if k == 'gconv':
        return "s = %r; glob_to_iptuple(s), glob_to_iprange(s), IPGlob(s), glob_to_cidrs(s); g = IPGlob('*.*.*.*'); g.glob = s; g" % (a[1],)
    if k == 'r2g':
        return 'iprange_to_globs(IPAddress(%d, %d), IPAddress(%d, %d))' % (a[2], a[1], a[3], a[1])
    if k == 'c2g':
        return 'cidr_to_glob(IPNetwork((%d, %d), version=%d))' % (a[2], a[3], a[1])
    if k == 'nmap':
        return 'valid_nmap_range(%r), list(itertools.islice(iter_nmap_range(%r), %d))' % (a[1], a[1], FUEL)
    if k == 'nmulti':
        return 'list(iter_nmap_range(*%r))' % (a[1],)
    if k == 'nislice':
        return 'list(itertools.islice(iter_nmap_range(*%r), %d))' % (a[2], a[1])
    if k == 'ntake':
        return 'list(itertools.islice(iter_nmap_range(%r), %d))' % (a[2], a[1])
    if k == 'nplan':
        return 'list(itertools.islice(iter_nmap_range(%r), %d))' % (a[1], FUEL)
    if k == 'vglob_nonstr':
        return 'valid_glob(%r)' % (_NONSTR[a[1]],)
    if k == 'nvalid_nonstr':
        return 'valid_nmap_range(%r)' % (_NONSTR[a[1]],)
    return repr(a)
