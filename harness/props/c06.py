"""C06 — IPSet is canonical after any history; equality is extensional.
One case = one history over three live sets (harness/ipset_hist.py)."""
from common import Case
import ipset_hist as H

ID = 'C06'
RULE = ('random operation histories (1-12 ops quick, 1-30 thorough, plus seeding constructors and a final query) over '
        'three live IPSets; arguments clustered round hot windows at address 0, the top address, mid-space and the '
        'IPv6 integer 2^32, in every argument form (IPNetwork with host bits, str, int, IPAddress, IPRange, IPGlob, '
        'IPSet, lists). non-trivial = distinct history none of whose steps raised')


def _case(ops, tag='history'):
    return Case(None, tag, ('hist', ops))


def corpus():
    N = lambda ver, val, p, form='net': ('N', ver, val, p, form)
    return [
        # F7: host bits of string / network arguments must not be displayed
        _case((('new', 0, 'list', (N(4, 0x0a000005, 24, 'str'),)), ('q', 0, 0, N(4, 0x0a000005, 32))), 'corpus/F7'),
        _case((('add', 0, N(4, 0xfffffff5, 27, 'str')), ('upd', 1, 'list', (N(4, 0x0a000005, 24),)),
               ('bin', 2, 0, 1, 'and'), ('q', 2, 0, N(4, 1, 32))), 'corpus/F7'),
        # F15: empty set through pickle protocols 0/1
        _case((('copy', 1, 0, 'p0'), ('copy', 2, 0, 'p1'), ('q', 1, 2, N(4, 1, 32))), 'corpus/F15'),
        # sibling merges up to /0 and removal splitting it again
        _case((('add', 0, N(4, 0, 1)), ('add', 0, N(4, 1 << 31, 1)), ('rem', 0, N(4, 5, 32, 'int')),
               ('add', 0, N(4, 5, 32, 'addrstr')), ('q', 0, 0, N(4, 5, 32))), 'corpus/merge-up'),
    ]


def generate(rng, tier):
    n = 1500 if tier == 'quick' else 2500
    return [_case(H.gen_history(rng, tier)) for _ in range(n)]


def impl(c):
    ops = c.args[1]
    obs, line, extras = H.run_impl(ops)
    c.line = line
    c.extra = extras
    return ';'.join(obs)


def _impl_extras(c):
    ex = c.extra
    if ex is None:
        _, _, ex = H.run_impl(c.args[1])
    return ex


def oracle(c, got):
    ops = c.args[1]
    steps = got.split(';')
    if c.line is None:
        return 'implementation did not finish the history'
    exp = H.run_ref(ops, c.line)
    extras = _impl_extras(c)
    for idx, (op, g, e) in enumerate(zip(ops, steps, exp)):
        if op[0] == 'q':
            # equality must be extensional (column 0 of the query)
            if g.split(' ')[0] != e.split(' ')[0]:
                return 'step %d %r: == gave %s but the sets %s the same addresses' % (
                    idx, op, g.split(' ')[0], 'contain' if e.split(' ')[0] == 'T' else 'do not contain')
            continue
        if g != e:
            return 'step %d %r: set shows %s, the minimal host-bit-free CIDR list of the history is %s' % (idx, op, g, e)
        ex = extras[idx]
        if 'repr' in ex:
            try:
                rp = H.parse_repr(ex['repr'])
            except Exception as err:
                return 'step %d %r: repr %r is not readable (%s)' % (idx, op, ex['repr'], err)
            want = [tuple(int(x) for x in t.replace('/', ':').split(':')) for t in e[1:-1].split(',') if t]
            if rp != want:
                return 'step %d %r: repr shows %s, expected %s' % (idx, op, rp, want)
            head = []
            for ver, val, p in want:
                for x in range(val, val + (1 << (H.W[ver] - p))):
                    head.append((ver, x))
                    if len(head) >= 3:
                        break
                if len(head) >= 3:
                    break
            if ex['iter_head'] != head[:len(ex['iter_head'])] or len(ex['iter_head']) != min(3, len(head)):
                return 'step %d %r: iteration starts %s, expected %s' % (idx, op, ex['iter_head'], head)
    if len(steps) != len(exp):
        return 'history produced %d observations for %d ops' % (len(steps), len(exp))
    return None


def shrink(c, fails):
    """drop operations one at a time while the history still violates the property"""
    ops = list(c.args[1])
    changed = True
    budget = 400
    while changed and budget > 0:
        changed = False
        i = len(ops) - 1
        while i >= 0 and budget > 0:
            cand = ops[:i] + ops[i + 1:]
            budget -= 1
            if cand and fails(Case(None, c.tag, ('hist', tuple(cand)))):
                ops = cand
                changed = True
            i -= 1
    return Case(None, c.tag, ('hist', tuple(ops)))


def repro(c):
    return 'replay ops %r with harness/ipset_hist.py:run_impl (args built by build_arg)' % (c.args[1],)
