"""C06 — IPSet is canonical after any history; equality is extensional.
One case = one history over three live sets (harness/ipset_hist.py).
args = ('hist', ops) | ('hist', ops, 'raw'): a raw history goes to the model's op `ipset_raw` with its string /
int / IPAddress arguments uncoerced (the model runs IPNetwork(x) / IPAddress(x) itself, Model/Coerce.lean)."""
from common import Case
import ipset_hist as H

ID = 'C06'
RULE = ('random operation histories (1-12 ops quick, 1-30 thorough, plus seeding constructors and a final query) over '
        'three live IPSets; arguments clustered round hot windows at address 0, the top address, mid-space and the '
        'IPv6 integer 2^32, in every argument form (IPNetwork with host bits, str, int, IPAddress, IPRange, IPGlob, '
        'IPSet, lists); ~30% of the histories are raw: strings / ints / addresses reach the model uncoerced, with '
        'netmask / hostmask strings, int query arguments and (2% of the arguments) an unparsable text or '
        'out-of-range int whose step must raise and change nothing. non-trivial = distinct history none of whose '
        'steps raised')


def _case(ops, tag='history', raw=False):
    return Case(None, tag + ('/raw' if raw else ''), ('hist', ops) + (('raw',) if raw else ()))


def is_raw(c):
    return len(c.args) > 2 and c.args[2] == 'raw'


def corpus():
    N = lambda ver, val, p, form='net': ('N', ver, val, p, form)
    return [
        # F7: host bits of string / network arguments must not be displayed
        _case((('new', 0, 'list', (N(4, 0x0a000005, 24, 'str'),)), ('q', 0, 0, N(4, 0x0a000005, 32))), 'corpus/F7'),
        _case((('add', 0, N(4, 0xfffffff5, 27, 'str')), ('upd', 1, 'list', (N(4, 0x0a000005, 24),)),
               ('bin', 2, 0, 1, 'and'), ('q', 2, 0, N(4, 1, 32))), 'corpus/F7'),
        # F15: empty set through pickle protocols 0/1
        _case((('copy', 1, 0, 'p0'), ('copy', 2, 0, 'p1'), ('q', 1, 2, N(4, 1, 32))), 'corpus/F15'),
        # sibling merges up to /0 and removal splitting it again
        _case((('add', 0, N(4, 0, 1)), ('add', 0, N(4, 1 << 31, 1)), ('rem', 0, N(4, 5, 32, 'int')),
               ('add', 0, N(4, 5, 32, 'addrstr')), ('q', 0, 0, N(4, 5, 32))), 'corpus/merge-up'),
        # the same through the model's own coercion, every argument form; refused arguments change nothing
        _case((('add', 0, N(4, 0, 1)), ('add', 0, N(4, 1 << 31, 1, 'maskstr')), ('rem', 0, N(4, 5, 32, 'int')),
               ('add', 0, N(4, 5, 32, 'addrstr')), ('q', 0, 0, N(4, 5, 32, 'int'))), 'corpus/merge-up', raw=True),
        _case((('new', 0, 'list', (N(4, 0x0a000005, 24, 'str'), N(4, 7, 32, 'int'), N(6, 1, 128, 'addr'),
                                   N(4, 0x0a000105, 24, 'hoststr'))),
               ('add', 0, N(4, 9, 32, 'bad')), ('rem', 0, N(4, 9, 32, 'badint')), ('upd', 0, 'list', (N(4, 1, 32, 'int'), N(4, 3, 32, 'bad'))),
               ('new', 0, 'list', (N(4, 2, 32, 'badint'),)), ('upd', 0, 'arg', N(6, 1 << 32, 128, 'int')),
               ('q', 0, 0, N(4, 0x0a000005, 32, 'addrstr'))), 'corpus/coerce', raw=True),
    ]


def generate(rng, tier):
    n = 1500 if tier == 'quick' else 2500
    out = []
    for _ in range(n):
        raw = rng.random() < 0.3
        out.append(_case(H.gen_history(rng, tier, raw), raw=raw))
    return out


def impl(c):
    ops = c.args[1]
    obs, line, extras = H.run_impl(ops, is_raw(c))
    c.line = line
    c.extra = extras
    return ';'.join(obs)


def _impl_extras(c):
    ex = c.extra
    if ex is None:
        _, _, ex = H.run_impl(c.args[1], is_raw(c))
    return ex


def oracle(c, got):
    ops = c.args[1]
    steps = got.split(';')
    if c.line is None:
        return 'implementation did not finish the history'
    exp = H.run_ref(ops, c.line)
    extras = _impl_extras(c)
    for idx, (op, g, e) in enumerate(zip(ops, steps, exp)):
        if op[0] == 'q':
            # equality must be extensional (column 0 of the query)
            gs, es = g.split(' '), e.split(' ')
            if gs[0] != es[0]:
                return 'step %d %r: == gave %s but the sets %s the same addresses' % (
                    idx, op, gs[0], 'contain' if es[0] == 'T' else 'do not contain')
            # != is the negation of ==; repr() shows the canonical list of the first operand
            if len(gs) <= H.REPR_COL:
                return 'step %d %r: query row has only %d columns' % (idx, op, len(gs))
            if gs[13] != es[13]:
                return 'step %d %r: != gave %s but the sets %s the same addresses' % (
                    idx, op, gs[13], 'contain' if es[0] == 'T' else 'do not contain')
            try:
                shown = H.repr_col_shown(gs[H.REPR_COL])
            except Exception as err:
                return 'step %d %r: repr is not readable (%s)' % (idx, op, err)
            if shown != es[H.REPR_COL]:
                return 'step %d %r: repr shows %s, the minimal host-bit-free CIDR list is %s' % (
                    idx, op, shown, es[H.REPR_COL])
            continue
        if e == H.RAISES:
            if not g.startswith('!'):
                return 'step %d %r: an argument no constructor accepts was taken, set shows %s' % (idx, op, g)
            continue
        if g != e:
            return 'step %d %r: set shows %s, the minimal host-bit-free CIDR list of the history is %s' % (idx, op, g, e)
        ex = extras[idx]
        if 'repr' in ex:
            try:
                rp = H.parse_repr(ex['repr'])
            except Exception as err:
                return 'step %d %r: repr %r is not readable (%s)' % (idx, op, ex['repr'], err)
            want = [tuple(int(x) for x in t.replace('/', ':').split(':')) for t in e[1:-1].split(',') if t]
            if rp != want:
                return 'step %d %r: repr shows %s, expected %s' % (idx, op, rp, want)
            head = []
            for ver, val, p in want:
                for x in range(val, val + (1 << (H.W[ver] - p))):
                    head.append((ver, x))
                    if len(head) >= 3:
                        break
                if len(head) >= 3:
                    break
            if ex['iter_head'] != head[:len(ex['iter_head'])] or len(ex['iter_head']) != min(3, len(head)):
                return 'step %d %r: iteration starts %s, expected %s' % (idx, op, ex['iter_head'], head)
    if len(steps) != len(exp):
        return 'history produced %d observations for %d ops' % (len(steps), len(exp))
    return None


def shrink(c, fails):
    """drop operations one at a time while the history still violates the property"""
    ops = list(c.args[1])
    changed = True
    budget = 400
    while changed and budget > 0:
        changed = False
        i = len(ops) - 1
        while i >= 0 and budget > 0:
            cand = ops[:i] + ops[i + 1:]
            budget -= 1
            if cand and fails(Case(None, c.tag, ('hist', tuple(cand)) + tuple(c.args[2:]))):
                ops = cand
                changed = True
            i -= 1
    return Case(None, c.tag, ('hist', tuple(ops)) + tuple(c.args[2:]))


def repro(c):
    return 'replay ops %r with harness/ipset_hist.py:run_impl%s (args built by build_arg)' % (
        c.args[1], '(ops, raw=True)' if is_raw(c) else '')
