"""C13 — spanning_cidr returns the smallest single block covering all inputs.
Op: span_nets [N:ver:val:plen,...]  ->  ver:val/plen | !value | !type"""
import ipaddress
from common import Case, W, rand_value, rand_block, errname, plist
import netaddr
from netaddr import IPNetwork, IPAddress

ID = 'C13'
RULE = ('sequences of 0-7 IPAddress / IPNetwork (any host bits) / address-string / CIDR-string inputs built relative '
        'to a first block: identical, nested, sibling, adjacent, one apart, far apart, differing prefix lengths, '
        'bottom/top of the space, both families; each base sequence also shuffled and with repeated elements; '
        'sequences of length 0/1 (ValueError) and mixed families (TypeError). non-trivial = distinct case whose '
        'implementation output is not an error')


def _block(ver, v, p):
    w = W[ver]
    h = 1 << (w - p)
    f = v - v % h
    return f, f + h - 1


def _astr(ver, v):
    return str(ipaddress.IPv4Address(v)) if ver == 4 else str(ipaddress.IPv6Address(v))


def _case(items, tag, container='list'):
    line = 'span_nets %s' % plist('N:%d:%d:%d' % (i[0], i[1], i[2]) for i in items)
    return Case(line, tag, ('span', tuple(items), container))


def corpus():
    a = 167772160
    N = lambda v, p, ver=4, form='net': (ver, v, p, form)
    out = [
        # F2 (fixed e6cfd06)
        _case([N(a, 8), N(a + 65536, 16)], 'corpus'),
        _case([N(a + 65536, 16), N(a, 8)], 'corpus'),
        _case([N(a, 24), N(a, 24)], 'corpus'),
        _case([N(a, 24, form='str'), N(a, 24, form='str')], 'corpus'),
        _case([N(1, 46, 6), N(2, 43, 6)], 'corpus'),
        _case([N(a, 32, form='addr'), N(a, 32, form='addr')], 'corpus'),
        _case([N(0, 32), N((1 << 32) - 1, 32)], 'corpus'),
        _case([N(0, 128, 6), N((1 << 128) - 1, 128, 6)], 'corpus'),
        _case([N(a, 24), N(a + 256, 24)], 'corpus'),
        _case([N(a + 255, 32), N(a + 256, 32)], 'corpus'),
        _case([], 'err/short'),
        _case([N(a, 24)], 'err/short'),
        _case([N(a, 24), N(a, 24, 6)], 'err/mixed'),
        _case([N(a, 24), N(a, 24), N(5, 24, 6)], 'err/mixed'),
    ]
    return out


def _form(rng, w, p):
    if p == w:
        return rng.choice(['net', 'addr', 'astr', 'str'])
    return rng.choice(['net', 'net', 'str'])


def _base_seq(rng, ver):
    w = W[ver]
    m = (1 << w) - 1
    first = rand_block(rng, ver)
    if rng.random() < 0.3:
        first = (first[0], rng.choice([w, w, w - 1, w - 8]))
    n = rng.choice([2, 2, 2, 3, 3, 4, 5, 7])
    blocks = [first]
    style = rng.randrange(5)
    for _ in range(n - 1):
        ref = rng.choice(blocks)
        if style == 0:
            b = rand_block(rng, ver, near=ref)
        elif style == 1:                      # plain addresses near each other
            b = (min(max(ref[0] + rng.choice([0, 1, -1, 2, 255, 256, -256, 1 << rng.randrange(0, w)]), 0), m), w)
        elif style == 2:                      # identical block, other host bits / same
            f, l = _block(ver, ref[0], ref[1])
            b = (rng.choice([ref[0], f, l]), ref[1])
        elif style == 3:                      # far apart
            b = rand_block(rng, ver)
        else:                                 # nested with different prefix
            f, l = _block(ver, ref[0], ref[1])
            p = rng.randrange(0, w + 1)
            b = (rng.choice([f, l, ref[0]]), p)
        blocks.append(b)
    return [(ver, v, p, _form(rng, w, p)) for (v, p) in blocks]


def generate(rng, tier):
    mult = 1 if tier == 'quick' else 4
    cases = []
    for _ in range(2500 * mult):
        ver = rng.choice((4, 6))
        seq = _base_seq(rng, ver)
        cases.append(_case(seq, 'span/v%d/n%d' % (ver, min(len(seq), 4)), rng.choice(['list', 'list', 'tuple', 'iter'])))
        sh = list(seq)
        rng.shuffle(sh)
        cases.append(_case(sh, 'span/shuffled'))
        dup = list(seq) + [rng.choice(seq) for _ in range(rng.randrange(1, 3))]
        rng.shuffle(dup)
        cases.append(_case(dup, 'span/dup'))
    for _ in range(200 * mult):
        ver = rng.choice((4, 6))
        seq = _base_seq(rng, ver)
        r = rng.random()
        if r < 0.4:
            cases.append(_case(seq[:rng.randrange(0, 2)], 'err/short', rng.choice(['list', 'tuple', 'iter'])))
        else:
            ov = 10 - ver
            v, p = rand_block(rng, ov)
            if rng.random() < 0.5:                  # same integer value in the other family
                v = seq[0][1] & ((1 << W[ov]) - 1)
            pos = rng.randrange(0, len(seq) + 1)
            mixed = seq[:pos] + [(ov, v, p, _form(rng, W[ov], p))] + seq[pos:]
            cases.append(_case(mixed, 'err/mixed'))
    return cases


def _obj(i):
    ver, v, p, form = i
    if form == 'net':
        return IPNetwork((v, p), version=ver)
    if form == 'addr':
        return IPAddress(v, ver)
    if form == 'astr':
        return _astr(ver, v)
    return '%s/%d' % (_astr(ver, v), p)


def impl(c):
    _, items, container = c.args
    objs = [_obj(i) for i in items]
    arg = objs if container == 'list' else (tuple(objs) if container == 'tuple' else iter(objs))
    try:
        r = netaddr.spanning_cidr(arg)
    except Exception as e:
        return '!' + errname(e)
    return '%d:%d/%d' % (r.version, r.value, r.prefixlen)


def oracle(c, got):
    _, items, container = c.args
    if len(items) < 2:
        return None if got == '!value' else 'fewer than two inputs gave %s, expected ValueError' % got
    vers = set(i[0] for i in items)
    if len(vers) > 1:
        return None if got == '!type' else 'mixed families gave %s, expected TypeError' % got
    ver = items[0][0]
    w = W[ver]
    spans = [_block(ver, v, p) for (_, v, p, _) in items]
    lo = min(s[0] for s in spans)
    hi = max(s[1] for s in spans)
    p = max(q for q in range(w + 1) if (lo >> (w - q)) == (hi >> (w - q)))
    exp = '%d:%d/%d' % (ver, (lo >> (w - p)) << (w - p), p)
    if got != exp:
        return 'spanning_cidr gave %s; the smallest block covering [%d, %d] is %s' % (got, lo, hi, exp)
    return None


def repro(c):
    _, items, container = c.args
    parts = []
    for (ver, v, p, form) in items:
        if form == 'net':
            parts.append('IPNetwork((%d, %d), version=%d)' % (v, p, ver))
        elif form == 'addr':
            parts.append('IPAddress(%d, %d)' % (v, ver))
        elif form == 'astr':
            parts.append(repr(_astr(ver, v)))
        else:
            parts.append(repr('%s/%d' % (_astr(ver, v), p)))
    s = '[%s]' % ', '.join(parts)
    if container == 'iter':
        s = 'iter(%s)' % s
    elif container == 'tuple':
        s = 'tuple(%s)' % s
    return 'netaddr.spanning_cidr(%s)' % s
