"""C13 — spanning_cidr returns the smallest single block covering all inputs.
Op: span_nets [N:ver:val:plen,...]  ->  ver:val/plen | !value | !type
Op: spanning_raw [item,...]  (item = S:<hex> | I:<int> | A:ver:val | N:ver:val:plen | R:ver:lo:hi) -> the same | !tag
    — the model coerces each element with IPNetwork(x) itself, in the order the code does (Model/Coerce.lean).
items: (ver, value, plen, form), form in net addr astr str, and for raw cases also mask (addr/netmask text),
host (addr/hostmask text), int (bare int), bad (unparsable text), rng (an IPRange object): the last three raise."""
import ipaddress
from common import Case, W, rand_value, rand_block, errname, plist
import common
import netaddr
from netaddr import IPNetwork, IPAddress

ID = 'C13'
RULE = ('sequences of 0-7 IPAddress / IPNetwork (any host bits) / address-string / CIDR-string inputs built relative '
        'to a first block: identical, nested, sibling, adjacent, one apart, far apart, differing prefix lengths, '
        'bottom/top of the space, both families; each base sequence also shuffled and with repeated elements; '
        'sequences of length 0/1 (ValueError) and mixed families (TypeError); ~30% of the cases reach the model '
        'uncoerced (op spanning_raw), with netmask / hostmask spellings and, in a tenth of them, a bare int, an '
        'IPRange or an unparsable text at a random position (must raise). non-trivial = distinct case whose '
        'implementation output is not an error')


def _block(ver, v, p):
    w = W[ver]
    h = 1 << (w - p)
    f = v - v % h
    return f, f + h - 1


def _astr(ver, v):
    return str(ipaddress.IPv4Address(v)) if ver == 4 else str(ipaddress.IPv6Address(v))


_BADFORMS = ('int', 'bad', 'rng')
_BAD_TEXTS = ('', 'bad', '1.2.3.4/33', '1.2.3.4/', '1.2.3.256', '::1/129', '1.2.3.4//8', ':::', '1.2.3.4/255.0.255.0')


def _raw_tok(i):
    ver, v, p, form = i
    if form == 'net':
        return 'N:%d:%d:%d' % (ver, v, p)
    if form == 'addr':
        return 'A:%d:%d' % (ver, v)
    if form == 'int':
        return 'I:%d' % v
    if form == 'rng':
        return 'R:%d:%d:%d' % (ver, v, v)
    return 'S:' + _obj(i).encode('utf-8').hex()


def _case(items, tag, container='list', raw=False):
    if raw:
        line = 'spanning_raw %s' % plist(_raw_tok(i) for i in items)
        return Case(line, 'raw/' + tag, ('span', tuple(items), container))
    line = 'span_nets %s' % plist('N:%d:%d:%d' % (i[0], i[1], i[2]) for i in items)
    return Case(line, tag, ('span', tuple(items), container))


def _rawify(rng, items, tag):
    """respell some elements; in a tenth of the cases put something that is no address or network somewhere"""
    out = []
    for (ver, v, p, form) in items:
        if form in ('net', 'str') and rng.random() < 0.35:
            form = 'host' if (0 < p < W[ver] and rng.random() < 0.4) else 'mask'
        out.append((ver, v, p, form))
    if rng.random() < 0.1:
        ver = rng.choice((4, 6))
        v = rand_value(rng, W[ver])
        x = (ver, v, W[ver], rng.choice(_BADFORMS))
        out.insert(rng.randrange(len(out) + 1), x)
        tag = 'err/notnet'
    return out, tag


def corpus():
    a = 167772160
    N = lambda v, p, ver=4, form='net': (ver, v, p, form)
    out = [
        # F2 (fixed e6cfd06)
        _case([N(a, 8), N(a + 65536, 16)], 'corpus'),
        _case([N(a + 65536, 16), N(a, 8)], 'corpus'),
        _case([N(a, 24), N(a, 24)], 'corpus'),
        _case([N(a, 24, form='str'), N(a, 24, form='str')], 'corpus'),
        _case([N(1, 46, 6), N(2, 43, 6)], 'corpus'),
        _case([N(a, 32, form='addr'), N(a, 32, form='addr')], 'corpus'),
        _case([N(0, 32), N((1 << 32) - 1, 32)], 'corpus'),
        _case([N(0, 128, 6), N((1 << 128) - 1, 128, 6)], 'corpus'),
        _case([N(a, 24), N(a + 256, 24)], 'corpus'),
        _case([N(a + 255, 32), N(a + 256, 32)], 'corpus'),
        _case([], 'err/short'),
        _case([N(a, 24)], 'err/short'),
        _case([N(a, 24), N(a, 24, 6)], 'err/mixed'),
        _case([N(a, 24), N(a, 24), N(5, 24, 6)], 'err/mixed'),
        # through the model's own coercion: every spelling; order of the first error
        _case([N(a + 5, 24, form='mask'), N(a + 256, 24, form='host'), N(a + 7, 32, form='astr'), N(a, 32, form='addr')],
              'corpus', raw=True),
        _case([N(a, 24, form='str')], 'err/short', raw=True),
        _case([N(a, 32, form='bad')], 'err/notnet', raw=True),                          # conversion error before "too short"
        _case([N(a, 24, form='str'), N(5, 128, 6, 'astr'), N(a, 32, form='bad')], 'err/notnet', raw=True),   # TypeError first
        _case([N(a, 24, form='str'), N(a, 32, form='bad'), N(5, 128, 6, 'astr')], 'err/notnet', raw=True),   # AddrFormatError first
        _case([N(a, 24, form='str'), N(a, 24, form='net'), N(5, 128, 6, 'astr'), N(a, 32, form='bad')], 'err/notnet', raw=True),
        _case([N(a, 24, form='str'), N(a, 24, form='net'), N(a, 32, form='bad'), N(5, 128, 6, 'astr')], 'err/notnet', raw=True),
        _case([N(a, 32, form='int'), N(a, 24)], 'err/notnet', raw=True),
        _case([N(a, 24), N(a, 32, form='rng')], 'err/notnet', raw=True),
    ]
    return out


def _form(rng, w, p):
    if p == w:
        return rng.choice(['net', 'addr', 'astr', 'str'])
    return rng.choice(['net', 'net', 'str'])


def _base_seq(rng, ver):
    w = W[ver]
    m = (1 << w) - 1
    first = rand_block(rng, ver)
    if rng.random() < 0.3:
        first = (first[0], rng.choice([w, w, w - 1, w - 8]))
    n = rng.choice([2, 2, 2, 3, 3, 4, 5, 7])
    blocks = [first]
    style = rng.randrange(5)
    for _ in range(n - 1):
        ref = rng.choice(blocks)
        if style == 0:
            b = rand_block(rng, ver, near=ref)
        elif style == 1:                      # plain addresses near each other
            b = (min(max(ref[0] + rng.choice([0, 1, -1, 2, 255, 256, -256, 1 << rng.randrange(0, w)]), 0), m), w)
        elif style == 2:                      # identical block, other host bits / same
            f, l = _block(ver, ref[0], ref[1])
            b = (rng.choice([ref[0], f, l]), ref[1])
        elif style == 3:                      # far apart
            b = rand_block(rng, ver)
        else:                                 # nested with different prefix
            f, l = _block(ver, ref[0], ref[1])
            p = rng.randrange(0, w + 1)
            b = (rng.choice([f, l, ref[0]]), p)
        blocks.append(b)
    return [(ver, v, p, _form(rng, w, p)) for (v, p) in blocks]


def generate(rng, tier):
    mult = 1 if tier == 'quick' else 4
    cases = []

    def add(items, tag, container='list'):
        if rng.random() < 0.3:
            items, tag = _rawify(rng, items, tag)
            cases.append(_case(items, tag, container, raw=True))
        else:
            cases.append(_case(items, tag, container))
    for _ in range(2500 * mult):
        ver = rng.choice((4, 6))
        seq = _base_seq(rng, ver)
        add(seq, 'span/v%d/n%d' % (ver, min(len(seq), 4)), rng.choice(['list', 'list', 'tuple', 'iter']))
        sh = list(seq)
        rng.shuffle(sh)
        add(sh, 'span/shuffled')
        dup = list(seq) + [rng.choice(seq) for _ in range(rng.randrange(1, 3))]
        rng.shuffle(dup)
        add(dup, 'span/dup')
    for _ in range(200 * mult):
        ver = rng.choice((4, 6))
        seq = _base_seq(rng, ver)
        r = rng.random()
        if r < 0.4:
            add(seq[:rng.randrange(0, 2)], 'err/short', rng.choice(['list', 'tuple', 'iter']))
        else:
            ov = 10 - ver
            v, p = rand_block(rng, ov)
            if rng.random() < 0.5:                  # same integer value in the other family
                v = seq[0][1] & ((1 << W[ov]) - 1)
            pos = rng.randrange(0, len(seq) + 1)
            mixed = seq[:pos] + [(ov, v, p, _form(rng, W[ov], p))] + seq[pos:]
            add(mixed, 'err/mixed')
    for _ in range(150 * mult):
        # which error comes first: an element of the other family and an element that is no network, at
        # independent positions (the code converts the first two at once and the others one by one inside its loop)
        ver = rng.choice((4, 6))
        seq = _base_seq(rng, ver)[:rng.choice((1, 2, 2, 3, 4))]
        ov = 10 - ver
        extra = [(ov, rand_value(rng, W[ov]), W[ov], rng.choice(['astr', 'addr', 'net'])),
                 (ver, rand_value(rng, W[ver]), W[ver], rng.choice(_BADFORMS))]
        if rng.random() < 0.3:
            extra.append((ver, rand_value(rng, W[ver]), W[ver], rng.choice(_BADFORMS)))
        for x in extra:
            seq.insert(rng.randrange(len(seq) + 1), x)
        cases.append(_case(seq, 'err/order', rng.choice(['list', 'tuple', 'iter']), raw=True))
    return cases


def _obj(i):
    ver, v, p, form = i
    if form == 'net':
        return common.make_net(ver, v, p)
    if form == 'addr':
        return IPAddress(v, ver)
    if form == 'astr':
        return _astr(ver, v)
    if form == 'int':
        return v
    if form == 'rng':
        return common.make_range(ver, v, v)
    if form == 'bad':
        return _BAD_TEXTS[(v + p) % len(_BAD_TEXTS)]
    host = (1 << (W[ver] - p)) - 1
    if form == 'mask':
        return '%s/%s' % (_astr(ver, v), _astr(ver, ((1 << W[ver]) - 1) ^ host))
    if form == 'host':
        return '%s/%s' % (_astr(ver, v), _astr(ver, host))
    return '%s/%d' % (_astr(ver, v), p)


def impl(c):
    _, items, container = c.args
    def ask():
        objs = [_obj(i) for i in items]
        arg = objs if container == 'list' else (tuple(objs) if container == 'tuple' else iter(objs))
        return [netaddr.spanning_cidr(arg)]
    try:
        r = common.twice(ask)[0]        # asked twice; the block of the first answer is moved in place in between
    except Exception as e:
        return '!' + errname(e)
    return '%d:%d/%d' % (r.version, r.value, r.prefixlen)


def oracle(c, got):
    _, items, container = c.args
    if any(i[3] in _BADFORMS for i in items):
        # a bare int / IPRange / unparsable text is no address or network: the call must raise (which exception, and
        # which of several comes first, is fixed by the correspondence with the model)
        return None if got.startswith('!') else 'a sequence with an element that is no address or network gave %s' % got
    if len(items) < 2:
        return None if got == '!value' else 'fewer than two inputs gave %s, expected ValueError' % got
    vers = set(i[0] for i in items)
    if len(vers) > 1:
        return None if got == '!type' else 'mixed families gave %s, expected TypeError' % got
    ver = items[0][0]
    w = W[ver]
    spans = [_block(ver, v, p) for (_, v, p, _) in items]
    lo = min(s[0] for s in spans)
    hi = max(s[1] for s in spans)
    p = max(q for q in range(w + 1) if (lo >> (w - q)) == (hi >> (w - q)))
    exp = '%d:%d/%d' % (ver, (lo >> (w - p)) << (w - p), p)
    if got != exp:
        return 'spanning_cidr gave %s; the smallest block covering [%d, %d] is %s' % (got, lo, hi, exp)
    return None


def repro(c):
    _, items, container = c.args
    parts = []
    for (ver, v, p, form) in items:
        if form == 'net':
            parts.append('IPNetwork((%d, %d), version=%d)' % (v, p, ver))
        elif form == 'addr':
            parts.append('IPAddress(%d, %d)' % (v, ver))
        elif form == 'rng':
            parts.append('IPRange(IPAddress(%d, %d), IPAddress(%d, %d))' % (v, ver, v, ver))
        else:
            parts.append(repr(_obj((ver, v, p, form))))
    s = '[%s]' % ', '.join(parts)
    if container == 'iter':
        s = 'iter(%s)' % s
    elif container == 'tuple':
        s = 'tuple(%s)' % s
    return 'netaddr.spanning_cidr(%s)' % s


def shrink(c, fails):
    """drop sequence elements while spanning_cidr still violates the property (at least two are kept)"""
    a = c.args
    if a[0] != 'span':
        return c
    _, items, container = a
    red = common.shrink_seq(items, lambda l: len(l) >= 1 and fails(Case(None, c.tag, ('span', tuple(l), container))))
    return Case(None, c.tag, ('span', tuple(red), container))
