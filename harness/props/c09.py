"""C09 — cidr_partition / cidr_exclude split a block exactly around the excluded part.
Ops (shared driver ops of Driver/Cidr.lean): partition N N ; exclude N N"""
from common import Case, W, value_classes, rand_value, rand_block, plist
import common
from netaddr import IPNetwork, cidr_exclude
from netaddr.ip import cidr_partition

ID = 'C09'
RULE = ('pairs (T, E) of one family built relative to each other: for every target prefix 0..width of both families, E '
        'nested at depth 1 / 2 / random / host-sized at the first, last and a random offset; E equal to T; E a supernet; E '
        'adjacent below/above, one apart, far; host bits on both; targets at the bottom and the top of the space. '
        'non-trivial = distinct pair whose before+after is non-empty (the halving loop or a disjoint shortcut emitted blocks)')


def _tok(ver, v, p):
    return 'N:%d:%d:%d' % (ver, v, p)


def _case(op, ver, tv, tp, ev, ep, tag):
    return Case('%s %s %s' % (op, _tok(ver, tv, tp), _tok(ver, ev, ep)), '%s/%s/v%d' % (op, tag, ver),
                (op, ver, tv, tp, ev, ep))


def corpus():
    out = []
    # the literal cases of test_cidr_v4 / the set-fracturing test, and address-space boundaries
    a = lambda s: (IPNetwork(s).value, IPNetwork(s).prefixlen)
    for t, e in (('192.0.2.0/24', '192.0.2.64/28'), ('192.0.2.1/32', '192.0.2.1/32'), ('192.0.2.0/31', '192.0.2.1'),
                 ('192.0.2.0/24', '192.0.2.0/32'), ('192.0.2.0/24', '192.0.2.255/32'), ('0.0.0.0/0', '255.255.255.255/32'),
                 ('0.0.0.0/0', '0.0.0.0/32'), ('255.255.255.254/31', '255.255.255.255/32'), ('10.0.0.0/8', '11.0.0.0/8'),
                 ('10.0.0.0/8', '9.255.255.255/32'), ('10.0.0.7/8', '10.128.0.9/9')):
        (tv, tp), (ev, ep) = a(t), a(e)
        out.append(_case('partition', 4, tv, tp, ev, ep, 'corpus'))
        out.append(_case('exclude', 4, tv, tp, ev, ep, 'corpus'))
    m = (1 << 128) - 1
    for tv, tp, ev, ep in ((0, 0, m, 128), (0, 0, 0, 128), (m, 127, m, 128), (m, 0, 1 << 127, 1), (5, 64, 1 << 64, 64)):
        out.append(_case('partition', 6, tv, tp, ev, ep, 'corpus'))
    return out


def _pairs(rng, ver, tier):
    w = W[ver]
    m = (1 << w) - 1
    mult = 1 if tier == 'quick' else 3
    for tp in range(w + 1):
        size = 1 << (w - tp)
        vals = value_classes(rng, w, n_random=2)
        tvs = [0, m] + rng.sample(vals, 2 * mult)
        for tv in tvs:
            first = (tv >> (w - tp)) << (w - tp)
            last = first + size - 1
            # nested at several depths and offsets
            depths = set([tp + 1, tp + 2, w, w - 1, rng.randrange(tp, w + 1), rng.randrange(tp, w + 1)])
            for ep in depths:
                if not tp <= ep <= w:
                    continue
                for off in (first, last, rng.randrange(first, last + 1)):
                    ev = off
                    if ep < w and rng.random() < 0.5:
                        ev = ((off >> (w - ep)) << (w - ep)) | rng.getrandbits(w - ep)
                    if first <= ev <= last:
                        yield tv, tp, ev, ep, ('equal' if ep == tp else 'nested')
            # supernets of T
            for ep in set([0, max(tp - 1, 0), rng.randrange(0, tp + 1)]):
                k = rng.random()
                if k < 0.35 and ep < w:
                    ev = first | rng.getrandbits(w - ep)          # host bits
                elif k < 0.7:
                    ev = (first >> (w - ep)) << (w - ep)          # written as a true CIDR (no host bits)
                else:
                    ev = first
                yield tv, tp, ev, ep, 'super'
            # adjacent / near / far
            for ev in (first - 1, last + 1, first - 2, last + 2, rand_value(rng, w)):
                if 0 <= ev <= m:
                    for ep in set([w, tp, rng.randrange(0, w + 1)]):
                        yield tv, tp, ev, ep, 'outside'
    if ver == 6:
        # the bottom of the IPv6 space: a (value, prefixlen) pair with value < 2^32 and prefixlen <= 32 is exactly what
        # a constructor call without an explicit version reads as IPv4 (seeds C09-r9-1, C11-r9-1, C09-r11-2)
        for tp in list(range(0, 34)) * mult:
            for ev, ep in ((rng.getrandbits(128 - tp) if tp < 128 else 0, 128), ((1 << 127) >> rng.randrange(0, 32), 128),
                           (rng.getrandbits(32), 128), (rng.getrandbits(96) << 32 >> tp if tp else rng.getrandbits(128), rng.choice([33, 48, 64, 96, 127])),
                           (0, rng.randrange(tp, 129))):
                ev &= m
                if (ev >> (w - tp)) == 0 or tp == 0:
                    yield 0, tp, ev, ep, 'v6-bottom'
    for _ in range(300 * mult):
        tv, tp = rand_block(rng, ver)
        ev, ep = rand_block(rng, ver, near=(tv, tp))
        yield tv & m, tp, ev & m, ep, 'relative'


def generate(rng, tier):
    cases = []
    for ver in (4, 6):
        for tv, tp, ev, ep, tag in _pairs(rng, ver, tier):
            op = 'exclude' if rng.random() < (0.5 if tag == 'v6-bottom' else 0.25) else 'partition'
            cases.append(_case(op, ver, tv, tp, ev, ep, tag))
    return cases


def _show(n):
    return '%d:%d/%d' % (n.version, n.value, n.prefixlen)


def _arg(ver, v, p, salt):
    """a network argument in one of the forms the functions document ("IP address or subnet"), chosen by a stable hash:
    an IPNetwork object (lived-in), the CIDR text, or - for a host-sized block - an IPAddress object / its text"""
    import zlib
    from netaddr import IPAddress
    w = W[ver]
    h = zlib.crc32(('%d/%d/%d/%s' % (ver, v, p, salt)).encode()) % 8
    common.COUNTS['call/c09-argument-form-%s' % ('net' if h < 4 else 'str' if h < 6 else 'addr' if p == w else 'net')] += 1
    if h < 4:
        return common.make_net(ver, v, p)
    if h < 6:
        return '%s/%d' % (IPAddress(v, ver), p)
    if p == w:
        return common.make_addr(ver, v) if h == 6 else str(IPAddress(v, ver))
    return common.make_net(ver, v, p)


def impl(c):
    op, ver, tv, tp, ev, ep = c.args
    # every question is asked twice, the blocks of the first answer being moved in place in between (common.twice)
    if op == 'partition':
        b, mid, a = common.twice(lambda: cidr_partition(_arg(ver, tv, tp, 't'), _arg(ver, ev, ep, 'e')))
        return ' '.join(plist(_show(x) for x in l) for l in (b, mid, a))
    return plist(_show(x) for x in common.twice(lambda: cidr_exclude(_arg(ver, tv, tp, 't'), _arg(ver, ev, ep, 'e'))))


def _parse(s):
    out = []
    for lst in s.split(' '):
        if not (lst.startswith('[') and lst.endswith(']')):
            raise ValueError(s)
        items = []
        if lst != '[]':
            for it in lst[1:-1].split(','):
                ver, rest = it.split(':')
                v, p = rest.split('/')
                items.append((int(ver), int(v), int(p)))
        out.append(items)
    return out


def _first(ver, v, p):
    w = W[ver]
    return (v >> (w - p)) << (w - p)


def equivalent(c, got, model):
    """the middle list keeps the caller's object (host bits and all); the property speaks about the block"""
    if got == model:
        return True
    if c.args[0] != 'partition':
        return False
    try:
        g, m = _parse(got), _parse(model)
    except Exception:
        return False
    if len(g) != 3 or len(m) != 3:
        return False
    norm = lambda l: [(ver, _first(ver, v, p), p) for ver, v, p in l]
    return g[0] == m[0] and g[2] == m[2] and norm(g[1]) == norm(m[1])


def _cover(ver, lo, hi):
    """the unique minimal CIDR list of the interval lo..hi (textbook greedy splitter)"""
    w = W[ver]
    out = []
    while lo <= hi:
        k = w if lo == 0 else min((lo & -lo).bit_length() - 1, w)
        while (1 << k) > hi - lo + 1:
            k -= 1
        out.append((ver, lo, w - k))
        lo += 1 << k
    return out


def oracle(c, got):
    op, ver, tv, tp, ev, ep = c.args
    w = W[ver]
    tf = _first(ver, tv, tp)
    tl = tf + (1 << (w - tp)) - 1
    ef = _first(ver, ev, ep)
    el = ef + (1 << (w - ep)) - 1
    exp_b = _cover(ver, tf, min(tl, ef - 1))
    exp_a = _cover(ver, max(tf, el + 1), tl)
    try:
        lists = _parse(got)
    except Exception:
        return 'unreadable result %s' % got
    if op == 'exclude':
        if len(lists) != 1 or lists[0] != exp_b + exp_a:
            return 'cidr_exclude gave %s, the minimal cover of T minus E is %s' % (got, exp_b + exp_a)
        return None
    if len(lists) != 3:
        return 'malformed result %s' % got
    b, mid, a = lists
    if b != exp_b:
        return 'before = %s, minimal cover of T below E is %s' % (b, exp_b)
    if a != exp_a:
        return 'after = %s, minimal cover of T above E is %s' % (a, exp_a)
    midn = [(v_, _first(v_, x, p), p) for v_, x, p in mid]
    if el < tf or tl < ef:
        exp_m = []
    elif ef <= tf and tl <= el:
        exp_m = [(ver, tf, tp)]
    else:
        exp_m = [(ver, ef, ep)]
    if midn != exp_m:
        return 'middle = %s, expected %s' % (mid, exp_m)
    # the three lists tile T: sizes add up and the intervals are consecutive
    ivs = sorted((x, x + (1 << (w - p)) - 1) for _, x, p in b + midn + a)
    if tf <= el and ef <= tl:
        pos = tf
        for lo, hi in ivs:
            if lo != pos:
                return 'the three lists do not tile T: gap or overlap at %d' % pos
            pos = hi + 1
        if pos != tl + 1:
            return 'the three lists do not tile T: they end at %d' % (pos - 1)
    return None


def repro(c):
    op, ver, tv, tp, ev, ep = c.args
    f = 'cidr_partition' if op == 'partition' else 'cidr_exclude'
    return "from netaddr import *; from netaddr.ip import cidr_partition; %s(IPNetwork((%d, %d), version=%d), IPNetwork((%d, %d), version=%d))" % (
        f, tv, tp, ver, ev, ep, ver)
