"""C18 — address classification follows the published special-purpose blocks exactly.
Op: classify <x>  ->  six T/F letters: unicast multicast loopback private link_local reserved"""
import ipaddress
from common import Case, W, rand_value, rand_block, errname
import common
import netaddr
import netaddr.ip as nip
from netaddr import IPNetwork, IPAddress, IPRange

ID = 'C18'
RULE = ('for every special-purpose block (independent list below, plus the rows of the current netaddr tables as '
        'extra boundary sources): addresses at first/last and +-1; networks of EVERY prefix length based at the '
        "block's first and last address (inside / equal / straddling / outside); ranges equal to, one short of and "
        'one beyond the block, single-address ranges, ranges joining neighbouring blocks; each span built several '
        'ways (object, string, /width network, one-address range, network with host bits, range equal to a CIDR '
        'block); plus random addresses/networks/ranges. non-trivial = distinct case whose output is not an error')

# ------------------------------------------------------------------ independent statement of the blocks
# (RFC 1122/1918/3927/5735/5736/5737/6598/2544/2365/3068/5771/6034, RFC 4291/4193/3879) -- written
# as text and read with the stdlib, never taken from netaddr.

def _n(s):
    n = ipaddress.ip_network(s)
    return (n.version, int(n.network_address), int(n.broadcast_address))


def _r(a, b):
    a, b = ipaddress.ip_address(a), ipaddress.ip_address(b)
    return (a.version, int(a), int(b))


SPEC = {
    'multicast': [_n('224.0.0.0/4'), _n('ff00::/8')],
    'loopback': [_n('127.0.0.0/8'), _n('::1/128')],
    'link_local': [_n('169.254.0.0/16'), _n('fe80::/10')],
    'private': [_n('10.0.0.0/8'), _n('100.64.0.0/10'), _n('172.16.0.0/12'), _n('192.0.0.0/24'),
                _n('192.168.0.0/16'), _n('198.18.0.0/15'), _r('239.0.0.0', '239.255.255.255'),
                _n('169.254.0.0/16'),
                _n('fc00::/7'), _n('fec0::/10'), _n('fe80::/10')],
    'reserved': [_n('0.0.0.0/8'), _n('192.0.2.0/24'), _n('240.0.0.0/4'), _n('198.51.100.0/24'),
                 _n('203.0.113.0/24'), _n('233.252.0.0/24'), _r('234.0.0.0', '238.255.255.255'),
                 _r('225.0.0.0', '231.255.255.255'), _n('127.0.0.0/8'), _n('192.88.99.0/24'),
                 _n('ff00::/12'), _n('::/8'), _n('100::/8'), _n('200::/7'), _n('400::/6'), _n('800::/5'),
                 _n('1000::/4'), _n('4000::/3'), _n('6000::/3'), _n('8000::/3'), _n('a000::/3'),
                 _n('c000::/3'), _n('e000::/4'), _n('f000::/5'), _n('f800::/6'), _n('fe00::/9')],
}
ORDER = ('multicast', 'loopback', 'private', 'link_local', 'reserved')


def _spec_flags(ver, f, l):
    """predicate holds iff the whole object lies inside a single block"""
    d = {}
    for name, blocks in SPEC.items():
        d[name] = any(bv == ver and bf <= f and l <= bl for (bv, bf, bl) in blocks)
    return ''.join('T' if b else 'F' for b in (not d['multicast'], d['multicast'], d['loopback'], d['private'],
                                                d['link_local'], d['reserved']))


def _block(ver, v, p):
    w = W[ver]
    h = 1 << (w - p)
    f = v - v % h
    return f, f + h - 1


def _astr(ver, v):
    return str(ipaddress.IPv4Address(v)) if ver == 4 else str(ipaddress.IPv6Address(v))


# ------------------------------------------------------------------ cases
# x = ('A', ver, v, form)  form: obj | str
#     ('N', ver, v, p, form) form: obj | str
#     ('R', ver, lo, hi)

def _case(x, tag):
    if x[0] == 'A':
        line = 'classify A:%d:%d' % (x[1], x[2])
    elif x[0] == 'N':
        line = 'classify N:%d:%d:%d' % (x[1], x[2], x[3])
    else:
        line = 'classify R:%d:%d:%d' % (x[1], x[2], x[3])
    return Case(line, tag, ('classify', x))


def _all_blocks():
    """boundary sources: the independent list and whatever the current tables contain"""
    out = set()
    for blocks in SPEC.values():
        out.update(blocks)
    for name in ('IPV4_LOOPBACK', 'IPV4_PRIVATE', 'IPV4_LINK_LOCAL', 'IPV4_MULTICAST', 'IPV4_RESERVED',
                 'IPV6_LOOPBACK', 'IPV6_PRIVATE', 'IPV6_LINK_LOCAL', 'IPV6_MULTICAST', 'IPV6_RESERVED'):
        t = getattr(nip, name, ())
        if not isinstance(t, (tuple, list)):
            t = (t,)
        for o in t:
            try:
                out.add((o.version, int(o.first), int(o.last)))
            except Exception:
                pass
    return sorted(out)


def corpus():
    out = []
    # F1 as it surfaced in C18 (fixed 4a3aa59): blocks ending at the end of an IPRange row
    for v, p in [(4009754624, 8), (4026531584, 24), (4026531838, 31), (4009754623, 32), (3925868544, 8),
                 (4009754368, 24), (3774873600, 8), (3892313856, 24), (3758096384, 4), (3758096384, 3)]:
        out.append(_case(('N', 4, v, p, 'obj'), 'corpus'))
    out.append(_case(('R', 4, 4009754624, 4026531839), 'corpus'))
    out.append(_case(('R', 4, 4009754623, 4026531839), 'corpus'))
    out.append(_case(('A', 6, 1, 'obj'), 'corpus'))
    out.append(_case(('A', 6, 0, 'obj'), 'corpus'))
    out.append(_case(('A', 6, 2, 'str'), 'corpus'))
    return out


def _spans_as_cases(rng, ver, f, l, tag, every=False):
    """all the ways of building the span [f, l] that exist"""
    w = W[ver]
    out = []
    if f == l:
        forms = [('A', ver, f, 'obj'), ('A', ver, f, 'str'), ('N', ver, f, w, 'obj'), ('N', ver, f, w, 'str'),
                 ('R', ver, f, f)]
    else:
        forms = [('R', ver, f, l)]
        size = l - f + 1
        if size & (size - 1) == 0 and f % size == 0:
            p = w - (size.bit_length() - 1)
            forms += [('N', ver, f, p, 'obj'), ('N', ver, l, p, 'obj'), ('N', ver, f + rng.randrange(size), p, 'str')]
    if not every:
        forms = rng.sample(forms, min(2, len(forms)))
    for x in forms:
        out.append(_case(x, tag + '/' + x[0]))
    return out


def generate(rng, tier):
    mult = 1 if tier == 'quick' else 3
    cases = []
    blocks = _all_blocks()
    for (ver, bf, bl) in blocks:
        w = W[ver]
        m = (1 << w) - 1
        # addresses round both ends, each built every way
        for v in (bf - 1, bf, bf + 1, bl - 1, bl, bl + 1):
            if 0 <= v <= m:
                cases += _spans_as_cases(rng, ver, v, v, 'edge-addr', every=True)
        # every prefix, based at the first and at the last address
        for p in range(w + 1):
            for v in (bf, bl):
                form = 'str' if rng.random() < 0.15 else 'obj'
                cases.append(_case(('N', ver, v, p, form), 'edge-net/v%d' % ver))
                if rng.random() < 0.25:
                    f, l = _block(ver, v, p)
                    cases.append(_case(('R', ver, f, l), 'edge-net-as-range'))
        # ranges round the block
        for (f, l) in ((bf, bl), (bf - 1, bl), (bf, bl + 1), (bf + 1, bl), (bf, bl - 1), (bf + 1, bl - 1),
                       (bf - 1, bl + 1), (bf, bf), (bl, bl), (bl, bl + 1), (bf - 1, bf)):
            if 0 <= f <= l <= m:
                cases += _spans_as_cases(rng, ver, f, l, 'edge-range', every=True)
    # IPv4-mapped / IPv4-compatible IPv6 spellings of the IPv4 block ends: classified as IPv6
    for (ver, bf, bl) in blocks:
        if ver == 4:
            for v in (bf, bl):
                cases.append(_case(('A', 6, (0xffff << 32) | v, rng.choice(['obj', 'str'])), 'v4-mapped'))
                cases.append(_case(('A', 6, v, 'obj'), 'v4-compat'))
    # ranges joining boundary points of different blocks
    for ver in (4, 6):
        w = W[ver]
        m = (1 << w) - 1
        pts = sorted(set(p for (bv, bf, bl) in blocks if bv == ver for p in (bf - 1, bf, bl, bl + 1) if 0 <= p <= m))
        for _ in range(800 * mult):
            a, b = rng.choice(pts), rng.choice(pts)
            if rng.random() < 0.5:
                i = rng.randrange(len(pts))
                a, b = pts[i], pts[min(i + rng.randrange(0, 3), len(pts) - 1)]
            cases += _spans_as_cases(rng, ver, min(a, b), max(a, b), 'join')
        # random
        for _ in range(800 * mult):
            r = rng.random()
            if r < 0.4:
                cases.append(_case(('A', ver, rand_value(rng, w), rng.choice(['obj', 'str'])), 'random/A'))
            elif r < 0.7:
                v, p = rand_block(rng, ver)
                cases.append(_case(('N', ver, v, p, rng.choice(['obj', 'obj', 'str'])), 'random/N'))
            else:
                a, b = rand_value(rng, w), rand_value(rng, w)
                cases.append(_case(('R', ver, min(a, b), max(a, b)), 'random/R'))
    return cases


def _obj(x):
    if x[0] == 'A':
        return IPAddress(x[2], x[1]) if x[3] == 'obj' else IPAddress(_astr(x[1], x[2]))
    if x[0] == 'N':
        if x[4] == 'obj':
            return common.make_net(x[1], x[2], x[3])
        return IPNetwork('%s/%d' % (_astr(x[1], x[2]), x[3]))
    return common.make_range(x[1], x[2], x[3])


_USED = [0]


def _use_published_blocks():
    """The special-purpose blocks are public constants (netaddr.ip.IPV4_LOOPBACK, the members of IPV6_RESERVED, ...):
    a user passes them to the library's own functions like any other network - added to a set that holds the
    sibling block, merged with it, spanned, excluded.  The library copies its arguments; a function that keeps and
    widens the caller's object would rewrite the classification table (seed C18-r11-1).  Done every few hundred
    classifications, errors ignored: only the classifications that follow are compared."""
    common.COUNTS['call/published-blocks-used-as-arguments'] += 1
    seen = []
    for name in dir(nip):
        v = getattr(nip, name)
        if name.startswith('IPV') and isinstance(v, IPNetwork):
            seen.append(v)
        elif name.startswith('IPV') and isinstance(v, (tuple, list)):
            seen += [b for b in v if isinstance(b, IPNetwork)]
    for b in seen:
        try:
            w = W[b.version]
            if not 0 < b.prefixlen <= w:
                continue
            sib = IPNetwork((b.first ^ (1 << (w - b.prefixlen)), b.prefixlen), version=b.version)
            s = netaddr.IPSet([sib])
            s.add(b)
            s2 = netaddr.IPSet([sib])
            s2.update([b])
            netaddr.cidr_merge([b, sib])
            netaddr.spanning_cidr([b, sib])
            netaddr.cidr_exclude(b, sib)
            s.remove(b)
        except Exception:
            pass


def impl(c):
    x = c.args[1]
    _USED[0] += 1
    if _USED[0] % 400 == 1:
        _use_published_blocks()
    try:
        o = _obj(x)
        flags = [o.is_unicast(), o.is_multicast(), o.is_loopback(), o.is_private(), o.is_link_local(), o.is_reserved()]
    except Exception as e:
        return '!' + errname(e)
    return ''.join('T' if f else 'F' for f in flags)


def oracle(c, got):
    x = c.args[1]
    ver = x[1]
    if x[0] == 'A':
        f = l = x[2]
    elif x[0] == 'N':
        f, l = _block(ver, x[2], x[3])
    else:
        f, l = x[2], x[3]
    exp = _spec_flags(ver, f, l)
    if got != exp:
        return ('unicast/multicast/loopback/private/link_local/reserved = %s, the published blocks give %s for '
                'ver %d [%d, %d]' % (got, exp, ver, f, l))
    if f == l and not (ver == 6 and (f >> 32) == 0xffff):
        # (newer CPython versions classify IPv4-mapped IPv6 addresses by the embedded IPv4
        # address; netaddr and the registries do not, so those are left to the block lists)
        pa = ipaddress.ip_address(_astr(ver, f))
        std = (pa.is_multicast, pa.is_loopback, pa.is_link_local)
        mine = (got[1] == 'T', got[2] == 'T', got[4] == 'T')
        if std != mine:
            return 'multicast/loopback/link_local = %s, stdlib ipaddress says %s' % (mine, std)
    return None


def repro(c):
    x = c.args[1]
    if x[0] == 'A':
        s = 'IPAddress(%d, %d)' % (x[2], x[1]) if x[3] == 'obj' else 'IPAddress(%r)' % _astr(x[1], x[2])
    elif x[0] == 'N':
        s = ('IPNetwork((%d, %d), version=%d)' % (x[2], x[3], x[1]) if x[4] == 'obj'
             else 'IPNetwork(%r)' % ('%s/%d' % (_astr(x[1], x[2]), x[3])))
    else:
        s = 'IPRange(IPAddress(%d, %d), IPAddress(%d, %d))' % (x[2], x[1], x[3], x[1])
    return 'o = %s; [o.is_unicast(), o.is_multicast(), o.is_loopback(), o.is_private(), o.is_link_local(), o.is_reserved()]' % s
