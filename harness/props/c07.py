"""C07 — IPSet algebra and queries agree with plain set theory.
Same histories as C06; the oracle here checks operator results, every query column and that
non-mutating operators leave their operands unchanged."""
from common import Case
import ipset_hist as H
from props import c06

ID = 'C07'
RULE = c06.RULE + '; every history ends with a query and binary operators are ~14% of the ops'
COLS = ['==', 'issubset', 'issuperset', '<', '>', 'isdisjoint', 'size', 'len', 'iscontiguous', 'iprange',
        'iter_ipranges', 'in', 'iteration', '!=', '<=', '>=', 'bool', 'repr']


def corpus():
    N = lambda ver, val, p, form='net': ('N', ver, val, p, form)
    R = lambda ver, lo, hi: ('R', ver, lo, hi, 'range')
    top = (1 << 32) - 1
    return [
        # F5: iscontiguous()/iprange() on sets reaching the last address, and mixed families
        Case(None, 'corpus/F5', ('hist', (('new', 0, 'rng', R(4, top - 2, top)), ('q', 0, 0, N(4, top, 32))))),
        Case(None, 'corpus/F5', ('hist', (('new', 0, 'list', (N(4, 0, 0), N(6, 1, 128))), ('q', 0, 0, N(6, 1, 128))))),
        Case(None, 'corpus/F5', ('hist', (('new', 0, 'list', (N(6, 0, 1), N(6, 1 << 127, 1))), ('q', 0, 0, N(6, 1, 128))))),
        # IPv6 block whose integer value is last+1 of the IPv4 space must not merge across families
        Case(None, 'corpus/cross-family', ('hist', (('new', 0, 'list', (N(4, top, 32), N(6, 1 << 32, 128))),
                                                   ('new', 1, 'list', (N(4, top, 32),)), ('bin', 2, 0, 1, 'xor'),
                                                   ('q', 2, 0, N(6, 1 << 32, 128))))),
        # the same with the model coercing the arguments itself (op ipset_raw): strings, ints, int membership
        c06._case((('new', 0, 'list', (N(4, top, 32, 'int'), N(6, 1 << 32, 128, 'int'))),
                   ('new', 1, 'list', (N(4, top, 32, 'addrstr'),)), ('bin', 2, 0, 1, 'xor'),
                   ('q', 2, 0, N(6, 1 << 32, 128, 'int')), ('q', 2, 0, N(6, 1 << 32, 128, 'addrstr')),
                   ('q', 0, 1, N(4, top - 1, 31, 'maskstr'))), 'corpus/cross-family', raw=True),
    ]


def generate(rng, tier):
    n = 1500 if tier == 'quick' else 2500
    out = []
    for _ in range(n):
        raw = rng.random() < 0.3
        out.append(c06._case(H.gen_history(rng, tier, raw), raw=raw))
    return out


impl = c06.impl


def oracle(c, got):
    ops = c.args[1]
    steps = got.split(';')
    if c.line is None:
        return 'implementation did not finish the history'
    exp = H.run_ref(ops, c.line)
    extras = c06._impl_extras(c)
    for idx, (op, g, e) in enumerate(zip(ops, steps, exp)):
        if op[0] == 'q':
            gs, es = g.split(' '), e.split(' ')
            if len(gs) != len(COLS):
                return 'step %d %r: query row has %d columns, expected %d' % (idx, op, len(gs), len(COLS))
            for name, a, b in zip(COLS, gs, es):
                if name == 'repr':
                    try:
                        a = H.repr_col_shown(a)
                    except Exception as err:
                        return 'step %d %r: repr is not readable (%s)' % (idx, op, err)
                if a != b and b != H.ANY:
                    return 'step %d %r: %s gave %s, set theory gives %s' % (idx, op, name, a, b)
            if extras[idx].get('operands_unchanged') is False:
                return 'step %d %r: a query changed one of its operands' % (idx, op)
        elif e == H.RAISES:
            if not g.startswith('!'):
                return 'step %d %r: an argument no constructor accepts was taken, set shows %s' % (idx, op, g)
        elif op[0] in ('bin', 'upd'):
            if g != e:
                return 'step %d %r: result %s, set theory gives %s' % (idx, op, g, e)
            if op[0] == 'bin' and extras[idx].get('operands_unchanged') is False:
                return 'step %d %r: a non-mutating operator changed an operand' % (idx, op)
        elif g.startswith('!') and g != e:
            return 'step %d %r raised %s' % (idx, op, g)
    return None


repro = c06.repro
shrink = c06.shrink
