"""C12 — equality, hashing, ordering and pickling of IP objects are coherent.
Ops: cmp X Y ; cmp3 X Y Z ; sorted L L' ; roundtrip OBJ how
objects: A:ver:val  N:ver:val:plen  R:ver:lo:hi (IPRange and IPGlob)  S:[N:..,..] (IPSet)  E:ver:val:dialect (EUI)
round trips only: G:s:<hex glob text> (IPGlob; answer G:lo:hi:s:<hex of str()>)  O:val:<pyval> (OUI + records)
I:val:<pyval> (IAB + record); roundtrip_default_set S:[..] how = an IPSet subclass WITHOUT __reduce__"""
import copy
import os
import pickle

from common import Case, W, plist, tf, errname, rand_value
import common
import netaddr
from netaddr import IPNetwork, IPAddress, IPRange, IPGlob, IPSet, EUI, OUI, IAB

ID = 'C12'
RULE = ('a universe of ~200 objects per run (addresses, networks with and without host bits at prefix w, w-1, w-2, '
        'w-3, 0, 1, ranges of 1..8 addresses, globs) at address 0 / 4 / top-7 / top / a random hot window of both '
        'families, built relative to each other (same first, nested, same integer in the other family); cmp: sampled '
        'ordered pairs biased to same-family near pairs (all six operators in both directions + hash); cmp3: triples '
        '(transitivity); sorted: lists of 1..9 objects with duplicates and a permutation of the same list; roundtrip: '
        'every kind of object incl. IPSet (empty, mixed families, blocks at both ends) and EUI in every dialect x '
        'copy, deepcopy, pickle protocols 0..HIGHEST; IPGlob round trips carry the glob text (canonical text expected '
        'back, recomputed from the integers); OUI / IAB objects with their registry records (expected records read '
        'from the idx/txt data files by an independent reader); an IPSet subclass with the default __reduce__ '
        'restored shows the CPython rule the model uses (empty set lost under protocols 0, 1); hash: for the round-trip objects '
        '(all IPSet / OUI / IAB / IPGlob / EUI ones, a third of the others) hash() of the object and of its copy: both the hash '
        'of the (version, value) resp. (version, first, last) tuple of the case, or both TypeError (IPSet, OUI, IAB). non-trivial = distinct case whose implementation output is '
        'not an error')

DIALECTS = ['mac_eui48', 'mac_unix', 'mac_unix_expanded', 'mac_cisco', 'mac_bare', 'mac_pgsql',
            'eui64_base', 'eui64_unix', 'eui64_unix_expanded', 'eui64_cisco', 'eui64_bare']
HOWS = ['copy', 'deepcopy'] + ['p%d' % p for p in range(pickle.HIGHEST_PROTOCOL + 1)]


# ---------------------------------------------------------------- objects as integer tuples

def _glob(prefix_octets, x, y, spelled=False):
    """spelled: the full octet written `0-255`, which valid_glob accepts and whose canonical form is `*`"""
    k = len(prefix_octets)
    stars = 3 - k
    parts = [str(p) for p in prefix_octets]
    parts.append(str(x) if x == y else ('*' if (x, y) == (0, 255) and not spelled else '%d-%d' % (x, y)))
    parts += ['*'] * stars
    base = 0
    for p in prefix_octets:
        base = base * 256 + p
    lo = (base * 256 + x) << (8 * stars)
    hi = ((base * 256 + y + 1) << (8 * stars)) - 1
    return ('G', lo, hi, '.'.join(parts))


# ---------------------------------------------------------------- Python values <-> protocol (Polish notation)

def enc(v):
    """Python value -> `pyval` token: i<int> s<hex> n t<k> l<k> d<k> joined by '.'; dict items sorted by key"""
    out = []

    def go(x):
        if x is None:
            out.append('n')
        elif isinstance(x, bool):
            raise ValueError(x)
        elif isinstance(x, int):
            out.append('i%d' % x)
        elif isinstance(x, str):
            out.append('s' + x.encode('utf-8', 'surrogatepass').hex())
        elif isinstance(x, tuple):
            out.append('t%d' % len(x))
            for y in x:
                go(y)
        elif isinstance(x, list):
            out.append('l%d' % len(x))
            for y in x:
                go(y)
        elif isinstance(x, dict):
            out.append('d%d' % len(x))
            for k in sorted(x):
                go(k)
                go(x[k])
        else:
            raise ValueError(x)
    go(v)
    return '.'.join(out)


_REG = {}


def _registry(kind):
    """independent reader of the IEEE data files shipped with the package: {value: [(offset, size), ...]}
    from <kind>.idx, record text from <kind>.txt"""
    if kind not in _REG:
        base = os.path.join(os.path.dirname(netaddr.__file__), 'eui')
        idx = {}
        with open(os.path.join(base, kind + '.idx')) as fh:
            for line in fh:
                parts = line.strip().split(',')
                if len(parts) == 3:
                    idx.setdefault(int(parts[0]), []).append((int(parts[1]), int(parts[2])))
        with open(os.path.join(base, kind + '.txt'), 'rb') as fh:
            blob = fh.read()
        _REG[kind] = (idx, blob)
    return _REG[kind]


def _record(kind, value, offset, size, blob):
    """the registration dict of one index entry, parsed from the raw text by the documented layout"""
    if kind == 'oui':
        name = '%02X-%02X-%02X' % ((value >> 16) & 255, (value >> 8) & 255, value & 255)
    else:
        v = value << 4
        name = '%02X-%02X-%02X-%02X-%02X-00' % ((v >> 32) & 255, (v >> 24) & 255, (v >> 16) & 255, (v >> 8) & 255, v & 255)
    rec = {'idx': 0, kind: '', 'org': '', 'address': [], 'offset': offset, 'size': size}
    for line in blob[offset:offset + size].decode('utf-8').split('\n'):
        line = line.strip()
        if not line:
            continue
        if '(hex)' in line:
            rec['idx'] = value
            rec['org'] = line.split(None, 2)[2]
            rec[kind] = name
        elif '(base 16)' in line:
            continue
        else:
            rec['address'].append(line)
    return rec


def expected_records(kind, value):
    idx, blob = _registry(kind)
    recs = [_record(kind, value, off, size, blob) for off, size in idx[value]]
    return recs if kind == 'oui' else recs[0]


def canon_glob_text(lo, hi):
    """canonical glob text of a glob-shaped range, octet by octet from the integers"""
    parts = []
    for sh in (24, 16, 8, 0):
        a, b = (lo >> sh) & 255, (hi >> sh) & 255
        parts.append(str(a) if a == b else ('*' if (a, b) == (0, 255) else '%d-%d' % (a, b)))
    return '.'.join(parts)


def rt_tok(o):
    """token of an object for the round-trip ops (globs and registry objects carry more than integers)"""
    k = o[0]
    if k == 'G':
        return 'G:' + common.hexs(o[3])
    if k == 'O':
        return 'O:%d:%s' % (o[1], o[2])
    if k == 'I':
        return 'I:%d:%s' % (o[1], o[2])
    return tok(o)


def rt_expected(o):
    """what the round trip must give back, from the integers / data files of the case"""
    if o[0] == 'G':
        return 'G:%d:%d:%s' % (o[1], o[2], common.hexs(canon_glob_text(o[1], o[2])))
    return rt_tok(o)


def rt_canon(x):
    if isinstance(x, IPGlob):
        return 'G:%d:%d:%s' % (x.first, x.last, common.hexs(str(x)))
    if isinstance(x, OUI):
        return 'O:%d:%s' % (int(x), enc(x.records))
    if isinstance(x, IAB):
        return 'I:%d:%s' % (int(x), enc(x.record))
    return canon(x)


_PLAIN = {}


def plain_ipset():
    """IPSet as it would be WITHOUT its own __reduce__: a subclass that puts object.__reduce__ back, so that
    CPython's default rule (copyreg._reduce_ex for protocols 0, 1) applies again"""
    if 'cls' not in _PLAIN:
        import sys
        cls = type('PlainIPSet', (IPSet,), {'__slots__': (), '__reduce__': object.__reduce__, '__module__': __name__})
        setattr(sys.modules[__name__], 'PlainIPSet', cls)      # picklable by reference
        _PLAIN['cls'] = cls
    return _PLAIN['cls']


def tok(o):
    k = o[0]
    if k == 'A':
        return 'A:%d:%d' % o[1:]
    if k == 'N':
        return 'N:%d:%d:%d' % o[1:]
    if k == 'R':
        return 'R:%d:%d:%d' % o[1:]
    if k == 'G':
        return 'R:4:%d:%d' % (o[1], o[2])
    if k == 'S':
        return 'S:' + plist('N:%d:%d:%d' % n for n in sorted(o[1]))
    if k == 'E':
        return 'E:%d:%d:%d' % o[1:]
    raise ValueError(o)


def build(o):
    k = o[0]
    if k == 'A':
        return common.make_addr(o[1], o[2])
    if k == 'N':
        return common.make_net(o[1], o[2], o[3])
    if k == 'R':
        return common.make_range(o[1], o[2], o[3])
    if k == 'G':
        return common.make_glob(o[3])
    if k == 'S':
        return common.make_set(o[1])
    if k == 'E':
        return common.make_eui(o[2], o[1], getattr(netaddr, DIALECTS[o[3]]))
    if k == 'O':
        return OUI(o[1])
    if k == 'I':
        return IAB(o[1])
    raise ValueError(o)


def canon(x):
    """netaddr object -> protocol token (plain attribute reads only)"""
    if isinstance(x, IPAddress):
        return 'A:%d:%d' % (x.version, x.value)
    if isinstance(x, IPNetwork):
        return 'N:%d:%d:%d' % (x.version, x.value, x.prefixlen)
    if isinstance(x, IPRange):
        return 'R:%d:%d:%d' % (x.version, x.first, x.last)
    if isinstance(x, IPSet):
        return 'S:' + plist('N:%d:%d:%d' % t for t in sorted((n.version, n.value, n.prefixlen) for n in x.iter_cidrs()))
    if isinstance(x, EUI):
        d = x.dialect
        idx = [i for i, n in enumerate(DIALECTS) if getattr(netaddr, n) is d]
        return 'E:%d:%d:%s' % (x.version, x.value, idx[0] if idx else '?')
    return '?%r' % (x,)


def ident(o):
    """what the property says identifies the object: an address by (version, value); a block by
    (version, first, last).  From the integers of the case."""
    k = o[0]
    if k == 'A':
        return ('A', o[1], o[2])
    if k == 'N':
        h = 1 << (W[o[1]] - o[3])
        lo = o[2] - o[2] % h
        return ('B', o[1], lo, lo + h - 1)
    if k == 'R':
        return ('B', o[1], o[2], o[3])
    if k == 'G':
        return ('B', 4, o[1], o[2])
    raise ValueError(o)


def universe(rng, extra=2):
    objs = []
    for ver in (4, 6):
        w = W[ver]
        m = (1 << w) - 1
        hot = [(rand_value(rng, w) >> 3) << 3 for _ in range(extra)]
        for base in [0, 4, m - 7, m] + hot:
            objs.append(('A', ver, base))
            objs.append(('A', ver, min(base + 1, m)))
            for p in [w, w - 1, w - 2, w - 3, 0, 1, rng.randrange(0, w + 1)]:
                objs.append(('N', ver, base, p))
                objs.append(('N', ver, base | 1, p))
                objs.append(('N', ver, min(base + rng.randrange(8), m), p))
            for ln in (1, 2, 3, 4, 5, 6, 7, 8):
                if base + ln - 1 <= m:
                    objs.append(('R', ver, base, base + ln - 1))
            objs.append(('R', ver, base, m))
            objs.append(('R', ver, 0, base))
    m4 = (1 << 32) - 1
    objs += [_glob([0, 0, 0], 0, 3), _glob([0, 0, 0], 4, 7), _glob([0, 0, 0], 0, 255), _glob([], 0, 255),
             _glob([255, 255, 255], 248, 255), _glob([255, 255, 255], 255, 255), _glob([0, 0, 0], 0, 0),
             _glob([0, 0, 0], 4, 4), _glob([0, 0], 0, 1), _glob([rng.randrange(256), rng.randrange(256)], 7, 9)]
    objs += [_glob([rng.randrange(256) for _ in range(k)], 0, 255, spelled=True) for k in (0, 1, 1, 2, 2, 3, 3, 3)]
    # dedupe, keep order
    seen = set()
    out = []
    for o in objs:
        if o not in seen:
            seen.add(o)
            out.append(o)
    return out


def first_of(o):
    i = ident(o)
    return i[2]


def ver_of(o):
    return ident(o)[1]


def near_pairs(rng, U, n):
    """pairs that share version and are close: same first / nested / same value"""
    by = {}
    for o in U:
        by.setdefault((ver_of(o), first_of(o) >> 3), []).append(o)
    groups = [g for g in by.values() if len(g) > 1] or [list(U)]
    out = []
    for _ in range(n):
        g = rng.choice(groups)
        out.append((rng.choice(g), rng.choice(g)))
    return out


def c_cmp(x, y):
    return Case('cmp %s %s' % (tok(x), tok(y)), 'cmp/%s%s/%s' % (x[0], y[0], 'same' if ver_of(x) == ver_of(y) else 'mixed'),
                ('cmp', x, y))


def c_cmp3(x, y, z):
    return Case('cmp3 %s %s %s' % (tok(x), tok(y), tok(z)), 'cmp3', ('cmp3', x, y, z))


def c_sorted(l, l2):
    kinds = set(o[0] for o in l)
    return Case('sorted %s %s' % (plist(tok(o) for o in l), plist(tok(o) for o in l2)),
                'sorted/%s' % ('AN' if kinds <= {'A', 'N'} else 'withranges'), ('sorted', tuple(l), tuple(l2)))


def c_rt(o, how):
    return Case('roundtrip %s %s' % (rt_tok(o), how), 'roundtrip/%s/%s' % (o[0], how), ('rt', o, how))


def c_hash(o, how):
    return Case('hashrt %s %s' % (rt_tok(o), how), 'hash/%s/%s' % (o[0], how), ('hash', o, how))


def hash_fields(o):
    """the tuple hash() must be the hash of, from the integers of the case: (version, value) for an address and an
    EUI, (version, first, last) for a network, range or glob; None for the kinds that do not hash (IPSet, OUI, IAB)"""
    k = o[0]
    if k in 'SOI':
        return None
    if k == 'E':
        return (o[1], o[2])
    return ident(o)[1:]


def c_rt_default(o, how):
    return Case('roundtrip_default_set %s %s' % (tok(o), how), 'roundtrip-default-reduce/%s/%s' % ('empty' if not o[1] else 'S', how),
                ('rtd', o, how))


def _registry_objs(rng, n):
    """OUI / IAB objects of the registry shipped with the package, with the records the data files give"""
    out = []
    for kind, tag in (('oui', 'O'), ('iab', 'I')):
        idx, _ = _registry(kind)
        keys = sorted(idx)
        if not keys:
            continue
        multi = [k for k in keys if len(idx[k]) > 1]
        picks = [keys[0], keys[-1]] + rng.sample(keys, min(len(keys), n)) + (rng.sample(multi, min(len(multi), 2)) if multi else [])
        for k in picks:
            out.append((tag, k, enc(expected_records(kind, k))))
    return out


def _set_obj(rng):
    """an IPSet given by blocks that IPSet() keeps as they are: distinct /8 slots, prefix >= 9,
    host bits clear"""
    nets = []
    for ver in (4, 6):
        w = W[ver]
        slots = rng.sample(range(256), rng.randrange(0, 4)) + rng.sample([0, 255], rng.randrange(0, 3))
        for s in set(slots):
            p = rng.choice([9, 10, w - 1, w, rng.randrange(9, w + 1)])
            v = (s << (w - 8)) | (rng.getrandbits(w - 8) if rng.random() < 0.7 else rng.choice([0, (1 << (w - 8)) - 1]))
            v = (v >> (w - p)) << (w - p)
            nets.append((ver, v, p))
    return ('S', tuple(sorted(nets)))


def corpus():
    out = []
    # F15 (fixed): unpickling an empty IPSet with protocol 0 or 1 gave an object without _cidrs
    for how in HOWS:
        out.append(c_rt(('S', ()), how))
        out.append(c_rt_default(('S', ()), how))
    a, n32, n24, n24h = ('A', 4, 0x01020304), ('N', 4, 0x01020304, 32), ('N', 4, 0x01020300, 24), ('N', 4, 0x01020305, 24)
    r = ('R', 4, 0x01020300, 0x010203ff)
    g = _glob([1, 2, 3], 0, 255)
    for x in (a, n32, n24, n24h, r, g):
        for y in (a, n32, n24, n24h, r, g):
            out.append(c_cmp(x, y))
    out.append(c_cmp(('A', 4, 5), ('A', 6, 5)))
    out.append(c_cmp(('N', 4, 0, 0), ('N', 6, 0, 0)))
    out.append(c_cmp(('R', 4, 4, 9), ('R', 4, 4, 8)))
    l = [a, n32, n24, n24h, ('N', 4, 0x01020000, 16), ('A', 4, 0x01020300), ('A', 6, 0x01020300)]
    out.append(c_sorted(l, l[::-1]))
    rl = [('R', 4, 4, 9), ('R', 4, 4, 5), ('R', 4, 3, 9), ('R', 6, 1, 2)]
    out.append(c_sorted(rl, rl[::-1]))
    return out


def generate(rng, tier):
    mult = 1 if tier == 'quick' else 3
    U = universe(rng, extra=2 if tier == 'quick' else 4)
    cases = []
    # ---- pairs
    for _ in range(6000 * mult):
        cases.append(c_cmp(rng.choice(U), rng.choice(U)))
    for x, y in near_pairs(rng, U, 9000 * mult):
        cases.append(c_cmp(x, y))
    # objects that differ in exactly one bit of one component - every bit position of the width, every run:
    # equality / hash / order are by (version, value[, prefix]) resp. (version, first, last) and each component has
    # `width` independent bits (a seeded change packed two components into one integer and one bit was lost)
    for ver in (4, 6):
        w = W[ver]
        m = (1 << w) - 1
        va = rand_value(rng, w)
        for bit in range(w):
            vb = va ^ (1 << bit)
            cases.append(c_cmp(('A', ver, va), ('A', ver, vb)))
            p = rng.randrange(0, w + 1)
            cases.append(c_cmp(('N', ver, va, p), ('N', ver, vb, p)))
            lo, hi = min(va, vb), max(va, vb)
            hi2 = hi ^ (1 << rng.randrange(w))
            cases.append(c_cmp(('R', ver, lo, hi), ('R', ver, lo, hi2 if lo <= hi2 <= m else hi)))
            cases.append(c_cmp(('R', ver, lo, hi), ('R', ver, lo ^ (1 << bit) if (lo ^ (1 << bit)) <= hi else lo, hi)))
        for p in range(w + 1):
            q = min(w, p + 1)
            cases.append(c_cmp(('N', ver, va, p), ('N', ver, va, q)))
    for o in U:
        cases.append(c_cmp(o, o))
        # the same integers in the other family
        if o[0] in 'ANR' and o[1] == 4:
            cases.append(c_cmp(o, (o[0], 6) + o[2:]) if o[0] != 'N' else c_cmp(o, ('N', 6, o[2], o[3] + 96)))
    # ---- triples
    for _ in range(4000 * mult):
        cases.append(c_cmp3(rng.choice(U), rng.choice(U), rng.choice(U)))
    np_ = near_pairs(rng, U, 5000 * mult)
    for x, y in np_:
        z = rng.choice(np_)[0] if rng.random() < 0.5 else rng.choice(U)
        t = [x, y, z]
        rng.shuffle(t)
        cases.append(c_cmp3(*t))
    # ---- sorted
    AN = [o for o in U if o[0] in 'AN']
    for _ in range(800 * mult):
        pool = AN if rng.random() < 0.7 else U
        if rng.random() < 0.6:
            ver = rng.choice((4, 6))
            pool = [o for o in pool if ver_of(o) == ver]
        k = rng.randrange(1, 10)
        l = [rng.choice(pool) for _ in range(k)]
        if rng.random() < 0.4:
            x, y = rng.choice(near_pairs(rng, pool, 1))
            l += [x, y]
        if rng.random() < 0.3:
            l.append(rng.choice(l))
        l2 = list(l)
        rng.shuffle(l2)
        cases.append(c_sorted(l, l2))
    # ---- round trips
    rt_objs = rng.sample(U, min(len(U), 120 * mult))
    rt_objs += [o for o in U if o[0] == 'G']
    for k in 'AR':
        ks = [o for o in U if o[0] == k]
        rt_objs += rng.sample(ks, min(len(ks), 12 * mult))
    for o in rt_objs:
        for how in (HOWS if rng.random() < 0.5 else rng.sample(HOWS, 3)):
            cases.append(c_rt(o, how))
    for _ in range(12 * mult):
        s = _set_obj(rng)
        for how in HOWS:
            cases.append(c_rt(s, how))
    for _ in range(3 * mult):
        sd = _set_obj(rng)
        for how in HOWS:
            cases.append(c_rt_default(sd, how))
    for o in _registry_objs(rng, 4 * mult):
        for how in HOWS:
            cases.append(c_rt(o, how))
    for _ in range(10 * mult):
        ver = rng.choice((48, 64))
        d = rng.randrange(0, 6) if ver == 48 else rng.randrange(6, len(DIALECTS))     # a dialect of the same family
        if ver == 48 and rng.random() < 0.3:
            # an EUI-48 that was given an EUI-64 dialect (the constructor and the setter accept it; it prints
            # eight words): the clone must keep it (the other pairing cannot be printed, so it is not generated)
            d = rng.randrange(6, len(DIALECTS))
        v = rng.choice([0, 1, (1 << ver) - 1, rng.getrandbits(ver), rng.getrandbits(24), 1 << 47 if ver == 48 else 1 << 63])
        for how in HOWS:
            cases.append(c_rt(('E', ver, v, d), how))
    # every dialect once with each width it can be printed under (EUI-48 under all eleven, EUI-64 under its own five)
    for d in range(len(DIALECTS)):
        for ver in ((48, 64) if d >= 6 else (48,)):
            v = rng.getrandbits(ver)
            for how in rng.sample(HOWS, 4):
                cases.append(c_rt(('E', ver, v, d), how))
    # hash() of the object and of its copy: every kind (the unhashable ones always), a third of the others
    cases += [c_hash(c.args[1], c.args[2]) for c in list(cases)
              if c.args[0] == 'rt' and (c.args[1][0] in 'SOIGE' or rng.random() < 0.35)]
    return cases


# ---------------------------------------------------------------- implementation side

def _b(f):
    try:
        r = f()
    except Exception as e:
        return '!' + errname(e)
    if r is True:
        return 'T'
    if r is False:
        return 'F'
    return '?%r' % (r,)


def _flags(a, b):
    eq = _b(lambda: a == b)
    if eq == 'T':
        h = _b(lambda: hash(a) == hash(b))
    else:
        h = '-'
    return [eq, _b(lambda: a != b), _b(lambda: a < b), _b(lambda: a <= b), _b(lambda: a > b), _b(lambda: a >= b), h]


def _copy(x, how):
    if how == 'copy':
        return copy.copy(x)
    if how == 'deepcopy':
        return copy.deepcopy(x)
    return pickle.loads(pickle.dumps(x, int(how[1:])))


def impl(c):
    a = c.args
    if a[0] == 'cmp':
        x, y = build(a[1]), build(a[2])
        return ' '.join(_flags(x, y) + _flags(y, x))
    if a[0] == 'cmp3':
        x, y, z = build(a[1]), build(a[2]), build(a[3])
        return ' '.join([_b(lambda: x <= y), _b(lambda: y <= z), _b(lambda: x <= z),
                         _b(lambda: x == y), _b(lambda: y == z), _b(lambda: x == z)])
    if a[0] == 'sorted':
        l = [build(o) for o in a[1]]
        l2 = [build(o) for o in a[2]]
        try:
            s1 = [canon(x) for x in sorted(l)]
            s2 = [canon(x) for x in sorted(l2)]
        except Exception as e:
            return '!' + errname(e)
        return plist(s1) + ' ' + tf(s1 == s2)
    if a[0] == 'rt':
        o, how = a[1], a[2]
        x = build(o)
        try:
            y = _copy(x, how)
            t = rt_canon(y)
            fl = [_b(lambda: str(y) == str(x)), _b(lambda: y == x), _b(lambda: not (y != x)),
                  '-' if isinstance(x, (IPSet, OUI, IAB)) else _b(lambda: hash(y) == hash(x)),
                  tf(type(y) is type(x)), tf(y is not x), tf(rt_canon(x) == rt_expected(o))]
        except Exception as e:
            return '!' + errname(e)
        return t + ' ' + ' '.join(fl)
    if a[0] == 'hash':
        o, how = a[1], a[2]
        x = build(o)
        try:
            y = _copy(x, how)
        except Exception as e:
            return '!' + errname(e)
        out = []
        for z in (x, y):
            try:
                hv = hash(z)
            except TypeError:
                out.append('!type')
                continue
            except Exception as e:
                out.append('!' + errname(e))
                continue
            # the tuple the class says it hashes, read off the object; the oracle compares it with the case's integers
            if not isinstance(z, (EUI, IPAddress, IPNetwork, IPRange)):
                out.append('hash(x)=%d-without-TypeError' % hv)
                continue
            cand = (z.version, int(z)) if isinstance(z, EUI) else z.key()
            try:
                d = {cand: 1}
                ok = hv == hash(cand) and (z in {z: 1}) and type(hv) is int
            except Exception as e:
                out.append('!' + errname(e))
                continue
            out.append(enc(tuple(int(i) for i in cand)) if ok else 'hash(x)=%d!=hash(%r)' % (hv, cand))
        return ' '.join(out)
    if a[0] == 'rtd':
        o, how = a[1], a[2]
        x = plain_ipset()([IPNetwork((v, p), version=ver) for ver, v, p in o[1]])
        try:
            y = _copy(x, how)
            return canon(y)
        except Exception:
            return '!'                      # the unpickled object has no _cidrs: every use raises
    raise ValueError(a)


def equivalent(c, got, model):
    if c.args[0] == 'rt':
        return got.split(' ')[0] == model
    if c.args[0] == 'rtd':
        return got == model or (got == '!' and model == '!other')
    return got == model


# ---------------------------------------------------------------- oracle (integers only)

def must_precede(x, y):
    """True when the property fixes that x sorts strictly before y: IPv4 before IPv6, lower first
    address first (ranges: version then start), an enclosing network before what it encloses"""
    ix, iy = ident(x), ident(y)
    if ix[1] != iy[1]:
        return ix[1] < iy[1]
    if ix[2] != iy[2]:
        return ix[2] < iy[2]
    if x[0] == 'N' and y[0] == 'N':
        return x[3] < y[3]                      # same first: the shorter prefix encloses the longer
    if x[0] == 'N' and y[0] == 'A':
        return x[3] < W[x[1]]                   # a real network encloses its first address
    return False


def oracle(c, got):
    a = c.args
    if a[0] == 'cmp':
        x, y = a[1], a[2]
        f = got.split(' ')
        if len(f) != 14 or any(v not in ('T', 'F', '-') for v in f):
            return 'comparison raised or returned a non-bool: %s' % got
        exp_eq = tf(ident(x) == ident(y))
        for off, (p, q) in ((0, (x, y)), (7, (y, x))):
            eq, ne, lt, le, gt, ge, h = f[off:off + 7]
            if eq != exp_eq:
                return '== gave %s, identity (version, value | first, last) says %s' % (eq, exp_eq)
            if ne != tf(eq != 'T'):
                return '!= is not the negation of =='
            if eq == 'T' and h != 'T':
                return 'equal objects with different hashes'
            if must_precede(p, q) and (lt, le, gt, ge) != ('T', 'T', 'F', 'F'):
                return 'order: %s must sort before %s, got < <= > >= = %s' % (tok(p), tok(q), ' '.join((lt, le, gt, ge)))
            if (lt == 'T' and le != 'T') or gt != tf(le != 'T') or ge != tf(lt != 'T'):
                return 'operators of one pair are inconsistent: %s' % ' '.join((lt, le, gt, ge))
        if f[2] != f[11] or f[3] != f[12] or f[4] != f[9] or f[5] != f[10]:
            return 'x<y / y>x (or <=, >=) disagree: %s' % got
        if f[3] != 'T' and f[10] != 'T':
            return 'neither x<=y nor y<=x'
        if x[0] in 'AN' and y[0] in 'AN' and x != y and f[3] == 'T' and f[10] == 'T':
            # on addresses and networks the order is antisymmetric up to identical objects
            return 'distinct objects %s and %s tie in the sort order' % (tok(x), tok(y))
        return None
    if a[0] == 'cmp3':
        f = got.split(' ')
        if len(f) != 6 or any(v not in 'TF' for v in f):
            return 'comparison raised: %s' % got
        if f[0] == 'T' and f[1] == 'T' and f[2] != 'T':
            return '<= is not transitive on this triple'
        if f[3] == 'T' and f[4] == 'T' and f[5] != 'T':
            return '== is not transitive on this triple'
        x, y, z = a[1], a[2], a[3]
        for (p, q), v in (((x, y), f[3]), ((y, z), f[4]), ((x, z), f[5])):
            if v != tf(ident(p) == ident(q)):
                return '== gave %s for %s, %s' % (v, tok(p), tok(q))
        for (p, q), v in (((x, y), f[0]), ((y, z), f[1]), ((x, z), f[2])):
            if must_precede(p, q) and v != 'T':
                return '%s must sort before %s' % (tok(p), tok(q))
            if must_precede(q, p) and v != 'F':
                return '%s must sort before %s' % (tok(q), tok(p))
        return None
    if a[0] == 'sorted':
        l = a[1]
        if got.startswith('!'):
            return 'sorted() raised %s' % got
        body, flag = got.rsplit(' ', 1)
        out = body[1:-1].split(',') if body != '[]' else []
        if sorted(out) != sorted(tok(o) for o in l):
            return 'sorted() output is not a permutation of its input'
        # map tokens back to case objects (globs share their token with the equal range)
        bytok = {}
        for o in l:
            bytok.setdefault(tok(o), o)
        objs = [bytok[t] for t in out]
        for i in range(len(objs)):
            for j in range(i + 1, len(objs)):
                if must_precede(objs[j], objs[i]):
                    return 'sorted(): %s comes before %s' % (out[i], out[j])
        if all(o[0] in 'AN' for o in l) and flag != 'T':
            return 'sorted() of a permutation of the same addresses/networks gave a different list'
        return None
    if a[0] == 'rtd':
        # CPython's default reduce rule (no __reduce__ of its own): a falsy state is dropped under protocols 0, 1
        o, how = a[1], a[2]
        exp = '!' if (not o[1] and how in ('p0', 'p1')) else tok(o)
        return None if got == exp else 'default-reduce IPSet subclass, %s: got %s, the CPython rule gives %s' % (how, got, exp)
    if a[0] == 'hash':
        o, how = a[1], a[2]
        f = hash_fields(o)
        one = '!type' if f is None else enc(tuple(f))
        exp = one + ' ' + one
        if got == exp:
            return None
        if f is None:
            return 'hash() of an %s and of its %s copy must both raise TypeError, got %s' % (
                {'S': 'IPSet', 'O': 'OUI', 'I': 'IAB'}[o[0]], how, got)
        return 'hash() of the object and of its %s copy must both be the hash of %r, got %s' % (how, tuple(f), got[:200])
    if a[0] == 'rt':
        o, how = a[1], a[2]
        exp = rt_expected(o) + ' T T T %s T T T' % ('-' if o[0] in 'SOI' else 'T')
        return None if got == exp else '%s round trip gave %s, expected %s (token, str==, ==, not !=, hash==, same type, new object, built as given)' % (how, got, exp)
    return None


def repro(c):
    a = c.args

    def b(o):
        k = o[0]
        if k == 'A':
            return 'IPAddress(%d, %d)' % (o[2], o[1])
        if k == 'N':
            return 'IPNetwork((%d, %d), version=%d)' % (o[2], o[3], o[1])
        if k == 'R':
            return 'IPRange(IPAddress(%d, %d), IPAddress(%d, %d))' % (o[2], o[1], o[3], o[1])
        if k == 'G':
            return 'IPGlob(%r)' % (o[3],)
        if k == 'S':
            return 'IPSet([%s])' % ', '.join('IPNetwork((%d, %d), version=%d)' % (v, p, ver) for ver, v, p in o[1])
        if k in 'OI':
            return '%s(%d)' % ('OUI' if k == 'O' else 'IAB', o[1])
        return 'EUI(%d, version=%d, dialect=%s)' % (o[2], o[1], DIALECTS[o[3]])
    if a[0] == 'cmp':
        return 'x, y = %s, %s; x == y, x != y, x < y, x <= y, x > y, x >= y, hash(x) == hash(y)' % (b(a[1]), b(a[2]))
    if a[0] == 'cmp3':
        return 'x, y, z = %s, %s, %s; x <= y, y <= z, x <= z, x == y, y == z, x == z' % (b(a[1]), b(a[2]), b(a[3]))
    if a[0] == 'sorted':
        return 'sorted([%s])' % ', '.join(b(o) for o in a[1])
    if a[0] == 'rtd':
        return ('class P(IPSet): __slots__ = (); __reduce__ = object.__reduce__  # at module level; x = P([...%d nets]); '
                'pickle.loads(pickle.dumps(x, proto)) for how=%s' % (len(a[1][1]), a[2]))
    how = a[2]
    f = {'copy': 'copy.copy(x)', 'deepcopy': 'copy.deepcopy(x)'}.get(how, 'pickle.loads(pickle.dumps(x, %s))' % how[1:])
    if a[0] == 'hash':
        return 'x = %s; y = %s; hash(x), hash(y), x.key() if hasattr(x, "key") else (x.version, int(x))' % (b(a[1]), f)
    return 'x = %s; y = %s; str(y) == str(x), y == x, hash(y) == hash(x), type(y)' % (b(a[1]), f)
