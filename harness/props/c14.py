"""C14 — address arithmetic and bitwise operators are exact and range-checked.
Ops: arith A:ver:val op X   (op in add radd sub rsub iadd isub or and xor shl shr rshl rshr; X = i:<int> | a:<ver>:<val>)
       iadd/isub answer  result~receiver~trace  (trace = reads/writes of the receiver's _value/_module in order)
       shl/shr take any operand (negative counts -> ValueError, an address as count -> TypeError);
       rshl/rshr are the reflected spellings  n << a, n >> a  (always TypeError)
     ctor X ver|-            (integer branch of IPAddress.__init__)
     conv A:ver:val          (int, __index__, hex, bool)"""
import operator
import netaddr

from common import Case, W, value_classes, rand_value, errname, tf, harvest_literals, boundary_values
import common
from netaddr import IPAddress
from netaddr.ip import BaseIP

ID = 'C14'
RULE = ('arith: (version, value) from structured value classes x n from {0, +-1, +-2, +-2^31, +-2^32, +-2^127, +-2^128 '
        '(+-1 of each), max-v, -v, v, v-max, their +-1 neighbours, v+max (+1) for the reflected forms, harvested '
        'literals, random of random bit length and sign} x all six +/- forms; bitwise: int operands (0, 1, max, max+1, '
        '-1, ~v, max^v, contiguous masks, negative and over-wide random) and address operands of both versions x or/and/'
        'xor; shifts: every count 0..width+1 plus 200 and a few larger, with values that just fit / just overflow, negative '
        'counts (-1, -2, -width, -2^64, random), addresses of both versions as the count, and the reflected n << a, '
        'n >> a; in-place forms run on an instrumented receiver (reads/writes of _value/_module logged and compared with '
        'the statement-level event log of the model); ints beyond the 4300-digit str limit of CPython (open finding C14-F1); '
        'ctor: boundary and random ints (negative, 0, 2^32-1, 2^32, 2^128-1, 2^128, beyond) x version in {None,4,6}; '
        'conv: value classes. non-trivial = distinct case whose implementation output is not an error')

ARITH = ('add', 'radd', 'sub', 'rsub', 'iadd', 'isub')
BITS = ('or', 'and', 'xor')
SHIFTS = ('shl', 'shr')
RSHIFTS = ('rshl', 'rshr')
STR_LIMIT = 10 ** 4300      # CPython >= 3.11: repr() of an int with more than 4300 digits raises ValueError


def _big(sign, k, low):
    """an int beyond the str limit, described by small ints (the case args go through json / repr / %d)"""
    return sign * (STR_LIMIT * k + low)


def _dec(x):
    """decimal text of any int without tripping the interpreter's int->str limit"""
    if abs(x) < STR_LIMIT:
        return '%d' % x
    sign, x = ('-', -x) if x < 0 else ('', x)
    base, chunks = 10 ** 1000, []
    while x:
        x, r = divmod(x, base)
        chunks.append(r)
    return sign + '%d' % chunks[-1] + ''.join('%01000d' % c for c in reversed(chunks[:-1]))


def _int(x):
    """an int argument: itself, or ('b', sign, k, low)"""
    return _big(*x[1:]) if isinstance(x, tuple) else x


def _operand_int(x):
    return x[1] if x[0] == 'i' else (_big(*x[1:]) if x[0] == 'b' else x[2])


def _xtok(x):
    if x[0] == 'b':
        return 'i:' + _dec(_big(*x[1:]))
    return 'i:%d' % x[1] if x[0] == 'i' else 'a:%d:%d' % (x[1], x[2])


def _exact(v, op, n):
    """the exact mathematical result (Python's own unbounded ints) and the error class the property names"""
    if op in ('add', 'radd', 'iadd'):
        return v + n, 'index'
    if op in ('sub', 'isub'):
        return v - n, 'index'
    if op == 'rsub':
        return n - v, 'index'
    if op == 'or':
        return v | n, 'addrFormat'
    if op == 'and':
        return v & n, 'addrFormat'
    if op == 'xor':
        return v ^ n, 'addrFormat'
    if op == 'shl':
        return v * (2 ** n), 'addrFormat'
    if op == 'shr':
        return v // (2 ** n), 'addrFormat'
    raise KeyError(op)


def _refused(op, x):
    """shift forms without a mathematical result: the error class CPython's int shift raises"""
    if op in RSHIFTS:
        return 'type'
    if op in SHIFTS:
        if x[0] == 'a':
            return 'type'
        if x[1] < 0:
            return 'value'
    return None


def _arith(ver, v, op, x):
    n = _operand_int(x)
    ref = _refused(op, x)
    if ref is not None:
        tag = '%s/v%d/%s%s' % (op, ver, {'type': 'address-as-count', 'value': 'negative-count'}[ref] if op in SHIFTS
                               else 'reflected', '/addr-operand' if x[0] == 'a' else '')
        return Case('arith A:%d:%d %s %s' % (ver, v, op, _xtok(x)), tag, ('arith', ver, v, op, x))
    exp, _ = _exact(v, op, n)
    zone = 'ok' if 0 <= exp < (1 << W[ver]) else ('neg' if exp < 0 else 'over')
    if 0 <= exp < (1 << W[ver]) and exp in (0, (1 << W[ver]) - 1):
        zone = 'edge'
    tag = '%s/v%d/%s%s' % (op, ver, zone, '/addr-operand' if x[0] == 'a' else '')
    return Case('arith A:%d:%d %s %s' % (ver, v, op, _xtok(x)), tag, ('arith', ver, v, op, x))


def _ctor(x, ver):
    return Case('ctor %s %s' % (_dec(_int(x)), '-' if ver is None else str(ver)), 'ctor/%s' % ('auto' if ver is None else 'v%d' % ver),
                ('ctor', x, ver))


def _conv(ver, v):
    return Case('conv A:%d:%d' % (ver, v), 'conv/v%d' % ver, ('conv', ver, v))


def corpus():
    m4, m6 = (1 << 32) - 1, (1 << 128) - 1
    cs = []
    for ver, m in ((4, m4), (6, m6)):
        for op in ARITH:
            cs += [_arith(ver, 0, op, ('i', 1)), _arith(ver, m, op, ('i', 1)), _arith(ver, m, op, ('i', -1)),
                   _arith(ver, 0, op, ('i', -1)), _arith(ver, 5, op, ('i', m + 5)), _arith(ver, 5, op, ('i', m + 6))]
        for op in BITS:
            cs += [_arith(ver, 5, op, ('i', -1)), _arith(ver, 5, op, ('i', m + 1)), _arith(ver, m, op, ('a', 10 - ver, 1))]
        cs += [_arith(ver, 1, 'shl', ('i', W[ver] - 1)), _arith(ver, 1, 'shl', ('i', W[ver])),
               _arith(ver, m, 'shr', ('i', W[ver])), _arith(ver, m, 'shl', ('i', 0))]
    for x in (-1, 0, m4, m4 + 1, m6, m6 + 1):
        for ver in (None, 4, 6):
            cs.append(_ctor(x, ver))
    cs += [_conv(4, 0), _conv(6, 0), _conv(4, 255), _conv(6, m6)]
    # negative counts, addresses as counts, reflected shifts
    for ver, m in ((4, m4), (6, m6)):
        for op in SHIFTS:
            cs += [_arith(ver, 5, op, ('i', -1)), _arith(ver, 0, op, ('i', -1)), _arith(ver, m, op, ('i', -W[ver])),
                   _arith(ver, 5, op, ('a', ver, 2)), _arith(ver, 5, op, ('a', 10 - ver, 0)), _arith(ver, 0, op, ('a', ver, 0))]
        for op in RSHIFTS:
            cs += [_arith(ver, 5, op, ('i', 1)), _arith(ver, 0, op, ('i', 0)), _arith(ver, 3, op, ('i', -1)),
                   _arith(ver, 3, op, ('i', 1 << 140))]
    # open finding C14-F1: the AddrFormatError message formats the int with %r
    cs += [_ctor(('b', 1, 1, 0), None), _ctor(('b', 1, 1, 0), 4), _ctor(('b', -1, 1, 0), 6), _ctor(('b', 1, 0, STR_LIMIT - 1), None),
           _arith(4, 1, 'shl', ('i', 14285)), _arith(4, 1, 'shl', ('i', 14284)), _arith(6, 1, 'or', ('b', 1, 1, 0))]
    return cs


def _rand_signed(rng):
    # 20000 bits ~ 6000 decimal digits: beyond CPython's default limit for int -> str conversion (4300 digits),
    # which error messages formatted with %r / %d run into
    bits = rng.choice([1, 4, 8, 16, 31, 32, 33, 64, 127, 128, 129, rng.randrange(1, 140), 20000])
    x = rng.getrandbits(bits)
    return -x if rng.random() < 0.5 else x


def _ns(rng, w, v):
    m = (1 << w) - 1
    out = [0, 1, -1, 2, -2, 5, -5]
    for k in (31, 32, 127, 128):
        for s in (1, -1):
            for d in (-1, 0, 1):
                out.append(s * (1 << k) + d)
    base = [m - v, -v, v, v - m, m, -m, m + v, v + m + 1, v - 1, v + 1]
    for b in base:
        out += [b - 1, b, b + 1]
    lits = harvest_literals()
    if lits:
        for l in rng.sample(lits, min(4, len(lits))):
            out += [l, -l]
    for _ in range(8):
        out.append(_rand_signed(rng))
    return out


def _bit_operands(rng, ver, v):
    w = W[ver]
    m = (1 << w) - 1
    k = rng.randrange(0, w + 1)
    host = (1 << k) - 1
    ints = [0, 1, m, m + 1, m + 2, -1, -2, ~v, m ^ v, v, host, m ^ host, ~host, -(m + 1), -(m + 2), 1 << 128, (1 << 128) - 1,
            rand_value(rng, w), ~rand_value(rng, w), rng.getrandbits(w + 8), -rng.getrandbits(w + 8) - 1,
            _rand_signed(rng), _rand_signed(rng)]
    out = [('i', x) for x in ints]
    out += [('a', ver, rand_value(rng, w)), ('a', ver, m ^ v), ('a', ver, m), ('a', ver, 0),
            ('a', 4, rand_value(rng, 32)), ('a', 6, rand_value(rng, 128)),
            ('a', 10 - ver, v & ((1 << W[10 - ver]) - 1))]
    # address operands of the other family that *embed* this one (mapped, compatible, 6to4, NAT64 ...) or are its low bits
    if ver == 4:
        out += [('a', 6, x) for x in rng.sample(common.embeddings(rng, v), 4)]
    else:
        out += [('a', 4, v & 0xffffffff), ('a', 4, (v >> 80) & 0xffffffff)]
    return out


def generate(rng, tier):
    cases = []
    mult = 1 if tier == 'quick' else 4
    for ver in (4, 6):
        w = W[ver]
        m = (1 << w) - 1
        # ---- + and -
        vals = value_classes(rng, w, n_random=3 * mult)
        for v in rng.sample(vals, min(len(vals), 24 * mult)):
            ns = _ns(rng, w, v)
            for n in rng.sample(ns, min(len(ns), 20)):
                for op in ARITH:
                    cases.append(_arith(ver, v, op, ('i', n)))
        # top / bottom addresses always
        for v in (0, 1, m - 1, m):
            for n in (0, 1, -1, 2, -2, m, -m, m + 1, -m - 1):
                for op in ARITH:
                    cases.append(_arith(ver, v, op, ('i', n)))
        # ---- bitwise
        vals = value_classes(rng, w, n_random=3 * mult)
        for v in rng.sample(vals, min(len(vals), 16 * mult)):
            xs = _bit_operands(rng, ver, v)
            for x in rng.sample(xs, min(len(xs), 14)):
                for op in BITS:
                    cases.append(_arith(ver, v, op, x))
        # ---- shifts: every count, values that just fit / just overflow
        counts = list(range(0, w + 2)) + [200, 255, 256, 1000]
        for s in counts:
            fit = m >> s
            cand = [fit, fit + 1, 1, m, 0, rand_value(rng, w), (fit >> 1) + 1, 1 << max(0, w - 1 - s) if s < w else 1]
            for v in rng.sample(cand, 2 * mult if 2 * mult <= len(cand) else len(cand)):
                v = min(max(v, 0), m)
                for op in SHIFTS:
                    cases.append(_arith(ver, v, op, ('i', s)))
        # ---- shifts without a mathematical result: negative counts, addresses as counts, reflected
        vals = value_classes(rng, w, n_random=2 * mult)
        for v in rng.sample(vals, min(len(vals), 10 * mult)) + [0, 1, m]:
            negs = [-1, -2, -w, -w - 1, -(1 << 64), -rng.randrange(1, 200), -rng.getrandbits(rng.randrange(1, 90)) - 1]
            addrs = [('a', ver, 0), ('a', ver, 1), ('a', ver, rng.randrange(0, w + 2)), ('a', ver, rand_value(rng, w)),
                     ('a', 10 - ver, rng.randrange(0, 40)), ('a', 10 - ver, rand_value(rng, W[10 - ver]))]
            for op in SHIFTS:
                for n in rng.sample(negs, 3):
                    cases.append(_arith(ver, v, op, ('i', n)))
                for x in rng.sample(addrs, 2):
                    cases.append(_arith(ver, v, op, x))
            for op in RSHIFTS:
                for n in rng.sample([0, 1, -1, 2, w, m, -m, _rand_signed(rng)], 2):
                    cases.append(_arith(ver, v, op, ('i', n)))
        # ---- observers
        vc = value_classes(rng, w)
        for v in rng.sample(vc, min(len(vc), 20 * mult)):
            cases.append(_conv(ver, v))
        for v in boundary_values(w) + [255, 256, 0xffffffff & m]:
            cases.append(_conv(ver, v))
    # ---- constructor
    m4, m6 = (1 << 32) - 1, (1 << 128) - 1
    xs = [-1, 0, 1, -2, m4 - 1, m4, m4 + 1, m4 + 2, -m4, -m4 - 1, m6 - 1, m6, m6 + 1, m6 + 2, -m6, -m6 - 1,
          1 << 200, -(1 << 200), 1 << 31, 1 << 127, 1 << 64, 10 ** 5000, -(10 ** 5000), (1 << 20000) + 1]
    for _ in range(40 * mult):
        xs.append(_rand_signed(rng))
    for _ in range(20 * mult):
        xs.append(rand_value(rng, rng.choice((32, 128))))
    lits = harvest_literals()
    xs += rng.sample(lits, min(10, len(lits)))
    for x in xs:
        for ver in (None, 4, 6):
            cases.append(_ctor(x, ver))
    # ---- beyond CPython's int->str limit (open finding C14-F1), and just inside it
    k, low = rng.randrange(1, 10), rng.getrandbits(64)
    cases += [_ctor(('b', 1, k, low), rng.choice((None, 4, 6))), _ctor(('b', -1, k, low), rng.choice((4, 6))),
              _ctor(('b', 1, 0, STR_LIMIT - 1 - low), None),
              _arith(4, rng.randrange(1, 1 << 32), 'shl', ('i', 14285 + rng.randrange(0, 500))),
              _arith(6, rng.randrange(1, 1 << 128), 'xor', ('b', 1, k, low))]
    return cases


# ---------------------------------------------------------------- implementation side

def _show(a):
    return '%d:%d' % (a.version, int(a))


# An IPAddress whose two attributes are watched: every read / write of `_value` and `_module` is
# appended to _LOG as (id(object), event).  The slots of BaseIP still hold the data; the properties
# below shadow the slot descriptors in the subclass only.
_LOG = []
_SLOT_VALUE = BaseIP.__dict__['_value']
_SLOT_MODULE = BaseIP.__dict__['_module']


class Watched(IPAddress):
    __slots__ = ()

    def _get_value(self):
        r = _SLOT_VALUE.__get__(self, type(self))
        _LOG.append((id(self), 'rv:%d' % r if isinstance(r, int) else 'rv:?'))
        return r

    def _set_value(self, x):
        _LOG.append((id(self), 'wv:%d' % x if isinstance(x, int) else 'wv:?'))
        _SLOT_VALUE.__set__(self, x)

    _value = property(_get_value, _set_value)

    def _get_module(self):
        _LOG.append((id(self), 'rm'))
        return _SLOT_MODULE.__get__(self, type(self))

    def _set_module(self, x):
        _LOG.append((id(self), 'wm'))
        _SLOT_MODULE.__set__(self, x)

    _module = property(_get_module, _set_module)


def impl(c):
    a = c.args
    if a[0] == 'arith':
        _, ver, v, op, x = a
        ip = Watched(v, ver)
        me = id(ip)
        if x[0] in ('i', 'b'):
            other = _operand_int(x)
        else:
            other = IPAddress(x[2], x[1])
        del _LOG[:]
        try:
            if op == 'add':
                r = ip + other
            elif op == 'radd':
                r = other + ip
            elif op == 'sub':
                r = ip - other
            elif op == 'rsub':
                r = other - ip
            elif op == 'iadd':
                ip += other
                r = ip
            elif op == 'isub':
                ip -= other
                r = ip
            elif op == 'or':
                r = ip | other
            elif op == 'and':
                r = ip & other
            elif op == 'xor':
                r = ip ^ other
            elif op == 'shl':
                r = ip << other
            elif op == 'shr':
                r = ip >> other
            elif op == 'rshl':
                r = other << ip
            elif op == 'rshr':
                r = other >> ip
            else:
                raise KeyError(op)
            trace = [ev for (who, ev) in _LOG if who == me]      # before anything below looks at the objects
            if not isinstance(r, IPAddress):
                res = '!notaddress:' + type(r).__name__
            else:
                res = _show(r)
                if op not in ('iadd', 'isub'):
                    # the result of a non-mutating operator is the caller's to move; the operands stay where they were
                    common.disturb(r)
        except Exception as e:
            trace = [ev for (who, ev) in _LOG if who == me]
            res = '!' + errname(e)
        del _LOG[:]
        out = res + '~' + _show(ip)
        if op in ('iadd', 'isub'):
            out += '~' + ','.join(trace)
        elif any(ev[0] == 'w' for ev in trace):
            out += '~left-operand-written:' + ','.join(trace)
        if x[0] == 'a' and (other.version, int(other)) != (x[1], x[2]):
            out += '~right-operand-changed:' + _show(other)
        return out
    if a[0] == 'ctor':
        _, x, ver = a
        x = _int(x)
        try:
            # the parsing flags say nothing about an INTEGER argument: every combination is passed (by a stable hash
            # of the value) and must give what no flags give (seed C14-r11-2 rendered the integer as text under ZEROFILL)
            fl = [None, 0, netaddr.INET_PTON, netaddr.ZEROFILL, netaddr.INET_PTON | netaddr.ZEROFILL, netaddr.ZEROFILL][
                (abs(x) % 1000003 + (ver or 0)) % 6]
            common.COUNTS['call/ctor-int-flags-%s' % fl] += 1
            if fl is None:
                r = IPAddress(x) if ver is None else IPAddress(x, ver)
            else:
                r = IPAddress(x, flags=fl) if ver is None else IPAddress(x, ver, fl)
            return _show(r)
        except Exception as e:
            return '!' + errname(e)
    if a[0] == 'conv':
        _, ver, v = a
        ip = IPAddress(v, ver)
        return '%d %d %s %s' % (int(ip), operator.index(ip), hex(ip), tf(bool(ip)))
    raise ValueError(a)


# ---------------------------------------------------------------- independent oracle

def oracle(c, got):
    a = c.args
    if a[0] == 'arith':
        _, ver, v, op, x = a
        m = (1 << W[ver]) - 1
        n = _operand_int(x)
        ref = _refused(op, x)
        if ref is not None:
            want = '!%s~%d:%d' % (ref, ver, v)
            return None if got == want else '%s with %s gave %s, CPython int shift semantics give %s' % (op, x, got, want)
        exp, err = _exact(v, op, n)
        if 0 <= exp <= m:
            after = exp if op in ('iadd', 'isub') else v
            want = '%d:%d~%d:%d' % (ver, exp, ver, after)
        else:
            want = '!%s~%d:%d' % (err, ver, v)
        if op in ('iadd', 'isub'):
            # result and receiver as above; of the trace the property needs: the receiver is written exactly once,
            # with the exact result, on success - and not at all when the operator raises
            parts = got.split('~')
            if len(parts) != 3:
                return '%s gave %s, expected result~receiver~trace' % (op, got)
            writes = [e for e in parts[2].split(',') if e.startswith('w')]
            wantw = ['wv:%d' % exp] if 0 <= exp <= m else []
            if '~'.join(parts[:2]) != want:
                return '%s gave %s, exact arithmetic gives %s' % (op, got, want)
            return None if writes == wantw else '%s wrote %s to the receiver, expected %s' % (op, writes, wantw)
        return None if got == want else '%s gave %s, exact arithmetic gives %s' % (op, got, want)
    if a[0] == 'ctor':
        _, x, ver = a
        x = _int(x)
        if ver is None:
            if 0 <= x < (1 << 32):
                want = '4:%d' % x
            elif (1 << 32) <= x < (1 << 128):
                want = '6:%d' % x
            else:
                want = '!addrFormat'
        else:
            want = '%d:%d' % (ver, x) if 0 <= x < (1 << W[ver]) else '!addrFormat'
        return None if got == want else 'constructor gave %s, expected %s' % (got, want)
    if a[0] == 'conv':
        _, ver, v = a
        digits = ''
        t = v
        while t:
            digits = '0123456789abcdef'[t % 16] + digits
            t //= 16
        want = '%d %d 0x%s %s' % (v, v, digits or '0', 'T' if v != 0 else 'F')
        return None if got == want else 'observers gave %s, expected %s' % (got, want)
    return None


def repro(c):
    a = c.args
    if a[0] == 'arith':
        _, ver, v, op, x = a
        o = (repr(x[1]) if x[0] == 'i' else '(%d * (10**4300 * %d + %d))' % x[1:] if x[0] == 'b'
             else 'IPAddress(%d, %d)' % (x[2], x[1]))
        expr = {'add': 'a + %s', 'radd': '%s + a', 'sub': 'a - %s', 'rsub': '%s - a', 'iadd': 'a += %s', 'isub': 'a -= %s',
                'or': 'a | %s', 'and': 'a & %s', 'xor': 'a ^ %s', 'shl': 'a << %s', 'shr': 'a >> %s',
                'rshl': '%s << a', 'rshr': '%s >> a'}[op] % o
        return 'a = IPAddress(%d, %d); %s   # then look at the result and at a' % (v, ver, expr)
    if a[0] == 'ctor':
        xs = '%d * (10**4300 * %d + %d)' % a[1][1:] if isinstance(a[1], tuple) else '%d' % a[1]
        return 'IPAddress(%s)' % xs if a[2] is None else 'IPAddress(%s, %d)' % (xs, a[2])
    return 'a = IPAddress(%d, %d); int(a), a.__index__(), hex(a), bool(a)' % (a[2], a[1])
