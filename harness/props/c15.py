"""C15 — binary, bit, word, DNS and base-85 encodings are faithful and invertible.

Ops (Driver/C15.lean): c15_enc fam v ; c15_obj fam v sep ; c15_dec kind fam payload ;
c15_valid kind fam payload ; c15_b85e v ; c15_b85d s ; c15_b85t s (the decoder's text).
v of c15_enc and the words of c15_dec / c15_valid are signed.
Family token: 4 | 6 | 48:<dialect> | 64:<dialect> | G:<ws>:<nw>:<hex sep> (generic codecs of
netaddr.strategy); dialect = built-in class name or D,ws,nw,<hex sep>,pad,U|L (user subclass)."""
import ipaddress
import socket

from common import Case, W, value_classes, rand_value, hexs, plist, tf
import common
import platform_cases
import netaddr
import netaddr.strategy as S
from netaddr.strategy import ipv4, ipv6, eui48, eui64
from netaddr.ip import rfc1924

ID = 'C15'
RULE = ('families 4, 6, every built-in EUI-48/EUI-64 dialect, user-subclass dialects and generic (word_size, '
        'num_words, separator) triples x structured value classes (boundaries, aligned+-1, harvested literals, '
        'random, the out-of-range values 2^w, 2^w+1 and NEGATIVE ints): strategy-level and object-level encoders; decoders on every '
        'encoder output and on structured malformations of it (length +-1, digit 2 / sign / space / underscore / '
        'newline, separator moved or doubled, word = 2^ws, negative word, word count +-1, byte count +-1, value 2^w, 0b-prefix '
        'variants, base-85 characters outside the alphabet, base-85 numerals >= 2^128); separators of the generic triples '
        'include multi-character ones, ones mixing binary digits with another character, and (replace() semantics only) '
        'all-binary ones; base85_to_ipv6 is compared as text too. non-trivial = distinct case '
        'whose implementation output is not an error')

MODS = {4: ipv4, 6: ipv6, 48: eui48, 64: eui64}

# independent restatement of the built-in dialects (IEEE / Cisco / PostgreSQL conventions):
# name -> (word_size, num_words, separator)
BUILTIN = {
    'mac_eui48': (8, 6, '-'), 'mac_unix': (8, 6, ':'), 'mac_unix_expanded': (8, 6, ':'), 'mac_cisco': (16, 3, '.'),
    'mac_bare': (48, 1, ''), 'mac_pgsql': (24, 2, ':'),
    'eui64_base': (8, 8, '-'), 'eui64_unix': (8, 8, ':'), 'eui64_unix_expanded': (8, 8, ':'),
    'eui64_cisco': (16, 4, '.'), 'eui64_bare': (64, 1, ''),
}
D48 = ['mac_eui48', 'mac_unix', 'mac_unix_expanded', 'mac_cisco', 'mac_bare', 'mac_pgsql']
D64 = ['eui64_base', 'eui64_unix', 'eui64_unix_expanded', 'eui64_cisco', 'eui64_bare']
USER48 = ['D,8,6,5f,2,L', 'D,16,3,3a,4,U', 'D,12,4,2e,3,L']
USER64 = ['D,8,8,20,2,U', 'D,32,2,2d,8,L']
GENERIC = [(32, 4, ''), (4, 8, '.'), (8, 4, '::'), (1, 7, '-'), (16, 8, ' '), (24, 2, ''), (5, 3, ':'), (64, 1, '.'),
           # separators mixing binary digits with one other character (round trip proved: bits_roundtrip_anysep)
           (4, 4, '0.1'), (3, 3, '.0'), (2, 4, '1:'), (8, 2, '-=-'),
           # all-binary separators: outside every dialect; they only exercise str.replace (overlapping occurrences)
           (2, 2, '010'), (1, 2, '1'), (3, 2, '00')]
# RFC 1924 section 4.2: '0'..'9', 'A'..'Z', 'a'..'z', then these 23 characters
B85 = ('0123456789' + 'ABCDEFGHIJKLMNOPQRSTUVWXYZ' + 'abcdefghijklmnopqrstuvwxyz' + '!#$%&()*+-;<=>?@^_`{|}~')


# ------------------------------------------------------------------ family tokens

def fam_info(tok):
    """token -> (kind, ws, nw, sep, width), from the token and the tables above only"""
    p = tok.split(':')
    if p[0] == '4':
        return 4, 8, 4, '.', 32
    if p[0] == '6':
        return 6, 16, 8, ':', 128
    if p[0] in ('48', '64'):
        d = p[1]
        if d.startswith('D,'):
            f = d.split(',')
            ws, nw, sep = int(f[1]), int(f[2]), bytes.fromhex(f[3]).decode()
        else:
            ws, nw, sep = BUILTIN[d]
        return int(p[0]), ws, nw, sep, int(p[0])
    ws, nw = int(p[1]), int(p[2])
    return 0, ws, nw, bytes.fromhex(p[3]).decode(), ws * nw


_DCACHE = {}


def dialect_obj(kind, d):
    """the real dialect class for a dialect token"""
    key = (kind, d)
    if key not in _DCACHE:
        mod = MODS[kind]
        if d.startswith('D,'):
            f = d.split(',')
            pad, up = int(f[4]), f[5] == 'U'
            fmt = '%' + ('.%d' % pad if pad else '') + ('X' if up else 'x')
            base = eui48.mac_eui48 if kind == 48 else eui64.eui64_base
            _DCACHE[key] = type('user_dialect', (base,), dict(word_size=int(f[1]), num_words=int(f[2]),
                                                              word_sep=bytes.fromhex(f[3]).decode(), word_fmt=fmt))
        else:
            _DCACHE[key] = getattr(mod, d)
    return _DCACHE[key]


def families():
    out = ['4', '6']
    out += ['48:' + d for d in D48 + USER48]
    out += ['64:' + d for d in D64 + USER64]
    out += ['G:%d:%d:%s' % (ws, nw, sep.encode().hex()) for ws, nw, sep in GENERIC]
    return out


# ------------------------------------------------------------------ reference encoders (integers only)

def ref_words(v, ws, nw):
    return [(v >> (ws * (nw - 1 - i))) & ((1 << ws) - 1) for i in range(nw)]


def ref_bits(v, ws, nw, sep):
    return sep.join(format(x, '0%db' % ws) for x in ref_words(v, ws, nw))


def ref_bin(v):
    return '0b' + format(v, 'b')


def ref_packed(v, width):
    return bytes((v >> (8 * (width // 8 - 1 - i))) & 255 for i in range(width // 8))


def ref_arpa(kind, v):
    if kind == 4:
        return '.'.join(str((v >> (8 * i)) & 255) for i in range(4)) + '.in-addr.arpa.'
    return '.'.join('0123456789abcdef'[(v >> (4 * i)) & 15] for i in range(32)) + '.ip6.arpa.'


def ref_b85(v):
    ds = []
    for _ in range(20):
        ds.append(B85[v % 85])
        v //= 85
    return ''.join(reversed(ds))


def fbytes(b):
    return 'b:' + bytes(b).hex()


def fwords(ws):
    return plist(str(int(x)) for x in ws)


# ------------------------------------------------------------------ cases

def corpus():
    out = []
    # fixed finding F11 (5385a10): malformed binary strings were accepted
    for fam, s in (('4', '0b10b1'), ('4', '0b1_1'), ('6', '0b0b1'), ('48:mac_eui48', '0b-1'), ('4', '0b 1')):
        out.append(Case('c15_dec bin %s %s' % (fam, hexs(s)), 'corpus/bin', ('dec', 'bin', fam, s)))
    z4 = ref_bits(0, 8, 4, '.')
    for s in (' ' + z4[1:], '+' + z4[1:], '0_0' + z4[3:], z4[:-1] + '\n', z4.replace('0', '2', 1)):
        out.append(Case('c15_dec bits 4 %s' % hexs(s), 'corpus/bits', ('dec', 'bits', '4', s)))
        out.append(Case('c15_valid bits 4 %s' % hexs(s), 'corpus/bits', ('valid', 'bits', '4', s)))
    out.append(Case('c15_b85e %d' % 0x108000000000000000080800200c417a, 'corpus/b85', ('b85e', 0x108000000000000000080800200c417a)))
    out.append(Case('c15_b85d %s' % hexs('4)+k&C#VzJ4br>0wv%Yp'), 'corpus/b85', ('b85d', '4)+k&C#VzJ4br>0wv%Yp')))
    out.append(Case('c15_b85t %s' % hexs('4)+k&C#VzJ4br>0wv%Yp'), 'corpus/b85', ('b85t', '4)+k&C#VzJ4br>0wv%Yp')))
    # negative ints / words (audit round): every guard's `0 <=` half; int_to_bin(-5) is '-0b101' (no sign test)
    for fam in ('4', '6', '48:mac_eui48', '64:eui64_base', 'G:8:4:2e'):
        for v in (-1, -5, -(1 << 32), -(1 << 48)):
            out.append(Case('c15_enc %s %d' % (fam, v), 'corpus/negative', ('enc', fam, v)))
    for fam, w in (('4', (192, 0, 2, -1)), ('4', (0, 0, 0, -256)), ('6', (0, 0, 0, 0, 0, 0, 0, -1)), ('G:8:4:2e', (-1, 0, 0, 0))):
        out.append(Case('c15_dec words %s %s' % (fam, fwords(w)), 'corpus/negative', ('dec', 'words', fam, w)))
        out.append(Case('c15_valid words %s %s' % (fam, fwords(w)), 'corpus/negative', ('valid', 'words', fam, w)))
    # all-binary separator: bits_to_int(int_to_bits(4, 2, 2, '010'), 4, '010') == 8 (theorem bits_roundtrip_needs_nonbinary_sep)
    out.append(Case('c15_enc G:2:2:303130 4', 'corpus/binsep', ('enc', 'G:2:2:303130', 4)))
    out.append(Case('c15_dec bits G:2:2:303130 %s' % hexs('0101000'), 'corpus/binsep', ('dec', 'bits', 'G:2:2:303130', '0101000')))
    out.append(Case('c15_dec bits G:1:2:31 %s' % hexs('110'), 'corpus/binsep', ('dec', 'bits', 'G:1:2:31', '110')))
    return out


JUNK = '2 +-_b\n9aB.:'


def _mutate_str(rng, s, alphabet):
    """one structured malformation of a text encoding"""
    k = rng.randrange(8)
    if not s:
        return rng.choice(alphabet)
    i = rng.randrange(len(s))
    if k == 0:
        return s[:i] + s[i + 1:]                                  # one shorter
    if k == 1:
        return s[:i] + rng.choice('01') + s[i:]                   # one longer
    if k == 2:
        return s[:i] + rng.choice(alphabet) + s[i + 1:]           # digit outside the base / junk
    if k == 3:
        return s[:i] + rng.choice(alphabet) + s[i:]
    if k == 4:
        return rng.choice(' +-\t') + s[1:]                        # what int() would forgive
    if k == 5:
        return s[:-1] + rng.choice('\n _')
    if k == 6:
        return s + rng.choice('01\n ')
    return s[:i] + '_' + s[i + 1:]


def _dec_cases(rng, fam, v, mult):
    kind, ws, nw, sep, width = fam_info(fam)
    out = []

    def add(k, payload, tag):
        if k == 'words':
            tok = fwords(payload)
        elif k == 'packed':
            tok = fbytes(payload)
        else:
            tok = hexs(payload)
        out.append(Case('c15_dec %s %s %s' % (k, fam, tok), 'dec/%s/%s' % (k, tag), ('dec', k, fam, payload)))
        if k != 'packed' and rng.random() < 0.5:
            out.append(Case('c15_valid %s %s %s' % (k, fam, tok), 'valid/%s/%s' % (k, tag), ('valid', k, fam, payload)))

    words = ref_words(v, ws, nw)
    add('words', tuple(words), 'ok')
    r = rng.randrange(9)
    wl = list(words)
    i = rng.randrange(nw)
    if r == 6:
        wl[i] = -1
    elif r == 7:
        wl[i] = -wl[i] - rng.randrange(2)
    elif r == 8:
        wl[i] = -(1 << ws)
    elif r == 0:
        wl[i] = 1 << ws
    elif r == 1:
        wl[i] = (1 << ws) + rng.randrange(1, 4)
    elif r == 2:
        wl = wl[:-1]
    elif r == 3:
        wl = wl + [rng.choice((0, (1 << ws) - 1))]
    elif r == 4:
        wl[i] = (1 << ws) - 1
    else:
        wl = []
    add('words', tuple(wl), 'mut')
    bits = ref_bits(v, ws, nw, sep)
    add('bits', bits, 'ok')
    for _ in range(2 * mult):
        add('bits', _mutate_str(rng, bits, JUNK + sep), 'mut')
    if sep:
        add('bits', bits.replace(sep, ''), 'nosep')
        add('bits', bits.replace(sep, sep + sep, 1), 'sep2')
        add('bits', sep + bits, 'sep0')
    add('bits', '1' + '0' * width, 'value2w')
    b = ref_bin(v)
    add('bin', b, 'ok')
    for _ in range(2 * mult):
        add('bin', _mutate_str(rng, b, JUNK), 'mut')
    z = rng.choice((1, width - (len(b) - 2), width - (len(b) - 2) + 1))
    add('bin', '0b' + '0' * max(z, 0) + b[2:], 'zeros')
    add('bin', rng.choice(('0b', '0B' + b[2:], b[2:], '0b0b' + b[2:], '0b1' + '0' * width, '0b' + '1' * (width + 1),
                           '0b' + '1' * width, ' ' + b, '-' + b, '0b+' + b[2:], '0b' + b[2:] + '\n')), 'prefix')
    if kind in MODS:
        pk = ref_packed(v, width)
        add('packed', pk, 'ok')
        add('packed', rng.choice((pk[:-1], pk[1:], pk + b'\x00', b'\x00' + pk, b'', pk + pk)), 'len')
    return out


def generate(rng, tier):
    mult = 1 if tier == 'quick' else 3
    cases = []
    for fam in families():
        kind, ws, nw, sep, width = fam_info(fam)
        m = (1 << width) - 1
        vals = value_classes(rng, width, n_random=3 * mult)
        vals = rng.sample(vals, min(len(vals), 22 * mult)) + [0, m, 1 << (width - 1)]
        # all-ones / single-bit words: zero padding per word
        for _ in range(4 * mult):
            i = rng.randrange(nw)
            vals.append(rng.choice((1, (1 << ws) - 1, 1 << (ws - 1))) << (ws * i))
        for v in vals:
            cases.append(Case('c15_enc %s %d' % (fam, v), 'enc/%s' % fam.split(':')[0], ('enc', fam, v)))
            if kind in MODS:
                s = rng.choice((None, None, '', ':', '-', '.', ' ', '::'))
                cases.append(Case('c15_obj %s %d %s' % (fam, v, '-' if s is None else hexs(s)),
                                  'obj/%s' % fam.split(':')[0], ('obj', fam, v, s)))
            if rng.random() < 0.5:
                cases.extend(_dec_cases(rng, fam, v, mult))
        for v in (m + 1, m + 2, m + rng.randrange(3, 1 << 20), (m + 1) << rng.randrange(1, 9)):
            cases.append(Case('c15_enc %s %d' % (fam, v), 'enc/range', ('enc', fam, v)))
        # negative ints: the `0 <=` half of every guard
        for v in (-1, -2, -m, -(m + 1), -(m + 2), -(1 << (width - 1)), -((1 << (width - 1)) - 1), -(1 << 32), -(1 << 32) - 1,
                  -rng.randrange(1, m + 2), -rng.randrange(1, 1 << 16)):
            cases.append(Case('c15_enc %s %d' % (fam, v), 'enc/negative', ('enc', fam, v)))
    # base 85
    top = (1 << 128) - 1
    for v in value_classes(rng, 128, n_random=20 * mult) + [85 ** k + d for k in range(0, 20) for d in (-1, 0, 1)]:
        v = max(0, min(v, top))
        cases.append(Case('c15_b85e %d' % v, 'b85/enc', ('b85e', v)))
        s = ref_b85(v)
        cases.append(Case('c15_b85d %s' % hexs(s), 'b85/dec-ok', ('b85d', s)))
        cases.append(Case('c15_b85t %s' % hexs(s), 'b85/text-ok', ('b85t', s)))
        if rng.random() < 0.6:
            t = _mutate_str(rng, s, ' "\',./:[\\]' + B85)
            cases.append(Case('c15_b85d %s' % hexs(t), 'b85/dec-mut', ('b85d', t)))
            cases.append(Case('c15_b85t %s' % hexs(t), 'b85/text-mut', ('b85t', t)))
    for d in list(range(0, 6)) + [rng.randrange(1 << 64) for _ in range(4 * mult)]:
        x = top + 1 + d
        if x < 85 ** 20:
            cases.append(Case('c15_b85d %s' % hexs(ref_b85(x)), 'b85/dec-2^128', ('b85d', ref_b85(x))))
            cases.append(Case('c15_b85t %s' % hexs(ref_b85(x)), 'b85/text-2^128', ('b85t', ref_b85(x))))
    for s in ('~' * 20, '0' * 19, '0' * 21, '', '0' * 19 + ' ', '=r54lj&NUUO~Hi%c2ym0', '=r54lj&NUUO~Hi%c2ym1', '=r54lj&NUUO~Hi%c2yl~'):
        cases.append(Case('c15_b85d %s' % hexs(s), 'b85/dec-fixed', ('b85d', s)))
        cases.append(Case('c15_b85t %s' % hexs(s), 'b85/text-fixed', ('b85t', s)))
    # texts with an IPv4 tail / a zero run at either end / no zero run
    for v in (0, 1, 0xffff01020304, 0x01020304, 0xffff << 112, (1 << 128) - 1, 0x00010002000300040005000600070008,
              0x20010db8000000000000000000000001, 1 << 127, 0xffff00000000, 0x0001 << 16):
        cases.append(Case('c15_b85t %s' % hexs(ref_b85(v)), 'b85/text-shapes', ('b85t', ref_b85(v))))
    # oracle-only: digits that int() would read but the numeral's base does not contain
    z4 = ref_bits(0, 8, 4, '.')
    for t in ('\u0661' + z4[1:], '\uff11' + z4[1:], z4[:-1] + '\u00b9'):
        cases.append(Case(None, 'dec/bits/nonascii', ('dec', 'bits', '4', t)))
        cases.append(Case(None, 'valid/bits/nonascii', ('valid', 'bits', '4', t)))
    for t in ('0b\u0661', '0b1\uff10', '\uff100b1'):
        cases.append(Case(None, 'dec/bin/nonascii', ('dec', 'bin', '6', t)))
    cases.extend(platform_cases.pyint_cases(rng, 150 * mult))
    return cases


# ------------------------------------------------------------------ implementation side

def _try(f, show):
    try:
        return show(f())
    except Exception as e:
        # the exception class as the model's Err tag (struct.error, OverflowError ... = 'other'): compared by the
        # correspondence stage only; the oracle speaks of "raises" and drops the class (_plain)
        n = common.errname(e)
        return '!' + ('other' if n.startswith('other:') else n)


def _plain(got):
    return ' '.join('!' if f.startswith('!') else f for f in got.split(' '))


def equivalent(c, got, model):
    """the decoders "raise" on bad input - the property names no exception class for them, so the correspondence
    compares raise / value, not the class (a change of struct.error into ValueError for a wrong length is not a
    disagreement; found when seed C15-r11-2 was reported for that reason instead of for its defect)"""
    if got == model:
        return True
    if c.args and c.args[0] in ('dec', 'b85d') and model is not None:
        return _plain(got) == _plain(model)
    return False


def impl(c):
    a = c.args
    if c.platform:
        return platform_cases.impl(c)
    if a[0] == 'enc':
        _, fam, v = a
        kind, ws, nw, sep, width = fam_info(fam)
        if kind == 0:
            return ' '.join([_try(lambda: S.int_to_words(v, ws, nw), fwords), '-',
                             _try(lambda: S.int_to_bits(v, ws, nw, sep), hexs),
                             _try(lambda: S.int_to_bin(v, width), hexs), '-'])
        mod = MODS[kind]
        if kind in (4, 6):
            return ' '.join([_try(lambda: mod.int_to_words(v), fwords), _try(lambda: mod.int_to_packed(v), fbytes),
                             _try(lambda: mod.int_to_bits(v), hexs), _try(lambda: mod.int_to_bin(v), hexs),
                             _try(lambda: mod.int_to_arpa(v), hexs)])
        d = dialect_obj(kind, fam.split(':')[1])
        return ' '.join([_try(lambda: mod.int_to_words(v, d), fwords), _try(lambda: mod.int_to_packed(v), fbytes),
                         _try(lambda: mod.int_to_bits(v, d), hexs), _try(lambda: mod.int_to_bin(v), hexs), '-'])
    if a[0] == 'obj':
        _, fam, v, sep = a
        kind, ws, nw, _s, width = fam_info(fam)
        if kind in (4, 6):
            o = common.make_addr(kind, v)
            return ' '.join([_try(lambda: o.words, fwords), _try(lambda: o.packed, fbytes), _try(lambda: bytes(o), fbytes),
                             _try(lambda: o.bits(sep), hexs), _try(lambda: o.bin, hexs),
                             _try(lambda: o.reverse_dns, hexs)])
        o = common.make_eui(v, kind, dialect_obj(kind, fam.split(":")[1]))
        return ' '.join([_try(lambda: o.words, fwords), _try(lambda: o.packed, fbytes), '-',
                         _try(lambda: o.bits(sep), hexs), _try(lambda: o.bin, hexs), '-'])
    if a[0] in ('dec', 'valid'):
        _, k, fam, payload = a
        kind, ws, nw, sep, width = fam_info(fam)
        if k == 'words':
            payload = list(payload)
        if kind == 0:
            fn = {('dec', 'words'): lambda: S.words_to_int(payload, ws, nw),
                  ('dec', 'bits'): lambda: S.bits_to_int(payload, width, sep),
                  ('dec', 'bin'): lambda: S.bin_to_int(payload, width),
                  ('valid', 'words'): lambda: S.valid_words(payload, ws, nw),
                  ('valid', 'bits'): lambda: S.valid_bits(payload, width, sep),
                  ('valid', 'bin'): lambda: S.valid_bin(payload, width)}[(a[0], k)]
        else:
            mod = MODS[kind]
            extra = () if kind in (4, 6) else (dialect_obj(kind, fam.split(':')[1]),)
            name = {('dec', 'words'): 'words_to_int', ('dec', 'bits'): 'bits_to_int', ('dec', 'bin'): 'bin_to_int',
                    ('dec', 'packed'): 'packed_to_int', ('valid', 'words'): 'valid_words',
                    ('valid', 'bits'): 'valid_bits', ('valid', 'bin'): 'valid_bin'}[(a[0], k)]
            if name in ('bin_to_int', 'packed_to_int'):
                extra = ()
            if name == 'packed_to_int' and isinstance(payload, (bytes, bytearray)):
                # the same bytes as another bytes-like object (a stable hash picks the form): bytearray, memoryview,
                # and - for an even byte count - a memoryview / array of 16-bit items, whose len() is HALF the byte
                # count (seed C15-r11-2 sized the input with len() and then consumed the whole buffer)
                import zlib, array
                h = zlib.crc32(bytes(payload) + fam.encode()) % 6
                raw = bytes(payload)
                if h == 1:
                    payload = bytearray(raw)
                elif h == 2:
                    payload = memoryview(raw)
                elif h in (3, 4) and raw and len(raw) % 2 == 0:
                    payload = memoryview(raw).cast('H') if h == 3 else array.array('H', raw)
                common.COUNTS['call/packed-buffer-form-%d' % h] += 1
            fn = lambda: getattr(mod, name)(payload, *extra)
        if a[0] == 'valid':
            return _try(fn, lambda r: tf(r is True) if isinstance(r, bool) else '?' + repr(r))
        return _try(fn, lambda r: str(int(r)) if isinstance(r, int) and not isinstance(r, bool) else '?' + repr(r))
    if a[0] == 'b85e':
        return _try(lambda: rfc1924.ipv6_to_base85(netaddr.IPAddress(a[1], 6)), hexs)
    if a[0] == 'b85d':
        # the decoder returns the address as text; read it back with the standard library
        return _try(lambda: rfc1924.base85_to_ipv6(a[1]), lambda s: str(int(ipaddress.IPv6Address(s))))
    if a[0] == 'b85t':
        return _try(lambda: rfc1924.base85_to_ipv6(a[1]), hexs)
    raise ValueError(a)


# ------------------------------------------------------------------ oracle

def _strip_sep(s, sep):
    return ''.join(s.split(sep)) if sep else s


def _bin_value(s):
    v = 0
    for ch in s:
        v = v * 2 + (1 if ch == '1' else 0)
    return v


def expect(a):
    """the property's expectation for a case, from integers only"""
    if a[0] == 'enc' or a[0] == 'obj':
        fam, v = a[1], a[2]
        kind, ws, nw, sep, width = fam_info(fam)
        ok = 0 <= v < (1 << width)
        if a[0] == 'obj':
            # object level: EUI.words / EUI.bits() are octets joined by '-' whatever the dialect;
            # bits(sep) keeps the family's words and only changes the separator
            if kind in (48, 64):
                ws, nw, sep = 8, width // 8, '-'
            bsep = sep if a[3] is None else a[3]
            f = [fwords(ref_words(v, ws, nw)), fbytes(ref_packed(v, width)),
                 fbytes(ref_packed(v, width)) if kind in (4, 6) else '-', hexs(ref_bits(v, ws, nw, bsep)),
                 hexs(ref_bin(v)), hexs(ref_arpa(kind, v)) if kind in (4, 6) else '-']
            return ' '.join(f)
        if not ok:
            return ' '.join(['!', '!' if kind else '-', '!', '!', '!' if kind in (4, 6) else '-'])
        return ' '.join([fwords(ref_words(v, ws, nw)), fbytes(ref_packed(v, width)) if kind else '-',
                         hexs(ref_bits(v, ws, nw, sep)), hexs(ref_bin(v)),
                         hexs(ref_arpa(kind, v)) if kind in (4, 6) else '-'])
    if a[0] in ('dec', 'valid'):
        _, k, fam, payload = a
        kind, ws, nw, sep, width = fam_info(fam)
        val = None
        if k == 'words':
            if len(payload) == nw and all(0 <= x < (1 << ws) for x in payload):
                val = sum(x << (ws * (nw - 1 - i)) for i, x in enumerate(payload))
        elif k == 'packed':
            if len(payload) == width // 8:
                val = sum(b << (8 * (len(payload) - 1 - i)) for i, b in enumerate(payload))
        elif k == 'bits':
            t = _strip_sep(payload, sep)
            if len(t) == width and all(ch in '01' for ch in t):
                val = _bin_value(t)
        elif k == 'bin':
            t = payload[2:]
            if payload[:2] == '0b' and 1 <= len(t) <= width and all(ch in '01' for ch in t):
                val = _bin_value(t)
        if a[0] == 'valid':
            return tf(val is not None)
        return '!' if val is None else str(val)
    if a[0] == 'b85e':
        return hexs(ref_b85(a[1]))
    if a[0] in ('b85d', 'b85t'):
        s = a[1]
        if len(s) == 20 and all(ch in B85 for ch in s):
            v = 0
            for ch in s:
                v = v * 85 + B85.index(ch)
            if v < (1 << 128):
                if a[0] == 'b85d':
                    return str(v)
                # the platform's own compact spelling of the 16 bytes (never netaddr's)
                return hexs(socket.inet_ntop(socket.AF_INET6, v.to_bytes(16, 'big')))
        return '!'
    raise ValueError(a)


def oracle(c, got):
    if c.platform:
        return None
    exp = expect(c.args)
    got = _plain(got)
    if c.args[0] == 'enc' and c.args[2] < 0:
        # a negative int is no value of any family: every encoder with a range test must raise.  int_to_bin has no
        # sign test; the property leaves its result open as long as it is not a '0b' spelling a decoder would read
        g, e = got.split(' '), exp.split(' ')
        if len(g) == 5 and g[3] != '!':
            width = fam_info(c.args[1])[4]
            if g[3] != hexs('-0b' + format(-c.args[2], 'b')) or len(format(-c.args[2], 'b')) + 1 > width:
                return 'int_to_bin(%d) gave %s: neither an error nor the signed spelling within the width' % (c.args[2], g[3])
            g[3] = '!'
        if g != e:
            return '%s gave %s, the encoding rules give %s' % (c.args[0], got, exp)
        return None
    if got != exp:
        return '%s gave %s, the encoding rules give %s' % (c.args[0], got, exp)
    if c.args[0] == 'b85t' and not got.startswith('!'):
        # cross-check: the text read back by the standard library is the numeral's value
        if str(int(ipaddress.IPv6Address(bytes.fromhex(got[2:]).decode()))) != expect(('b85d', c.args[1])):
            return 'base85_to_ipv6 text %s does not read back as the numeral value' % got
    if c.args[0] == 'obj' and c.args[1] in ('4', '6') and c.args[3] is None:
        # cross-check of the reference itself against the standard library
        ip = ipaddress.IPv6Address(c.args[2]) if c.args[1] == '6' else ipaddress.IPv4Address(c.args[2])
        if hexs(ip.reverse_pointer + '.') != got.split(' ')[5] or fbytes(ip.packed) != got.split(' ')[1]:
            return 'reverse_dns / packed differ from the standard library: %s' % got
    return None


def repro(c):
    a = c.args
    if c.platform:
        return 'int(%r, %d)' % (a[2], a[1])
    if a[0] == 'enc':
        return 'strategy-level int_to_words/int_to_packed/int_to_bits/int_to_bin/int_to_arpa(%d) for family %s' % (a[2], a[1])
    if a[0] == 'obj':
        return 'o = IPAddress/EUI(%d) of family %s; o.words, o.packed, bytes(o), o.bits(%r), o.bin, o.reverse_dns' % (a[2], a[1], a[3])
    if a[0] in ('dec', 'valid'):
        name = {'words': 'words', 'packed': 'packed', 'bits': 'bits', 'bin': 'bin'}[a[1]]
        return 'netaddr.strategy module of family %s: %s(%r)' % (a[2], (name + '_to_int') if a[0] == 'dec' else ('valid_' + name), a[3])
    if a[0] == 'b85e':
        return 'from netaddr.ip.rfc1924 import *; ipv6_to_base85(IPAddress(%d, 6))' % a[1]
    return 'from netaddr.ip.rfc1924 import *; base85_to_ipv6(%r)' % (a[1],)  # b85d: its value, b85t: its text
