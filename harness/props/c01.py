"""C01 — address text round-trips; strict parsing equals the standard grammar; both back-ends.

Ops (driver side in lean/NetaddrVerif/Driver/C01.lean):
  platform (never call netaddr):  aton S · pton4 S · pton6 S · ntop6 V
  ip_parse be S ver flags · ip_print be F V dialect · valid4 be S flags · valid6 be S ·
  fb_pton F S · fb_ntop F V · ip_repr be F V (repr + parse of its quoted part) ·
  zf_rewrite S (platform-style: the ZEROFILL rewrite '.'.join('%d' % int(p) for p in S.split('.')) against CPython)
  raw-exception model (Model/AddrRaw.lean): ip_parse_raw be4 be6 S ver flags (the two back-end switches apart:
  be4 = fb imports netaddr with sys.platform='win32' only, be6 = fb with socket.has_ipv6=False only) ·
  s2i_raw F be S flags (strategy.ipv4/ipv6.str_to_int, value or the class raised) · raw_call fn be S with fn in
  aton|pton4|pton6|int (the very callables the strategy modules bound at import: value / raised below Exception / raised outside it) ·
  ip_format be6 F V D (IPAddress.format; D = - | compact | full | verbose | nowf | wfonly)
be = pl (netaddr as imported here: platform socket functions) | fb (netaddr imported in a
dedicated subprocess with sys.platform='win32' and socket.has_ipv6=False, so that
strategy.ipv4/ipv6 bind netaddr.fbsocket; /repo is not touched)."""
import atexit
import ipaddress
import json
import os
import re
import socket
import subprocess
import sys

from common import Case, hexs, optint, tf

ID = 'C01'
RULE = ('values: all 256 zero/non-zero patterns of the eight hextets x several fillings, embedded-IPv4 boundaries, '
        'IPv4 boundary/structured values; every value is printed (default + 3 dialects) and parsed back with '
        'version in {None,4,6} x flags in {0,INET_PTON,ZEROFILL} on both back-ends; strings: reference-printer '
        'outputs, their edit-distance<=1..3 neighbours over the address alphabet, structured near-misses (empty part, '
        'extra part, leading zero, sign, whitespace, underscore, 0x, over-long / out-of-range numerals), BSD '
        'shorthands (1-4 parts, dec/oct/hex), zero-padded octets, ZEROFILL texts (1-5 parts in any spelling int() '
        'tolerates or nearly tolerates: sign, whitespace, underscores, padding) with flags ZEROFILL and '
        'INET_PTON|ZEROFILL, texts with a \'/\' behind whitespace (valid_ipv4 vs constructor), repr of every value class, '
        'random strings; platform ops compare the modelled '
        'glibc functions with socket.* directly. non-trivial = distinct case whose implementation output is not an error')

INET_PTON, ZEROFILL = 1, 2
M4 = (1 << 32) - 1
M6 = (1 << 128) - 1
ALPHA = '0123456789abcdefABCDEFxX.:/ +-_\t\n'
DEC = '0123456789'
HEX = '0123456789abcdefABCDEF'
OCT = '01234567'
WS = ' \t\n\r\x0b\x0c'

# ------------------------------------------------------------------ code that runs the REAL netaddr
# (executed here for be=pl and inside the fallback subprocess for be=fb)
RUN_SRC = r'''
def _errname(netaddr, e):
    core = netaddr.core
    for klass, name in ((core.AddrFormatError, 'addrFormat'), (core.AddrConversionError, 'addrConversion'),
                        (IndexError, 'index'), (KeyError, 'key'), (ValueError, 'value'), (TypeError, 'type')):
        if isinstance(e, klass):
            return name
    return 'other:' + type(e).__name__

def _hexs(s):
    return 's:' + s.encode('utf-8', 'surrogatepass').hex()

def _dialect(netaddr, d):
    return {'compact': netaddr.ipv6_compact, 'full': netaddr.ipv6_full, 'verbose': netaddr.ipv6_verbose}[d]

def _touch(o):
    # read the whole public surface of the object (attributes, argument-free methods) and the text operators
    import inspect, itertools
    for name in sorted(dir(type(o))):
        if name.startswith('_') or name in ('info',):
            continue
        try:
            attr = inspect.getattr_static(type(o), name)
            val = getattr(o, name)
            if inspect.isfunction(attr):
                ps = list(inspect.signature(attr).parameters.values())[1:]
                if any(q.default is q.empty and q.kind in (q.POSITIONAL_ONLY, q.POSITIONAL_OR_KEYWORD, q.KEYWORD_ONLY) for q in ps):
                    continue
                val = val()
            if hasattr(val, '__next__'):
                list(itertools.islice(val, 3))
        except Exception:
            pass
    for f in (str, repr, hash, int, bool, lambda x: x == x, lambda x: {x: 1}[x]):
        try:
            f(o)
        except Exception:
            pass

def _mk_addr(netaddr, ver, v):
    # IPAddress(v, ver) - for three quarters of the values a lived-in object: built next to the target, read all
    # over (printed, hashed, compared), then moved to the target with -=, += or the value setter.  The property
    # speaks of every address value, however the object holding it came about (a seeded change memoised the
    # printed text and forgot one of the in-place operators).
    import zlib
    h = zlib.crc32(('%d:%d' % (ver, v)).encode())
    mode = h & 3
    w = 32 if ver == 4 else 128
    if mode == 0 or not isinstance(v, int) or not 0 <= v < (1 << w):
        return netaddr.IPAddress(v, ver)
    k = 1 + ((h >> 2) % 7)
    if mode == 1 and v + k < (1 << w):
        ip = netaddr.IPAddress(v + k, ver); _touch(ip); ip -= k
    elif mode == 2 and v - k >= 0:
        ip = netaddr.IPAddress(v - k, ver); _touch(ip); ip += k
    else:
        ip = netaddr.IPAddress(v ^ (1 << ((h >> 5) % w)), ver); _touch(ip); ip.value = v
    return ip

def _fmt(netaddr, ver, v, d):
    ip = _mk_addr(netaddr, ver, v)
    if d is None:
        return str(ip)
    if ver == 4:
        return ip.format(None)
    return ip.format(_dialect(netaddr, d))

def run_real(netaddr, a):
    op = a[0]
    if op == 'parse':
        _, be, s, ver, flags = a
        # bystander calls: the public validity helpers are pure; what they were asked before (same text,
        # other flags) must not colour this parse (a seeded change remembered valid_ipv4's last answer)
        import zlib
        h = zlib.crc32(repr((s, ver, flags)).encode('utf-8', 'replace'))
        if h & 1:
            for f in ((0, 1, 2), (2, 0), (1,), (2, 1, 0))[(h >> 1) % 4]:
                try:
                    netaddr.valid_ipv4(s, f)
                except Exception:
                    pass
            try:
                netaddr.valid_ipv6(s)
            except Exception:
                pass
        try:
            ip = netaddr.IPAddress(s, ver, flags)
            return '%d %d' % (ip.version, int(ip))
        except Exception as e:
            return '!' + _errname(netaddr, e)
    if op == 'print':
        _, be, ver, v, d = a
        return _hexs(_fmt(netaddr, ver, v, d))
    if op == 'valid4':
        _, be, s, flags = a
        try:
            return 'T' if netaddr.valid_ipv4(s, flags) else 'F'
        except Exception as e:
            return '!' + _errname(netaddr, e)
    if op == 'valid6':
        _, be, s = a
        try:
            return 'T' if netaddr.valid_ipv6(s) else 'F'
        except Exception as e:
            return '!' + _errname(netaddr, e)
    if op == 'repr':
        _, be, ver, v = a
        r = repr(_mk_addr(netaddr, ver, v))
        # eval-free: plain frame removal, then the constructor on the quoted part
        if not (r.startswith("IPAddress('") and r.endswith("')")):
            return _hexs(r) + ' !unquote'
        q = r[len("IPAddress('"):-2]
        try:
            ip = netaddr.IPAddress(q)
            return _hexs(r) + ' %d %d' % (ip.version, int(ip))
        except Exception as e:
            return _hexs(r) + ' !' + _errname(netaddr, e)
    if op == 'rt':
        _, be, ver, v, d, pver, flags = a
        s = _fmt(netaddr, ver, v, d)
        try:
            ip = netaddr.IPAddress(s, pver, flags)
            r = '%d %d' % (ip.version, int(ip))
        except Exception as e:
            r = '!' + _errname(netaddr, e)
        return _hexs(s) + ' ' + r
    if op == 'parse_raw':
        _, be4, be6, s, ver, flags = a
        try:
            ip = netaddr.IPAddress(s, ver, flags)
            return '%d %d' % (ip.version, int(ip))
        except BaseException as e:
            return '!' + _errname(netaddr, e)
    if op == 's2i_raw':
        _, fam, be, s, flags = a
        mod = netaddr.strategy.ipv4 if fam == 4 else netaddr.strategy.ipv6
        try:
            return str(mod.str_to_int(s, flags))
        except BaseException as e:
            return '!' + _errname(netaddr, e)
    if op == 'raw_call':
        # the callables the strategy modules bound at import (under their present private names; if a name
        # is gone, the function the back-end choice stands for).  Only "value / raised something below
        # Exception / raised something else" is reported: which class the platform raises is not a clause
        # of the property, and it is all the theorems ask of a platform (RawPlatform.Sane).
        _, fn, be, s = a
        import socket
        from netaddr import fbsocket
        from netaddr.strategy import ipv4 as m4, ipv6 as m6
        src = fbsocket if be == 'fb' else socket
        try:
            if fn == 'aton':
                return str(int.from_bytes(getattr(m4, '_inet_aton', socket.inet_aton)(s), 'big'))
            if fn == 'pton4':
                return str(int.from_bytes(getattr(m4, '_inet_pton', src.inet_pton)(getattr(m4, 'AF_INET', src.AF_INET), s), 'big'))
            if fn == 'pton6':
                return str(int.from_bytes(getattr(m6, '_inet_pton', src.inet_pton)(getattr(m6, 'AF_INET6', src.AF_INET6), s), 'big'))
            if fn == 'int':
                return str(int(s))
        except BaseException as e:
            return '!exception' if isinstance(e, Exception) else '!base'
    if op == 'format':
        _, be6, ver, v, d, k = a
        ip = _mk_addr(netaddr, ver, v)
        if d is None:
            arg = None
        elif d == 'nowf':
            arg = (object, 'ipv6_full', 5, object(), type('Plain', (), {'compact': False}), netaddr.IPAddress)[k % 6]
        elif d == 'wfonly':
            arg = (netaddr.mac_unix, netaddr.mac_eui48, type('W', (), {'word_fmt': '%x'}), netaddr.mac_cisco)[k % 4]
        else:
            base = _dialect(netaddr, d)
            arg = base if k % 2 == 0 else type('Sub', (base,), {})
        try:
            return _hexs(ip.format(arg))
        except BaseException as e:
            return '!' + _errname(netaddr, e)
    raise ValueError(a)
'''
_ns = {}
exec(RUN_SRC, _ns)
run_real = _ns['run_real']

WORKER_SRC = r'''
import sys, json
repo = sys.argv[1]
mode = sys.argv[2]          # fb = both switches, fb4 = IPv4 switch only, fb6 = IPv6 switch only
if repo:
    sys.path.insert(0, repo)
import socket
import netaddr                      # first import: pulls in every stdlib module netaddr needs
for k in [k for k in sys.modules if k == 'netaddr' or k.startswith('netaddr.')]:
    del sys.modules[k]
_plat, _has6 = sys.platform, socket.has_ipv6
if mode in ('fb', 'fb4'):
    sys.platform = 'win32'
if mode in ('fb', 'fb6'):
    socket.has_ipv6 = False
try:
    import netaddr
finally:
    sys.platform = _plat
    socket.has_ipv6 = _has6
from netaddr.strategy import ipv4, ipv6
from netaddr import fbsocket
assert (ipv4._inet_pton is fbsocket.inet_pton) == (mode in ('fb', 'fb4')), 'ipv4 back-end is not as asked'
assert (ipv6._inet_pton is fbsocket.inet_pton) == (mode in ('fb', 'fb6')), 'ipv6 pton back-end is not as asked'
assert (ipv6._inet_ntop is fbsocket.inet_ntop) == (mode in ('fb', 'fb6')), 'ipv6 ntop back-end is not as asked'
assert ipv6.OPT_IMPORTS is (mode == 'fb4')
assert ipv4._inet_aton is socket.inet_aton
''' + RUN_SRC + r'''
def unj(x):
    if isinstance(x, dict):
        return int(x['i'])
    if isinstance(x, list):
        return tuple(unj(i) for i in x)
    return x
sys.stdout.write('ready %s\n' % netaddr.__file__)
sys.stdout.flush()
for line in sys.stdin:
    a = unj(json.loads(line))
    try:
        r = run_real(netaddr, a)
    except Exception as e:
        r = '!harness:' + type(e).__name__ + ':' + str(e)[:80]
    sys.stdout.write(r + '\n')
    sys.stdout.flush()
'''

_workers = {}


def _j(x):
    if isinstance(x, bool) or x is None or isinstance(x, str):
        return x
    if isinstance(x, int):
        return {'i': str(x)}
    return [_j(i) for i in x]


_worker_failed = {}


def _get_worker(mode='fb'):
    if mode in _worker_failed:
        raise RuntimeError(_worker_failed[mode])     # do not start it again for every case
    if mode not in _workers:
        p = subprocess.Popen([sys.executable, '-c', WORKER_SRC, os.environ.get('NETADDR_REPO', ''), mode],
                             stdin=subprocess.PIPE, stdout=subprocess.PIPE, stderr=subprocess.PIPE,
                             universal_newlines=True, encoding='utf-8', errors='surrogatepass')
        first = p.stdout.readline()
        if not first.startswith('ready'):
            err = p.stderr.read()
            _worker_failed[mode] = 'fallback back-end worker (%s) failed to start: %s' % (mode, err[-400:])
            raise RuntimeError(_worker_failed[mode])
        if not _workers:
            atexit.register(_stop_worker)
        _workers[mode] = p
    return _workers[mode]


def _stop_worker():
    for mode in list(_workers):
        w = _workers.pop(mode)
        try:
            w.stdin.close()
            w.wait(timeout=5)
        except Exception:
            w.kill()


def run_fb(a, mode='fb'):
    w = _get_worker(mode)
    w.stdin.write(json.dumps(_j(a)) + '\n')
    w.stdin.flush()
    return w.stdout.readline().rstrip('\n')


def _mode(a):
    """which import configuration of netaddr a case runs under: None = as imported here"""
    op = a[0]
    if op == 'parse_raw':
        return {('pl', 'pl'): None, ('fb', 'fb'): 'fb', ('fb', 'pl'): 'fb4', ('pl', 'fb'): 'fb6'}[(a[1], a[2])]
    if op == 's2i_raw':
        return None if a[2] == 'pl' else ('fb4' if a[1] == 4 else 'fb6')
    if op == 'raw_call':
        return None if a[2] == 'pl' else ('fb4' if a[1] in ('pton4', 'aton') else 'fb6')
    if op == 'format':
        return None if a[1] == 'pl' else 'fb6'
    return 'fb' if a[1] == 'fb' else None


# ------------------------------------------------------------------ independent reference code

def ref_pyint10(s):
    """CPython int(str) on ASCII input; None = ValueError"""
    t = s.strip(WS)
    if not t:
        return None
    sign = 1
    if t[0] in '+-':
        sign = -1 if t[0] == '-' else 1
        t = t[1:]
    if not t or t[0] == '_' or t[-1] == '_' or '__' in t:
        return None
    u = t.replace('_', '')
    if any(c not in DEC for c in u):
        return None
    return sign * int(u)


def ref_zf_rewrite(s):
    """the ZEROFILL rewrite, from the reference int(): None = some part does not convert"""
    ps = [ref_pyint10(p) for p in s.split('.')]
    if any(p is None for p in ps):
        return None
    return '.'.join(('-' if p < 0 else '') + str(abs(p)) for p in ps)


def ref_aton(s, junk=True):
    """BSD inet_aton: 1-4 parts, each a C literal (0x hex, 0 octal, decimal); the last part fills the
    remaining bytes.  junk=True additionally tolerates glibc's "anything after the first whitespace"."""
    if '\x00' in s or not s:
        return None
    head = s
    for i, c in enumerate(s):
        if c in WS:
            if not junk:
                return None
            head = s[:i]
            break
    ps = head.split('.')
    if not 1 <= len(ps) <= 4:
        return None
    vals = []
    for p in ps:
        if re.fullmatch(r'0[xX][0-9a-fA-F]+', p):
            v = int(p[2:], 16)
        elif re.fullmatch(r'0[0-7]*', p):
            v = int(p, 8) if len(p) > 1 else 0
        elif re.fullmatch(r'[1-9][0-9]*', p):
            v = int(p)
        else:
            return None
        vals.append(v)
    if any(v > 255 for v in vals[:-1]):
        return None
    if vals[-1] >= 1 << (8 * (5 - len(vals))):
        return None
    r = vals[-1]
    for k, v in enumerate(vals[:-1]):
        r += v << (24 - 8 * k)
    return r


_OCTET = r'(?:25[0-5]|2[0-4][0-9]|1[0-9][0-9]|[1-9][0-9]|[0-9])'
_QUAD = re.compile(r'(%s)\.(%s)\.(%s)\.(%s)' % ((_OCTET,) * 4))
_H = r'[0-9a-fA-F]{1,4}'


def ref_strict4(s):
    """the standard dotted quad: four decimal octets 0..255 without leading zeros"""
    m = _QUAD.fullmatch(s)
    if not m:
        return None
    a, b, c, d = (int(x) for x in m.groups())
    return (a << 24) | (b << 16) | (c << 8) | d


def _side(t):
    """'g:g:...' (possibly empty) -> list of 16-bit groups, an optional trailing dotted quad counts two"""
    if t == '':
        return []
    gs = t.split(':')
    out = []
    for i, g in enumerate(gs):
        if re.fullmatch(_H, g):
            out.append(int(g, 16))
        elif i == len(gs) - 1:
            v4 = ref_strict4(g)
            if v4 is None:
                return None
            out += [v4 >> 16, v4 & 0xffff]
        else:
            return None
    return out


def ref_rfc4291(s):
    """RFC 4291 section 2.2 text forms: 8 groups of 1-4 hex digits, at most one '::' standing for one or
    more zero groups, optional dotted quad in the last 32 bits"""
    if s.count('::') > 1 or ':::' in s:
        return None
    if '::' in s:
        l, r = s.split('::')
        L, R = _side(l), _side(r)
        if L is None or R is None or len(L) + len(R) > 7:
            return None
        if l.endswith(':') or r.startswith(':') or (l and '.' in l):
            return None
        ws = L + [0] * (8 - len(L) - len(R)) + R
    else:
        ws = _side(s)
        if ws is None or len(ws) != 8:
            return None
    v = 0
    for w in ws:
        v = (v << 16) | w
    return v


def ref_ntop6(v):
    """canonical compressed form as glibc prints it (leftmost longest run of >= 2 zero groups)"""
    ws = [(v >> (16 * (7 - i))) & 0xffff for i in range(8)]
    best = None
    i = 0
    while i < 8:
        if ws[i] == 0:
            j = i
            while j < 8 and ws[j] == 0:
                j += 1
            if j - i >= 2 and (best is None or j - i > best[1]):
                best = (i, j - i)
            i = j
        else:
            i += 1
    toks = ['%x' % w for w in ws]
    if best and best[0] == 0 and (best[1] == 6 or (best[1] == 5 and ws[5] == 0xffff)):
        toks = toks[:6] + ['%d.%d.%d.%d' % (ws[6] >> 8, ws[6] & 255, ws[7] >> 8, ws[7] & 255)]
    if best:
        b, l = best
        new = toks[:b] + [''] + toks[b + l:]
        if b == 0:
            new = [''] + new
        if b + l == 8:
            new = new + ['']
        toks = new
    return ':'.join(toks)


def ref_quad(v):
    return '%d.%d.%d.%d' % (v >> 24, (v >> 16) & 255, (v >> 8) & 255, v & 255)


def ref_print(ver, v, d):
    if ver == 4:
        return ref_quad(v)
    ws = [(v >> (16 * (7 - i))) & 0xffff for i in range(8)]
    if d in (None, 'compact'):
        return ref_ntop6(v)
    if d == 'full':
        return ':'.join('%x' % w for w in ws)
    return ':'.join('%04x' % w for w in ws)


def std_parse(s):
    """independent standard parsers: (version, value) or None; socket and ipaddress must agree"""
    r = None
    for fam, ver in ((socket.AF_INET, 4), (socket.AF_INET6, 6)):
        try:
            r = (ver, int.from_bytes(socket.inet_pton(fam, s), 'big'))
            break
        except (OSError, ValueError):
            pass
    return r


def expect_parse(s, ver, flags):
    """(mandatory, allowed): mandatory = the one canonical output the property demands, or None when
    the property leaves the input open, in which case `allowed` lists the acceptable outputs"""
    if ver not in (None, 4, 6):
        return '!value', None
    if '/' in s:
        return '!value', None
    ascii_ = all(ord(c) < 128 for c in s)
    r4_mand = None       # value demanded, 'rej' = rejection demanded, None = open
    r4_open = set()
    if flags & ZEROFILL:
        parts = s.split('.')
        if len(parts) == 4 and all(p and all(c in DEC for c in p) for p in parts):
            vals = [int(p) for p in parts]
            if all(x <= 255 for x in vals):
                r4_mand = (vals[0] << 24) | (vals[1] << 16) | (vals[2] << 8) | vals[3]
            else:
                r4_mand = 'rej'
        else:
            # open: the code's pipeline '%d' % int(part) then inet_aton / inet_pton
            ps = [ref_pyint10(p) if ascii_ else None for p in parts]
            if any(p is None for p in ps):
                r4_open = {'rej'}
            else:
                t = '.'.join('%d' % p for p in ps)
                v = ref_strict4(t) if flags & INET_PTON else ref_aton(t)
                r4_open = {'rej', v if v is not None else 'rej'}
    elif flags & INET_PTON:
        v = ref_strict4(s)
        r4_mand = v if v is not None else 'rej'
    else:
        v = ref_aton(s, junk=False)
        if v is not None:
            r4_mand = v
        else:
            vj = ref_aton(s, junk=True)
            if vj is not None:
                r4_open = {'rej', vj}     # glibc's trailing-whitespace tolerance: left open by the property
            else:
                r4_mand = 'rej'
    v6 = ref_rfc4291(s)
    r6 = v6 if v6 is not None else 'rej'

    def out4(x):
        return '4 %d' % x

    def out6(x):
        return '6 %d' % x
    if ver == 4:
        if r4_mand is not None:
            return ('!addrFormat' if r4_mand == 'rej' else out4(r4_mand)), None
        return None, set('!addrFormat' if x == 'rej' else out4(x) for x in r4_open)
    if ver == 6:
        return ('!addrFormat' if r6 == 'rej' else out6(r6)), None
    tail = '!addrFormat' if r6 == 'rej' else out6(r6)
    if r4_mand is not None:
        return (tail if r4_mand == 'rej' else out4(r4_mand)), None
    return None, set(tail if x == 'rej' else out4(x) for x in r4_open)


# ------------------------------------------------------------------ generators

def hextet_values(rng):
    return rng.choice([1, 0xffff, 0xf, 0x10, 0xff, 0x100, 0xfff, 0x1000, 0xabcd, rng.getrandbits(16) or 1,
                       rng.getrandbits(4) or 1, rng.getrandbits(8) or 1])


def values6(rng, tier):
    out = [0, 1, 0xffff, 0x10000, 0xffffffff, 1 << 32, 0xffff00000000 - 1, 0xffff00000000, 0xffff00000001,
           0xffffffffffff, 0xffffffffffff + 1, M6, M6 - 1, 1 << 127, 0xfffe00000000, 0xffff0000ffff,
           0xfffeffffffff, 0x1ffffffff, 0xffff << 48, (0xffff << 32) | 0x01020304]
    reps = 5 if tier == 'quick' else 10
    for pat in range(256):
        for _ in range(reps):
            v = 0
            for i in range(8):
                w = hextet_values(rng) if (pat >> (7 - i)) & 1 else 0
                v = (v << 16) | w
            out.append(v)
    # embedded-IPv4 neighbourhood: words 0-4 zero, word 5 in {0, ffff, other}
    for w5 in (0, 0xffff, 0xfffe, 1):
        for _ in range(4):
            out.append((w5 << 32) | rng.choice([0, 1, 0xffff, 0x10000, 0xffffffff, rng.getrandbits(32)]))
    return out


def values4(rng, tier):
    out = [0, 1, 255, 256, 65535, 65536, 0xffffff, 0x1000000, M4, M4 - 1, 1 << 31, (1 << 31) - 1,
           0x7f000001, 0x0a000000, 0xc0a80001, 0x01020304, 0x64646464, 0xc8c8c8c8]
    for _ in range(40 if tier == 'quick' else 200):
        out.append(int.from_bytes(bytes(rng.choice([0, 1, 9, 10, 99, 100, 199, 200, 249, 250, 255, rng.randrange(256)])
                                        for _ in range(4)), 'big'))
    return out


def spelling6(rng, v):
    """another VALID RFC 4291 spelling of the IPv6 value v - not the printed one: every group with 0-3 leading
    zeros in either case, optionally the last 32 bits as a dotted quad, optionally '::' for ANY run of one or more
    zero groups (not necessarily the longest).  Lengths go up to the 45 characters of
    '0000:0000:0000:0000:0000:ffff:255.255.255.255' (a seeded change capped the accepted length at the 39
    characters of the longest printed form)."""
    ws = [(v >> (16 * (7 - i))) & 0xffff for i in range(8)]
    quad = rng.random() < 0.45
    ng = 6 if quad else 8
    style = rng.choice(['pad4', 'pad4', 'mixed', 'min'])

    def grp(x):
        t = '%x' % x
        if style == 'pad4':
            t = t.rjust(4, '0')
        elif style == 'mixed':
            t = t.rjust(rng.randrange(len(t), 5), '0')
        return t.upper() if rng.random() < 0.3 else t
    groups = [grp(x) for x in ws[:ng]]
    tail = ['%d.%d.%d.%d' % (ws[6] >> 8, ws[6] & 255, ws[7] >> 8, ws[7] & 255)] if quad else []
    runs = []
    i = 0
    while i < ng:
        if ws[i] == 0:
            j = i
            while j < ng and ws[j] == 0:
                j += 1
            for a in range(i, j):
                for b in range(a + 1, j + 1):
                    runs.append((a, b))
            i = j
        else:
            i += 1
    if runs and rng.random() < 0.5:
        a, b = rng.choice(runs)
        left, right = groups[:a], groups[b:] + tail
        return ':'.join(left) + '::' + ':'.join(right)
    return ':'.join(groups + tail)


def edits(rng, s, n):
    s = list(s)
    for _ in range(n):
        k = rng.randrange(0, len(s) + 1)
        r = rng.random()
        if r < 0.4 or not s:
            s.insert(k, rng.choice(ALPHA))
        elif r < 0.7:
            s[min(k, len(s) - 1)] = rng.choice(ALPHA)
        elif r < 0.9:
            del s[min(k, len(s) - 1)]
        else:
            j = min(k, len(s) - 1)
            s.insert(j, s[j])
    return ''.join(s)


def c_literal(rng, v):
    r = rng.random()
    if r < 0.4:
        return '%d' % v
    if r < 0.6:
        return '0%o' % v
    if r < 0.8:
        return rng.choice(['0x%x', '0X%X', '0x%X']) % v
    if r < 0.9:
        return '0' * rng.randrange(1, 4) + '%o' % v
    return '0x' + '0' * rng.randrange(1, 3) + '%x' % v


def shorthand(rng):
    n = rng.randrange(1, 5)
    parts = [rng.choice([0, 1, 7, 8, 9, 10, 127, 255, 256, rng.randrange(256)]) for _ in range(n - 1)]
    lim = 1 << (8 * (5 - n))
    last = rng.choice([0, 1, lim - 1, lim, lim + 1, rng.randrange(lim), 255, 256])
    return '.'.join(c_literal(rng, p) for p in parts + [last])


ZF_ODD = ['', '_', '+', '-', '0x1', '1 2', '1__2', '--1', '+-1', '1e2', '1_', '_1', ' ', '0b1', '1/2', 'a']


def zf_part(rng, v):
    """a spelling of v that int() accepts (padding zeros, '_' between digits, sign, surrounding whitespace),
    now and then one it refuses"""
    body = '%d' % v
    if rng.random() < 0.3:
        body = '0' * rng.randrange(1, 6) + body
    if rng.random() < 0.25 and len(body) > 1:
        k = rng.randrange(1, len(body))
        body = body[:k] + '_' + body[k:]
    if rng.random() < 0.25:
        body = rng.choice('++-') + body
    if rng.random() < 0.2:
        body = rng.choice(WS) * rng.randrange(1, 3) + body
    if rng.random() < 0.2:
        body = body + rng.choice(WS)
    if rng.random() < 0.06:
        body = rng.choice(ZF_ODD)
    return body


def zf_string(rng):
    n = rng.choice([1, 2, 3, 4, 4, 4, 5])
    parts = [rng.choice([0, 1, 8, 9, 10, 255, 256, rng.randrange(256)]) for _ in range(n - 1)]
    lim = 1 << (8 * max(5 - n, 1))
    last = rng.choice([0, 1, lim - 1, lim, lim + 1, rng.randrange(lim), 255, 256])
    return '.'.join(zf_part(rng, p) for p in parts + [last])


NEAR4 = ['', '.', '1', '1.2', '1.2.3', '1.2.3.', '.1.2.3', '1..2.3', '1.2.3.4.5', '1.2.3.4.', '01.2.3.4', '1.2.3.04',
         '001.002.003.004', '010.020.030.040', '1.2.3.256', '1.2.3.255', '256.1.1.1', '1.2.65536', '1.2.65535',
         '1.16777216', '1.16777215', '4294967296', '4294967295', '0', '00', '0x', '0x.1.1.1', '1.2.3.0x', '08.1.1.1',
         '0x10.1.1.1', '010.1.1.1', ' 1.2.3.4', '1.2.3.4 ', '1.2.3.4 xyz', '1.2.3.4\n', '1.2.3.4\t9', '1.2.3.4\x0b',
         '1.2.3.4\x1c', '+1.2.3.4', '-1.2.3.4', '1_0.2.3.4', '1.2.3.+4', '1.2.3.4_', '1.2.3.1_0', '1.2.3.4/24',
         '1.2.3.4/', '/', '0377.0377.0377.0377', '0400.1.1.1', '0xff.0xff.0xff.0xff', '0x100.1.1.1', '0xffffffff',
         '0x100000000', '037777777777', '040000000000', '1.2.3.00', '1.2.3.000', '1.2.3.0000', '0000.0.0.0',
         '1.2.3.0255', '000000001.2.3.4', '1.2.3.4.', '1,2,3,4', '1.2.3.a', 'a.b.c.d', '1.2.3.4x', '0x1g.1.1.1',
         '99999999999999999999', '1.99999999999999999999', '1.2.3.4\x00', '1e1.1.1.1', '1.2.3.４',
         # '/' behind whitespace: inet_aton stops at the blank (valid_ipv4 True), the constructor refuses the '/'
         '1.2.3.4 /24', '1 /', '1.2.3.4\t/x', '0x7f.1 /', '1.2.3.4 /', '1.2.3.4\n/24', '1.2.3.4 1/2',
         # ZEROFILL beyond four plain-digit parts: 1-3 parts, sign, whitespace, underscore, padding, negative
         '010', '0010.1', '010.010.010', ' 0_10 .+2', '-0.0.0.0', '-1.2.3.4', '1.-2', '+1', '1_0', ' 1 . 2 ', '1.2.3.-0',
         '+1.+2.+3.+4', '0x10.1.1.1', '00000000000000000255.1', '4294967295', '04294967296', '1.016777215',
         '1.2.065536', '1.2.3.0256', '0_0.1', '1__0.1', '_1.2', '1_.2', '1. .3', '\t1\n.2', '1.2.3.4.5', '0.0.0.0.0',
         '1.2.3.4.', '.1']
NEAR6 = ['::', ':::', ':', '::1', '1::', '1::2', ':1', '1:', ':1::', '::1:', '1:::2', '1::2::3', '1:2:3:4:5:6:7:8',
         '1:2:3:4:5:6:7', '1:2:3:4:5:6:7:8:9', '1:2:3:4:5:6:7::', '::2:3:4:5:6:7:8', '1:2:3:4::5:6:7:8',
         '1::2:3:4:5:6:7:8', '1:2:3:4:5:6:7::8', '::1.2.3.4', '::ffff:1.2.3.4', '1:2:3:4:5:6:1.2.3.4',
         '1:2:3:4:5:6:7:1.2.3.4', '1:2:3:4:5:1.2.3.4', '::1.2.3.4:5', '1.2.3.4::', '::1.2.3', '::1.2.3.4.5',
         '::1.2.3.256', '::01.2.3.4', '::1.2.3.04', '1:2:3:4:5:6::1.2.3.4', '1:2:3:4:5::1.2.3.4', '00:0:0:0:0:ffff:1.2.3.4',
         '1:2:3:4:5:6:7:00008', '1:2:3:4:5:6:7:0008', '00001::', '12345::', '1234::', 'g::', '::g', ' 1::', '1:: ',
         '+1::', '-1::', '1_1::', '0x1::', '::0x1', '::1/64', '/::', 'FFFF::ffff', 'AbCd:EF01::', '::ffff:0:0',
         '::fffe:1.2.3.4', '0:0:0:0:0:0:1.2.3.4', '0:0:0:0:0:ffff:1.2.3.4', '::1%eth0', '[::1]', '::1\n', '\t::1',
         '1:2:3:4:5:6:7:', ':2:3:4:5:6:7:8', '1:2:3:4:5:6:7:8:', '::1:2:3:4:5:6:7', '1:2:3:4:5:6:7::',
         '0:0:0:0:0:0:0:0', '::0', '0::0', '0::', '::1.2.3.4 ', ':: 1', '٣::', '::ffff:1.2.3.４', '1::\x00']


def _parse_cases(s, bes=('pl', 'fb'), vers=(None, 4, 6), flagset=(0, INET_PTON, ZEROFILL), tag='near'):
    out = []
    ascii_ = all(ord(c) < 128 for c in s)
    for be in bes:
        for ver in vers:
            for fl in flagset:
                if not ascii_ and not (ver == 6 or (fl & INET_PTON and not fl & ZEROFILL)):
                    continue     # non-ASCII text outside strict mode is outside the property's domain
                line = 'ip_parse %s %s %s %d' % (be, hexs(s), optint(ver), fl) if ascii_ else None
                out.append(Case(line, 'parse/%s/%s' % (be, tag), ('parse', be, s, ver, fl)))
    return out


def _valid_cases(s, tag):
    if not all(ord(c) < 128 for c in s):
        return []
    out = []
    for be in ('pl', 'fb'):
        for fl in (0, INET_PTON, ZEROFILL):
            out.append(Case('valid4 %s %s %d' % (be, hexs(s), fl), 'valid4/' + tag, ('valid4', be, s, fl)))
        out.append(Case('valid6 %s %s' % (be, hexs(s)), 'valid6/' + tag, ('valid6', be, s)))
    return out


def _zf_cases(rng, s):
    """ZEROFILL and INET_PTON|ZEROFILL on a text, constructor and valid_ipv4, a sample of (be, version)"""
    out = []
    for fl in (ZEROFILL, ZEROFILL | INET_PTON):
        be = rng.choice(['pl', 'fb'])
        ver = rng.choice([None, 4])
        out.append(Case('ip_parse %s %s %s %d' % (be, hexs(s), optint(ver), fl), 'parse/%s/zf%d' % (be, fl),
                        ('parse', be, s, ver, fl)))
    be = rng.choice(['pl', 'fb'])
    fl = rng.choice([ZEROFILL, ZEROFILL | INET_PTON])
    out.append(Case('valid4 %s %s %d' % (be, hexs(s), fl), 'valid4/zf', ('valid4', be, s, fl)))
    return out


def _plat_cases(s):
    if not all(ord(c) < 128 for c in s):
        return []
    t = hexs(s)
    return [Case('zf_rewrite ' + t, 'platform/zf_rewrite', ('zf_rewrite', s), platform=True),
            Case('aton ' + t, 'platform/aton', ('aton', s), platform=True),
            Case('pton4 ' + t, 'platform/pton4', ('pton4', s), platform=True),
            Case('pton6 ' + t, 'platform/pton6', ('pton6', s), platform=True)]


def _fb_cases(s):
    if not all(ord(c) < 128 for c in s):
        return []
    t = hexs(s)
    return [Case('fb_pton 4 ' + t, 'fb_pton/4', ('fb_pton', 4, s)), Case('fb_pton 6 ' + t, 'fb_pton/6', ('fb_pton', 6, s))]


BE2 = (('pl', 'pl'), ('fb', 'fb'), ('fb', 'pl'), ('pl', 'fb'))
FMT_D = (None, 'compact', 'full', 'verbose', 'nowf', 'wfonly')


def _raw_parse_cases(s, tag):
    """IPAddress(s, ver, flags) under the four import configurations, exception class as raised"""
    if not all(ord(c) < 128 for c in s):
        return []
    out = []
    for be4, be6 in BE2:
        for ver in (None, 4, 6):
            for fl in (0, INET_PTON, ZEROFILL, ZEROFILL | INET_PTON):
                out.append(Case('ip_parse_raw %s %s %s %s %d' % (be4, be6, hexs(s), optint(ver), fl),
                                'parse_raw/%s%s/%s' % (be4, be6, tag), ('parse_raw', be4, be6, s, ver, fl)))
    return out


def _raw_s2i_cases(s, tag):
    if not all(ord(c) < 128 for c in s):
        return []
    out = []
    for fam in (4, 6):
        for be in ('pl', 'fb'):
            for fl in ((0, INET_PTON, ZEROFILL, ZEROFILL | INET_PTON) if fam == 4 else (0, ZEROFILL)):
                out.append(Case('s2i_raw %d %s %s %d' % (fam, be, hexs(s), fl), 's2i_raw/%d/%s/%s' % (fam, be, tag),
                                ('s2i_raw', fam, be, s, fl)))
    return out


def _raw_call_cases(s, tag):
    if not all(ord(c) < 128 for c in s):
        return []
    t = hexs(s)
    out = [Case('raw_call aton pl ' + t, 'raw_call/aton/' + tag, ('raw_call', 'aton', 'pl', s)),
           Case('raw_call aton fb ' + t, 'raw_call/aton/' + tag, ('raw_call', 'aton', 'fb', s)),
           Case('raw_call int pl ' + t, 'raw_call/int/' + tag, ('raw_call', 'int', 'pl', s))]
    for fn in ('pton4', 'pton6'):
        for be in ('pl', 'fb'):
            out.append(Case('raw_call %s %s %s' % (fn, be, t), 'raw_call/%s/%s/%s' % (fn, be, tag), ('raw_call', fn, be, s)))
    return out


def _format_case(be6, ver, v, d, k):
    return Case('ip_format %s %d %d %s' % (be6, ver, v, d or '-'), 'format/%s/%d/%s' % (be6, ver, d),
                ('format', be6, ver, v, d, k))


def corpus():
    """witnesses of the fixed findings F12 (fallback inet_pton) and F13 (ZEROFILL ValueError)"""
    out = []
    for s in [' 1.2.3.4', '+1.2.3.4', '1_0.2.3.4', '1.2.3.4 ', '1:2:3:4:5:6:7:00008', ' 1::', '+1::', '1_1::',
              '1:2:3:4:5:6:1.2.3.4', '00:0:0:0:0:ffff:1.2.3.4', '0x10.1.1.1', '٣::']:
        out += _parse_cases(s, tag='corpus')
        out += _fb_cases(s) + _valid_cases(s, 'corpus')
    # valid_ipv4 vs constructor on a '/' behind whitespace; ZEROFILL on non-plain parts and 1-3 part forms
    for s in ['1.2.3.4 /24', ' 0_10 .+2', '-0.0.0.0', '-1.2.3.4', '010', '0010.1']:
        out += _parse_cases(s, flagset=(0, INET_PTON, ZEROFILL, ZEROFILL | INET_PTON), tag='corpus2')
        out += _valid_cases(s, 'corpus2')
    for be in ('pl', 'fb'):
        for ver, v in ((4, 0), (4, 0xC0000201), (6, 0), (6, 1), (6, 0xffff01020304), (6, M6)):
            out.append(Case('ip_repr %s %d %d' % (be, ver, v), 'repr/%s/%d' % (be, ver), ('repr', be, ver, v)))
            for k, d in enumerate(FMT_D):
                out.append(_format_case(be, ver, v, d, k))
                out.append(_format_case(be, ver, v, d, k + 1))
    # audit 2a finding 7: the class of the exception is the work of the try/except structure (F13 witnesses:
    # int() failing in the ZEROFILL rewrite, an embedded NUL, a text only glibc / only fbsocket refuses)
    for s in ['0x10.1.1.1', 'a.b.c.d', '1.2.3.4\x00', '\x00', '', '1.2.3.4 x', '::1\x00', '1__0.1', '1.2.3.4/x', ' 1::']:
        out += _raw_parse_cases(s, 'corpus') + _raw_s2i_cases(s, 'corpus') + _raw_call_cases(s, 'corpus')
    return out


def generate(rng, tier):
    mult = 3 if tier == 'quick' else 8
    cases = []
    strings = []
    # ---- values: print, round trip
    v6s = values6(rng, tier)
    v4s = values4(rng, tier)
    for v in v6s:
        cases.append(Case('ntop6 %d' % v, 'platform/ntop6', ('ntop6', v), platform=True))
        cases.append(Case('fb_ntop 6 %d' % v, 'fb_ntop/6', ('fb_ntop', 6, v)))
        d = rng.choice(['compact', 'full', 'verbose', None])
        be = rng.choice(['pl', 'fb'])
        cases.append(Case('ip_print %s 6 %d %s' % (be, v, d or '-'), 'print/%s/%s' % (be, d), ('print', be, 6, v, d)))
        be = rng.choice(['pl', 'fb'])
        d = rng.choice(['compact', 'full', 'verbose', None])
        pver = rng.choice([None, 6])
        fl = rng.choice([0, INET_PTON, ZEROFILL])
        cases.append(Case(None, 'rt/%s/6/%s' % (be, d), ('rt', be, 6, v, d, pver, fl)))
        if rng.random() < 0.5:
            strings.append(ref_print(6, v, rng.choice(['compact', 'compact', 'full', 'verbose'])))
        strings.append(spelling6(rng, v))
        if rng.random() < 0.4:
            strings.append(spelling6(rng, v))
        if rng.random() < 0.3:
            be = rng.choice(['pl', 'fb'])
            cases.append(Case('ip_repr %s 6 %d' % (be, v), 'repr/%s/6' % be, ('repr', be, 6, v)))
        cases.append(_format_case(rng.choice(['pl', 'fb']), 6, v, rng.choice(FMT_D), rng.randrange(12)))
    for v in v4s:
        be = rng.choice(['pl', 'fb'])
        cases.append(Case('ip_repr %s 4 %d' % (be, v), 'repr/%s/4' % be, ('repr', be, 4, v)))
        be = rng.choice(['pl', 'fb'])
        cases.append(Case('ip_print %s 4 %d -' % (be, v), 'print/%s/4' % be, ('print', be, 4, v, None)))
        cases.append(Case('fb_ntop 4 %d' % v, 'fb_ntop/4', ('fb_ntop', 4, v)))
        for d in rng.sample(FMT_D, 3):
            cases.append(_format_case(rng.choice(['pl', 'fb']), 4, v, d, rng.randrange(12)))
        for be in ('pl', 'fb'):
            pver = rng.choice([None, 4])
            fl = rng.choice([0, INET_PTON, ZEROFILL])
            cases.append(Case(None, 'rt/%s/4' % be, ('rt', be, 4, v, None, pver, fl)))
        strings.append(ref_quad(v))
        # zero-padded spelling of the same value (ZEROFILL domain)
        strings.append('.'.join(('%%0%dd' % rng.randrange(1, 5)) % ((v >> sh) & 255) for sh in (24, 16, 8, 0)))
        if rng.random() < 0.3:
            # heavy padding: ZEROFILL text has no length limit (total lengths up to ~70 characters)
            strings.append('.'.join(('%%0%dd' % rng.choice((1, 3, 8, 11, 12, 17))) % ((v >> sh) & 255) for sh in (24, 16, 8, 0)))
    # ---- strings
    strings += NEAR4 + NEAR6
    for _ in range(150 * mult):
        strings.append(shorthand(rng))
    base = list(strings)
    for s in rng.sample(base, min(len(base), 500 * mult)):
        strings.append(edits(rng, s, 1))
        if rng.random() < 0.35:
            strings.append(edits(rng, s, rng.choice([2, 3])))
    for _ in range(80 * mult):
        strings.append(''.join(rng.choice(ALPHA) for _ in range(rng.randrange(0, 9))))
    zfs = [zf_string(rng) for _ in range(120 * mult)]
    zfs += [edits(rng, z, 1) for z in rng.sample(zfs, len(zfs) // 3)]
    strings += zfs
    zfset = set(zfs)
    seen = set()
    for s in strings:
        if s in seen:
            continue
        seen.add(s)
        cases += _plat_cases(s)
        cases += _fb_cases(s)
        # parse: sample of the (be, ver, flags) grid for volume control; near-miss lists get the full grid
        if s in NEAR4 or s in NEAR6:
            cases += _parse_cases(s)
            cases += _valid_cases(s, 'near')
            rp = _raw_parse_cases(s, 'near')
            cases += rng.sample(rp, min(len(rp), 10))
            rs = _raw_s2i_cases(s, 'near')
            cases += rng.sample(rs, min(len(rs), 5))
            cases += _raw_call_cases(s, 'near')
        else:
            allc = _parse_cases(s, tag='gen')
            cases += rng.sample(allc, min(len(allc), 5))
            vc = _valid_cases(s, 'gen')
            if vc:
                cases += rng.sample(vc, 2)
            rp = _raw_parse_cases(s, 'gen')
            if rp:
                cases += rng.sample(rp, 2)
                cases.append(rng.choice(_raw_s2i_cases(s, 'gen')))
                cases.append(rng.choice(_raw_call_cases(s, 'gen')))
        if (s in zfset or s in NEAR4) and all(ord(c) < 128 for c in s):
            cases += _zf_cases(rng, s)
    return cases


# ------------------------------------------------------------------ impl / oracle

def _sock(fam, s):
    try:
        return str(int.from_bytes(socket.inet_pton(fam, s), 'big'))
    except (OSError, ValueError):
        return '!'


def impl(c):
    a = c.args
    op = a[0]
    if op == 'aton':
        try:
            return str(int.from_bytes(socket.inet_aton(a[1]), 'big'))
        except (OSError, ValueError):
            return '!'
    if op == 'zf_rewrite':
        # the expression of strategy/ipv4.py:102 and :123, on CPython itself
        try:
            return hexs('.'.join(['%d' % int(i) for i in a[1].split('.')]))
        except ValueError:
            return '!'
    if op == 'pton4':
        return _sock(socket.AF_INET, a[1])
    if op == 'pton6':
        return _sock(socket.AF_INET6, a[1])
    if op == 'ntop6':
        return hexs(socket.inet_ntop(socket.AF_INET6, a[1].to_bytes(16, 'big')))
    if op == 'fb_pton':
        import netaddr.fbsocket as fb
        try:
            return str(int.from_bytes(fb.inet_pton(fb.AF_INET if a[1] == 4 else fb.AF_INET6, a[2]), 'big'))
        except Exception:
            return '!'
    if op == 'fb_ntop':
        import netaddr.fbsocket as fb
        if a[1] == 4:
            return hexs(fb.inet_ntop(fb.AF_INET, a[2].to_bytes(4, 'big')))
        return hexs(fb.inet_ntop(fb.AF_INET6, a[2].to_bytes(16, 'big')))
    mode = _mode(a)
    if mode is not None:
        return run_fb(a, mode)
    import netaddr
    return run_real(netaddr, a)


def _unhex(tok):
    return bytes.fromhex(tok[2:]).decode('utf-8', 'surrogatepass')


def oracle(c, got):
    a = c.args
    op = a[0]
    if c.platform:
        # the modelled platform: the reference readings must agree with the platform too
        if op == 'pton4':
            v = ref_strict4(a[1])
            exp = '!' if v is None else str(v)
        elif op == 'pton6':
            v = ref_rfc4291(a[1])
            exp = '!' if v is None else str(v)
        elif op == 'ntop6':
            exp = hexs(ref_ntop6(a[1]))
        elif op == 'zf_rewrite':
            r = ref_zf_rewrite(a[1])
            exp = '!' if r is None else hexs(r)
        else:
            return None
        return None if got == exp else 'platform %s gives %s, reference reading %s' % (op, got, exp)
    if got.startswith('!harness') or got == '!timeout':
        return 'harness: ' + got
    if op == 'parse':
        _, be, s, ver, fl = a
        mand, allowed = expect_parse(s, ver, fl)
        if mand is not None:
            return None if got == mand else 'IPAddress(%r, %r, flags=%d) [%s] -> %s, expected %s' % (s, ver, fl, be, got, mand)
        return None if got in allowed else 'IPAddress(%r, %r, flags=%d) [%s] -> %s, expected one of %s' % (
            s, ver, fl, be, got, sorted(allowed))
    if op == 'parse_raw':
        _, be4, be6, s, ver, fl = a
        mand, allowed = expect_parse(s, ver, fl)
        where = 'IPAddress(%r, %r, flags=%d) [ipv4 back end %s, ipv6 back end %s]' % (s, ver, fl, be4, be6)
        if mand is not None:
            return None if got == mand else '%s -> %s, expected %s' % (where, got, mand)
        return None if got in allowed else '%s -> %s, expected one of %s' % (where, got, sorted(allowed))
    if op == 's2i_raw':
        _, fam, be, s, fl = a
        # str_to_int is below the '/' check of the constructor: hide a '/' from the reference constructor reading
        mand, allowed = expect_parse(s.replace('/', '\x01'), fam, fl)
        strip = lambda o: o if o.startswith('!') else o.split(' ', 1)[1]
        where = 'strategy.ipv%d.str_to_int(%r, %d) [%s]' % (fam, s, fl, be)
        if got.startswith('!') and got != '!addrFormat':
            return '%s raised %s, a rejected address string raises AddrFormatError' % (where, got[1:])
        if mand is not None:
            return None if got == strip(mand) else '%s -> %s, expected %s' % (where, got, strip(mand))
        return None if got in set(strip(o) for o in allowed) else '%s -> %s' % (where, got)
    if op == 'raw_call':
        _, fn, be, s = a
        # values only: which class the platform raises is what the model is tied to, not a property clause
        if got.startswith('!'):
            v = None
        else:
            v = int(got)
        if fn == 'pton4':
            exp = ref_strict4(s)
        elif fn == 'pton6':
            exp = ref_rfc4291(s)
        elif fn == 'int':
            exp = ref_pyint10(s)
        else:
            exp = ref_aton(s, junk=True)
        return None if v == exp else '%s(%r) [%s] -> %s, reference reading %r' % (fn, s, be, got, exp)
    if op == 'format':
        _, be6, ver, v, d, k = a
        if d == 'nowf':
            exp = '!type'
        elif ver == 4:
            exp = hexs(ref_quad(v))
        elif d == 'wfonly':
            exp = '!value'
        else:
            exp = hexs(ref_print(6, v, d))
        if got != exp:
            return 'IPAddress(%#x, %d).format(<%s #%d>) [%s] -> %s, expected %s' % (
                v, ver, d, k, be6, got if got.startswith('!') else repr(_unhex(got)),
                exp if exp.startswith('!') else repr(_unhex(exp)))
        if not got.startswith('!') and std_parse(_unhex(got)) != (ver, v):
            return 'IPAddress(%#x, %d).format(%s) = %r; the standard parser reads %r' % (v, ver, d, _unhex(got), std_parse(_unhex(got)))
        return None
    if op == 'valid4':
        _, be, s, fl = a
        if s == '':
            return None if got == '!addrFormat' else 'valid_ipv4(\'\') -> %s, expected AddrFormatError' % got
        mand, allowed = expect_parse(s.replace('/', '\x01') if '/' in s else s, 4, fl)
        ok = lambda o: 'F' if o.startswith('!') else 'T'
        if mand is not None:
            return None if got == ok(mand) else 'valid_ipv4(%r, %d) [%s] -> %s, expected %s' % (s, fl, be, got, ok(mand))
        return None if got in set(ok(o) for o in allowed) else 'valid_ipv4(%r, %d) [%s] -> %s' % (s, fl, be, got)
    if op == 'valid6':
        _, be, s = a
        if s == '':
            return None if got == '!addrFormat' else 'valid_ipv6(\'\') -> %s, expected AddrFormatError' % got
        exp = 'T' if ref_rfc4291(s) is not None else 'F'
        return None if got == exp else 'valid_ipv6(%r) [%s] -> %s, expected %s' % (s, be, got, exp)
    if op == 'fb_pton':
        _, fam, s = a
        v = ref_strict4(s) if fam == 4 else ref_rfc4291(s)
        exp = '!' if v is None else str(v)
        if got != exp:
            return 'fbsocket.inet_pton(%d, %r) -> %s, standard grammar gives %s' % (fam, s, got, exp)
        plat = _sock(socket.AF_INET if fam == 4 else socket.AF_INET6, s)
        return None if got == plat else 'fbsocket.inet_pton(%d, %r) -> %s, platform %s' % (fam, s, got, plat)
    if op == 'fb_ntop':
        _, fam, v = a
        exp = ref_quad(v) if fam == 4 else socket.inet_ntop(socket.AF_INET6, v.to_bytes(16, 'big'))
        return None if got == hexs(exp) else 'fbsocket.inet_ntop(%d, %#x) -> %r, platform prints %r' % (fam, v, _unhex(got), exp)
    if op == 'print':
        _, be, ver, v, d = a
        s = _unhex(got)
        if std_parse(s) != (ver, v):
            return 'IPAddress(%#x, %d) prints %r [%s, %s]; the standard parser reads %r' % (v, ver, s, be, d, std_parse(s))
        if int(ipaddress.ip_address(s)) != v:
            return 'IPAddress(%#x, %d) prints %r; ipaddress reads another value' % (v, ver, s)
        exp = ref_print(ver, v, d)
        return None if s == exp else 'IPAddress(%#x, %d) prints %r [%s, %s], expected %r' % (v, ver, s, be, d, exp)
    if op == 'repr':
        _, be, ver, v = a
        toks = got.split(' ', 1)
        r = _unhex(toks[0])
        exp = "IPAddress('%s')" % ref_print(ver, v, None)
        if r != exp:
            return 'repr(IPAddress(%#x, %d)) [%s] -> %r, expected %r' % (v, ver, be, r, exp)
        if toks[1] != '%d %d' % (ver, v):
            return 'repr(IPAddress(%#x, %d)) = %r [%s]; its quoted part parses back to %s' % (v, ver, r, be, toks[1])
        m = re.fullmatch(r"IPAddress\('(.*)'\)", r)
        if not m or std_parse(m.group(1)) != (ver, v):
            return 'repr(IPAddress(%#x, %d)) = %r; the standard parser does not read the value from the quoted part' % (v, ver, r)
        return None
    if op == 'rt':
        _, be, ver, v, d, pver, fl = a
        toks = got.split(' ', 1)
        s = _unhex(toks[0])
        if toks[1] != '%d %d' % (ver, v):
            return 'IPAddress(%#x, %d) prints %r [%s, %s] which parses back (version=%r, flags=%d) to %s' % (
                v, ver, s, be, d, pver, fl, toks[1])
        if std_parse(s) != (ver, v):
            return 'IPAddress(%#x, %d) prints %r; the standard parser reads %r' % (v, ver, s, std_parse(s))
        return None
    return None


def repro(c):
    a = c.args
    pre = 'from netaddr import *; '
    note = '  # be=fb: import netaddr with sys.platform="win32" and socket.has_ipv6=False' if len(a) > 1 and a[1] == 'fb' else ''
    if a[0] == 'parse':
        return pre + 'IPAddress(%r, %r, flags=%d)' % (a[2], a[3], a[4]) + note
    if a[0] == 'print':
        return pre + 'IPAddress(%d, %d).format(%s)' % (a[3], a[2], 'ipv6_' + a[4] if a[4] else 'None') + note
    if a[0] == 'rt':
        return pre + 's = IPAddress(%d, %d).format(%s); IPAddress(s, %r, flags=%d)' % (
            a[3], a[2], 'ipv6_' + a[4] if a[4] and a[2] == 6 else 'None', a[5], a[6]) + note
    if a[0] == 'repr':
        return pre + 'repr(IPAddress(%d, %d))' % (a[3], a[2]) + note
    if a[0] == 'parse_raw':
        return pre + 'IPAddress(%r, %r, flags=%d)  # ipv4 back end %s (fb: sys.platform="win32" at import), ipv6 back end %s (fb: socket.has_ipv6=False at import)' % (a[3], a[4], a[5], a[1], a[2])
    if a[0] == 's2i_raw':
        return 'from netaddr.strategy import ipv%d as m; m.str_to_int(%r, %d)  # back end %s' % (a[1], a[3], a[4], a[2])
    if a[0] == 'raw_call':
        call = {'aton': 'm4._inet_aton(%r)', 'pton4': 'm4._inet_pton(m4.AF_INET, %r)', 'pton6': 'm6._inet_pton(m6.AF_INET6, %r)',
                'int': 'int(%r)'}[a[1]] % (a[3],)
        return 'from netaddr.strategy import ipv4 as m4, ipv6 as m6; ' + call + '  # back end %s' % a[2]
    if a[0] == 'format':
        arg = {None: 'None', 'nowf': 'object', 'wfonly': 'mac_unix'}.get(a[4], 'ipv6_%s' % a[4])
        return pre + 'IPAddress(%d, %d).format(%s)  # dialect variant %d, ipv6 back end %s' % (a[3], a[2], arg, a[5], a[1])
    if a[0] == 'zf_rewrite':
        return "'.'.join(['%%d' %% int(i) for i in %r.split('.')])" % (a[1],)
    if a[0] == 'valid4':
        return pre + 'valid_ipv4(%r, %d)' % (a[2], a[3]) + note
    if a[0] == 'valid6':
        return pre + 'valid_ipv6(%r)' % (a[2],) + note
    if a[0] == 'fb_pton':
        return 'import netaddr.fbsocket as fb; fb.inet_pton(%s, %r)' % ('fb.AF_INET' if a[1] == 4 else 'fb.AF_INET6', a[2])
    if a[0] == 'fb_ntop':
        return 'import netaddr.fbsocket as fb; fb.inet_ntop(fb.AF_INET6, (%d).to_bytes(16, "big"))' % a[2]
    return 'import socket; socket.inet_%s(%r)' % (a[0], a[1])
