"""C16 — IPv4/IPv6 conversion is lossless and refuses what cannot convert.
Ops: to4 obj ; to6 obj T|F ; mapped obj ; rt46 obj T|F  (ipv4() of ipv6(compat))
     obj = A:ver:val | N:ver:val:plen"""
from common import Case, W, value_classes, rand_value, errname, tf, harvest_literals
import common
from netaddr import IPAddress, IPNetwork

ID = 'C16'
RULE = ('IPv6 values at 0, 1, 2^32-1, 2^32, 2^32+1, ::ffff:0:0 -1/+0/+1, ::ffff:ffff:ffff -1/+0/+1, 2^48, 2^96 neighbours, '
        'max, random 32-bit, mapped|random 32-bit, random 48-bit and 128-bit, harvested literals; IPv4 value classes; '
        'addresses and networks with every prefix 0..128 (IPv6) / 0..32 (IPv4); ops ipv4(), ipv6(False), ipv6(True), '
        'is_ipv4_mapped/compat, and the round trip ipv4(ipv6(x)). non-trivial = distinct case whose implementation '
        'output is not an error')

LO = 0xffff00000000
HI = 0xffffffffffff
M32 = (1 << 32) - 1
M128 = (1 << 128) - 1


def _obj(o):
    return 'A:%d:%d' % (o[1], o[2]) if o[0] == 'A' else 'N:%d:%d:%d' % (o[1], o[2], o[3])


def _case(op, o, compat=None):
    line = '%s %s' % (op, _obj(o)) + ('' if compat is None else ' ' + tf(compat))
    zone = ''
    if o[1] == 6:
        v = o[2]
        zone = '/compat' if v <= M32 else '/mapped' if LO <= v <= HI else '/between' if v < LO else '/above'
    return Case(line, '%s/%s%d%s' % (op, o[0], o[1], zone), (op, o, compat))


def corpus():
    cs = []
    # F3 (fixed 51b9e20): values between 2^32 and ::ffff:0:0; mapped network with a prefix shorter than /96
    for v in (1 << 32, (1 << 32) + 1, LO - 1, 0x100000000 + 0x10000):
        cs.append(_case('to4', ('A', 6, v)))
        cs.append(_case('to4', ('N', 6, v, 128)))
    for p in (64, 95, 0):
        cs.append(_case('to4', ('N', 6, LO + 0x01020304, p)))
        cs.append(_case('to4', ('N', 6, 0x01020304, p)))
    cs.append(_case('to4', ('N', 6, LO + 0x01020304, 96)))
    cs.append(_case('to4', ('A', 6, HI + 1)))
    cs.append(_case('to6', ('A', 6, LO + 5), True))
    cs.append(_case('rt46', ('N', 4, 0x01020304, 24), False))
    return cs


def _v6_values(rng, n_random):
    vals = [0, 1, M32 - 1, M32, M32 + 1, M32 + 2, LO - 2, LO - 1, LO, LO + 1, HI - 1, HI, HI + 1, HI + 2,
            1 << 48, (1 << 48) + 1, (1 << 96) - 1, 1 << 96, (1 << 96) + 1, M128, M128 - 1, 1 << 127,
            LO | M32, (0xfffe << 32) | rng.getrandbits(32), (0x10000 << 32) | rng.getrandbits(32),
            (1 << 32) | rng.getrandbits(32), (1 << 64) | LO | rng.getrandbits(32), (1 << 127) | LO | rng.getrandbits(32),
            (1 << 96) | rng.getrandbits(32)]
    for _ in range(n_random):
        vals += [rng.getrandbits(32), LO | rng.getrandbits(32), rng.getrandbits(48), rng.getrandbits(128),
                 rng.getrandbits(rng.randrange(33, 49)), rand_value(rng, 128), rand_value(rng, 32), LO | rand_value(rng, 32)]
    lits = [l for l in harvest_literals() if l <= M128]
    if lits:
        vals += rng.sample(lits, min(8, len(lits)))
    # every big constant of the source as the upper 96 bits of an address that embeds a random IPv4 value
    return vals


def _literal_values(rng):
    """every big constant of the source as the upper 96 bits of an address that embeds a random IPv4 value"""
    return common.literal_prefixed(rng, 128, 32)


def generate(rng, tier):
    mult = 1 if tier == 'quick' else 4
    cases = []
    # ---- IPv6 addresses
    for v in _v6_values(rng, 6 * mult) + _literal_values(rng):
        o = ('A', 6, v)
        cases += [_case('to4', o), _case('to6', o, False), _case('to6', o, True), _case('mapped', o)]
    for v in _literal_values(rng):
        o = ('N', 6, v, rng.choice([96, 97, 104, 112, 120, 127, 128, rng.randrange(0, 129)]))
        cases += [_case('to4', o), _case('to6', o, rng.random() < 0.5)]
    # ---- IPv6 networks: every prefix
    for p in range(129):
        vals = _v6_values(rng, 1)
        pick = rng.sample(vals, 5 * mult) + [LO | rng.getrandbits(32), rng.getrandbits(32)]
        for v in pick:
            o = ('N', 6, v, p)
            cases += [_case('to4', o), _case('to6', o, rng.random() < 0.5)]
            if rng.random() < 0.2:
                cases.append(_case('mapped', o))
    for p in (0, 1, 64, 95, 96, 97, 127, 128):
        for v in (0, M32, M32 + 1, LO - 1, LO, HI, HI + 1, M128):
            o = ('N', 6, v, p)
            cases += [_case('to4', o), _case('to6', o, False), _case('to6', o, True)]
    # ---- IPv4 addresses and networks
    vc = value_classes(rng, 32, n_random=4 * mult)
    for v in vc:
        o = ('A', 4, v)
        cases += [_case('to4', o), _case('to6', o, False), _case('to6', o, True), _case('mapped', o),
                  _case('rt46', o, False), _case('rt46', o, True)]
    for p in range(33):
        for v in rng.sample(vc, 4 * mult) + [0, M32]:
            o = ('N', 4, v, p)
            cases += [_case('to4', o), _case('to6', o, False), _case('to6', o, True),
                      _case('rt46', o, False), _case('rt46', o, True)]
            if rng.random() < 0.2:
                cases.append(_case('mapped', o))
    return cases


# ---------------------------------------------------------------- implementation side

def _make(o):
    if o[0] == 'A':
        return IPAddress(o[2], o[1])
    return common.make_net(o[1], o[2], o[3])


def _show(r):
    if isinstance(r, IPNetwork):
        return 'N:%d:%d:%d' % (r.version, r.value, r.prefixlen)
    if isinstance(r, IPAddress):
        return 'A:%d:%d' % (r.version, int(r))
    return '!notanip:' + type(r).__name__


def impl(c):
    op, o, compat = c.args
    x = _make(o)
    try:
        # every conversion is asked twice of the same object; the first answer is moved in place in between: a
        # conversion hands out a new object (the identity conversions too), the receiver stays where it was
        if op == 'to4':
            return _show(common.twice(lambda: [x.ipv4()])[0])
        if op == 'to6':
            return _show(common.twice(lambda: [x.ipv6(compat)])[0])
        if op == 'rt46':
            return _show(common.twice(lambda: [x.ipv6(compat).ipv4()])[0])
        if op == 'mapped':
            return '%s %s' % (tf(x.is_ipv4_mapped()), tf(x.is_ipv4_compat()))
    except Exception as e:
        return '!' + errname(e)
    raise ValueError(c.args)


# ---------------------------------------------------------------- independent oracle

def _fmt(kind, ver, v, p):
    return 'A:%d:%d' % (ver, v) if kind == 'A' else 'N:%d:%d:%d' % (ver, v, p)


def oracle(c, got):
    op, o, compat = c.args
    kind, ver, v = o[0], o[1], o[2]
    p = o[3] if kind == 'N' else None
    block = (v // (1 << 32)) if ver == 6 else None       # which /96 block of ::/0 the value is in
    if op == 'mapped':
        want = '%s %s' % (tf(ver == 6 and block == 0xffff), tf(ver == 6 and block == 0))
    elif op == 'to4':
        if ver == 4:
            want = _fmt(kind, 4, v, p)
        elif block in (0, 0xffff) and (kind == 'A' or p >= 96):
            want = _fmt(kind, 4, v % (1 << 32), None if kind == 'A' else p - 96)
        else:
            want = '!addrConversion'
    elif op == 'to6':
        if ver == 6:
            nv = v % (1 << 32) if (compat and block == 0xffff) else v
            want = _fmt(kind, 6, nv, p)
        else:
            want = _fmt(kind, 6, v + (0 if compat else 0xffff * (1 << 32)), None if kind == 'A' else p + 96)
    elif op == 'rt46':
        if ver != 4:
            return None
        want = _fmt(kind, 4, v, p)
    else:
        return 'unknown op'
    return None if got == want else '%s gave %s, expected %s' % (op, got, want)


def repro(c):
    op, o, compat = c.args
    mk = 'IPAddress(%d, %d)' % (o[2], o[1]) if o[0] == 'A' else 'IPNetwork((%d, %d), version=%d)' % (o[2], o[3], o[1])
    call = {'to4': '.ipv4()', 'to6': '.ipv6(%r)' % compat, 'rt46': '.ipv6(%r).ipv4()' % compat,
            'mapped': '.is_ipv4_mapped(), x.is_ipv4_compat()'}[op]
    return 'x = %s; x%s' % (mk, call)
