"""C11 — subnetting, supernetting and stepping follow CIDR arithmetic.
Ops: subnet N q count|- limit ; supernet N q ; next N k ; prev N k ; iadd N k ; isub N k ; hosts N limit ;
subtake N q count|- limit (islice with the EXACT limit, 0 included) ; iaddT / isubT / nextT / prevT N k (the same four
steps on an instrumented IPNetwork subclass whose __setattr__ logs every store, per object)"""
import itertools
from common import Case, W, value_classes, rand_value, errname, plist, tf, optint
import common
from netaddr import IPNetwork

ID = 'C11'
RULE = ('subnet: every (p, q) pair of IPv4 and every p with q in {p-1, p, p+1, p+2, width, random} of IPv6 x boundary/structured '
        'values (with host bits) x counts {None, 1, 2, 3, max-1, max, max+1, 0, -1, random}; generators are read lazily through '
        'islice(limit+1) (limit 4096 when the total is <= 4096, else 24) so no enumeration exceeds 4097 blocks; supernet: '
        'all q <= p of IPv4, q in {0, p-2, p-1, p, random} of IPv6; next/previous/+=/-=: steps {0, +-1, +-2, the largest '
        'step that still fits, one more, random, huge} at both ends of the space; hosts: every prefix of both families, '
        'bottom/top/random blocks; subtake: one (value, count) per (p, q) pair read through islice with the exact limit '
        '0 (three in five), 1, 2 or 3 - at limit 0 nothing of the generator body runs, bad counts included; iaddT / isubT / '
        'nextT / prevT: the stepping inputs again on a subclass of IPNetwork that logs every attribute store with the '
        'object stored into (receiver / any other object of the class made during the call), compared with the '
        'statement-level event log of the model. Outside the property (not generated): subnet(q > width), supernet(q > p or q < 0). '
        'non-trivial = distinct case whose implementation output is not an error')
LIMIT_SMALL = 24
LIMIT_FULL = 4096


def _tok(ver, v, p):
    return 'N:%d:%d:%d' % (ver, v, p)


def _mk(kind, ver, v, p, *rest):
    a = (kind, ver, v, p) + tuple(rest)
    line = '%s %s %s' % (kind, _tok(ver, v, p), ' '.join(optint(x) for x in rest))
    return Case(line, '%s/v%d' % (kind, ver), a)


def corpus():
    ip = lambda s: (IPNetwork(s).version, IPNetwork(s).value, IPNetwork(s).prefixlen)
    out = []
    # literals of test_subnetting / test_supernetting / test_iterhosts_v4 / incrementing_by_int
    out.append(_mk('subnet', *ip('172.24.0.0/23'), 25, None, LIMIT_FULL))
    out.append(_mk('subnet', *ip('172.24.0.0/23'), 23, None, LIMIT_FULL))
    out.append(_mk('subnet', *ip('172.24.0.0/16'), 27, 3, LIMIT_FULL))
    out.append(_mk('subnet', *ip('192.0.2.0/24'), 26, 5, LIMIT_FULL))
    out.append(_mk('subnet', *ip('255.255.255.7/24'), 32, 256, LIMIT_FULL))
    out.append(_mk('subnet', *ip('::/0'), 128, 1 << 128, LIMIT_SMALL))
    out.append(_mk('subnet', *ip('::/0'), 128, (1 << 128) + 1, LIMIT_SMALL))
    out.append(_mk('supernet', *ip('192.0.2.114/29'), 0))
    out.append(_mk('supernet', *ip('192.0.2.114/29'), 22))
    out.append(_mk('supernet', *ip('ffff::1/128'), 0))
    for s in ('192.0.2.0/29', '192.168.0.0/23', '192.0.2.0/31', '192.0.2.1/32', '255.255.255.255/30', '0.0.0.0/0',
              'fe80::/127', 'fe80::1/128', 'fe80::/126', '::/0'):
        out.append(_mk('hosts', *ip(s), LIMIT_SMALL))
    for s, k in (('192.0.2.0/28', 1), ('192.0.2.0/28', 15), ('255.255.255.240/28', 1), ('0.0.0.0/28', -1),
                 ('0.0.0.16/28', -1), ('0.0.0.0/0', 1), ('0.0.0.0/0', 0), ('::/0', -1), ('ffff:ffff:ffff:ffff:ffff:ffff:ffff:ffff/128', 1)):
        for kind in ('next', 'prev', 'iadd', 'isub', 'nextT', 'prevT', 'iaddT', 'isubT'):
            out.append(_mk(kind, *ip(s), k))
    # audit 2b finding 2: nothing of a generator body runs before the first next()
    for cnt in (99, 0, -1, None, 2):
        for limit in (0, 1):
            out.append(_mk('subtake', *ip('10.0.0.0/24'), 25, cnt, limit))
    out.append(_mk('subtake', *ip('10.0.0.0/24'), 23, None, 0))
    return out


def _values(rng, w, p, n):
    m = (1 << w) - 1
    size = 1 << (w - p)
    vals = [0, m, size - 1, m - size + 1, (m - size + 1) | rng.getrandbits(w - p), rng.getrandbits(w - p)]
    vals += rng.sample(value_classes(rng, w, n_random=2), 4)
    return rng.sample(vals, min(n, len(vals)))


def _counts(rng, mx):
    cs = [None, None, 1, 2, 3, mx - 1, mx, mx + 1, 0, -1, rng.randrange(1, mx + 1), rng.randrange(mx + 1, 2 * mx + 3)]
    return cs


def generate(rng, tier):
    cases = []
    mult = 1 if tier == 'quick' else 3
    for ver in (4, 6):
        w = W[ver]
        m = (1 << w) - 1
        for p in range(w + 1):
            # ---- subnet
            if ver == 4:
                qs = list(range(max(p - 1, 0), w + 1))
            else:
                qs = sorted(set(q for q in (p - 1, p, p + 1, p + 2, w, w - 1, rng.randrange(0, w + 1), rng.randrange(p, w + 1),
                                             min(p + rng.randrange(0, 13), w)) if 0 <= q <= w))
            for q in qs:
                mx = 1 << max(q - p, 0)
                for v in _values(rng, w, p, 1 * mult):
                    for cnt in rng.sample(_counts(rng, mx), 3):
                        total = mx if cnt is None else cnt
                        limit = LIMIT_FULL if (total <= 512 or (total <= LIMIT_FULL and rng.random() < 0.08)) else LIMIT_SMALL
                        cases.append(_mk('subnet', ver, v, p, q, cnt, limit))
                for v in _values(rng, w, p, 1):
                    cases.append(_mk('subtake', ver, v, p, q, rng.choice(_counts(rng, mx)), rng.choice((0, 0, 0, 1, 2, 3))))
            # ---- supernet
            if ver == 4:
                sq = list(range(0, p + 1))
            else:
                sq = sorted(set(q for q in (0, p - 2, p - 1, p, rng.randrange(0, p + 1)) if 0 <= q <= p))
            for q in sq:
                for v in _values(rng, w, p, 1 * mult):
                    cases.append(_mk('supernet', ver, v, p, q))
            # ---- stepping
            size = 1 << (w - p)
            for v in _values(rng, w, p, 3 * mult):
                first = (v >> (w - p)) << (w - p)
                up = (m - first) // size           # largest step that still fits above
                down = first // size               # ... below
                ks = [0, 1, -1, 2, -2, up, up + 1, -down, -down - 1, up - 1, rng.randrange(-5, 6),
                      rng.randrange(-(1 << p) - 2, (1 << p) + 3), 1 << 130, -(1 << 130),
                      # beyond the interpreter's int-to-str digit limit (4300), either sign: an error message that
                      # formats the step must not turn the IndexError into a ValueError (seed C11-r11-2)
                      10 ** 4300, -(10 ** 4300), rng.choice([1, -1]) * (10 ** rng.choice([4301, 5000]) + rng.getrandbits(16))]
                for k in rng.sample(ks, 6):
                    kind = rng.choice(('next', 'prev', 'iadd', 'isub'))
                    if kind in ('prev', 'isub') and rng.random() < 0.7:
                        k = -k                      # mirror: keep the interesting boundaries for '-' too
                    cases.append(_mk(kind, ver, v, p, k))
                for k in rng.sample(ks, 4):
                    kind = rng.choice(('nextT', 'prevT', 'iaddT', 'isubT'))
                    if kind in ('prevT', 'isubT') and rng.random() < 0.7:
                        k = -k
                    cases.append(_mk(kind, ver, v, p, k))
            # ---- hosts
            for v in _values(rng, w, p, (8 if w - p <= 3 else 2) * mult):      # the /30../32 and /126../128 conventions
                cases.append(_mk('hosts', ver, v, p, LIMIT_FULL if w - p <= 8 else LIMIT_SMALL))
    return cases


def _show(n):
    return '%d:%d/%d' % (n.version, n.value, n.prefixlen)


_SPY = {}


def _spy_net(ver, v, p):
    """an IPNetwork of an instrumented subclass: every store into a slot of ANY object of the class
    (`x._value = ...`, `x._prefixlen = ...`, `x._module = ...`) is logged together with the object stored into
    (the log keeps the objects alive, so identities are not reused).  next() / previous() build their private
    copy with `self.__class__(...)`, so the copy is of the instrumented class too and its stores are seen."""
    if 'cls' not in _SPY:
        log = []

        class SpyNet(IPNetwork):
            __slots__ = ()

            def __setattr__(self, k, val):
                log.append((self, k, val))
                IPNetwork.__setattr__(self, k, val)
        _SPY['cls'], _SPY['log'] = SpyNet, log
    n = _SPY['cls']((v, p), version=ver)
    del _SPY['log'][:]
    return n, _SPY['log']


def _events(recv, log):
    """the stores of a call in their order: `r:` into the receiver, `c:` into the first other object of the class
    (`c2:`, ... further ones); `wv:<int>` = `_value`, `wp:<int>` = `_prefixlen`, `wm` = `_module`.  The two
    `= None` placeholders of BaseIP.__init__ in a NEW object are not events (the model's `copied` event is the
    constructor's three real stores)."""
    labels = {}
    out = []
    for obj, k, val in log:
        if obj is recv:
            lab = 'r'
        else:
            if val is None:
                continue
            if id(obj) not in labels:
                labels[id(obj)] = 'c' if not labels else 'c%d' % (len(labels) + 1)
            lab = labels[id(obj)]
        if k == '_value':
            out.append('%s:wv:%s' % (lab, val if isinstance(val, int) else '?'))
        elif k == '_prefixlen':
            out.append('%s:wp:%s' % (lab, val if isinstance(val, int) else '?'))
        elif k == '_module':
            out.append(lab + ':wm')
        else:
            out.append('%s:w:%s' % (lab, k))
    return out


def impl(c):
    a = c.args
    kind, ver, v, p = a[:4]
    if kind in ('iaddT', 'isubT', 'nextT', 'prevT'):
        recv, log = _spy_net(ver, v, p)
        k = a[4]
        flag = ''
        try:
            if kind == 'iaddT':
                r = recv
                r += k
            elif kind == 'isubT':
                r = recv
                r -= k
            elif kind == 'nextT':
                r = recv.next(k)
            else:
                r = recv.previous(k)
            ev = _events(recv, list(log))      # before anything below looks at the objects
            if (r is recv) != (kind in ('iaddT', 'isubT')):
                flag = '!harness:returned-%s' % ('other-object' if kind in ('iaddT', 'isubT') else 'receiver')
            res = _show(r)
        except Exception as e:
            ev = _events(recv, list(log))
            res = '!' + errname(e)
        del log[:]
        return flag + res + '~' + _show(recv) + '~' + ','.join(ev)
    n = common.make_net(ver, v, p)
    if kind == 'subtake':
        q, cnt, limit = a[4:]
        try:
            g = n.subnet(q, count=cnt)
            l = list(itertools.islice(g, min(limit, 1)))
            if limit > 1:
                # the blocks of N are those of N as it was when the iteration began: the receiver is moved in place
                # between the first and the second block (seed C11-r11-1 re-read the receiver on every step)
                common.COUNTS['call/receiver-moved-mid-iteration'] += 1
                common.disturb(n)
                l += list(itertools.islice(g, limit - 1))
        except Exception as e:
            return '!' + errname(e)
        return plist(_show(x) for x in l)
    if kind == 'subnet':
        q, cnt, limit = a[4:]
        try:
            l = common.twice(lambda: list(itertools.islice(common.paired(lambda: common.make_net(ver, v, p).subnet(q, count=cnt)), limit + 1)))
        except Exception as e:
            return '!' + errname(e)
        return plist(_show(x) for x in l[:limit]) + ' ' + tf(len(l) > limit)
    if kind == 'supernet':
        try:
            # asked twice; the blocks of the first answer are moved in place in between
            return plist(_show(x) for x in common.twice(lambda: common.make_net(ver, v, p).supernet(a[4])))
        except Exception as e:
            return '!' + errname(e)
    if kind in ('next', 'prev'):
        try:
            # asked twice of the same receiver, the first answer moved in place in between
            r = common.twice(lambda: [n.next(a[4]) if kind == 'next' else n.previous(a[4])])[0]
            s = _show(r)
        except Exception as e:
            s = '!' + errname(e)
        return s + '~' + _show(n)
    if kind in ('iadd', 'isub'):
        common.exercise(n)      # hash / == / key() before the move: anything memoised must follow the move
        try:
            if kind == 'iadd':
                n += a[4]
            else:
                n -= a[4]
            st = common.stale(n)
            return _show(n) if st is None else "!harness:stale-%s~%s" % (st, _show(n))
        except Exception as e:
            return '!' + errname(e) + '~' + _show(n)
    if kind == 'hosts':
        limit = a[4]
        l = list(itertools.islice(common.paired(lambda: n.iter_hosts()), limit + 1))
        for x in l:
            if x.version != ver:
                return '!harness:version'
        return plist(str(int(x)) for x in l[:limit]) + ' ' + tf(len(l) > limit)
    raise ValueError(a)


def oracle(c, got):
    """closed forms of the statement, from integers only"""
    a = c.args
    kind, ver, v, p = a[:4]
    w = W[ver]
    m = (1 << w) - 1
    size = 1 << (w - p)
    first = v - v % size
    last = first + size - 1
    if kind == 'subnet':
        q, cnt, limit = a[4:]
        if q < p:
            exp = '[] F'
        else:
            mx = 1 << (q - p)
            total = mx if cnt is None else cnt
            if not 1 <= total <= mx:
                exp = '!value'
            else:
                step = 1 << (w - q)
                shown = min(total, limit)
                blocks = [(first + i * step, q) for i in range(shown)]
                if total == mx and shown == total:
                    assert blocks[-1][0] + step - 1 == last
                exp = plist('%d:%d/%d' % (ver, b, q_) for b, q_ in blocks) + ' ' + tf(total > limit)
        return None if got == exp else 'subnet(%d, count=%s) gave %s, CIDR arithmetic gives %s' % (q, cnt, got[:300], exp[:300])
    if kind == 'subtake':
        q, cnt, limit = a[4:]
        mx = 1 << max(q - p, 0)
        total = mx if cnt is None else cnt
        if q < p or limit == 0:
            exp = '[]'           # limit 0: the generator body never starts, so nothing is checked either
        elif not 1 <= total <= mx:
            exp = '!value'
        else:
            step = 1 << (w - q)
            exp = plist('%d:%d/%d' % (ver, first + i * step, q) for i in range(min(total, limit)))
        return None if got == exp else 'list(islice(subnet(%d, count=%s), %d)) gave %s, expected %s' % (q, cnt, limit, got[:300], exp[:300])
    if kind in ('iaddT', 'isubT', 'nextT', 'prevT'):
        k = a[4]
        new = first + k * size if kind in ('nextT', 'iaddT') else first - k * size
        fits = 0 <= new and new + size - 1 <= m
        recv = '%d:%d/%d' % (ver, v, p)
        res = '%d:%d/%d' % (ver, new, p)
        if kind in ('iaddT', 'isubT'):
            # refused: IndexError, NO store, object as it was; accepted: exactly one store, of the new value
            exp = '%s~%s~r:wv:%d' % (res, res, new) if fits else '!index~%s~' % recv
        else:
            # the receiver is never stored into; the copy is built (value F, prefix p, module) and then stepped
            ctor = 'c:wv:%d,c:wp:%d,c:wm' % (first, p)
            exp = '%s~%s~%s,c:wv:%d' % (res, recv, ctor, new) if fits else '!index~%s~%s' % (recv, ctor)
        return None if got == exp else '%s(%d) gave %s, expected %s' % (kind, k, got[:300], exp[:300])
    if kind == 'supernet':
        q = a[4]
        if not 0 <= q <= p:
            return None          # outside the property
        exp = plist('%d:%d/%d' % (ver, (v >> (w - k)) << (w - k), k) for k in range(q, p))
        return None if got == exp else 'supernet(%d) gave %s, expected %s' % (q, got[:300], exp[:300])
    if kind in ('next', 'prev', 'iadd', 'isub'):
        k = a[4]
        new = first + k * size if kind in ('next', 'iadd') else first - k * size
        fits = 0 <= new and new + size - 1 <= m
        recv = '%d:%d/%d' % (ver, v, p)
        res = '%d:%d/%d' % (ver, new, p)
        if kind in ('next', 'prev'):
            exp = (res if fits else '!index') + '~' + recv
        else:
            exp = res if fits else '!index~' + recv
        return None if got == exp else '%s(%d) gave %s, expected %s' % (kind, k, got, exp)
    if kind == 'hosts':
        limit = a[4]
        if ver == 4:
            lo, hi = (first + 1, last - 1) if size >= 4 else (first, last)
        else:
            lo, hi = first + 1, last
        total = max(hi - lo + 1, 0)
        exp = plist(str(lo + i) for i in range(min(total, limit))) + ' ' + tf(total > limit)
        return None if got == exp else 'iter_hosts gave %s, expected %s' % (got[:300], exp[:300])
    return None


def repro(c):
    a = c.args
    kind, ver, v, p = a[:4]
    n = "n = IPNetwork((%d, %d), version=%d); " % (v, p, ver)
    if kind == 'subnet':
        return "import itertools; " + n + "list(itertools.islice(n.subnet(%d, count=%s), %d))" % (a[4], a[5], a[6] + 1)
    if kind == 'supernet':
        return n + "n.supernet(%d)" % a[4]
    if kind == 'subtake':
        return "import itertools; " + n + "list(itertools.islice(n.subnet(%d, count=%s), %d))" % (a[4], a[5], a[6])
    if kind in ('iaddT', 'isubT', 'nextT', 'prevT'):
        call = {'iaddT': 'n += %d', 'isubT': 'n -= %d', 'nextT': 'n.next(%d)', 'prevT': 'n.previous(%d)'}[kind] % a[4]
        return ("log = []; S = type('S', (IPNetwork,), {'__slots__': (), '__setattr__': lambda s, k, x: (log.append((id(s), k, x)), "
                "IPNetwork.__setattr__(s, k, x))[1]}); n = S((%d, %d), version=%d); del log[:]; %s   # then look at log, n"
                % (v, p, ver, call))
    if kind == 'next':
        return n + "n.next(%d), n" % a[4]
    if kind == 'prev':
        return n + "n.previous(%d), n" % a[4]
    if kind == 'iadd':
        return n + "n += %d; n   # or IndexError, then n unchanged" % a[4]
    if kind == 'isub':
        return n + "n -= %d; n   # or IndexError, then n unchanged" % a[4]
    return "import itertools; " + n + "list(itertools.islice(n.iter_hosts(), %d))" % (a[4] + 1)
