"""C08 — EUI text round-trips in every dialect; derived identifiers follow the standards.

Ops (Driver/C08.lean): eui_rt ver dial v ; eui_parse addr version ; eui_acc ver v sep ;
eui_iab ver v ; iab_split e strict ; eui_get dial v idx ; eui_set dial v idx val ;
eui_derive ver v prefix ; eui_cmp ver1 v1 ver2 v2 ; eui_fmt ver v dial|-.
Dialect token: built-in class name or D,ws,nw,<hex sep>,pad,U|L (user subclass).
Audit round 2a ops (Model/Eui2.lean): eui_valid ver arg ; eui_cmpw ver v operand ; eui_ctor arg version dialect ;
eui_setvalue ver arg ; eui_setdialect ver dialect ; eui_getany dial v idx ; eui_setany dial v idx val ; eui_dobj ver v.
Every error path prints the exception class on both sides (`!` + common.errname / Err.tag): the
classes are tied by correspondence; the oracle (the property names no classes) only asks for a
rejection."""
from common import Case, value_classes, rand_value, hexs, plist, tf, optint
import common
import platform_cases
import netaddr
from netaddr import EUI
from netaddr.core import NotRegisteredError
from netaddr.eui import IAB

from props.c15 import dialect_obj, ref_words, ref_bits, ref_bin, ref_packed, fwords, fbytes

ID = 'C08'
RULE = ('eui_rt: structured values (boundaries, aligned+-1, all-decimal-digit hex numerals, literals, random) x every '
        'built-in dialect and user-subclass dialects, printed then parsed with implicit and explicit version; '
        'eui_parse: every accepted spelling family of a value (1-2 digit octets, 1-4 digit hextets, PostgreSQL, bare, '
        'mixed case) x version None/48/64/other, edit-distance-1 neighbours, decimal-integer strings, ints at the '
        'version boundaries; eui_acc: value-level accessors under a random dialect (the model is dialect-free); '
        'eui_get/eui_set: every index -nw-1..nw, slices, word values 0, max, max+1; eui_derive: eui64/modified/ipv6 '
        'with aligned and unaligned prefixes; eui_cmp: equal / adjacent / cross-version pairs under different dialects; '
        'eui_iab: EUI-48 and EUI-64 receivers (IAB base OUI at bits 24..47 and at the EUI-64 OUI position 40..63, neighbours, '
        'random); eui_fmt: format(dialect) for own-family, other-family and user dialects and format(None) under a random own '
        'dialect; decimal-digit strings of every length 1..21 (bare-EUI lengths 11/12/16 included) around 2^48 / 2^64, with '
        'and without a final newline; exception classes are printed on both sides for every error path. '
        'audit 2a: valid_mac / valid_eui64 on the string families of eui_parse (spellings, near misses, mutants, newlines, '
        'decimal strings) and on non-str arguments; the six operators against str / int / bool / float / None / bytes / huge-int '
        'operands; the whole constructor (copy construction with matching / other / no version and a dialect argument, float, '
        'bool, None, bytes, ints on both sides of the int-to-str digit limit 10^4300, dialect None / class / no class); value '
        'and dialect setters of a live object; __getitem__ / __setitem__ with every index / value kind in every combination; '
        'eui64() / modified_eui64() with the dialect of the result; print/parse and word assignment under a dialect of the '
        'other family. '
        'non-trivial = distinct case whose implementation output is not an error')

# independent restatement of the built-in dialects: name -> (ver, word_size, num_words, sep, pad, upper)
BUILTIN = {
    'mac_eui48': (48, 8, 6, '-', 2, True), 'mac_unix': (48, 8, 6, ':', 0, False),
    'mac_unix_expanded': (48, 8, 6, ':', 2, False), 'mac_cisco': (48, 16, 3, '.', 4, False),
    'mac_bare': (48, 48, 1, '', 12, True), 'mac_pgsql': (48, 24, 2, ':', 6, False),
    'eui64_base': (64, 8, 8, '-', 2, True), 'eui64_unix': (64, 8, 8, ':', 0, False),
    'eui64_unix_expanded': (64, 8, 8, ':', 2, False), 'eui64_cisco': (64, 16, 4, '.', 4, False),
    'eui64_bare': (64, 64, 1, '', 16, True),
}
D48 = [n for n, r in BUILTIN.items() if r[0] == 48]
D64 = [n for n, r in BUILTIN.items() if r[0] == 64]
USER48 = ['D,8,6,3a,2,U', 'D,8,6,2d,0,L', 'D,16,3,3a,4,L', 'D,16,3,2d,0,U', 'D,24,2,2d,6,U', 'D,48,1,,12,L',
          'D,8,6,5f,2,L', 'D,12,4,2e,3,L',
          # a multi-word dialect that only drops the separator (fully padded words: the bare spelling)
          'D,8,6,,2,U', 'D,16,3,,4,L', 'D,24,2,,6,L']
USER64 = ['D,8,8,3a,2,U', 'D,16,4,2d,0,U', 'D,64,1,,16,L', 'D,32,2,2d,8,L',
          'D,8,8,,2,L', 'D,16,4,,4,U', 'D,32,2,,8,L']
IABS = (0x0050c2, 0x40d855)          # IEEE IAB base OUIs
MAXV = {48: (1 << 48) - 1, 64: (1 << 64) - 1}


def dinfo(ver, d):
    if d.startswith('D,'):
        f = d.split(',')
        return int(f[1]), int(f[2]), bytes.fromhex(f[3]).decode(), int(f[4]), f[5] == 'U'
    return BUILTIN[d][1:]


def dialects(ver):
    return (D48 + USER48) if ver == 48 else (D64 + USER64)


# ------------------------------------------------------------------ reference printer / grammar

def ref_print(ver, d, v):
    ws, nw, sep, pad, up = dinfo(ver, d)
    toks = []
    for x in ref_words(v, ws, nw):
        t = format(x, '0%dx' % pad) if pad else format(x, 'x')
        toks.append(t.upper() if up else t)
    return sep.join(toks)


HEX = set('0123456789abcdefABCDEF')
# accepted spellings: version -> [(separators, groups, min digits, max digits)]
GRAMMAR = {
    48: [(':-', 6, 1, 2), (':-.', 3, 1, 4), ('-:', 2, 5, 6), ('', 1, 12, 12), ('', 1, 11, 11)],
    64: [(':-', 8, 1, 2), (':-.', 4, 1, 4), ('', 1, 16, 16)],
}


def hexval(t):
    v = 0
    for ch in t:
        v = v * 16 + '0123456789abcdef'.index(ch.lower())
    return v


def ref_parse(ver, s):
    """value of s as an EUI of this version per the accepted spellings, or None"""
    width = ver
    for seps, n, lo, hi in GRAMMAR[ver]:
        for sep in (seps or ['']):
            toks = s.split(sep) if sep else [s]
            if len(toks) == n and all(lo <= len(t) <= hi and set(t) <= HEX for t in toks):
                ws = width // n
                return sum(hexval(t) << (ws * (n - 1 - i)) for i, t in enumerate(toks))
    return None


def ref_construct(addr, version):
    """expected EUI(addr, version): (ver, value) or None = must be rejected; for strings outside
    every grammar with a final newline the second element lists what is tolerated"""
    if version is not None and version not in (48, 64):
        return None
    if isinstance(addr, int):
        if version is None:
            version = 48 if 0 <= addr <= MAXV[48] else 64
        return (version, addr) if 0 <= addr <= MAXV[version] else None
    if version is not None:
        v = ref_parse(version, addr)
        return None if v is None else (version, v)
    for ver in (48, 64):
        v = ref_parse(ver, addr)
        if v is not None:
            return (ver, v)
    try:
        n = int(addr)           # CPython's own decimal reading (not netaddr)
    except ValueError:
        return None
    for ver in (48, 64):
        if 0 <= n <= MAXV[ver]:
            return (ver, n)
    return None


def show_vv(r):
    return '!' if r is None else '%d:%d' % r


# ------------------------------------------------------------------ spellings

def _case(rng, t):
    return ''.join(ch.upper() if rng.random() < 0.5 else ch.lower() for ch in t)


def spellings(rng, ver, v):
    """accepted spellings of v (each denotes v), built from the integer"""
    out = []
    n8 = ver // 8
    o = ref_words(v, 8, n8)
    h = ref_words(v, 16, ver // 16)
    for sep in ':-':
        out.append(sep.join('%x' % x for x in o))
        out.append(sep.join('%02X' % x for x in o))
        out.append(sep.join(('%x' if rng.random() < 0.5 else '%02x') % x for x in o))
    for sep in ':-.':
        out.append(sep.join('%x' % x for x in h))
        out.append(sep.join('%04x' % x for x in h))
        out.append(sep.join('%%0%dx' % rng.randrange(1, 5) % x for x in h))
    if ver == 48:
        a, b = v >> 24, v & 0xffffff
        for sep in ':-':
            out.append('%06x%s%06x' % (a, sep, b))
            if a < (1 << 20):
                out.append('%05x%s%06x' % (a, sep, b))
            if b < (1 << 20):
                out.append('%06x%s%05x' % (a, sep, b))
        out.append('%012x' % v)
        if v < (1 << 44):
            out.append('%011x' % v)
    else:
        out.append('%016x' % v)
    return [_case(rng, t) for t in out]


def near_spellings(rng, ver, v):
    """structured near-misses: one group one digit too long / too short, one group too many or
    too few, bare numerals one digit off"""
    out = []
    n8 = ver // 8
    o = ref_words(v, 8, n8)
    h = ref_words(v, 16, ver // 16)
    i = rng.randrange(n8)
    for sep in ':-':
        t = ['%02x' % x for x in o]
        t[i] = '0' + t[i]
        out.append(sep.join(t))
        out.append(sep.join(['%02x' % x for x in o] + ['00']))
        out.append(sep.join(['%02x' % x for x in o][:-1]))
    j = rng.randrange(len(h))
    for sep in ':-.':
        t = ['%04x' % x for x in h]
        t[j] = '0' + t[j]
        out.append(sep.join(t))
        out.append(sep.join(['%x' % x for x in h] + ['0']))
        out.append(sep.join(['%x' % x for x in h][:-1]))
    if ver == 48:
        a, b = v >> 24, v & 0xffffff
        for sep in ':-.':
            out.append('%04x%s%06x' % (a & 0xffff, sep, b))
            out.append('%06x%s%04x' % (a, sep, b & 0xffff))
            out.append('0%06x%s%06x' % (a, sep, b))
            out.append('%06x%s%06x0' % (a, sep, b))
        out += ['%010x' % (v & (2 ** 40 - 1)), '%013x' % v]
    else:
        out += ['%015x' % (v & (2 ** 60 - 1)), '%017x' % v, '%012x' % (v & (2 ** 48 - 1)), '%011x' % (v & (2 ** 44 - 1))]
    return [_case(rng, t) for t in out]


def mutate(rng, s):
    k = rng.randrange(9)
    i = rng.randrange(len(s)) if s else 0
    junk = ':-. gG_+\nxX0'
    if k == 0:
        return s[:i] + s[i + 1:]
    if k == 1:
        return s[:i] + rng.choice('0123456789abcdefABCDEF') + s[i:]
    if k == 2:
        return s[:i] + rng.choice(junk) + s[i + 1:]
    if k == 3:
        return s[:i] + rng.choice(junk) + s[i:]
    if k == 4:
        return s + rng.choice('\n :-0')
    if k == 5:
        return rng.choice(' +-0x') + s
    if k == 6:
        for a, b in ((':', '-'), ('-', ':'), ('.', ':'), (':', '.')):
            if a in s:
                return s.replace(a, b, 1)
        return s + ':'
    if k == 7:
        return s.replace(rng.choice(':-.'), '')
    return s + s[-3:]


def decimal_hex_values(rng, ver, n):
    """values whose hex spelling consists of decimal digits only (readable as a decimal integer)"""
    return [int(''.join(rng.choice('0123456789') for _ in range(ver // 4)), 16) for _ in range(n)]


# ------------------------------------------------------------------ cases

def corpus():
    out = list(_audit2_corpus())
    # F9 (5492517): bare all-decimal EUI-64 was read as a decimal EUI-48
    for s in ('0000000041000000', '1234567890123456', '0000000000000000'):
        out.append(Case('eui_parse %s -' % hexs(s), 'corpus/F9', ('parse', s, None)))
    # F8 (a35d92e): accessors / assignment under non-octet dialects
    for d in ('mac_cisco', 'mac_bare', 'mac_pgsql'):
        out.append(Case('eui_acc 48 %d %s' % (0x001b774954fd, hexs(':')), 'corpus/F8', ('acc', 48, d, 0x001b774954fd, ':')))
        ws = dinfo(48, d)[0]
        out.append(Case('eui_set %s %d 0 %d' % (d, 0x001b774954fd, (1 << ws) - 1), 'corpus/F8',
                        ('set', 48, d, 0x001b774954fd, 0, (1 << ws) - 1)))
    # adversarial seed adv6-3: modified_eui64() through word assignment under the receiver's dialect
    for d in ('eui64_cisco', 'eui64_bare'):
        out.append(Case('eui_derive 64 %d %d' % (0x001b77fffeaabbcc, 0xfe80 << 112), 'corpus/adv6-3',
                        ('derive', 64, 0x001b77fffeaabbcc, 0xfe80 << 112, d)))
    for d in ('eui64_cisco', 'eui64_bare'):
        out.append(Case('eui_acc 64 %d -' % 0x001b77fffe4954fd, 'corpus/F8', ('acc', 64, d, 0x001b77fffe4954fd, None)))
        ws = dinfo(64, d)[0]
        out.append(Case('eui_set %s %d 0 %d' % (d, 0x001b77fffe4954fd, (1 << ws) - 1), 'corpus/F8',
                        ('set', 64, d, 0x001b77fffe4954fd, 0, (1 << ws) - 1)))
    return out


def _vals(rng, ver, mult):
    m = MAXV[ver]
    vals = value_classes(rng, ver, n_random=3 * mult)
    vals = rng.sample(vals, min(len(vals), 20 * mult))
    vals += [0, 1, m, m - 1, 0x41000000, 0x0123456789ab & m, 10 ** 11, 99999999999, 123456789012 & m]
    vals += decimal_hex_values(rng, ver, 4 * mult)
    vals += [(p << (ver - 24)) | rng.getrandbits(ver - 24) for p in IABS]
    return [x & m for x in vals]


def generate(rng, tier):
    mult = 1 if tier == 'quick' else 3
    cases = []
    for ver in (48, 64):
        m = MAXV[ver]
        for d in dialects(ver):
            ws, nw, sep, pad, up = dinfo(ver, d)
            for v in _vals(rng, ver, mult):
                cases.append(Case('eui_rt %d %s %d' % (ver, d, v), 'rt/%s' % (d if not d.startswith('D,') else 'user%d' % ver),
                                  ('rt', ver, d, v)))
            # word access under this dialect
            for _ in range(14 * mult):
                v = rand_value(rng, ver)
                idx = rng.choice(list(range(-nw - 1, nw + 1)) + [nw + 5, -nw - 7])
                cases.append(Case('eui_get %s %d i;%d' % (d, v, idx), 'get/idx', ('get', ver, d, v, idx)))
                a, b = (rng.choice([None] + list(range(-nw - 2, nw + 3)) + [100, -100, 1 << 70, -(1 << 70)]) for _ in range(2))
                c = rng.choice([None, None, 1, 2, -1, -2, 3, -3, 0, nw, -nw, 1 << 65, -(1 << 65)])
                cases.append(Case('eui_get %s %d s;%s;%s;%s' % (d, v, optint(a), optint(b), optint(c)), 'get/slice',
                                  ('get', ver, d, v, (a, b, c))))
                idx = rng.choice(list(range(0, nw)) * 3 + [nw, -1, nw + 1])
                val = rng.choice([0, 1, (1 << ws) - 1, (1 << ws) - 1, (1 << ws), (1 << ws) + 1, 255, 256, 0xffff, -1,
                                  rng.getrandbits(ws), rng.getrandbits(ws)])
                cases.append(Case('eui_set %s %d %d %d' % (d, v, idx, val), 'set', ('set', ver, d, v, idx, val)))
        vals = _vals(rng, ver, mult)
        for v in vals:
            # every accepted spelling, implicit and explicit version
            for s in spellings(rng, ver, v):
                for version in (None, ver):
                    cases.append(Case('eui_parse %s %s' % (hexs(s), optint(version)), 'parse/spelling%d' % ver,
                                      ('parse', s, version)))
                if rng.random() < 0.15:
                    version = rng.choice((112 - ver, 32, 0))
                    cases.append(Case('eui_parse %s %d' % (hexs(s), version), 'parse/otherver', ('parse', s, version)))
                if rng.random() < 0.12:
                    for t in (s + '\n', s + '\n\n', '\n' + s):
                        version = rng.choice((None, ver, 112 - ver))
                        cases.append(Case('eui_parse %s %s' % (hexs(t), optint(version)), 'parse/newline', ('parse', t, version)))
                if rng.random() < 0.5:
                    t = mutate(rng, s)
                    version = rng.choice((None, None, ver, 112 - ver))
                    cases.append(Case('eui_parse %s %s' % (hexs(t), optint(version)), 'parse/mutant', ('parse', t, version)))
            if rng.random() < 0.5:
                for t in rng.sample(near_spellings(rng, ver, v), 6):
                    version = rng.choice((None, ver))
                    cases.append(Case('eui_parse %s %s' % (hexs(t), optint(version)), 'parse/near', ('parse', t, version)))
            # accessors under a random dialect
            d = rng.choice(dialects(ver))
            sp = rng.choice((None, None, '', ':', '-', '.', ' '))
            cases.append(Case('eui_acc %d %d %s' % (ver, v, '-' if sp is None else hexs(sp)), 'acc/%d' % ver,
                              ('acc', ver, d, v, sp)))
            pfx = rng.choice((0, 0xfe80 << 112, 0x20010db8 << 96, rng.getrandbits(64) << 64, rng.getrandbits(128),
                              (1 << 128) - 1, ((1 << 64) - 1) << 64, (1 << 128) - (1 << 57)))
            dd = rng.choice(dialects(ver))          # the derived identifiers do not depend on the dialect of the receiver
            cases.append(Case('eui_derive %d %d %d' % (ver, v, pfx), 'derive/%d' % ver, ('derive', ver, v, pfx, dd)))
        # ints and integer strings around the version boundaries
        for n in [-1, 0, 1, MAXV[48] - 1, MAXV[48], MAXV[48] + 1, MAXV[64] - 1, MAXV[64], MAXV[64] + 1, 1 << 70] + \
                [rand_value(rng, 64) for _ in range(6 * mult)]:
            for version in (None, 48, 64, 32):
                cases.append(Case('eui_parse %d %s' % (n, optint(version)), 'parse/int', ('parse', n, version)))
                t = rng.choice(('%d', ' %d', '%d ', '+%d', '%d\n', '0%d', '%d_0')) % n
                cases.append(Case('eui_parse %s %s' % (hexs(t), optint(version)), 'parse/intstr', ('parse', t, version)))
        # comparisons / hash
        for _ in range(40 * mult):
            v1 = rand_value(rng, ver)
            ver2 = rng.choice((ver, ver, 112 - ver))
            v2 = rng.choice((v1, v1, v1 + 1, v1 - 1, rand_value(rng, ver2))) & MAXV[ver2]
            d1, d2 = rng.choice(dialects(ver)), rng.choice(dialects(ver2))
            cases.append(Case('eui_cmp %d %d %d %d' % (ver, v1, ver2, v2), 'cmp', ('cmp', ver, d1, v1, ver2, d2, v2)))
        # identifiers that differ in exactly one bit - every bit position of the width, every run: equality and hash
        # are by (version, value) and a value has `ver` independent bits (a seeded change packed version and value
        # into one integer, and bit 54 of an EUI-64 fell on top of the version)
        vb = rand_value(rng, ver)
        for bit in range(ver):
            d1, d2 = rng.choice(dialects(ver)), rng.choice(dialects(ver))
            cases.append(Case('eui_cmp %d %d %d %d' % (ver, vb, ver, vb ^ (1 << bit)), 'cmp/one-bit',
                              ('cmp', ver, d1, vb, ver, d2, vb ^ (1 << bit))))
    # IAB: EUI-48 receivers
    for _ in range(40 * mult):
        p = rng.choice(IABS + (IABS[0] + 1, IABS[1] - 1, rng.getrandbits(24)))
        v = (p << 24) | rand_value(rng, 24)
        cases.append(Case('eui_iab 48 %d' % v, 'iab/48', ('iab', 48, v)))
        e = rng.choice((v, v >> 12, v & ~0xfff, (v >> 12) + 1))
        strict = rng.random() < 0.5
        cases.append(Case('iab_split %d %s' % (e, tf(strict)), 'iab_split', ('iab_split', e, strict)))
    # IAB: EUI-64 receivers: IAB base OUI at the EUI-64 OUI position (bits 40..63), at the EUI-48 position
    # (bits 24..47: not an IAB address for an EUI-64; the pinned code said it was, finding F17), EUI-64 forms
    # of IAB MACs, neighbours of the base OUIs, random values
    for _ in range(10 * mult):
        for p in IABS:
            for v, tag in (((p << 40) | rng.getrandbits(40), 'iab/64-oui'), ((p << 24) | rng.getrandbits(24), 'iab/64-low'),
                           ((p << 40) | (p << 16) | rng.getrandbits(16), 'iab/64-both')):
                cases.append(Case('eui_iab 64 %d' % v, tag, ('iab', 64, v)))
            m48 = (p << 24) | rng.getrandbits(24)
            e64 = ((m48 >> 24) << 40) | (0xfffe << 24) | (m48 & 0xffffff)
            cases.append(Case('eui_iab 64 %d' % e64, 'iab/64-oui', ('iab', 64, e64)))
    for _ in range(20 * mult):
        p = rng.choice((IABS[0] + 1, IABS[1] - 1, IABS[0] ^ 0x800000, rng.getrandbits(24), 0))
        v = rng.choice(((p << 40) | rng.getrandbits(40), (p << 24) | rng.getrandbits(24), rand_value(rng, 64)))
        cases.append(Case('eui_iab 64 %d' % v, 'iab/64', ('iab', 64, v)))
    # format(dialect): own family, other family (wider / narrower), user dialects, None under a random own dialect
    for ver in (48, 64):
        for _ in range(30 * mult):
            v = rng.choice(_vals(rng, ver, 1))
            own = rng.choice(dialects(ver))
            k = rng.random()
            if k < 0.25:
                arg, aver = None, ver
            elif k < 0.8:
                arg, aver = rng.choice(dialects(ver)), ver
            else:
                arg, aver = rng.choice(dialects(112 - ver)), 112 - ver
            cases.append(Case('eui_fmt %d %d %s' % (ver, v, arg or '-'), 'fmt/%s' % ('none' if arg is None else 'own' if aver == ver else 'other'),
                              ('fmt', ver, own, v, arg, aver)))
    # decimal-digit strings of every length (11 / 12 / 16 digits are bare EUIs, the rest go to int())
    for n in range(1, 22):
        for _ in range(2 * mult):
            t = ''.join(rng.choice('0123456789') for _ in range(n))
            if rng.random() < 0.3:          # leading zeros: same length, smaller value
                k = rng.randrange(1, n + 1)
                t = '0' * k + t[k:]
            for version in (None, None, rng.choice((48, 64))):
                u = t + rng.choice(('', '', '', '\n'))
                cases.append(Case('eui_parse %s %s' % (hexs(u), optint(version)), 'parse/decimal', ('parse', u, version)))
    for n in (MAXV[48] - 1, MAXV[48], MAXV[48] + 1, MAXV[64] - 1, MAXV[64], MAXV[64] + 1, 10 ** 20):
        for t in (str(n), str(n) + '\n', '0' * 3 + str(n), str(n).zfill(22)):
            cases.append(Case('eui_parse %s -' % hexs(t), 'parse/decimal', ('parse', t, None)))
    # oracle-only: non-ASCII digits go through int() in the real code
    for s in ('١٢', '１２-00-00-00-00-00', '00-1B-77-49-54-F٠'):
        cases.append(Case(None, 'parse/nonascii', ('parse', s, None)))
    cases.extend(_audit2_cases(rng, mult))
    cases.extend(platform_cases.pyint_cases(rng, 100 * mult))
    cases.extend(platform_cases.pyslice_cases(rng, 60 * mult))
    return cases


# ------------------------------------------------------------------ implementation side

def _vv(e):
    return '%d:%d' % (e.version, int(e))


def _try(f, show=str):
    try:
        return show(f())
    except Exception as e:
        return '!' + common.errname(e)


def impl(c):
    a = c.args
    if c.platform:
        return platform_cases.impl(c)
    if a[0] in A2_IMPL:
        return A2_IMPL[a[0]](a)
    if a[0] == 'rt':
        _, ver, d, v = a
        dobj = dialect_obj(ver, d)
        e = common.make_eui(v, ver, dobj)
        s = str(e)
        if EUI(v, version=ver).format(dobj) != s:
            return '?format'
        return ' '.join([hexs(s), _try(lambda: EUI(s), _vv), _try(lambda: EUI(s, version=ver), _vv)])
    if a[0] == 'parse':
        _, addr, version = a
        return _try(lambda: EUI(addr, version=version), _vv)
    if a[0] == 'acc':
        _, ver, d, v, sep = a
        e = common.make_eui(v, ver, dialect_obj(ver, d))

        def oui():
            try:
                return str(int(e.oui))
            except NotRegisteredError:
                return 'NR'
        return ' '.join([_try(lambda: e.words, fwords), _try(lambda: e.packed, fbytes), _try(lambda: e.bits(sep), hexs),
                         _try(lambda: e.bin, hexs), _try(lambda: e.ei, hexs), _try(oui)])
    if a[0] == 'fmt':
        _, ver, own, v, arg, aver = a
        e = common.make_eui(v, ver, dialect_obj(ver, own))
        if arg is None:
            r1, r2 = _try(lambda: e.format(), hexs), _try(lambda: e.format(None), hexs)
            return r1 if r1 == r2 else '?format()!=format(None)'
        return _try(lambda: e.format(dialect_obj(aver, arg)), hexs)
    if a[0] == 'iab':
        e = EUI(a[2], version=a[1])

        def iab():
            try:
                x = e.iab
                return '-' if x is None else str(int(x))
            except NotRegisteredError:
                return 'NR'
        return tf(e.is_iab()) + ' ' + _try(iab)
    if a[0] == 'iab_split':
        return _try(lambda: IAB.split_iab_mac(a[1], strict=a[2]), lambda r: '%d:%d' % r)
    if a[0] == 'get':
        _, ver, d, v, idx = a
        e = common.make_eui(v, ver, dialect_obj(ver, d))
        if isinstance(idx, tuple):
            return _try(lambda: e[slice(*idx)], fwords)
        return _try(lambda: e[idx], lambda x: str(int(x)))
    if a[0] == 'set':
        _, ver, d, v, idx, val = a
        e = common.make_eui(v, ver, dialect_obj(ver, d))
        try:
            e[idx] = val
        except Exception as ex:
            return '!' + common.errname(ex) if int(e) == v else '?changed-on-error'
        return str(int(e)) if e.version == ver else '?version'
    if a[0] == 'derive':
        _, ver, v, pfx, dd = a
        e = common.make_eui(v, ver, dialect_obj(ver, dd))
        return ' '.join([_try(e.eui64, _vv), _try(e.modified_eui64, _vv),
                         _try(lambda: e.ipv6(pfx), lambda ip: str(int(ip)) if ip.version == 6 else '?v4'),
                         _try(e.ipv6_link_local, lambda ip: str(int(ip)) if ip.version == 6 else '?v4')])
    if a[0] == 'cmp':
        _, ver1, d1, v1, ver2, d2, v2 = a
        x = common.make_eui(v1, ver1, dialect_obj(ver1, d1))
        y = common.make_eui(v2, ver2, dialect_obj(ver2, d2))
        return ' '.join([tf(x == y), tf(x != y), tf(x < y), tf(x <= y), tf(x > y), tf(x >= y),
                         tf(hash(x) == hash(y)) if x == y else '-'])
    raise ValueError(a)


def equivalent(c, got, model):
    """'NR' = the registry (emptied in this sandbox, property C19) does not know the OUI / IAB:
    the split value is then not observable"""
    if got == model:
        return True
    if c.args[0] in ('acc', 'iab') and model is not None:
        g, m = got.split(' '), model.split(' ')
        return len(g) == len(m) and all(x == y or x == 'NR' for x, y in zip(g, m))
    return False


# ------------------------------------------------------------------ oracle

def _norm(got):
    """the property names no exception classes: every rejection reads '!' for the oracle"""
    return ' '.join('!' if f.startswith('!') else f for f in got.split(' '))


def oracle(c, got):
    a = c.args
    if c.platform:
        return None
    got = _norm(got)
    if a[0] in A2_ORACLE:
        return A2_ORACLE[a[0]](a, got)
    if a[0] == 'rt':
        _, ver, d, v = a
        s = ref_print(ver, d, v)
        if not d.startswith('D,'):
            exp = ' '.join([hexs(s), '%d:%d' % (ver, v), '%d:%d' % (ver, v)])
        else:
            exp = ' '.join([hexs(s), show_vv(ref_construct(s, None)), show_vv(ref_construct(s, ver))])
        return None if got == exp else 'print/parse gave %s, expected %s' % (got, exp)
    if a[0] == 'parse':
        _, addr, version = a
        exp = show_vv(ref_construct(addr, version))
        if got == exp:
            return None
        if isinstance(addr, str) and addr.endswith('\n'):
            # Python's `$` also matches before a final newline: tolerated reading of such a string
            if got == show_vv(ref_construct(addr[:-1], version)):
                return None
        return 'EUI(%r, version=%r) gave %s, expected %s' % (addr, version, got, exp)
    if a[0] == 'acc':
        _, ver, d, v, sep = a
        o = ref_words(v, 8, ver // 8)
        exp = [fwords(o), fbytes(ref_packed(v, ver)), hexs(ref_bits(v, 8, ver // 8, '-' if sep is None else sep)),
               hexs(ref_bin(v)), hexs('-'.join('%02X' % x for x in o[3:])), str(v >> (ver - 24))]
        g = got.split(' ')
        if len(g) != 6 or any(x != y and not (i == 5 and x == 'NR') for i, (x, y) in enumerate(zip(g, exp))):
            return 'accessors under dialect %s gave %s, expected %s' % (d, got, ' '.join(exp))
        return None
    if a[0] == 'fmt':
        _, ver, own, v, arg, aver = a
        d = arg if arg is not None else ('mac_eui48' if ver == 48 else 'eui64_base')
        ws, nw = dinfo(aver, d)[:2]
        exp = hexs(ref_print(aver, d, v)) if v < (1 << (ws * nw)) else '!'
        return None if got == exp else 'format(%s) under own dialect %s gave %s, expected %s' % (arg, own, got, exp)
    if a[0] == 'iab':
        ver, v = a[1], a[2]
        # standard positions: the OUI is the top 24 bits of the identifier, the IAB its top 36 bits
        isiab = (v >> (ver - 24)) in IABS
        g = got.split(' ')
        exp = [tf(isiab), str(v >> (ver - 36)) if isiab else '-']
        if len(g) != 2 or g[0] != exp[0] or (g[1] != exp[1] and not (isiab and g[1] == 'NR')):
            return 'is_iab/iab gave %s, expected %s' % (got, ' '.join(exp))
        return None
    if a[0] == 'iab_split':
        _, e, strict = a
        if (e >> 12) in IABS:
            exp = '%d:0' % e
        elif (e >> 24) in IABS and not (strict and e & 0xfff):
            exp = '%d:%d' % (e >> 12, e & 0xfff)
        else:
            exp = '!'
        return None if got == exp else 'split_iab_mac gave %s, expected %s' % (got, exp)
    if a[0] == 'get':
        _, ver, d, v, idx = a
        ws, nw = dinfo(ver, d)[:2]
        ref = ref_words(v, ws, nw)
        try:
            exp = fwords(ref[slice(*idx)]) if isinstance(idx, tuple) else str(ref[idx])
        except (IndexError, ValueError):
            exp = '!'
        return None if got == exp else 'word access gave %s, expected %s' % (got, exp)
    if a[0] == 'set':
        _, ver, d, v, idx, val = a
        ws, nw = dinfo(ver, d)[:2]
        if 0 <= val < (1 << ws) and -nw <= idx < nw:
            sh = ws * (nw - 1 - idx % nw)
            new = str((v & ~(((1 << ws) - 1) << sh)) | (val << sh))
            ok = (new,) if idx >= 0 else (new, '!')      # negative assignment index: left open
        else:
            ok = ('!',)
        return None if got in ok else 'word assignment gave %s, expected %s' % (got, ok[0])
    if a[0] == 'derive':
        _, ver, v, pfx, dd = a
        e64 = (((v >> 24) << 40) | (0xfffe << 24) | (v & 0xffffff)) if ver == 48 else v
        mod = e64 ^ (1 << 57)
        f = lambda x: str(x) if x < (1 << 128) else '!'
        exp = ' '.join(['64:%d' % e64, '64:%d' % mod, f(pfx + mod), f((0xfe80 << 112) + mod)])
        return None if got == exp else 'derived identifiers %s, expected %s' % (got, exp)
    if a[0] == 'cmp':
        _, ver1, d1, v1, ver2, d2, v2 = a
        k1, k2 = (ver1, v1), (ver2, v2)
        exp = ' '.join([tf(k1 == k2), tf(k1 != k2), tf(k1 < k2), tf(k1 <= k2), tf(k1 > k2), tf(k1 >= k2),
                        'T' if k1 == k2 else '-'])
        return None if got == exp else 'comparison %s, expected %s' % (got, exp)
    return None


def repro(c):
    a = c.args
    if c.platform:
        return repr(a)
    if a[0] in A2_IMPL:
        return 'props.c08.A2_IMPL[%r](%r)   # %s' % (a[0], a, A2_REPRO.get(a[0], ''))
    if a[0] == 'rt':
        return 'e = EUI(%d, version=%d, dialect=<%s>); s = str(e); EUI(s), EUI(s, version=%d)' % (a[3], a[1], a[2], a[1])
    if a[0] == 'parse':
        return 'EUI(%r, version=%r)' % (a[1], a[2])
    if a[0] == 'acc':
        return 'e = EUI(%d, version=%d, dialect=<%s>); e.words, e.packed, e.bits(%r), e.bin, e.ei, e.oui' % (a[3], a[1], a[2], a[4])
    if a[0] == 'iab':
        return 'e = EUI(%d, version=%d); e.is_iab(), e.iab' % (a[2], a[1])
    if a[0] == 'fmt':
        return 'EUI(%d, version=%d, dialect=<%s>).format(%s)' % (a[3], a[1], a[2], '<%s>' % a[4] if a[4] else '')
    if a[0] == 'iab_split':
        return 'IAB.split_iab_mac(%d, strict=%r)' % (a[1], a[2])
    if a[0] == 'get':
        return 'EUI(%d, version=%d, dialect=<%s>)[%r]' % (a[3], a[1], a[2], a[4])
    if a[0] == 'set':
        return 'e = EUI(%d, version=%d, dialect=<%s>); e[%d] = %d; int(e)' % (a[3], a[1], a[2], a[4], a[5])
    if a[0] == 'derive':
        return 'e = EUI(%d, version=%d, dialect=<%s>); e.eui64(), e.modified_eui64(), e.ipv6(%d), e.ipv6_link_local()' % (a[2], a[1], a[4], a[3])
    return 'EUI(%d, version=%d, dialect=<%s>) <cmp> EUI(%d, version=%d, dialect=<%s>)' % (a[3], a[1], a[2], a[6], a[4], a[5])


# ====================================================================== audit round 2a (Model/Eui2.lean)
#
# Argument encoding inside Case.args (ints / strs / None / tuples only): a str or an int stands for itself;
# ('b', 0|1) a bool; ('f', '<float repr>') a finite float; ('N',) None; ('B', text) a bytes object;
# ('E', ver, v, dver, dialect token) an EUI object of version ver whose dialect is looked up in family dver;
# ('O', kind) an object that is neither int nor slice (index / value positions): kind str | float | none | tuple.

import re as _re

BIGS = (10 ** 4299, 10 ** 4300 - 1, 10 ** 4300, 10 ** 4300 + 12345, 10 ** 5000)      # around the int-to-str digit limit


def _pyarg(x):
    if isinstance(x, tuple):
        k = x[0]
        if k == 'b':
            return bool(x[1])
        if k == 'f':
            return float(x[1])
        if k == 'N':
            return None
        if k == 'B':
            return x[1].encode()
        if k == 'E':
            return common.make_eui(x[2], x[1], dialect_obj(x[3], x[4]))
        if k == 'O':
            return {'str': 'x', 'float': 1.0, 'none': None, 'tuple': (0, 1)}[x[1]]
        raise ValueError(x)
    return x


def _tok(x):
    """driver token of an argument"""
    if isinstance(x, tuple):
        k = x[0]
        if k == 'b':
            return str(int(x[1]))                  # a bool IS an int: the model gets 0 / 1
        if k == 'f':
            return 'f;%d' % int(float(x[1]))       # int(x): truncation towards zero (CPython's own, not netaddr)
        if k == 'N':
            return 'N'
        if k == 'B':
            return 'B'
        if k == 'E':
            return 'E;%d;%d;%s' % (x[1], x[2], x[4])
        if k == 'O':
            return 'O'
        raise ValueError(x)
    if isinstance(x, str):
        return hexs(x)
    return str(x)


def _dtok(dia):
    return '-' if dia is None else 'J' if dia == 'J' else dia[1]


def _dobj(dia):
    return None if dia is None else 5 if dia == 'J' else dialect_obj(dia[0], dia[1])


def _fields(dver, d):
    ws, nw, sep, pad, up = dinfo(dver, d)
    return '%d,%d,%s,%d,%s' % (ws, nw, hexs(sep), pad, 'U' if up else 'L')


def _show_dialect(cls):
    m = _re.match(r'^%(?:[.0]?(\d+))?([xX])$', cls.word_fmt)
    return '%d,%d,%s,%d,%s' % (cls.word_size, cls.num_words, hexs(cls.word_sep), int(m.group(1) or 0),
                               'U' if m.group(2) == 'X' else 'L')


def _show_obj(e):
    return '%d:%d:%s' % (e.version, int(e), _show_dialect(e.dialect))


DEFAULT_D = {48: 'mac_eui48', 64: 'eui64_base'}


def _ref_value_of(x, version):
    """expected (ver, value) of EUI(x, version) for an encoded argument, None = rejected (integers and grammar only)"""
    if isinstance(x, tuple):
        k = x[0]
        if k == 'b':
            return ref_construct(int(x[1]), version)
        if k == 'f':
            if version not in (48, 64):
                return None
            n = int(float(x[1]))
            return (version, n) if 0 <= n <= MAXV[version] else None
        if k == 'E':
            return (x[1], x[2]) if version is None or version == x[1] else None
        return None                                 # None, bytes
    return ref_construct(x, version)


def _nl_ok(x, version, got_vv):
    """Python's `$`: a final newline after an accepted spelling may be accepted"""
    return isinstance(x, str) and x.endswith('\n') and got_vv == show_vv(ref_construct(x[:-1], version))


def _parse_strings(rng, ver, v):
    out = list(spellings(rng, ver, v))
    out += rng.sample(near_spellings(rng, ver, v), 4)
    out += [mutate(rng, s) for s in rng.sample(out, 4)]
    s = rng.choice(out[:8])
    out += [s + '\n', s + '\n\n', '\n' + s]
    n = rng.choice((1, 5, 11, 12, 13, 16, 17))
    out.append(''.join(rng.choice('0123456789') for _ in range(n)))
    return out


def _audit2_corpus():
    out = []
    a = 0x001b774954fd
    out.append(Case('eui_cmpw 48 %d %s' % (a, hexs('001b.7749.54fd')), 'corpus/a2-11', ('cmpw', 48, 'mac_eui48', a, '001b.7749.54fd')))
    out.append(Case('eui_cmpw 64 5 5', 'corpus/a2-11', ('cmpw', 64, 'eui64_base', 5, 5)))
    out.append(Case('eui_cmpw 48 %d %s' % (a, hexs('junk')), 'corpus/a2-11', ('cmpw', 48, 'mac_eui48', a, 'junk')))
    out.append(Case('eui_ctor E;48;%d;mac_cisco 64 -' % a, 'corpus/a2-8', ('ctor', ('E', 48, a, 48, 'mac_cisco'), 64, None)))
    out.append(Case('eui_ctor E;48;%d;mac_cisco - mac_unix' % a, 'corpus/a2-8', ('ctor', ('E', 48, a, 48, 'mac_cisco'), None, (48, 'mac_unix'))))
    out.append(Case('eui_setvalue 48 %s' % hexs('1234'), 'corpus/a2-13', ('setvalue', 48, 'mac_eui48', a, '1234')))
    out.append(Case('eui_ctor %s - -' % hexs('1234'), 'corpus/a2-13', ('ctor', '1234', None, None)))
    out.append(Case('eui_ctor %d - -' % 10 ** 5000, 'corpus/a2-4', ('ctor', 10 ** 5000, None, None)))
    out.append(Case('eui_setany mac_eui48 %d i;99 O' % a, 'corpus/a2-17', ('setany', 48, 'mac_eui48', a, 99, ('O', 'str'))))
    out.append(Case('eui_setany mac_eui48 %d O 9999' % a, 'corpus/a2-17', ('setany', 48, 'mac_eui48', a, ('O', 'str'), 9999)))
    out.append(Case('eui_rt 48 eui64_base %d' % a, 'corpus/a2-2', ('rtoff', 48, 64, 'eui64_base', a)))
    out.append(Case('eui_set eui64_base %d 0 255' % a, 'corpus/a2-2', ('setoff', 48, 64, 'eui64_base', a, 0, 255)))
    return out


def _audit2_cases(rng, mult):
    cases = []
    for ver in (48, 64):
        other = 112 - ver
        vals = rng.sample(_vals(rng, ver, 1), 10 * mult)
        # ---- valid_mac / valid_eui64 on the string families of eui_parse, both functions on every string
        for v in vals:
            for s in _parse_strings(rng, ver, v):
                for fver in (48, 64):
                    cases.append(Case('eui_valid %d %s' % (fver, hexs(s)), 'valid/str%d' % fver, ('valid', fver, s)))
        for fver in (48, 64):
            for x in (5, ('N',), ('B', '00-1B-77-49-54-FD'), ('B', '0011223344556677'), ('f', '1.5'), 0x001b774954fd, ''):
                cases.append(Case('eui_valid %d %s' % (fver, hexs(x) if isinstance(x, str) else 'O'), 'valid/other', ('valid', fver, x)))
        # ---- the six operators against any operand
        for v in vals:
            d = rng.choice(dialects(ver))
            sp = spellings(rng, ver, v)
            ops = [rng.choice(sp), rng.choice(spellings(rng, ver, (v + 1) & MAXV[ver])), rng.choice(spellings(rng, other, v & MAXV[other])),
                   mutate(rng, rng.choice(sp)), 'junk', '', str(v), str(v + 1), v, v + 1, v - 1, -1, 1 << 64, (1 << 64) - 1,
                   ('b', v & 1), ('f', repr(float(v & 0xffff))), ('N',), ('B', rng.choice(sp)), rng.choice(BIGS), -rng.choice(BIGS),
                   ('E', ver, v, ver, rng.choice(dialects(ver))), ('E', other, v & MAXV[other], other, rng.choice(dialects(other)))]
            for o in rng.sample(ops, 9):
                cases.append(Case('eui_cmpw %d %d %s' % (ver, v, _tok(o)), 'cmpw/%s' % _kind(o), ('cmpw', ver, d, v, o)))
        for v in (0, 1, 5):                     # small values: int / bool / float operands that denote them
            for o in (v, ('b', v & 1), ('f', '%d.0' % v), ('f', '%d.7' % v), str(v)):
                cases.append(Case('eui_cmpw %d %d %s' % (ver, v, _tok(o)), 'cmpw/%s' % _kind(o), ('cmpw', ver, rng.choice(dialects(ver)), v, o)))
        # ---- the whole constructor
        for v in vals:
            src = ('E', ver, v, ver, rng.choice(dialects(ver)))
            off = ('E', ver, v & MAXV[48], other, rng.choice(dialects(other)))       # an object carrying an other-family dialect
            s = rng.choice(spellings(rng, ver, v))
            args = [src, off, s, mutate(rng, s), v, ('b', v & 1), ('f', repr(v / 7.0)), ('f', repr(float(v & 0xffffffff))),
                    ('f', '-0.5'), ('f', '-1.5'), ('f', repr(float(1 << ver))), ('f', repr(float((1 << ver) - 1024))),
                    ('N',), ('B', s), rng.choice(BIGS), -rng.choice(BIGS), str(v), -1, 1 << 64]
            for x in rng.sample(args, 8) + [src]:
                version = rng.choice((None, None, ver, other, 32, 0))
                dia = rng.choice((None, None, 'J', (ver, rng.choice(dialects(ver))), (other, rng.choice(dialects(other)))))
                cases.append(Case('eui_ctor %s %s %s' % (_tok(x), optint(version), _dtok(dia)), 'ctor/%s' % _kind(x),
                                  ('ctor', x, version, dia)))
        for n in BIGS:
            for version in (None, 48, 64, 3):
                for m in (n, -n):
                    cases.append(Case('eui_ctor %d %s -' % (m, optint(version)), 'ctor/bigint', ('ctor', m, version, None)))
        # ---- setters of a live object
        for v in vals:
            d = rng.choice(dialects(ver))
            w = rand_value(rng, ver)
            s = rng.choice(spellings(rng, ver, w))
            args = [s, s + '\n', rng.choice(spellings(rng, other, w & MAXV[other])), mutate(rng, s), str(w), '1234', w, -1,
                    MAXV[ver], MAXV[ver] + 1, ('b', 1), ('f', repr(w / 3.0)), ('f', repr(float(1 << ver))), ('N',), ('B', s),
                    rng.choice(BIGS), -rng.choice(BIGS), ('E', other, w & MAXV[other], other, rng.choice(dialects(other))),
                    ('E', 64, (w << 16 | 0xffff) & MAXV[64] | 1 << 63, 48, rng.choice(D48)), ('E', ver, w, ver, rng.choice(dialects(ver)))]
            for x in rng.sample(args, 7):
                cases.append(Case('eui_setvalue %d %s' % (ver, _tok(x)), 'setvalue/%s' % _kind(x), ('setvalue', ver, d, v, x)))
            dia = rng.choice((None, 'J', (ver, rng.choice(dialects(ver))), (other, rng.choice(dialects(other)))))
            cases.append(Case('eui_setdialect %d %s' % (ver, _dtok(dia)), 'setdialect', ('setdialect', ver, d, v, dia)))
        # ---- __getitem__ / __setitem__: every index kind x every value kind
        for _ in range(12 * mult):
            d = rng.choice(dialects(ver))
            ws, nw = dinfo(ver, d)[:2]
            v = rand_value(rng, ver)
            idxs = [rng.randrange(nw), nw, -1, nw + 7, ('b', 1), ('b', 0), ('O', 'str'), ('O', 'float'), ('O', 'none'), ('O', 'tuple'),
                    ('s', None, None, None), ('s', 0, 1, None), rng.choice(BIGS), -rng.choice(BIGS)]
            valsx = [0, (1 << ws) - 1, 1 << ws, -1, ('b', 1), ('O', 'str'), ('O', 'float'), ('O', 'none'), rng.choice(BIGS), -rng.choice(BIGS)]
            for i in idxs:
                if not (isinstance(i, tuple) and i[0] == 's'):
                    cases.append(Case('eui_getany %s %d %s' % (d, v, _itok(i)), 'getany/%s' % _kind(i), ('getany', ver, d, v, i)))
                for x in rng.sample(valsx, 3):
                    cases.append(Case('eui_setany %s %d %s %s' % (d, v, _itok(i), _tok(x)), 'setany/%s-%s' % (_kind(i), _kind(x)),
                                      ('setany', ver, d, v, i, x)))
        # ---- eui64() / modified_eui64(): the dialect of the result
        for v in vals:
            d = rng.choice(dialects(ver))
            cases.append(Case('eui_dobj %d %d' % (ver, v), 'dobj/%d' % ver, ('dobj', ver, d, v)))
        # ---- an object carrying a dialect of the other family: print / parse and word assignment (the model functions are the
        #      same `Eui.str` / `Eui.ofAnyF` / `Eui.setItem`; the theorems are off_family_* in Props/C08Audit2.lean)
        for v in vals:
            for d in rng.sample(dialects(other), 3):
                ws, nw = dinfo(other, d)[:2]
                for u in (v, v & MAXV[48]):
                    cases.append(Case('eui_rt %d %s %d' % (ver, d, u), 'rt/off-family', ('rtoff', ver, other, d, u)))
                    idx = rng.choice(list(range(nw)) + [nw])
                    val = rng.choice([0, 1, (1 << ws) - 1, 1 << ws, 255, rng.getrandbits(ws)])
                    cases.append(Case('eui_set %s %d %d %d' % (d, u, idx, val), 'set/off-family', ('setoff', ver, other, d, u, idx, val)))
    return cases


def _kind(x):
    if isinstance(x, tuple):
        return {'b': 'bool', 'f': 'float', 'N': 'none', 'B': 'bytes', 'E': 'eui', 'O': 'other', 's': 'slice'}[x[0]]
    if isinstance(x, str):
        return 'str'
    return 'bigint' if abs(x) >= 10 ** 4299 else 'int'


def _itok(i):
    if isinstance(i, tuple) and i[0] == 's':
        return 's;%s;%s;%s' % (optint(i[1]), optint(i[2]), optint(i[3]))
    if isinstance(i, tuple) and i[0] == 'O':
        return 'O'
    return 'i;%s' % _tok(i)


def _pyidx(i):
    if isinstance(i, tuple) and i[0] == 's':
        return slice(i[1], i[2], i[3])
    return _pyarg(i)


# ------------------------------------------------------------------ implementation side

def _impl_valid(a):
    _, fver, x = a
    f = netaddr.valid_mac if fver == 48 else netaddr.valid_eui64
    r = f(_pyarg(x))
    return tf(r) if r is True or r is False else '?not-a-bool'


def _impl_cmpw(a):
    _, ver, d, v, o = a
    import operator
    out = []
    for op in (operator.eq, operator.ne, operator.lt, operator.le, operator.gt, operator.ge):
        x = common.make_eui(v, ver, dialect_obj(ver, d))
        y = _pyarg(o)
        out.append(_try(lambda: op(x, y), lambda r: tf(r) if r is True or r is False else '?not-a-bool'))
    return ' '.join(out)


def _impl_ctor(a):
    _, x, version, dia = a
    return _try(lambda: EUI(_pyarg(x), version=version, dialect=_dobj(dia)), _show_obj)


def _impl_setvalue(a):
    _, ver, d, v, x = a
    dobj = dialect_obj(ver, d)
    e = common.make_eui(v, ver, dobj)
    y = _pyarg(x)
    try:
        e.value = y
    except Exception as ex:
        if int(e) != v or e.version != ver or e.dialect is not dobj:
            return '?changed-on-error'
        return '!' + common.errname(ex)
    if e.dialect is not dobj:
        return '?dialect-changed'
    return _vv(e)


def _impl_setdialect(a):
    _, ver, d, v, dia = a
    dobj = dialect_obj(ver, d)
    e = common.make_eui(v, ver, dobj)
    try:
        e.dialect = _dobj(dia)
    except Exception as ex:
        if int(e) != v or e.version != ver or e.dialect is not dobj:
            return '?changed-on-error'
        return '!' + common.errname(ex)
    if int(e) != v or e.version != ver:
        return '?value-changed'
    return _show_dialect(e.dialect)


def _impl_getany(a):
    _, ver, d, v, i = a
    e = common.make_eui(v, ver, dialect_obj(ver, d))
    return _try(lambda: e[_pyidx(i)], lambda r: fwords(r) if isinstance(r, list) else str(int(r)))


def _impl_setany(a):
    _, ver, d, v, i, x = a
    e = common.make_eui(v, ver, dialect_obj(ver, d))
    try:
        e[_pyidx(i)] = _pyarg(x)
    except Exception as ex:
        return '!' + common.errname(ex) if int(e) == v else '?changed-on-error'
    return str(int(e)) if e.version == ver else '?version'


def _impl_dobj(a):
    _, ver, d, v = a
    e = common.make_eui(v, ver, dialect_obj(ver, d))
    return _try(e.eui64, _show_obj) + ' ' + _try(e.modified_eui64, _show_obj)


def _impl_rtoff(a):
    _, ver, dver, d, v = a
    dobj = dialect_obj(dver, d)
    e = common.make_eui(v, ver, dobj)
    try:
        s = str(e)
    except Exception as ex:
        return '!' + common.errname(ex)
    return ' '.join([hexs(s), _try(lambda: EUI(s), _vv), _try(lambda: EUI(s, version=ver), _vv)])


def _impl_setoff(a):
    _, ver, dver, d, v, idx, val = a
    e = common.make_eui(v, ver, dialect_obj(dver, d))
    try:
        e[idx] = val
    except Exception as ex:
        return '!' + common.errname(ex) if int(e) == v else '?changed-on-error'
    return str(int(e)) if e.version == ver else '?version'


A2_IMPL = {'valid': _impl_valid, 'cmpw': _impl_cmpw, 'ctor': _impl_ctor, 'setvalue': _impl_setvalue,
           'setdialect': _impl_setdialect, 'getany': _impl_getany, 'setany': _impl_setany, 'dobj': _impl_dobj,
           'rtoff': _impl_rtoff, 'setoff': _impl_setoff}
A2_REPRO = {'valid': 'valid_mac / valid_eui64 (arg)', 'cmpw': 'EUI(v, version, dialect) <six operators> operand',
            'ctor': 'EUI(arg, version=, dialect=)', 'setvalue': 'e.value = arg', 'setdialect': 'e.dialect = arg',
            'getany': 'e[idx]', 'setany': 'e[idx] = value', 'dobj': 'e.eui64(), e.modified_eui64() with .dialect',
            'rtoff': 'str(EUI(v, version, dialect of the other family)) and parse back', 'setoff': 'e[idx] = value under an other-family dialect'}


# ------------------------------------------------------------------ oracle (integers and the grammar only)

def _or_valid(a, got):
    _, fver, x = a
    if not isinstance(x, str):
        exp = 'F'
    else:
        exp = tf(ref_parse(fver, x) is not None)
        if got != exp and x.endswith('\n') and got == tf(ref_parse(fver, x[:-1]) is not None):
            return None
    return None if got == exp else 'valid_%s(%r) gave %s, expected %s' % ('mac' if fver == 48 else 'eui64', x, got, exp)


def _cmp6(k1, k2):
    return ' '.join([tf(k1 == k2), tf(k1 != k2), tf(k1 < k2), tf(k1 <= k2), tf(k1 > k2), tf(k1 >= k2)])


def _or_cmpw(a, got):
    _, ver, d, v, o = a
    k2 = _ref_value_of(o, None)
    if isinstance(o, tuple) and o[0] == 'f':
        k2 = None                                   # a float without a version is no EUI
    exps = ['F T ! ! ! !' if k2 is None else _cmp6((ver, v), k2)]
    if isinstance(o, str) and o.endswith('\n'):
        k3 = ref_construct(o[:-1], None)
        exps.append('F T ! ! ! !' if k3 is None else _cmp6((ver, v), k3))
    return None if got in exps else 'comparison with %r gave %s, expected %s' % (o, got, exps[0])


def _exp_dialect(ver, dia):
    if dia == 'J':
        return None
    if dia is None:
        return _fields(ver, DEFAULT_D[ver])
    return _fields(dia[0], dia[1])


def _or_ctor(a, got):
    _, x, version, dia = a
    r = _ref_value_of(x, version)
    if r is None:
        exp = '!'
    elif isinstance(x, tuple) and x[0] == 'E':
        exp = '%d:%d:%s' % (r[0], r[1], _fields(x[3], x[4]))          # copy construction keeps the dialect
    else:
        dd = _exp_dialect(r[0], dia)
        exp = '!' if dd is None else '%d:%d:%s' % (r[0], r[1], dd)
    if got == exp:
        return None
    if isinstance(x, str) and x.endswith('\n'):
        r = ref_construct(x[:-1], version)
        dd = _exp_dialect(r[0], dia) if r else None
        if got == ('!' if dd is None else '%d:%d:%s' % (r[0], r[1], dd)):
            return None
    return 'EUI(%r, version=%r, dialect=%r) gave %s, expected %s' % (x, version, dia, got, exp)


def _or_setvalue(a, got):
    _, ver, d, v, x = a
    if isinstance(x, str):
        w = ref_parse(ver, x)
        if w is None and x.endswith('\n'):
            w2 = ref_parse(ver, x[:-1])
            if w2 is not None and got == '%d:%d' % (ver, w2):
                return None
    elif isinstance(x, tuple) and x[0] == 'E':
        w = x[2] if x[2] <= MAXV[ver] else None
    else:
        r = _ref_value_of(x, ver)
        w = None if r is None else r[1]
    exp = '!' if w is None else '%d:%d' % (ver, w)
    return None if got == exp else 'e.value = %r on an EUI-%d gave %s, expected %s' % (x, ver, got, exp)


def _or_setdialect(a, got):
    _, ver, d, v, dia = a
    exp = _exp_dialect(ver, dia) or '!'
    return None if got == exp else 'e.dialect = %r gave %s, expected %s' % (dia, got, exp)


def _is_intlike(x):
    return isinstance(x, int) or (isinstance(x, tuple) and x[0] == 'b')


def _or_getany(a, got):
    _, ver, d, v, i = a
    ws, nw = dinfo(ver, d)[:2]
    if not _is_intlike(i):
        exp = '!'
    else:
        k = i if isinstance(i, int) else int(i[1])
        exp = str(ref_words(v, ws, nw)[k]) if -nw <= k < nw else '!'
    return None if got == exp else 'e[%r] gave %s, expected %s' % (i, got, exp)


def _or_setany(a, got):
    _, ver, d, v, i, x = a
    ws, nw = dinfo(ver, d)[:2]
    if not (_is_intlike(i) and _is_intlike(x)):
        ok = ('!',)
    else:
        k = i if isinstance(i, int) else int(i[1])
        val = x if isinstance(x, int) else int(x[1])
        if 0 <= val < (1 << ws) and -nw <= k < nw:
            sh = ws * (nw - 1 - k % nw)
            new = str((v & ~(((1 << ws) - 1) << sh)) | (val << sh))
            ok = (new,) if k >= 0 else (new, '!')
        else:
            ok = ('!',)
    return None if got in ok else 'e[%r] = %r gave %s, expected %s' % (i, x, got, ok[0])


def _or_dobj(a, got):
    _, ver, d, v = a
    e64 = (((v >> 24) << 40) | (0xfffe << 24) | (v & 0xffffff)) if ver == 48 else v
    dd = _fields(64, 'eui64_base')
    exp = '64:%d:%s 64:%d:%s' % (e64, dd, e64 ^ (1 << 57), dd)
    return None if got == exp else 'eui64() / modified_eui64() objects %s, expected %s' % (got, exp)


def _or_rtoff(a, got):
    _, ver, dver, d, v = a
    ws, nw = dinfo(dver, d)[:2]
    if v >= (1 << (ws * nw)):
        exp = '!'
    else:
        s = ref_print(dver, d, v)
        exp = ' '.join([hexs(s), show_vv(ref_construct(s, None)), show_vv(ref_construct(s, ver))])
    return None if got == exp else 'print/parse under an other-family dialect gave %s, expected %s' % (got, exp)


def _or_setoff(a, got):
    _, ver, dver, d, v, idx, val = a
    ws, nw = dinfo(dver, d)[:2]
    if 0 <= val < (1 << ws) and 0 <= idx < nw and v < (1 << (ws * nw)):
        sh = ws * (nw - 1 - idx)
        exp = str((v & ~(((1 << ws) - 1) << sh)) | (val << sh))
    else:
        exp = '!'
    return None if got == exp else 'word assignment under an other-family dialect gave %s, expected %s' % (got, exp)


A2_ORACLE = {'valid': _or_valid, 'cmpw': _or_cmpw, 'ctor': _or_ctor, 'setvalue': _or_setvalue, 'setdialect': _or_setdialect,
             'getany': _or_getany, 'setany': _or_setany, 'dobj': _or_dobj, 'rtoff': _or_rtoff, 'setoff': _or_setoff}
