"""C05 — cidr_merge / iprange_to_cidrs / IPRange.cidrs / glob_to_cidrs / iter_unique_ips:
the unique minimal CIDR cover of a union of intervals.

Ops (driver protocol lines):
  merge [item,...]                  item = N:ver:value:plen | R:ver:lo:hi      -> [ver:value/plen,...]
  range2cidrs N:ver:v1:p1 N:ver:v2:p2                                           -> [ver:value/plen,...]
  range_cidrs R:ver:lo:hi                                                       -> [ver:value/plen,...]
  glob2cidrs [l0:h0,l1:h1,l2:h2,l3:h3]                                          -> [4:value/plen,...]
  unique_ips [item,...]                                                         -> [ver:value,...]

args (replay file):
  ('merge', items, perm)   items = tuple of item tuples, perm = tuple of indices into items
                           (a shuffle with duplicates, used by the oracle for the invariance check)
  ('r2c', ver, e1, e2)     endpoint e = (kind, value, plen), kind in A (IPAddress) SA (address string)
                           N (IPNetwork object, host bits kept) SN ('addr/plen' string, host bits kept)
  ('rcidrs', ver, lo, hi)
  ('glob', text)
  ('uniq', items)
item tuples: ('A', ver, value) ('SA', ver, value) ('N', ver, value, plen) ('SN', ver, value, plen)
             ('R', ver, lo, hi)
raw cases only (op merge_raw: the model does the IPNetwork(x) coercion itself, Model/Coerce.lean):
             ('SM', ver, value, plen) 'addr/netmask'   ('SH', ver, value, plen) 'addr/hostmask' (0 < plen < width)
             ('SP', 4, value, plen) partial IPv4 'a.b/plen' (trailing zero octets dropped)
             ('SZ', 4, value, plen) zero-padded octets '010.001.000.000/plen'
             ('SW', ver, value, plen) blanks round the parts, ' a.b.c.d / plen ' (IPv4: read through
                                      expand_partial_address / int(); IPv6: round the prefix only)
             ('I', ver, value) a bare int (cidr_merge -> IPNetwork(int) -> TypeError)
             ('SX', ver, text) a text no constructor accepts (AddrFormatError)
  merge_raw [item,...]   item = S:<hex of utf-8> | I:<int> | A:ver:value | N:ver:value:plen | R:ver:lo:hi
"""
import ipaddress as _stdip
import itertools as _itertools
import random as _random

import common
from common import Case, W, rand_value, rand_block, harvest_literals, plist, errname
import netaddr
from netaddr import IPAddress, IPNetwork, IPRange, cidr_merge, iprange_to_cidrs, iter_unique_ips, glob_to_cidrs

ID = 'C05'
RULE = ('intervals [lo,hi]: every trailing-zero class 0..width of lo and of hi+1 x lengths {1,2,3,2^k,2^k-1,2^k+1}, '
        'intervals touching 0 / the top address / the whole space, lo==hi, random, both families, fed to '
        'iprange_to_cidrs (IPAddress / string endpoints), IPRange.cidrs and single-range cidr_merge; iprange_to_cidrs '
        'with network endpoints built relative to each other (equal, nested either way, sibling, adjacent, one apart, '
        'far, host bits, /0, /width, the fixed ::1/46..::2/43 shape) with start.first <= end.last; cidr_merge lists of '
        '0..8 (some up to 20) IPAddress / IPNetwork-with-host-bits / IPRange / string items clustered round one or two '
        'hot windows per family (bottom, top, 2^32 boundary of IPv6, random): recursive sibling partitions, nested, '
        'duplicates, adjacent at last+1, one apart at last+2, overlapping ranges, whole space, IPv6 items whose integer '
        'equals an IPv4 last+1, every list also re-merged shuffled+duplicated and merged twice; valid IPv4 globs of '
        'every shape; iter_unique_ips on unions of <= 4096 addresses; ~30% of the cidr_merge lists go to the model with '
        'their strings / IPAddress objects / ints uncoerced (op merge_raw), with netmask, hostmask, partial and '
        'zero-padded IPv4 spellings and, in a tenth of them, one bare int or unparsable text (must raise). '
        'Expected lists come from an integer-only greedy '
        'reference. non-trivial = distinct case whose implementation output is not an error')

_M = {4: (1 << 32) - 1, 6: (1 << 128) - 1}
_CAP = 4096          # iter_unique_ips is only generated for unions of at most this many addresses


# ---------------------------------------------------------------- integer reference (no netaddr)

def ref_cidrs(lo, hi, w):
    """greedy textbook splitter: the minimal list of aligned blocks (first, plen) covering [lo, hi]"""
    out = []
    while lo <= hi:
        k = ((lo & -lo).bit_length() - 1) if lo else w
        while (1 << k) > hi - lo + 1:
            k -= 1
        out.append((lo, w - k))
        lo += 1 << k
    return out


def ref_union(ivs):
    """(ver, first, last) triples -> sorted disjoint non-adjacent intervals, v4 first"""
    out = []
    for ver in (4, 6):
        m = []
        for f, l in sorted((f, l) for v, f, l in ivs if v == ver):
            if m and f <= m[-1][1] + 1:
                if l > m[-1][1]:
                    m[-1][1] = l
            else:
                m.append([f, l])
        out += [(ver, f, l) for f, l in m]
    return out


def ref_merge(ivs):
    out = []
    for ver, f, l in ref_union(ivs):
        out += [(ver, a, p) for a, p in ref_cidrs(f, l, W[ver])]
    return out


def _blk_first(ver, v, p):
    h = W[ver] - p
    return (v >> h) << h


def _blk_last(ver, v, p):
    h = W[ver] - p
    return ((v >> h) << h) + (1 << h) - 1


_NETKINDS = ('N', 'SN', 'SM', 'SH', 'SP', 'SZ', 'SW', 'SPB', 'SZB')
_BADKINDS = ('I', 'SX')


def _item_iv(it):
    k, ver = it[0], it[1]
    if k in ('A', 'SA'):
        return ver, it[2], it[2]
    if k in _NETKINDS:
        return ver, _blk_first(ver, it[2], it[3]), _blk_last(ver, it[2], it[3])
    if k != 'R':
        raise ValueError(it)
    return ver, it[2], it[3]


def _exp_blocks(blocks):
    return plist('%d:%d/%d' % b for b in blocks)


# ---------------------------------------------------------------- text / protocol encoding

def _fmt(ver, v):
    """address text, written by the harness itself (stdlib only for the compressed IPv6 spelling)"""
    if ver == 4:
        return '%d.%d.%d.%d' % (v >> 24, (v >> 16) & 255, (v >> 8) & 255, v & 255)
    if v % 3 == 0:
        return _stdip.IPv6Address(v).compressed
    return ':'.join('%x' % ((v >> (16 * (7 - i))) & 0xffff) for i in range(8))


def _item_tok(it):
    k, ver = it[0], it[1]
    if k in ('A', 'SA'):
        return 'N:%d:%d:%d' % (ver, it[2], W[ver])
    if k in ('N', 'SN'):
        return 'N:%d:%d:%d' % (ver, it[2], it[3])
    return 'R:%d:%d:%d' % (ver, it[2], it[3])


def _text(it):
    """the string spelling of a string-kind item, written here from its integers"""
    k, ver = it[0], it[1]
    if k == 'SA':
        return _fmt(ver, it[2])
    if k == 'SX':
        return it[2]
    v, p = it[2], it[3]
    host = (1 << (W[ver] - p)) - 1
    if k == 'SN':
        return '%s/%d' % (_fmt(ver, v), p)
    if k == 'SM':
        return '%s/%s' % (_fmt(ver, v), _fmt(ver, _M[ver] ^ host))
    if k == 'SH':
        return '%s/%s' % (_fmt(ver, v), _fmt(ver, host))
    if k == 'SW':
        return (' %s / %d ' if ver == 4 else '%s/ %d ') % (_fmt(ver, v), p)
    octs = [v >> 24, (v >> 16) & 255, (v >> 8) & 255, v & 255]
    if k == 'SP':
        while len(octs) > 1 and octs[-1] == 0:
            octs.pop()
        return '%s/%d' % ('.'.join('%d' % o for o in octs), p)
    if k == 'SZ':
        return '%s/%d' % ('.'.join('%03d' % o for o in octs), p)
    if k == 'SPB':          # a bare partial address, no '/': IPNetwork('10.1') is 10.1.0.0/32
        while len(octs) > 1 and octs[-1] == 0:
            octs.pop()
        return '.'.join('%d' % o for o in octs)
    if k == 'SZB':          # a bare address with zero-padded octets, no '/'
        return '.'.join('%03d' % o for o in octs)
    raise ValueError(it)


def _raw_tok(it):
    """merge_raw token: the argument as the caller wrote it, coercion left to the model"""
    k, ver = it[0], it[1]
    if k == 'A':
        return 'A:%d:%d' % (ver, it[2])
    if k == 'I':
        return 'I:%d' % it[2]
    if k == 'N':
        return 'N:%d:%d:%d' % (ver, it[2], it[3])
    if k == 'R':
        return 'R:%d:%d:%d' % (ver, it[2], it[3])
    return 'S:' + _text(it).encode('utf-8').hex()


def _obj(it):
    k, ver = it[0], it[1]
    if k == 'A':
        return IPAddress(it[2], ver)
    if k == 'N':
        return common.make_net(ver, it[2], it[3])
    if k == 'R':
        return common.make_range(ver, it[2], it[3])
    if k == 'I':
        return it[2]
    return _text(it)


def _src(it):
    k, ver = it[0], it[1]
    if k == 'A':
        return 'IPAddress(%d, %d)' % (it[2], ver)
    if k == 'N':
        return 'IPNetwork((%d, %d), version=%d)' % (it[2], it[3], ver)
    if k == 'R':
        return 'IPRange(IPAddress(%d, %d), IPAddress(%d, %d))' % (it[2], ver, it[3], ver)
    return repr(_obj(it))


def _ep_item(ver, e):
    """range2cidrs endpoint (kind, value, plen) -> item tuple"""
    k, v, p = e
    if k in ('A', 'SA'):
        return (k, ver, v)
    return (k, ver, v, p)


def _glob_pairs(text):
    out = []
    for o in text.split('.'):
        if o == '*':
            out.append((0, 255))
        elif '-' in o:
            a, b = o.split('-')
            out.append((int(a), int(b)))
        else:
            out.append((int(o), int(o)))
    return out


def _show_blocks(xs):
    return plist('%d:%d/%d' % (x.version, x.value, x.prefixlen) for x in xs)


# ---------------------------------------------------------------- case constructors

def _fam(items):
    vs = set(it[1] for it in items)
    return 'empty' if not vs else ('mixed' if len(vs) > 1 else 'v%d' % vs.pop())


def _perm(rng, n):
    idx = list(range(n))
    if n:
        idx += [rng.randrange(n) for _ in range(rng.randrange(0, min(n, 4) + 1))]
    rng.shuffle(idx)
    return tuple(idx)


_BAD_TEXTS = ('', 'bad', '1.2.3.4/33', '1.2.3.4/', '1.2.3.256', '1.2.3.4/255.0.255.0', '::1/129', '1.2.3.4//8', ':::',
              '1.2.3.4/-1', '1.2.3.4.5', 'fe80::1::2/64', '::g/8', '10.0.0.0/0.255.0.255', '/8')


def _respell(rng, it):
    """another spelling of the same network (raw cases)"""
    k, ver = it[0], it[1]
    if ver == 4 and (k in ('A', 'SA') or (k in ('N', 'SN') and it[3] == 32)) and rng.random() < 0.3:
        # bare texts (no '/') that IPNetwork() and IPAddress() read differently: partial addresses are padded on the
        # right by the one and filled in the middle by the other; zero-padded octets are decimal for the one and octal
        # for the other.  cidr_merge documents IPNetwork() semantics.
        v = it[2]
        return ('SPB' if (v & 255 == 0 and rng.random() < 0.7) else 'SZB', 4, v, 32)
    if k not in ('N', 'SN') or rng.random() < (0.65 if k == 'N' else 0.4):
        return it
    v, p = it[2], it[3]
    kinds = ['SN', 'SM', 'SW']
    if 0 < p < W[ver]:
        kinds.append('SH')
    if ver == 4:
        kinds.append('SZ')
        if v & 255 == 0:
            kinds += ['SP', 'SP']
    return (rng.choice(kinds), ver, v, p)


def _merge_case(rng, items, scn, raw=None):
    items = list(items)
    if raw is None:
        raw = rng.random() < 0.3
    if not raw:
        items = tuple(items)
        return Case('merge ' + plist(_item_tok(it) for it in items), 'merge/%s/%s' % (scn, _fam(items)),
                    ('merge', items, _perm(rng, len(items))))
    items = [_respell(rng, it) for it in items]
    bad = rng.random() < 0.1
    if bad:
        for _ in range(rng.choice((1, 1, 2))):
            ver = rng.choice((4, 6))
            if rng.random() < 0.5:
                x = ('I', ver, rng.choice((0, 1, 5, _M[4], _M[4] + 1, rand_value(rng, W[ver]))))
            else:
                x = ('SX', ver, rng.choice(_BAD_TEXTS))
            items.insert(rng.randrange(len(items) + 1), x)
    items = tuple(items)
    return Case('merge_raw ' + plist(_raw_tok(it) for it in items),
                'merge_raw/%s/%s' % ('bad' if bad else scn, _fam(items)), ('merge', items, _perm(rng, len(items))))


def _r2c_case(ver, e1, e2):
    w = W[ver]
    kind = 'addr' if e1[2] == w and e2[2] == w else 'net'
    return Case('range2cidrs N:%d:%d:%d N:%d:%d:%d' % (ver, e1[1], e1[2], ver, e2[1], e2[2]),
                'r2c/%s/v%d' % (kind, ver), ('r2c', ver, tuple(e1), tuple(e2)))


def _rcidrs_case(ver, lo, hi):
    return Case('range_cidrs R:%d:%d:%d' % (ver, lo, hi), 'rcidrs/v%d' % ver, ('rcidrs', ver, lo, hi))


def _glob_case(text):
    return Case('glob2cidrs ' + plist('%d:%d' % p for p in _glob_pairs(text)), 'glob', ('glob', text))


def _uniq_case(items):
    items = tuple(items)
    return Case('unique_ips ' + plist(_item_tok(it) for it in items), 'uniq/' + _fam(items), ('uniq', items))


def corpus():
    w6 = (1 << 128) - 1
    m4 = (1 << 32) - 1
    r = _random.Random('C05/corpus')
    return [
        # fixed finding F2: iprange_to_cidrs('::1/46', '::2/43') returned [::/45]
        _r2c_case(6, ('SN', 1, 46), ('SN', 2, 43)),
        _r2c_case(6, ('N', 1, 46), ('N', 2, 43)),
        _r2c_case(4, ('SN', 0xC0000200, 24), ('SN', 0xC0000200, 24)),          # identical /24s
        _r2c_case(4, ('N', 0xC0000201, 24), ('N', 0xC00002FE, 24)),            # identical /24s, host bits
        _r2c_case(4, ('SN', 0x0A000000, 8), ('SN', 0x0A010000, 16)),           # ('10.0.0.0/8', '10.1.0.0/16')
        _r2c_case(4, ('SN', 0x0A010000, 16), ('SN', 0x0A000000, 8)),
        _r2c_case(4, ('SA', 0, 32), ('SA', m4, 32)),                           # whole v4
        _r2c_case(6, ('SA', 0, 128), ('SA', w6, 128)),                         # whole v6
        _r2c_case(4, ('N', 5, 0), ('N', 9, 0)),
        _r2c_case(6, ('A', 1, 128), ('A', w6 - 1, 128)),
        _rcidrs_case(4, m4 - 2, m4),                                           # IPRange('255.255.255.253','255.255.255.255')
        _rcidrs_case(4, 0, m4),
        _rcidrs_case(6, 0, w6),
        _rcidrs_case(6, 1, w6),
        _merge_case(r, [('SN', 4, 0xC0000200, 25), ('SN', 4, 0xC0000280, 25)], 'sib', raw=False),
        _merge_case(r, [], 'hot', raw=False),
        _merge_case(r, [('SN', 4, m4 - 1, 31), ('SA', 6, 0)], 'xfam', raw=False),         # v4 top block plus '::'
        _merge_case(r, [('A', 4, m4), ('A', 6, 1 << 32), ('A', 6, 0)], 'xfam', raw=False),
        _merge_case(r, [('N', 4, 0xC0000205, 24), ('R', 4, 0xC0000300, 0xC00003FF), ('A', 4, 0xC0000400)], 'adj', raw=False),
        _merge_case(r, [('N', 4, 0, 0), ('N', 6, 77, 0), ('A', 4, 9)], 'whole', raw=False),
        # the coercion glue through the model: every spelling, an int (TypeError), order of the first error
        _merge_case(r, [('SM', 4, 0xC0000205, 25), ('SH', 4, 0xC0000280, 25), ('A', 4, 0xC0000300),
                        ('SP', 4, 0x0A000000, 8), ('SZ', 4, 0x0A010203, 32), ('SA', 6, 1), ('R', 6, 2, 3),
                        ('SW', 4, 0x0B000001, 8), ('SW', 6, 1 << 64, 64)], 'forms', raw=True),
        _merge_case(r, [('SN', 4, 0xC0000200, 25), ('I', 4, 5)], 'int', raw=True),
        _merge_case(r, [('I', 4, 5), ('SX', 4, 'bad')], 'int', raw=True),
        _merge_case(r, [('SX', 4, 'bad'), ('I', 4, 5)], 'int', raw=True),
        _merge_case(r, [('SX', 4, '1.2.3.4/33'), ('N', 4, 5, 32)], 'int', raw=True),
        _glob_case('*.*.*.*'),
        _glob_case('192.0.2.1'),
        _glob_case('192.0.2.0-31'),
        _glob_case('192.0-1.*.*'),
        _uniq_case([('SN', 4, 0xC0000200, 30), ('A', 4, 0xC0000203), ('R', 4, 0xC0000202, 0xC0000205), ('A', 6, 1)]),
    ]


# ---------------------------------------------------------------- interval generators

def _aligned(rng, w, a):
    """a value in [0, 2^w) with exactly `a` trailing zero bits (a == w: 0)"""
    if a >= w:
        return 0
    n = w - a
    odd = rng.choice([rng.getrandbits(n), rng.getrandbits(rng.randrange(1, n + 1)), (1 << n) - 1]) | 1
    return odd << a


def _length(rng, w):
    r = rng.random()
    if r < 0.2:
        return rng.choice((1, 2, 3))
    k = rng.randrange(0, w + 1) if r < 0.7 else rng.randrange(0, min(w, 12) + 1)
    return max(1, (1 << k) + rng.choice((-1, 0, 1)))


def _intervals(rng, ver, mult):
    w = W[ver]
    m = _M[ver]
    h = m >> 1
    ivs = [(0, m), (0, 0), (m, m), (0, 1), (m - 1, m), (1, m), (0, m - 1), (1, m - 1), (0, h), (h + 1, m), (h, h + 1),
           (1, 1), (1, 2), (m - 2, m - 1)]
    for a in range(w + 1):
        for _ in range(3 * mult):
            lo = _aligned(rng, w, a)                   # alignment class of lo
            ivs.append((lo, min(m, lo + _length(rng, w) - 1)))
            e = (1 << w) if a == w else _aligned(rng, w, a)   # alignment class of hi+1
            ivs.append((max(0, e - _length(rng, w)), e - 1))
        if rng.random() < 0.5:                          # both ends in chosen classes
            lo = _aligned(rng, w, a)
            b = rng.randrange(0, w + 1)
            e = (1 << w) if b == w else _aligned(rng, w, b)
            if lo < e:
                ivs.append((lo, e - 1))
    for k in rng.sample(range(w + 1), min(w + 1, 12 * mult)):
        for d in (-1, 0, 1):
            n = (1 << k) + d
            if 1 <= n <= m + 1:
                ivs.append((0, n - 1))                  # touching 0
                ivs.append((m + 1 - n, m))              # touching the top address
    for _ in range(30 * mult):
        a, b = rand_value(rng, w), rand_value(rng, w)
        ivs.append((min(a, b), max(a, b)))
        ivs.append((a, a))
        ivs.append((a, min(m, a + rng.choice((1, 2, 3, 255, 256, 257)))))
    return ivs


def _addr_ep(rng, v, w):
    return (rng.choice(('A', 'A', 'SA', 'N', 'SN')), v, w)


def _gen_intervals(rng, ver, mult):
    w = W[ver]
    cases = []
    for lo, hi in _intervals(rng, ver, mult):
        r = rng.random()
        if r < 0.45:
            cases.append(_r2c_case(ver, _addr_ep(rng, lo, w), _addr_ep(rng, hi, w)))
        elif r < 0.8:
            cases.append(_rcidrs_case(ver, lo, hi))
        else:
            cases.append(_merge_case(rng, [('R', ver, lo, hi)], 'single'))
    return cases


# ---------------------------------------------------------------- iprange_to_cidrs with network endpoints

def _net_ep(rng, ver, v, p):
    w = W[ver]
    if p == w and rng.random() < 0.3:
        return (rng.choice(('A', 'SA')), v, p)
    return (rng.choice(('N', 'N', 'SN')), v, p)


def _gen_netpairs(rng, ver, mult):
    w = W[ver]
    m = _M[ver]
    cases = []
    for _ in range(450 * mult):
        r = rng.random()
        if r < 0.12:
            # the fixed-finding shape: end block contains the start block, both carry host bits
            p2 = rng.randrange(0, w)
            p1 = rng.randrange(p2 + 1, w + 1)
            base = rng.choice((0, _blk_first(ver, rand_value(rng, w), p2)))
            hb = w - p2
            v1 = base | rng.getrandbits(rng.randrange(1, hb + 1))
            v2 = base | rng.getrandbits(rng.randrange(1, hb + 1))
            s, e = (v1, p1), (v2, p2)
            if rng.random() < 0.3:
                s, e = e, s
        elif r < 0.2:
            s = (rand_value(rng, w), rng.choice((0, 0, 1, w, w - 1)))
            e = (rand_value(rng, w), rng.choice((0, 1, w, w, w - 1)))
        else:
            s = rand_block(rng, ver)
            e = rand_block(rng, ver, near=s)
        s = (s[0] & m, s[1])
        e = (e[0] & m, e[1])
        if _blk_first(ver, *s) > _blk_last(ver, *e):
            s, e = e, s
        cases.append(_r2c_case(ver, _net_ep(rng, ver, *s), _net_ep(rng, ver, *e)))
    return cases


# ---------------------------------------------------------------- cidr_merge lists

def _hot(rng, ver, kmax=10):
    """a hot window (base, k): 2^k addresses starting at base (clamped into the family)"""
    w = W[ver]
    m = _M[ver]
    k = rng.randrange(2, kmax + 1)
    r = rng.random()
    if r < 0.15:
        base = 0
    elif r < 0.3:
        base = m + 1 - (1 << k)
    elif r < 0.42 and ver == 6:
        base = (1 << 32) - rng.choice((0, 1 << (k - 1), 1 << k))      # round the top of the IPv4 integers
    else:
        j = rng.randrange(k, w)
        base = (rng.getrandbits(w) >> j) << j
        if rng.random() < 0.4:
            base -= 1 << (k - 1)                                      # straddle a big alignment boundary
    return min(max(base, 0), m + 1 - (1 << k)), k


def _clamp(ver, v):
    return min(max(v, 0), _M[ver])


def _blk(ver, v, p):
    return ('blk', ver, _blk_first(ver, _clamp(ver, v), p), p)


def _hot_shape(rng, ver, hot, small=False):
    w = W[ver]
    m = _M[ver]
    base, k = hot
    size = 1 << k
    r = rng.random()
    if r < 0.22:
        return _blk(ver, base + rng.randrange(-2, size + 2), w)
    if r < 0.58:
        s = rng.randrange(0, k + 1)
        j = rng.randrange(-1, (size >> s) + 1)
        return _blk(ver, base + j * (1 << s), w - s)
    if r < 0.66 and not small:
        s = rng.randrange(k, min(w, k + 6) + 1)
        return _blk(ver, base, w - s)
    if r < 0.95 or small:
        a = _clamp(ver, base + rng.randrange(-2, size + 2))
        n = rng.choice((1, 2, 3, 4, 5, 7, 8, 9, max(1, size // 2), size, rng.randrange(1, size + 1)))
        return ('rng', ver, a, min(m, a + n - 1))
    if r < 0.97:
        return _blk(ver, rng.getrandbits(w), 0)
    v, p = rand_block(rng, ver)
    return _blk(ver, v, p)


def _dress(rng, shape):
    """shape ('blk', ver, first, plen) | ('rng', ver, lo, hi) -> item tuple of a random object kind"""
    ver = shape[1]
    w = W[ver]
    if shape[0] == 'rng':
        return ('R', ver, shape[2], shape[3])
    first, p = shape[2], shape[3]
    if p == w:
        k = rng.choice(('A', 'A', 'SA', 'N', 'SN', 'R'))
        if k in ('A', 'SA'):
            return (k, ver, first)
        if k == 'R':
            return ('R', ver, first, first)
        return (k, ver, first, w)
    hb = w - p
    host = rng.choice((0, 0, 1, (1 << hb) - 1, rng.getrandbits(hb), rng.getrandbits(hb)))
    r = rng.random()
    if r < 0.5:
        return ('N', ver, first | host, p)
    if r < 0.8:
        return ('SN', ver, first | host, p)
    return ('R', ver, first, first + (1 << hb) - 1)


def _shape_iv(shape):
    if shape[0] == 'rng':
        return shape[2], shape[3]
    return shape[2], _blk_last(shape[1], shape[2], shape[3])


def _split(rng, first, s, depth):
    if s == 0 or depth == 0 or rng.random() < 0.3:
        return [(first, s)]
    return _split(rng, first, s - 1, depth - 1) + _split(rng, first + (1 << (s - 1)), s - 1, depth - 1)


def _notable(rng, ver):
    """a boundary value in [1, max]: powers of two, 2^32 inside IPv6, large literals of the source, structured values"""
    w = W[ver]
    r = rng.random()
    if r < 0.3:
        b = 1 << rng.randrange(0, w)
    elif r < 0.5:
        b = (1 << 32) if ver == 6 else (1 << 31)
    elif r < 0.7:
        lits = [v for v in harvest_literals() if 256 <= v <= _M[ver]]
        b = rng.choice(lits) if lits else 1 << (w - 1)
    else:
        b = rand_value(rng, w)
    return min(max(b, 1), _M[ver])


def _scn_sib(rng, ver, hot):
    """a random binary partition of one block: siblings combine recursively up several levels"""
    w = W[ver]
    m = _M[ver]
    base, k = hot
    r = rng.random()
    if r < 0.2:
        b = _notable(rng, ver)                                 # two halves meeting at a notable boundary
        t = (b & -b).bit_length() - 1
        s, first = t + 1, b - (1 << t)
    elif r < 0.35:
        s = rng.randrange(1, w + 1)                            # big blocks, anywhere
        first = _blk_first(ver, rand_value(rng, w), w - s)
    else:
        s = rng.randrange(1, min(k, 7) + 1)
        first = _blk_first(ver, base + rng.randrange(0, 1 << k), w - s)
    parts = _split(rng, first, s, 4)
    shapes = [('blk', ver, f, w - t) for f, t in parts]
    r = rng.random()
    if r < 0.3 and len(shapes) > 1:
        del shapes[rng.randrange(len(shapes))]                 # a hole: must not combine all the way
    r = rng.random()
    if r < 0.3 and s < w:
        shapes.append(_blk(ver, first ^ (1 << s), w - s))      # the sibling of the whole block: one level more
    elif r < 0.5:
        nxt = first + (1 << s)
        if nxt <= m:
            shapes.append(_blk(ver, nxt, w - s))               # next block of the same size (sibling or not)
    elif r < 0.6 and first > 0:
        shapes.append(_blk(ver, first - 1, w - rng.randrange(0, s + 1)))
    rng.shuffle(shapes)
    return shapes


def _start_block(rng, ver, f):
    """a block starting exactly at f"""
    w = W[ver]
    tz = ((f & -f).bit_length() - 1) if f else w
    s = rng.randrange(0, min(tz, 12) + 1) if rng.random() < 0.8 else tz
    return ('blk', ver, f, w - s)


def _end_block(rng, ver, l):
    """a block ending exactly at l"""
    w = W[ver]
    e = l + 1
    tz = (e & -e).bit_length() - 1
    s = rng.randrange(0, min(tz, 12, w) + 1)
    return ('blk', ver, e - (1 << s), w - s)


def _scn_adj(rng, ver, hot):
    """neighbours at distance 0, 1 (last+1: must merge) and 2 (last+2: must not)"""
    w = W[ver]
    m = _M[ver]
    if rng.random() < 0.3:
        # anchored on a notable boundary b: something ending at b-1, neighbours follow below
        b = _notable(rng, ver)
        shapes = [_end_block(rng, ver, b - 1) if rng.random() < 0.6 else ('rng', ver, max(0, b - rng.choice((1, 2, 3, 9))), b - 1)]
    else:
        shapes = [_hot_shape(rng, ver, hot)]
    for _ in range(rng.randrange(1, 4)):
        f, l = _shape_iv(rng.choice(shapes))
        d = rng.choice((0, 1, 1, 1, 2, 2))
        if rng.random() < 0.5:
            a = l + d
            if a > m:
                continue
            if rng.random() < 0.5:
                shapes.append(_start_block(rng, ver, a))
            else:
                shapes.append(('rng', ver, a, min(m, a + rng.choice((0, 1, 2, 3, 7, 8, 255)))))
        else:
            b = f - d
            if b < 0:
                continue
            if rng.random() < 0.5:
                shapes.append(_end_block(rng, ver, b))
            else:
                shapes.append(('rng', ver, max(0, b - rng.choice((0, 1, 2, 3, 7, 8, 255))), b))
    rng.shuffle(shapes)
    return shapes


def _scn_nest(rng, ver, hot):
    """chains of nested blocks / ranges with duplicates"""
    w = W[ver]
    base, k = hot
    v = _clamp(ver, base + rng.randrange(0, 1 << k))
    shapes = []
    for _ in range(rng.randrange(2, 6)):
        r = rng.random()
        if r < 0.6:
            shapes.append(_blk(ver, v, w - rng.randrange(0, min(w, k + 4) + 1)))
        elif r < 0.8:
            shapes.append(('rng', ver, max(0, v - rng.randrange(0, 9)), min(_M[ver], v + rng.randrange(0, 9))))
        elif shapes:
            shapes.append(rng.choice(shapes))
    if rng.random() < 0.4:
        shapes.append(_hot_shape(rng, ver, hot))
    rng.shuffle(shapes)
    return shapes


def _scn_xfam(rng, hot4):
    """an IPv6 item whose integer is last+1 (or inside / equal) of an IPv4 item: families never merge"""
    m4 = _M[4]
    r = rng.random()
    if r < 0.4:
        s = rng.randrange(0, 6)
        a = ('blk', 4, m4 + 1 - (1 << s), 32 - s)            # the very top of IPv4
    else:
        a = _hot_shape(rng, 4, hot4, small=True)
    f, l = _shape_iv(a)
    shapes = [a]
    for _ in range(rng.randrange(1, 4)):
        r = rng.random()
        if r < 0.35:
            shapes.append(_start_block(rng, 6, l + 1))
        elif r < 0.5:
            shapes.append(('rng', 6, l + 1, l + 1 + rng.choice((0, 1, 2, 5))))
        elif r < 0.65:
            shapes.append(_blk(6, rng.choice((f, l)), 128 - rng.randrange(0, 8)))
        elif r < 0.8:
            shapes.append(_blk(6, rng.choice((0, 1, 2)), 128 - rng.randrange(0, 3)))
        elif r < 0.9:
            shapes.append(('rng', 6, max(0, f - 1), l + 1))
        else:
            shapes.append(_hot_shape(rng, 4, hot4, small=True))
    rng.shuffle(shapes)
    return shapes


def _gen_merges(rng, mult):
    cases = []
    for _ in range(1400 * mult):
        hots = {4: [_hot(rng, 4)], 6: [_hot(rng, 6)]}
        for ver in (4, 6):
            if rng.random() < 0.3:
                b, k = hots[ver][0]
                k2 = rng.randrange(2, 9)
                nb = b + rng.choice((1 << k, (1 << k) + 1, (1 << k) + 2, -(1 << k2), 5 << k))
                hots[ver].append((min(max(nb, 0), _M[ver] + 1 - (1 << k2)), k2))
        r = rng.random()
        ver = rng.choice((4, 4, 6))
        if r < 0.4:
            scn = 'hot'
            n = rng.randrange(0, 9) if rng.random() < 0.9 else rng.randrange(9, 21)
            fam = rng.choice(((4,), (6,), (4, 4, 6), (4, 6, 6)))
            shapes = []
            for _ in range(n):
                v = rng.choice(fam)
                shapes.append(_hot_shape(rng, v, rng.choice(hots[v])))
        elif r < 0.58:
            scn = 'sib'
            shapes = _scn_sib(rng, ver, hots[ver][0])
        elif r < 0.76:
            scn = 'adj'
            shapes = _scn_adj(rng, ver, hots[ver][0])
        elif r < 0.86:
            scn = 'nest'
            shapes = _scn_nest(rng, ver, hots[ver][0])
        elif r < 0.95:
            scn = 'xfam'
            shapes = _scn_xfam(rng, hots[4][0])
        else:
            scn = 'whole'
            shapes = [_blk(ver, rng.getrandbits(W[ver]), 0)]
            for _ in range(rng.randrange(0, 4)):
                v = rng.choice((4, 6))
                shapes.append(_hot_shape(rng, v, hots[v][0]))
        if scn != 'hot' and rng.random() < 0.35:
            # some company from the other family / the other window
            for _ in range(rng.randrange(1, 3)):
                v = rng.choice((4, 6))
                shapes.append(_hot_shape(rng, v, rng.choice(hots[v])))
            rng.shuffle(shapes)
        cases.append(_merge_case(rng, [_dress(rng, s) for s in shapes[:20]], scn))
    return cases


# ---------------------------------------------------------------- globs / unique ips

def _octet(rng):
    return rng.choice((0, 1, 2, 9, 10, 99, 100, 127, 128, 199, 200, 254, 255, rng.randrange(256), rng.randrange(256)))


def _hyphen(rng):
    r = rng.random()
    if r < 0.3:
        k = rng.randrange(1, 8)
        x = rng.randrange(0, 256 >> k) << k
        y = x + (1 << k) - 1 + rng.choice((-1, 0, 0, 1))
    elif r < 0.5:
        x, y = rng.choice(((0, 255), (0, 1), (254, 255), (0, 254), (1, 255), (127, 128), (1, 2), (0, 127), (128, 255)))
    else:
        x, y = sorted((rng.randrange(256), rng.randrange(256)))
    x = max(0, min(x, 254))
    y = max(x + 1, min(y, 255))
    return '%d-%d' % (x, y)


def _gen_globs(rng, mult):
    texts = ['*.*.*.*']
    for _ in range(250 * mult):
        nplain = rng.choice((0, 1, 1, 2, 2, 2, 3, 3, 3, 3, 4, 4))
        parts = [str(_octet(rng)) for _ in range(nplain)]
        if nplain < 4 and rng.random() < 0.55:
            parts.append(_hyphen(rng))
        parts += ['*'] * (4 - len(parts))
        texts.append('.'.join(parts))
    return [_glob_case(t) for t in texts]


def _gen_uniq(rng, mult):
    cases = []
    for _ in range(200 * mult):
        hots = {4: _hot(rng, 4, 6), 6: _hot(rng, 6, 6)}
        fam = rng.choice(((4,), (6,), (4, 6), (4, 4, 6)))
        shapes = []
        for _ in range(rng.randrange(0, 7)):
            v = rng.choice(fam)
            shapes.append(_hot_shape(rng, v, hots[v], small=True))
        if rng.random() < 0.25:
            v = rng.choice(fam)
            shapes += _scn_sib(rng, v, hots[v])
        items = [_dress(rng, s) for s in shapes]
        total = sum(l - f + 1 for v, f, l in ref_union([_item_iv(it) for it in items]))
        if total <= _CAP:
            cases.append(_uniq_case(items))
    return cases


def generate(rng, tier):
    mult = 1 if tier == 'quick' else 4
    cases = []
    for ver in (4, 6):
        cases += _gen_intervals(rng, ver, mult)
        cases += _gen_netpairs(rng, ver, mult)
    cases += _gen_merges(rng, mult)
    cases += _gen_globs(rng, mult)
    cases += _gen_uniq(rng, mult)
    return cases


# ---------------------------------------------------------------- implementation side

def impl(c):
    a = c.args
    try:
        if a[0] == 'merge':
            return _show_blocks(common.twice(lambda: cidr_merge(common.as_iterable([_obj(it) for it in a[1]]))))
        if a[0] == 'r2c':
            ver = a[1]
            return _show_blocks(common.twice(lambda: iprange_to_cidrs(_obj(_ep_item(ver, a[2])), _obj(_ep_item(ver, a[3])))))
        if a[0] == 'rcidrs':
            # asked twice, mutating the first answer's blocks in between (shared caches show up)
            return _show_blocks(common.twice_cidrs(_obj(('R', a[1], a[2], a[3]))))
        if a[0] == 'glob':
            r1 = _show_blocks(glob_to_cidrs(a[1]))
            # the same interval through an IPGlob object that was re-pointed with the `.glob` setter
            r2 = _show_blocks(common.twice_cidrs(common.make_glob(a[1])))
            return r1 if r1 == r2 else r1 + ' BUT IPGlob(...).cidrs() = ' + r2
        if a[0] == 'uniq':
            ips = list(_itertools.islice(common.paired(lambda: iter_unique_ips(*[_obj(it) for it in a[1]])), _CAP + 1))   # bounded
            return plist(['%d:%d' % (ip.version, ip.value) for ip in ips[:_CAP]] + ['...'] * (len(ips) > _CAP))
    except Exception as e:
        return '!' + errname(e)
    raise ValueError(a)


# ---------------------------------------------------------------- oracle

def _parse_blocks(got):
    out = []
    if got == '[]':
        return out
    for tok in got[1:-1].split(','):
        ver, rest = tok.split(':')
        v, p = rest.split('/')
        out.append((int(ver), int(v), int(p)))
    return out


def _explain(got, exp, ivs):
    """a more specific message than 'differs' where possible (all from integers)"""
    try:
        blocks = _parse_blocks(got)
    except Exception:
        return 'not a block list'
    for ver, v, p in blocks:
        if ver not in W or not 0 <= p <= W[ver] or not 0 <= v <= _M[ver]:
            return 'malformed block %d:%d/%d' % (ver, v, p)
        if v != _blk_first(ver, v, p):
            return 'host bits set in result block %d:%d/%d' % (ver, v, p)
    gu = ref_union([(ver, v, _blk_last(ver, v, p)) for ver, v, p in blocks])
    eu = ref_union(ivs)
    if gu != eu:
        return 'union of result %s differs from union of inputs %s' % (gu[:4], eu[:4])
    keys = [(ver, v) for ver, v, p in blocks]
    if keys != sorted(keys):
        return 'result not ordered IPv4 before IPv6 / ascending'
    return 'same union but not the minimal disjoint list'


def oracle(c, got):
    """independent big-int statement of the property"""
    a = c.args
    if a[0] == 'merge':
        items, perm = a[1], a[2]
        if any(it[0] in _BADKINDS for it in items):
            # a bare int / an unparsable text is not an address or network: the call must raise, whatever else
            # is in the list (which exception is fixed by the correspondence with the model, not here)
            if not got.startswith('!'):
                return 'cidr_merge accepted a list with a bare int / unparsable text and returned %s' % got[:300]
            return None
        ivs = [_item_iv(it) for it in items]
        exp = _exp_blocks(ref_merge(ivs))
        if got != exp:
            return 'cidr_merge gave %s, minimal cover is %s (%s)' % (got[:300], exp[:300], _explain(got, exp, ivs))
        # order / duplication independence and idempotence, stated on the real code
        try:
            objs = [_obj(it) for it in items]
            g2 = _show_blocks(cidr_merge([objs[i] for i in perm]))
        except Exception as e:
            g2 = '!' + errname(e)
        if g2 != exp:
            return 'cidr_merge of the inputs reordered/duplicated as %r gave %s, expected %s' % (perm, g2[:300], exp[:300])
        try:
            g3 = _show_blocks(cidr_merge([IPNetwork((v, p), version=ver) for ver, v, p in _parse_blocks(got)]))
        except Exception as e:
            g3 = '!' + errname(e)
        if g3 != exp:
            return 'merging the result again gave %s, expected it unchanged %s' % (g3[:300], exp[:300])
        return None
    if a[0] == 'r2c':
        ver = a[1]
        _, f, _ = _item_iv(_ep_item(ver, a[2]))
        _, _, l = _item_iv(_ep_item(ver, a[3]))
        ivs = [(ver, f, l)]
        exp = _exp_blocks((ver, x, p) for x, p in ref_cidrs(f, l, W[ver]))
        if got != exp:
            return 'iprange_to_cidrs gave %s, minimal cover of [%d,%d] is %s (%s)' % (
                got[:300], f, l, exp[:300], _explain(got, exp, ivs))
        return None
    if a[0] == 'rcidrs':
        _, ver, lo, hi = a
        exp = _exp_blocks((ver, x, p) for x, p in ref_cidrs(lo, hi, W[ver]))
        if got != exp:
            return 'IPRange.cidrs gave %s, minimal cover of [%d,%d] is %s (%s)' % (
                got[:300], lo, hi, exp[:300], _explain(got, exp, [(ver, lo, hi)]))
        return None
    if a[0] == 'glob':
        pairs = _glob_pairs(a[1])
        lo = hi = 0
        for x, y in pairs:
            lo = (lo << 8) | x
            hi = (hi << 8) | y
        exp = _exp_blocks((4, x, p) for x, p in ref_cidrs(lo, hi, 32))
        if got != exp:
            return 'glob_to_cidrs(%r) gave %s, minimal cover of [%d,%d] is %s (%s)' % (
                a[1], got[:300], lo, hi, exp[:300], _explain(got, exp, [(4, lo, hi)]))
        return None
    if a[0] == 'uniq':
        exp = plist('%d:%d' % (ver, x) for ver, f, l in ref_union([_item_iv(it) for it in a[1]])
                    for x in range(f, l + 1))
        if got != exp:
            return 'iter_unique_ips gave %s, the distinct addresses in order are %s' % (got[:300], exp[:300])
        return None
    return None


def repro(c):
    a = c.args
    if a[0] == 'merge':
        return 'from netaddr import *; cidr_merge([%s])' % ', '.join(_src(it) for it in a[1])
    if a[0] == 'r2c':
        return 'from netaddr import *; iprange_to_cidrs(%s, %s)' % (_src(_ep_item(a[1], a[2])), _src(_ep_item(a[1], a[3])))
    if a[0] == 'rcidrs':
        return 'from netaddr import *; %s.cidrs()' % _src(('R', a[1], a[2], a[3]))
    if a[0] == 'glob':
        return 'from netaddr import *; glob_to_cidrs(%r)' % a[1]
    return 'from netaddr import *; list(iter_unique_ips(%s))' % ', '.join(_src(it) for it in a[1])


def shrink(c, fails):
    """drop list items while cidr_merge still violates the property"""
    a = c.args
    if a[0] != 'merge':
        return c
    _, items, perm = a
    red = common.shrink_seq(items, lambda l: len(l) >= 1 and fails(Case(None, c.tag, ('merge', tuple(l), tuple(range(len(l)))))))
    return Case(None, c.tag, ('merge', tuple(red), tuple(range(len(red)))))
