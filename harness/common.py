"""Shared helpers of the correspondence/oracle harness (DESIGN.md sections 3.3, 3.4, 4.2).

Everything random derives from one `random.Random(seed)`.  The implementation side runs
in-process on /repo's working tree (netaddr is a develop install of /repo in /venv)."""
import ast
import json
import os
import random
import subprocess
import sys
import time

HERE = os.path.dirname(os.path.abspath(__file__))
VERIF = os.path.dirname(HERE)
LEAN = os.path.join(VERIF, 'lean')
DRIVER = os.path.join(LEAN, '.lake', 'build', 'bin', 'driver')
REPO = os.environ.get('NETADDR_REPO', '/repo')
if os.environ.get('NETADDR_REPO') and os.environ['NETADDR_REPO'] not in sys.path:
    # development aid (seeded changes / harmless rewrites are evaluated on a scratch copy): every process that
    # imports the harness - helper interpreters included - imports netaddr from that copy
    sys.path.insert(0, os.environ['NETADDR_REPO'])

W = {4: 32, 6: 128, 48: 48, 64: 64}

# how the harness-built objects came about and what was done around the calls (reported in the evidence)
import collections as _collections
COUNTS = _collections.Counter()



class Case(object):
    """One correspondence/oracle case.

    line     driver protocol line (None = oracle-only case, e.g. malformed stream)
    tag      branch tag for the input-distribution histogram
    args     JSON-able tuple: everything impl()/oracle() need (goes into the replay file)
    platform True for ops that never call netaddr (modelled runtime / platform)
    """
    __slots__ = ('line', 'tag', 'args', 'platform', 'extra')

    def __init__(self, line, tag, args, platform=False):
        self.line = line
        self.tag = tag
        self.args = args
        self.platform = platform
        self.extra = None          # scratch for impl() -> oracle() hand-over (not serialised)

    def to_json(self):
        return {'line': self.line, 'tag': self.tag, 'args': jsonable(self.args), 'platform': self.platform}

    @staticmethod
    def from_json(d):
        return Case(d['line'], d['tag'], unjson(d['args']), d.get('platform', False))


def jsonable(x):
    if isinstance(x, (list, tuple)):
        return {'t': [jsonable(i) for i in x]}
    if isinstance(x, bool) or x is None or isinstance(x, str):
        return x
    if isinstance(x, int):
        return {'i': str(x)}
    if isinstance(x, bytes):
        return {'b': x.hex()}
    if isinstance(x, dict):
        return {'d': [[jsonable(k), jsonable(v)] for k, v in x.items()]}
    raise TypeError('not jsonable: %r' % (x,))


def unjson(x):
    if isinstance(x, dict):
        if 't' in x:
            return tuple(unjson(i) for i in x['t'])
        if 'i' in x:
            return int(x['i'])
        if 'b' in x:
            return bytes.fromhex(x['b'])
        if 'd' in x:
            return dict((unjson(k), unjson(v)) for k, v in x['d'])
    return x


# ---------------------------------------------------------------- protocol encoding

def hexs(s):
    """string -> `s:<hex of utf-8>` token"""
    return 's:' + s.encode('utf-8', 'surrogatepass').hex()


def unhexs(tok):
    assert tok.startswith('s:')
    return bytes.fromhex(tok[2:]).decode('utf-8', 'surrogatepass')


def optint(x):
    return '-' if x is None else str(x)


def plist(items):
    return '[' + ','.join(items) + ']'


def tf(b):
    return 'T' if b else 'F'


_ERRMAP = None


def errname(e):
    """exception -> the model's Err tag"""
    global _ERRMAP
    if _ERRMAP is None:
        import netaddr.core as core
        _ERRMAP = [
            (core.AddrFormatError, 'addrFormat'),
            (core.AddrConversionError, 'addrConversion'),
            (core.NotRegisteredError, 'notRegistered'),
            (NotImplementedError, 'notImpl'),
            (IndexError, 'index'),
            (KeyError, 'key'),
            (ValueError, 'value'),
            (TypeError, 'type'),
        ]
    for klass, name in _ERRMAP:
        if isinstance(e, klass):
            return name
    return 'other:' + type(e).__name__


# ---------------------------------------------------------------- value classes

_LITS = None


def _fold(node):
    """value of a constant integer expression (literals combined with << >> | & ^ + - * ** and unary -/~), else None"""
    if isinstance(node, ast.Constant):
        return node.value if isinstance(node.value, int) and not isinstance(node.value, bool) else None
    if isinstance(node, ast.UnaryOp) and isinstance(node.op, (ast.USub, ast.Invert)):
        v = _fold(node.operand)
        return None if v is None else (-v if isinstance(node.op, ast.USub) else ~v)
    if isinstance(node, ast.BinOp):
        a, b = _fold(node.left), _fold(node.right)
        if a is None or b is None:
            return None
        try:
            op = node.op
            if isinstance(op, ast.LShift):
                return a << b if 0 <= b <= 130 else None
            if isinstance(op, ast.RShift):
                return a >> b if 0 <= b <= 130 else None
            if isinstance(op, ast.BitOr):
                return a | b
            if isinstance(op, ast.BitAnd):
                return a & b
            if isinstance(op, ast.BitXor):
                return a ^ b
            if isinstance(op, ast.Add):
                return a + b
            if isinstance(op, ast.Sub):
                return a - b
            if isinstance(op, ast.Mult):
                return a * b if abs(a) < (1 << 130) and abs(b) < (1 << 130) else None
            if isinstance(op, ast.Pow):
                return a ** b if 0 <= b <= 130 and abs(a) <= 16 else None
        except Exception:
            return None
    return None


def _ip_text_values(text):
    """integers denoted by a string literal that is, as a whole, an IP address, a CIDR or an `a-b` range"""
    import ipaddress
    t = text.strip()
    if not 2 <= len(t) <= 100 or not (t[0].isalnum() or t[0] == ':'):
        return []
    out = []
    for part in (t.split('-') if t.count('-') == 1 else [t]):
        try:
            if '/' in part:
                n = ipaddress.ip_network(part.strip(), strict=False)
                out += [int(n.network_address), int(n.broadcast_address)]
            else:
                out.append(int(ipaddress.ip_address(part.strip())))
        except ValueError:
            return []
    return out


def harvest_literals():
    """every integer literal and every constant integer expression (`0x64ff9b << 64`) in /repo's netaddr
    sources (via ast), plus the integers denoted by string literals that are IP addresses / CIDRs / ranges,
    each with +-1: a change that introduces a new boundary constant or a new special block is probed at
    that constant on the next run."""
    global _LITS
    if _LITS is not None:
        return _LITS
    lits = set()
    root = os.path.join(REPO, 'netaddr')
    for dp, dn, fn in os.walk(root):
        if 'tests' in dp:
            continue
        for f in fn:
            if not f.endswith('.py'):
                continue
            try:
                tree = ast.parse(open(os.path.join(dp, f), encoding='utf-8').read())
            except Exception:
                continue
            for node in ast.walk(tree):
                vals = []
                if isinstance(node, (ast.Constant, ast.BinOp, ast.UnaryOp)):
                    v = _fold(node)
                    if v is not None:
                        vals.append(v)
                    elif isinstance(node, ast.Constant) and isinstance(node.value, str):
                        vals += _ip_text_values(node.value)
                for v in vals:
                    if 0 <= v < (1 << 129):
                        lits.update((v, v + 1, max(v - 1, 0)))
    _LITS = sorted(lits)
    return _LITS


def literal_prefixed(rng, w, low, per=1):
    """the big constants of the source (>= 2^16) used as the *high* bits of a w-bit value whose low `low`
    bits are random: both `L << low | r` and `L with its low bits replaced by r`.  A change that tests
    `value >> 32 == CONSTANT` (a seeded NAT64 branch did) is hit here although no boundary neighbour of
    the constant itself is."""
    m = (1 << w) - 1
    out = []
    for L in harvest_literals():
        if L < (1 << 16):
            continue
        for _ in range(per):
            r = rng.getrandbits(low)
            if (L << low) <= m:
                out.append((L << low) | r)
            if L <= m and L >= (1 << low):
                out.append(((L >> low) << low) | r)
    return out


def boundary_values(w):
    m = (1 << w) - 1
    vals = {0, 1, 2, m, m - 1, m - 2, 1 << (w - 1), (1 << (w - 1)) - 1, (1 << (w - 1)) + 1}
    return sorted(v for v in vals if 0 <= v <= m)


def value_classes(rng, w, n_random=6):
    """structured values for width w: boundaries, aligned +-1 at random bit positions, all-ones
    host/network parts, harvested literals that fit, uniform random"""
    m = (1 << w) - 1
    out = list(boundary_values(w))
    for _ in range(4):
        k = rng.randrange(0, w + 1)
        base = (rng.getrandbits(w) >> k) << k if k < w else 0
        for d in (-1, 0, 1):
            v = base + d
            if 0 <= v <= m:
                out.append(v)
        out.append(base | ((1 << k) - 1))            # all-ones host part
        out.append(m ^ ((1 << k) - 1))               # all-ones network part
    lits = [v for v in harvest_literals() if v <= m]
    if lits:
        out.extend(rng.sample(lits, min(6, len(lits))))
    for _ in range(n_random):
        out.append(rng.getrandbits(w))
        out.append(rng.getrandbits(rng.randrange(1, w + 1)))
    if w >= 32:
        out.extend(sparse_words(rng, w) for _ in range(4))
    return [v & m for v in out]


def sparse_words(rng, w):
    """a value made of 16-bit words (8-bit for w < 64) most of which are all-zero (or, for a quarter of the values,
    all-one): one to three positions get 0xffff / 1 / 0x8000 / a random word, the low 32 bits are sometimes random.
    Tests of the form `words[k] == C and not any(words[:j])`, `value >> s == C` with a slice or shift that is one
    word off are hit here, uniform or boundary values never (a seeded change ignored the fifth hextet)."""
    ws = 16 if w >= 64 else 8
    n = w // ws
    full = (1 << ws) - 1
    fill = full if rng.random() < 0.25 else 0
    words = [fill] * n
    for pos in rng.sample(range(n), rng.choice([1, 2, 2, 3])):
        words[pos] = rng.choice([full, full, 1, 1 << (ws - 1), rng.getrandbits(ws), full - 1])
    if rng.random() < 0.4:
        for pos in range(n - 32 // ws, n):
            words[pos] = rng.getrandbits(ws)
    v = 0
    for x in words:
        v = (v << ws) | x
    return v


def embeddings(rng, v4):
    """IPv6 integers in which the IPv4 integer v4 is embedded - IPv4-compatible (::a.b.c.d), IPv4-mapped
    (::ffff:a.b.c.d), 6to4 (2002:V4::/48), NAT64 (64:ff9b::a.b.c.d), ISATAP-like low 32 bits under fe80::5efe - plus
    the neighbours of the two blocks netaddr itself converts.  Operands of the OTHER family are chosen among these: a
    seeded change converted an IPv4-mapped right operand to IPv4 before a bitwise operator."""
    v4 &= 0xffffffff
    return [v4, 0xffff00000000 | v4, (0x2002 << 112) | (v4 << 80), (0x64ff9b << 96) | v4,
            (0xfe80 << 112) | (0x5efe << 32) | v4, 0xffff00000000 | rng.getrandbits(32), 0xfffe00000000 | v4,
            (1 << 48) | 0xffff00000000 | v4, (1 << 32) | v4]


def rand_value(rng, w):
    r = rng.random()
    m = (1 << w) - 1
    if r < 0.12 and w >= 32:
        return sparse_words(rng, w)
    if r < 0.17 and w == 128:
        return rng.choice(embeddings(rng, rand_value(rng, 32)))
    if r < 0.25:
        return rng.choice(boundary_values(w))
    if r < 0.5:
        k = rng.randrange(0, w + 1)
        base = ((rng.getrandbits(w) >> k) << k) if k < w else 0
        return min(max(base + rng.choice((-1, 0, 1)), 0), m)
    if r < 0.6:
        lits = [v for v in harvest_literals() if v <= m]
        if lits:
            return rng.choice(lits)
    if r < 0.8:
        return rng.getrandbits(rng.randrange(1, w + 1))
    return rng.getrandbits(w)


def rand_block(rng, ver, near=None):
    """(value, prefixlen) — optionally positioned relative to `near` = (first, plen)"""
    w = W[ver]
    m = (1 << w) - 1
    if near is None or rng.random() < 0.2:
        p = rng.choice([0, 1, w - 1, w, rng.randrange(0, w + 1), rng.randrange(max(0, w - 12), w + 1)])
        return rand_value(rng, w), p
    nf, np_ = near
    size = 1 << (w - np_)
    nfirst = (nf >> (w - np_)) << (w - np_) if np_ < w else nf
    kind = rng.randrange(8)
    if kind == 0:      # equal (with host bits)
        return nfirst | rng.getrandbits(w - np_) if np_ < w else nfirst, np_
    if kind == 1:      # nested deeper
        p = rng.randrange(np_, w + 1)
        return (nfirst + rng.randrange(size)) & m, p
    if kind == 2:      # supernet
        p = rng.randrange(0, np_ + 1)
        return nfirst, p
    if kind == 3:      # sibling
        if np_ == 0:
            return nfirst, np_
        return nfirst ^ size, np_
    if kind == 4:      # adjacent above
        return (nfirst + size) & m, rng.randrange(max(np_ - 2, 0), w + 1)
    if kind == 5:      # adjacent below
        return (nfirst - 1) & m, rng.randrange(max(np_ - 2, 0), w + 1)
    if kind == 6:      # one apart
        return (nfirst + size + 1) & m, w
    return rand_value(rng, w), rng.randrange(0, w + 1)


def shuffled(rng, xs):
    xs = list(xs)
    rng.shuffle(xs)
    return xs


def as_iterable(xs):
    """The same items as a list, a tuple, a one-shot `iter(...)`, a generator or a dict's keys view - chosen by a
    stable hash of the items' text.  Every netaddr function that documents "a sequence or iterator" must give
    the same answer for all of them (seeded changes scanned their argument twice, which only a one-shot
    iterator notices)."""
    import zlib
    xs = list(xs)
    k = zlib.crc32(repr([str(x) for x in xs]).encode('utf-8', 'replace')) % 8
    if k < 3:
        COUNTS['call/iterable:list'] += 1
        return xs
    if k == 3:
        COUNTS['call/iterable:tuple'] += 1
        return tuple(xs)
    if k < 6:
        COUNTS['call/iterable:one-shot-iter'] += 1
        return iter(xs)
    COUNTS['call/iterable:generator'] += 1
    return (x for x in xs)


def make_glob(text):
    """IPGlob(text).  For every second glob text (by a stable hash) the object is instead first
    built from another glob, exercised (size, len, cidrs(), first/last, hash, str) and then
    re-pointed with the writable `.glob` setter, so a cached attribute that ignores the setter
    (a seeded regression did exactly that) is observed by every check that uses glob objects."""
    import zlib
    from netaddr import IPGlob
    h = zlib.crc32(text.encode())
    if h & 1:
        return maybe_clone(IPGlob(text), h)
    g = IPGlob('10.11.12.1-9')
    exercise(g)
    g.glob = text
    return maybe_clone(g, h)


def twice_cidrs(r):
    """`r.cidrs()` asked twice with the first answer's objects mutated in between: a shared
    cache of mutable blocks shows up in the second answer."""
    first = r.cidrs()
    for b in first:
        if b.prefixlen > 0:
            b.prefixlen -= 1
    return r.cidrs()


_EX_SKIP = frozenset(['info', 'registration', 'clear', 'update', 'add', 'remove', 'pop', 'extract_subnet',
                      'remove_subnet', 'compact', 'parse', 'attach', 'detach', 'notify'])
_EX_PLAN = {}


def _exercise_plan(cls):
    """names of the public read-only surface of a class: every public attribute (properties are evaluated by
    reading them) and every public method that can be called without arguments; mutators listed in _EX_SKIP and
    the registry look-ups (file I/O, C19's subject) are left out.  Computed once per class."""
    import inspect
    plan = _EX_PLAN.get(cls)
    if plan is None:
        plan = []
        for name in sorted(dir(cls)):
            if name.startswith('_') or name in _EX_SKIP:
                continue
            try:
                attr = inspect.getattr_static(cls, name)
            except AttributeError:
                continue
            if isinstance(attr, (staticmethod, classmethod)):
                continue
            if inspect.isfunction(attr):
                try:
                    params = list(inspect.signature(attr).parameters.values())[1:]
                except (TypeError, ValueError):
                    continue
                if any(q.default is q.empty and q.kind in (q.POSITIONAL_ONLY, q.POSITIONAL_OR_KEYWORD, q.KEYWORD_ONLY)
                       for q in params):
                    continue
                plan.append((name, True))
            else:
                plan.append((name, False))
        _EX_PLAN[cls] = plan
    return plan


def exercise(n):
    """Touch everything a cache could hang on: the WHOLE public read-only surface of the object (every public
    attribute and property, every public method callable without arguments - three items are drawn from whatever
    iterator comes back), then the operators: hash, ==, !=, <, <=, dict lookup, str, repr, bool, len, iteration,
    indexing, and `x in n` for its own first / last address, its own cidr and itself.  A property about IP objects
    quantifies over objects with a past; reading an object never changes it, so whatever the check asks after
    the object has then been moved must be answered from the moved state (seeded changes memoised key(), the
    membership mask, cidrs() and size on the object and forgot one of the mutators)."""
    import itertools
    COUNTS['call/exercise-whole-read-surface'] += 1
    for name, is_method in _exercise_plan(type(n)):
        try:
            v = getattr(n, name)
            if is_method:
                v = v()
            if hasattr(v, '__next__'):
                list(itertools.islice(v, 3))
        except Exception:
            pass
    probes = [lambda: {n: 1}[n], lambda: hash(n), lambda: n == n, lambda: n != n, lambda: n < n, lambda: n <= n,
              lambda: str(n), lambda: repr(n), lambda: bool(n), lambda: len(n), lambda: int(n),
              lambda: list(itertools.islice(iter(n), 2)), lambda: (n[0], n[-1]),
              lambda: n.first in n, lambda: n.last in n, lambda: n[0] in n, lambda: n[-1] in n,
              lambda: n.cidr in n, lambda: n in n, lambda: n.ip in n, lambda: (n.first - 1) in n,
              lambda: n.cidrs()[0] in n]
    for f in probes:
        try:
            f()
        except Exception:
            pass


def _make_net(ver, val, plen):
    """IPNetwork((val, plen), version=ver).  For half of the (ver, val, plen) triples (stable hash) the
    object is instead a *lived-in* one: built as another network, exercised (hash, ==, dict lookup, str,
    first/last/size, key(), sort_key()) and then moved to the target through the public mutators
    (`+=` / `-=` when the target has no host bits, else the `value` / `prefixlen` setters), exercised again on the
    way.  A property about IP objects quantifies over objects, not over constructor calls: anything memoised on
    the object that a mutator forgets to drop (a seeded change cached key() and missed `+=`) is then
    observed by every check that builds its networks here."""
    import zlib
    from netaddr import IPNetwork
    h = zlib.crc32(('%d:%d/%d' % (ver, val, plen)).encode())
    mode = h & 3
    if mode < 2 or ver not in W or not (isinstance(val, int) and isinstance(plen, int)) \
            or not (0 <= plen <= W[ver] and 0 <= val < (1 << W[ver])):
        COUNTS['object/net:fresh'] += 1
        return IPNetwork((val, plen), version=ver)
    COUNTS['object/net:lived-in'] += 1
    w = W[ver]
    size = 1 << (w - plen)
    first = val - val % size
    if mode == 2 and first == val and plen > 0:
        # arrive by block steps: start k blocks away (inside the space), step back
        k = 1 + ((h >> 2) % 3)
        nblocks = 1 << plen
        idx = first >> (w - plen)
        if idx + k < nblocks:
            n = IPNetwork((first + k * size, plen), version=ver)
            exercise(n)
            n -= k
            return n
        if idx - k >= 0:
            n = IPNetwork((first - k * size, plen), version=ver)
            exercise(n)
            n += k
            return n
    # arrive through the setters from a different prefix and value
    p0 = (plen + 1 + ((h >> 2) % 5)) % (w + 1)
    v0 = (val ^ (1 << ((h >> 5) % w))) & ((1 << w) - 1)
    n = IPNetwork((v0, p0), version=ver)
    exercise(n)
    if (h >> 9) & 1:
        n.prefixlen = plen
        exercise(n)
        n.value = val
    else:
        n.value = val
        exercise(n)
        n.prefixlen = plen
    return n


def _make_addr(ver, val):
    """IPAddress(val, ver); for half of the values a lived-in object moved here with += / -= / .value"""
    import zlib
    from netaddr import IPAddress
    h = zlib.crc32(('%d:%d' % (ver, val)).encode())
    mode = h & 3
    if mode < 2 or ver not in W or not isinstance(val, int) or not 0 <= val < (1 << W[ver]):
        COUNTS['object/addr:fresh'] += 1
        return IPAddress(val, ver)
    COUNTS['object/addr:lived-in'] += 1
    m = (1 << W[ver]) - 1
    k = 1 + ((h >> 2) % 7)
    if mode == 2:
        if val + k <= m:
            a = IPAddress(val + k, ver)
            _exercise_addr(a)
            a -= k
        else:
            a = IPAddress(val - k, ver)
            _exercise_addr(a)
            a += k
        return a
    a = IPAddress(val ^ (1 << ((h >> 5) % W[ver])), ver)
    _exercise_addr(a)
    a.value = val
    return a


def _exercise_addr(a):
    exercise(a)


def _make_eui(v, ver, dialect=None):
    """EUI(v, version=ver, dialect=dialect); for half of the (value, version) pairs a lived-in object:
    built with another value under another dialect, exercised (hash, ==, str, words, packed, bits, ei, a
    word read), then moved with the `value` and `dialect` setters"""
    import zlib
    import netaddr
    from netaddr import EUI
    h = zlib.crc32(('%d:%d' % (ver, v)).encode())
    if (h & 1) == 0 or ver not in (48, 64) or not isinstance(v, int) or not 0 <= v < (1 << ver):
        e = EUI(v, version=ver, dialect=dialect)
        _bystander_eui(ver, dialect, h)
        return e
    others = ([netaddr.mac_cisco, netaddr.mac_bare, netaddr.mac_unix_expanded, netaddr.mac_pgsql] if ver == 48 else
              [netaddr.eui64_cisco, netaddr.eui64_bare, netaddr.eui64_unix_expanded, netaddr.eui64_base])
    e = EUI(v ^ (1 << ((h >> 1) % ver)), version=ver, dialect=others[(h >> 8) % 4])
    exercise(e)
    route = (h >> 12) % 3
    if route == 2:
        # word assignment is only defined for a dialect of the object's own width (words x word size = width), before
        # and after the dialect change
        for d in (e.dialect, dialect or e.dialect):
            try:
                if d.word_size * d.num_words != ver:
                    route = 0
            except Exception:
                route = 0
    if route == 0:
        e.value = v
        e.dialect = dialect
    elif route == 1:
        e.dialect = dialect
        e.value = v
    else:
        # word by word through item assignment, under whatever dialect the object has at that moment
        COUNTS['object/eui:moved-by-word-assignment'] += 1
        if (h >> 14) & 1:
            e.dialect = dialect
        ws = e.dialect.word_size
        nw = e.dialect.num_words
        order = list(range(nw)) if (h >> 15) & 1 else list(range(nw - 1, -1, -1))
        for i in order:
            e[i] = (v >> (ws * (nw - 1 - i))) & ((1 << ws) - 1)
            if i == order[0]:
                exercise(e)
        if not (h >> 14) & 1:
            e.dialect = dialect
    _bystander_eui(ver, dialect, h)
    return e


def _bystander_eui(ver, dialect, h):
    """Between building an EUI and looking at it, other identifiers come and go in the same process: one of
    the *other* width that is given the same dialect class (the constructor accepts any dialect for
    either width), built, printed and dropped.  Dialect classes are shared by every object that names
    them; an object must not change because of what happens to another one (a seeded change wrote
    `num_words` into the dialect class from the constructor)."""
    from netaddr import EUI
    if dialect is None or (h >> 16) % 3 == 0:
        return
    COUNTS['call/bystander-eui-of-other-width-same-dialect'] += 1
    try:
        o = EUI(h & 0xffffff, version=112 - ver, dialect=dialect)
        _ = (str(o), o.words, o.bits())
    except Exception:
        pass


_SUBCLASSES = {}


def _holder_module():
    import types
    m = sys.modules.get('usersubclasses')
    if m is None:
        m = types.ModuleType('usersubclasses')
        sys.modules['usersubclasses'] = m
    return m


def _subclass_of(cls):
    """a user subclass that adds nothing (module-level, so that it pickles); an instance of it is as good an address /
    network / identifier as one of the base class"""
    sub = _SUBCLASSES.get(cls)
    if sub is None:
        # same __name__ as the base (repr() prints the class name; the property's texts speak of IPNetwork('...')),
        # registered under that name in a holder module so that pickle finds it by reference
        name = cls.__name__
        sub = type(name, (cls,), {'__slots__': (), '__module__': 'usersubclasses'})
        setattr(_holder_module(), name, sub)
        _SUBCLASSES[cls] = sub
    return sub


def maybe_clone(o, h):
    """for a quarter of the objects (by the stable hash h) hand out a clone instead - copy.copy, copy.deepcopy or a
    pickle round trip (every protocol): a clone is as good an object as the original (property C12 says
    it is equal to it); state that __setstate__ / __reduce__ forget to rebuild shows up in whatever the
    check does next (a seeded change left a cached-bounds slot of IPRange unset in clones)."""
    import copy
    import pickle
    k = (h >> 20) % 32
    try:
        if k == 0:
            COUNTS['object/clone:copy'] += 1
            return copy.copy(o)
        if k == 1:
            COUNTS['object/clone:deepcopy'] += 1
            return copy.deepcopy(o)
        if k < 8:
            COUNTS['object/clone:pickle'] += 1
            return pickle.loads(pickle.dumps(o, min(k - 2, pickle.HIGHEST_PROTOCOL)))
        if k < 11:
            # copy-construction across classes: a user subclass built from the base-class object (and for k == 10 the
            # base class built back from that).  The copy constructors copy version, value, prefix length / dialect
            # whatever the classes involved (a seeded change tested isinstance(addr, self.__class__) and rebuilt a
            # subclass network from a base network with the full-width prefix)
            import netaddr
            base = type(o)
            if base in (netaddr.IPAddress, netaddr.IPNetwork, netaddr.EUI):
                COUNTS['object/clone:user-subclass-copy-construction'] += 1
                s = _subclass_of(base)(o)
                return base(s) if k == 10 else s
    except Exception:
        return o
    return o


def paired(factory, key=str):
    """the items of `factory()`, drawn in lock-step with a second iterator obtained from the same call: two
    iterations over one object are independent of each other (iteration state belongs to the iterator, not
    to the object iterated), so both must give the same items; AssertionError otherwise"""
    it1 = iter(factory())
    it2 = iter(factory())
    COUNTS['call/interleaved-second-iteration'] += 1
    n = 0
    while True:
        try:
            x = next(it1)
        except StopIteration:
            try:
                next(it2)
            except StopIteration:
                return
            raise AssertionError('a second, interleaved iteration yields more items than the first (after %d)' % n)
        try:
            y = next(it2)
        except StopIteration:
            raise AssertionError('a second, interleaved iteration ends early (after %d items)' % n)
        if key(x) != key(y):
            raise AssertionError('interleaved iterations disagree at item %d: %s / %s' % (n, key(x), key(y)))
        n += 1
        # an item that was handed out belongs to the caller: the second iteration's copy is moved in place before
        # the next one is pulled (a generator that keeps walking the very object it yielded - seed C10-r10-1 - then
        # leaves the sequence; the first iteration's items, untouched, are what the consumer sees)
        try:
            disturb(y)
        except Exception:
            pass
        yield x


def shrink_seq(items, fails_with, budget=300):
    """delta debugging over a sequence: drop one element at a time (from the end) while `fails_with(list)`
    still holds; returns the reduced list"""
    items = list(items)
    changed = True
    while changed and budget > 0:
        changed = False
        i = len(items) - 1
        while i >= 0 and budget > 0:
            cand = items[:i] + items[i + 1:]
            budget -= 1
            try:
                ok = fails_with(cand)
            except Exception:
                ok = False
            if ok:
                items = cand
                changed = True
            i -= 1
    return items


def disturb(*objs):
    """What a caller may do with *its own* IP objects after handing them to a constructor or function:
    move them (the cursor idiom `r = IPRange(cur, cur + n - 1); cur += n`).  netaddr copies its arguments;
    a result that keeps the caller's object would move with it (two seeded changes did that in
    IPRange.__init__).  Addresses get `+= 1` / `-= 1`, networks another prefix length; errors are ignored."""
    from netaddr import IPAddress, IPNetwork
    for o in objs:
        COUNTS['call/argument-or-result-moved-afterwards'] += 1
        try:
            if isinstance(o, IPAddress):
                if o._value > 0:
                    o -= 1
                else:
                    o += 1
            elif isinstance(o, IPNetwork):
                o.prefixlen = o.prefixlen - 1 if o.prefixlen > 0 else 1
                o.value = o.value ^ 1
        except Exception:
            pass


def _ip_objects(r, depth=0):
    from netaddr import IPAddress, IPNetwork
    if isinstance(r, (IPAddress, IPNetwork)):
        yield r
    elif isinstance(r, (list, tuple)) and depth < 4:
        for x in r:
            for y in _ip_objects(x, depth + 1):
                yield y
    elif hasattr(r, '_start') and hasattr(r, '_end'):
        yield r._start if False else r            # ranges are immutable through the public API; nothing to move


def twice(fn):
    """`fn()` asked twice: the objects in the first answer are moved in place (what a caller may do with a
    result that is its own), then the question - `fn` builds its arguments anew - is asked again and that second
    answer is what the check looks at.  A result assembled from objects that a cache or the library keeps
    (a seeded change memoised cidr_partition's lists of blocks) comes back changed."""
    first = fn()
    if isinstance(first, (list, tuple)):
        COUNTS['call/asked-twice-first-answer-moved'] += 1
        disturb(*list(_ip_objects(first)))
        _scribble(first)
        return fn()
    return first


def _scribble(r, depth=0):
    """every list in an answer (the answer itself, or the lists inside a tuple of lists) is the caller's: reverse it
    and append a foreign block to it (a seeded change handed out one shared module-level `[]` for every empty part of
    cidr_partition's answer)"""
    from netaddr import IPNetwork
    if isinstance(r, list):
        try:
            r.reverse()
            if len(r) < 300:        # a list that is shared after all must not grow without bound during a run
                r.append(IPNetwork('198.51.100.0/24'))
        except Exception:
            pass
    elif isinstance(r, tuple) and depth < 3:
        for x in r:
            _scribble(x, depth + 1)


def make_set(blocks):
    """an IPSet holding the blocks [(ver, value, prefixlen), ...] - which IPSet keeps as they are - built along one
    of four routes chosen by a stable hash of the blocks: the constructor; add() one block at a time with the two
    families INTERLEAVED (v4, v6, v4, ...: the internal dict is then not grouped by family - seed C12-r10-1 grouped
    it with itertools.groupby in __getstate__ and lost all but the last run of each family); update() of the second
    half into the first; the union of two sets.  A set is what it contains, whatever its history."""
    import zlib
    from netaddr import IPSet, IPNetwork
    nets = [IPNetwork((v, p), version=ver) for ver, v, p in blocks]
    route = zlib.crc32(repr(sorted(blocks)).encode()) % 4 if len(nets) > 1 else 0
    COUNTS['object/ipset-route-%d' % route] += 1
    if route == 0:
        return IPSet(nets)
    if route == 1:
        v4 = [n for n in nets if n.version == 4]
        v6 = [n for n in nets if n.version == 6]
        order = []
        while v4 or v6:
            if v4:
                order.append(v4.pop())
            if v6:
                order.append(v6.pop())
        s = IPSet()
        for n in order:
            s.add(n)
        return s
    if route == 2:
        s = IPSet(nets[::2])
        s.update(nets[1::2])
        return s
    return IPSet(nets[::2]) | IPSet(nets[1::2])


def make_range(ver, lo, hi):
    """IPRange(IPAddress(lo, ver), IPAddress(hi, ver)) from (for half of the values: lived-in) address objects
    which the caller then moves away (see `disturb`)"""
    import zlib
    from netaddr import IPRange
    a, b = make_addr(ver, lo), make_addr(ver, hi)
    r = IPRange(a, b)
    disturb(a, b)
    return maybe_clone(r, zlib.crc32(('r%d:%d-%d' % (ver, lo, hi)).encode()))


def _crc(*xs):
    import zlib
    return zlib.crc32(repr(xs).encode())


def make_net(ver, val, plen):
    """a network object with (version, value, prefixlen) as given: fresh, lived-in (see _make_net) or a clone"""
    return maybe_clone(_make_net(ver, val, plen), _crc('n', ver, val, plen))


def make_addr(ver, val):
    return maybe_clone(_make_addr(ver, val), _crc('a', ver, val))


def make_eui(v, ver, dialect=None):
    return maybe_clone(_make_eui(v, ver, dialect), _crc('e', ver, v))


def stale(n):
    """first attribute on which a network object differs from a fresh IPNetwork of its own
    (version, value, prefixlen); None when the object is coherent"""
    from netaddr import IPNetwork
    f = IPNetwork((n._value, n._prefixlen), version=n.version)
    probes = [('==', lambda x: x == f), ('hash', hash), ('key', lambda x: x.key()), ('sort_key', lambda x: x.sort_key()),
              ('str', str), ('first', lambda x: x.first), ('last', lambda x: x.last), ('size', lambda x: x.size),
              ('cidr', lambda x: str(x.cidr)), ('network', lambda x: int(x.network)), ('netmask', lambda x: int(x.netmask)),
              ('in-dict', lambda x: x in {f: 1})]
    for name, fn in probes:
        try:
            a, b = fn(n), fn(f)
        except Exception as e:
            return name + ':' + type(e).__name__
        if a != b:
            return name
    return None


# ---------------------------------------------------------------- driver

def run_driver(lines, timeout=600):
    """feed protocol lines to the native Lean driver; returns list of output lines"""
    if not lines:
        return []
    data = ('\n'.join(lines) + '\n').encode('ascii')
    p = subprocess.run([DRIVER], input=data, stdout=subprocess.PIPE, stderr=subprocess.PIPE, timeout=timeout)
    if p.returncode != 0:
        raise RuntimeError('driver exited %d: %s' % (p.returncode, p.stderr.decode('utf-8', 'replace')[-500:]))
    out = p.stdout.decode('utf-8', 'replace').split('\n')
    if out and out[-1] == '':
        out.pop()
    if len(out) != len(lines):
        raise RuntimeError('driver returned %d lines for %d ops' % (len(out), len(lines)))
    return out
