"""Cases that tie the MODELLED RUNTIME (Model/PyRuntime.lean) to CPython itself.  They never
call netaddr: a disagreement means the sandbox's CPython differs from the modelled one, and
the check stops with exit 2 (not a violation).  Property modules that depend on the runtime
model add these to their generated cases and route `impl`/`oracle` through here."""
from common import Case, hexs, optint, plist

ALPHA = '0123456789abcdefABCDEFxXoObB_+- \t\n\x0b\x0c\x1c.'


def pyint_cases(rng, n):
    out = []
    for _ in range(n):
        base = rng.choice((2, 8, 10, 16))
        if rng.random() < 0.5:
            v = rng.getrandbits(rng.randrange(1, 40))
            s = {2: bin, 8: oct, 10: str, 16: hex}[base](v)
            if rng.random() < 0.5 and base != 10:
                s = s[2:]
            s = list(s)
            for _ in range(rng.randrange(0, 3)):
                k = rng.randrange(0, len(s) + 1)
                op = rng.random()
                if op < 0.5:
                    s.insert(k, rng.choice(ALPHA))
                elif s and op < 0.8:
                    s[min(k, len(s) - 1)] = rng.choice(ALPHA)
                elif s:
                    del s[min(k, len(s) - 1)]
            s = ''.join(s)
        else:
            s = ''.join(rng.choice(ALPHA) for _ in range(rng.randrange(0, 7)))
        out.append(Case('pyint %d %s' % (base, hexs(s)), 'platform/pyint', ('pyint', base, s), platform=True))
    return out


def pyslice_cases(rng, n):
    out = []
    for _ in range(n):
        m = rng.randrange(0, 9)
        a, b = (rng.choice([None] + list(range(-10, 11))) for _ in range(2))
        c = rng.choice([None, 1, 2, 3, -1, -2, -3, 7, -7, 10, -10])
        out.append(Case('pyslice %d %s %s %s' % (m, optint(a), optint(b), optint(c)), 'platform/pyslice',
                        ('pyslice', m, a, b, c), platform=True))
    return out


def impl(c):
    a = c.args
    if a[0] == 'pyint':
        try:
            return str(int(a[2], a[1]))
        except ValueError:
            return '!'
    if a[0] == 'pyslice':
        return plist(str(x) for x in list(range(a[1]))[a[2]:a[3]:a[4]])
    raise ValueError(a)
