"""Per-function fingerprints of netaddr's source (comments, docstrings and formatting removed), used to
*direct effort*, never to decide: the hand-written model was validated against one revision of the code;
`fingerprints.json` records that revision function by function.  When a check finds that functions in the files a
property is anchored in differ from that record, the correspondence for that property is run wider (more derived
seeds, the thorough generators) - the theorems are about the model, and it is exactly where the code moved that
the tie has to be re-established.  On the recorded revision nothing changes.  A difference is never reported as a
violation by itself; an unreadable source file only widens the search.

usage: python harness/fingerprint.py --write      (re-record after a `fix:` commit whose behaviour the model follows)
       python harness/fingerprint.py --diff       (print the functions that differ from the record)"""
import ast
import hashlib
import json
import os
import sys

HERE = os.path.dirname(os.path.abspath(__file__))
VERIF = os.path.dirname(HERE)
RECORD = os.path.join(VERIF, 'fingerprints.json')


def repo_root():
    return os.environ.get('NETADDR_REPO') or '/repo'


def _strip_doc(node):
    for n in ast.walk(node):
        body = getattr(n, 'body', None)
        if isinstance(body, list) and body and isinstance(body[0], ast.Expr) and \
                isinstance(getattr(body[0], 'value', None), ast.Constant) and isinstance(body[0].value.value, str):
            n.body = body[1:] or [ast.Pass()]
    return node


def _units(tree, prefix=''):
    """(qualified name, node) for every function / method, plus one unit per class body and the module's own
    statements (assignments, table literals, imports) with the functions taken out"""
    rest = []
    for n in tree.body:
        if isinstance(n, (ast.FunctionDef, ast.AsyncFunctionDef)):
            yield prefix + n.name, n
        elif isinstance(n, ast.ClassDef):
            for u in _units(n, prefix + n.name + '.'):
                yield u
            rest.append(ast.ClassDef(name=n.name, bases=n.bases, keywords=n.keywords, body=[ast.Pass()],
                                     decorator_list=n.decorator_list))
        else:
            rest.append(n)
    yield prefix + '<statements>', ast.Module(body=rest, type_ignores=[])


def file_units(path):
    src = open(path, encoding='utf-8').read()
    tree = _strip_doc(ast.parse(src))
    out = {}
    for name, node in _units(tree):
        h = hashlib.sha1(ast.dump(node, annotate_fields=False, include_attributes=False).encode()).hexdigest()[:16]
        k = name
        i = 1
        while k in out:             # property getter / setter pairs share a name
            i += 1
            k = '%s#%d' % (name, i)
        out[k] = h
    return out


def current(root=None):
    root = root or repo_root()
    pkg = os.path.join(root, 'netaddr')
    out = {}
    for dp, dn, fn in os.walk(pkg):
        if 'tests' in dp.split(os.sep):
            continue
        for f in sorted(fn):
            if f.endswith('.py'):
                p = os.path.join(dp, f)
                rel = os.path.relpath(p, root)
                try:
                    out[rel] = file_units(p)
                except Exception as e:       # a file that does not parse: everything in it counts as changed
                    out[rel] = {'<unreadable>': type(e).__name__}
    # data files the generated tables are read from
    for dp, dn, fn in os.walk(pkg):
        if 'tests' in dp.split(os.sep):
            continue
        for f in sorted(fn):
            if f.endswith(('.xml', '.idx', '.txt')):
                p = os.path.join(dp, f)
                out[os.path.relpath(p, root)] = {'<data>': hashlib.sha1(open(p, 'rb').read()).hexdigest()[:16]}
    return out


def changed(root=None):
    """{file: [unit names]} that differ from the record (new, removed or different); {} when there is no record"""
    if not os.path.exists(RECORD):
        return {}
    rec = json.load(open(RECORD))['files']
    cur = current(root)
    out = {}
    for f in sorted(set(rec) | set(cur)):
        a, b = rec.get(f, {}), cur.get(f, {})
        names = sorted(k for k in set(a) | set(b) if a.get(k) != b.get(k))
        if names:
            out[f] = names
    return out


# Which files a property's behaviour runs through: its anchors (properties.jsonl) plus the shared layers every IP
# / EUI object goes through.
_SHARED = {
    'ip': ['netaddr/ip/__init__.py', 'netaddr/strategy/__init__.py', 'netaddr/strategy/ipv4.py',
           'netaddr/strategy/ipv6.py', 'netaddr/core.py', 'netaddr/compat.py'],
    'eui': ['netaddr/eui/__init__.py', 'netaddr/strategy/__init__.py', 'netaddr/strategy/eui48.py',
            'netaddr/strategy/eui64.py', 'netaddr/core.py', 'netaddr/compat.py'],
}


def relevant_files(pid):
    files = set()
    try:
        for l in open(os.path.join(VERIF, 'properties.jsonl')):
            d = json.loads(l)
            if d['id'] == pid:
                files.update(d.get('anchors', {}).get('files', []))
    except Exception:
        pass
    if any(f.startswith('netaddr/ip') or f.startswith('netaddr/contrib') or f.startswith('netaddr/fbsocket') for f in files):
        files.update(_SHARED['ip'])
    if any(f.startswith('netaddr/eui') for f in files):
        files.update(_SHARED['eui'])
    return files


def changed_for(pid, root=None):
    ch = changed(root)
    rel = relevant_files(pid)
    return {f: u for f, u in ch.items() if f in rel or any(f.startswith(os.path.dirname(r) + '/') and f.endswith(('.xml', '.idx', '.txt')) for r in rel)}


if __name__ == '__main__':
    if '--write' in sys.argv:
        cur = current()
        with open(RECORD, 'w') as f:
            json.dump({'note': 'function-level fingerprints of the netaddr revision the models were validated against; '
                               'see harness/fingerprint.py', 'files': cur}, f, indent=0, sort_keys=True)
            f.write('\n')
        print('recorded %d files, %d units' % (len(cur), sum(len(v) for v in cur.values())))
    else:
        for f, names in changed().items():
            print(f, ' '.join(names))
