"""Source translator (second half of the tie, DESIGN.md section 4.5).

Translates a *subset* of Python — integer arithmetic and bit operations, comparisons, boolean
connectives, local assignment, if / elif / else, return, raise, `while` loops (with a fuel term
given in the function's entry below), calls of other translated functions, constructor calls kept
as opaque tuples — from the CURRENT source text of /repo's netaddr into

  * shallow Lean 4 definitions over `Int` (`Gen/Trans.lean`), about which `Props/Tie.lean` proves
    `Trans.f = <hand-written model function>` under the code's own range guards, and
  * z3 terms over mathematical integers (`to_z3`), used only for the *search for a failing input*
    when a translated function no longer matches the reference translation (`trans_ref.json`).

Anything outside the subset raises `Untranslatable`; the function is then tied by correspondence
only and the check says so.  Messages of exceptions and docstrings are dropped.  A Python `int` is a
Lean `Int`; `self` is the tuple of its fields (`ver : Nat` and `val`, `plen : Int`)."""
import ast
import os
import textwrap


class Untranslatable(Exception):
    pass


LEAN_WORDS = {'prefix', 'infix', 'infixl', 'infixr', 'postfix', 'notation', 'open', 'end', 'from', 'at', 'in', 'by', 'do', 'then',
              'else', 'if', 'fun', 'let', 'have', 'show', 'match', 'with', 'where', 'instance', 'class', 'structure', 'macro',
              'syntax', 'section', 'namespace', 'variable', 'universe', 'local', 'private', 'protected', 'theorem', 'def',
              'example', 'axiom', 'import', 'export', 'deriving', 'mutual', 'partial', 'unsafe', 'nomatch', 'suffices', 'calc',
              'Type', 'Prop', 'Sort', 'forall', 'exists', 'using', 'extends', 'abbrev', 'inductive', 'return', 'for', 'unless',
              # names the translation itself uses
              'width', 'maxInt', 'min', 'max', 'fuel', 'fuel0', 'cnt', 'cnt0', 'items', 'items0'}


def nm(x):
    """a Python identifier as a Lean identifier"""
    return x + '_' if x in LEAN_WORDS else x


EXC = {'IndexError': 'index', 'ValueError': 'value', 'TypeError': 'type_', 'AddrFormatError': 'addrFormat',
       'AddrConversionError': 'addrConversion', 'NotImplementedError': 'notImpl', 'KeyError': 'key',
       'NotRegisteredError': 'notRegistered'}

# class kind -> (fields of self in order; mutable fields returned by `return self`)
KINDS = {
    'addr': (['ver', 'val'], ['val']),
    'net': (['ver', 'val', 'plen'], ['val', 'plen']),
    'eui': (['ver', 'val'], ['val']),
    'rng': (['ver', 'lo', 'hi'], []),
    None: ([], []),
}

# The functions the tie covers.  name = Lean name; file/cls/func locate the source; kind = shape of
# self; params = [(python name, 'int' | 'bool')]; ret = 'int' | 'bool' | 'ctor<n>' (constructor call
# kept as an n-tuple of its integer arguments) | 'opt_ctor<n>' | 'self' (the mutable fields);
# fuel = {python loop variable name -> Lean Nat term bounding the iterations}
FUNCS = [
    dict(name='IPAddress_is_hostmask', tie='NV.Tie.is_hostmask', prop='C02', file='ip/__init__.py', cls='IPAddress', func='is_hostmask', kind='addr', params=[], ret='bool'),
    dict(name='IPAddress_is_netmask', tie='NV.Tie.is_netmask', prop='C02', file='ip/__init__.py', cls='IPAddress', func='is_netmask', kind='addr', params=[], ret='bool'),
    dict(name='IPAddress_netmask_bits', tie='NV.Tie.addr_netmask_bits', prop='C02', file='ip/__init__.py', cls='IPAddress', func='netmask_bits', kind='addr', params=[], ret='int',
         fuel='val.toNat'),
    dict(name='IPAddress_iadd', tie='NV.Tie.addr_iadd', prop='C14', file='ip/__init__.py', cls='IPAddress', func='__iadd__', kind='addr', params=[('num', 'int')], ret='self'),
    dict(name='IPAddress_isub', tie='NV.Tie.addr_isub', prop='C14', file='ip/__init__.py', cls='IPAddress', func='__isub__', kind='addr', params=[('num', 'int')], ret='self'),
    dict(name='IPAddress_add', tie='NV.Tie.addr_add', prop='C14', file='ip/__init__.py', cls='IPAddress', func='__add__', kind='addr', params=[('num', 'int')], ret='ctor2'),
    dict(name='IPAddress_sub', tie='NV.Tie.addr_sub', prop='C14', file='ip/__init__.py', cls='IPAddress', func='__sub__', kind='addr', params=[('num', 'int')], ret='ctor2'),
    dict(name='IPAddress_rsub', tie='NV.Tie.addr_rsub', prop='C14', file='ip/__init__.py', cls='IPAddress', func='__rsub__', kind='addr', params=[('num', 'int')], ret='ctor2'),
    dict(name='IPAddress_or', tie='NV.Tie.addr_or', prop='C14', file='ip/__init__.py', cls='IPAddress', func='__or__', kind='addr', params=[('other', 'int')], ret='ctor2'),
    dict(name='IPAddress_and', tie='NV.Tie.addr_and', prop='C14', file='ip/__init__.py', cls='IPAddress', func='__and__', kind='addr', params=[('other', 'int')], ret='ctor2'),
    dict(name='IPAddress_xor', tie='NV.Tie.addr_xor', prop='C14', file='ip/__init__.py', cls='IPAddress', func='__xor__', kind='addr', params=[('other', 'int')], ret='ctor2'),
    dict(name='IPAddress_lshift', tie='NV.Tie.addr_lshift', prop='C14', file='ip/__init__.py', cls='IPAddress', func='__lshift__', kind='addr', params=[('numbits', 'int')], ret='ctor2'),
    dict(name='IPAddress_rshift', tie='NV.Tie.addr_rshift', prop='C14', file='ip/__init__.py', cls='IPAddress', func='__rshift__', kind='addr', params=[('numbits', 'int')], ret='ctor2'),
    dict(name='IPAddress_ipv4', tie='NV.Tie.addr_ipv4', prop='C16', file='ip/__init__.py', cls='IPAddress', func='ipv4', kind='addr', params=[], ret='opt_ctor2'),
    dict(name='IPAddress_ipv6', tie='NV.Tie.addr_ipv6', prop='C16', file='ip/__init__.py', cls='IPAddress', func='ipv6', kind='addr', params=[('ipv4_compatible', 'bool')], ret='opt_ctor2'),
    dict(name='IPNetwork_hostmask_int', tie='NV.Tie.net_hostmask_int', prop='C02', file='ip/__init__.py', cls='IPNetwork', func='_hostmask_int', kind='net', params=[], ret='int'),
    dict(name='IPNetwork_netmask_int', tie='NV.Tie.net_netmask_int', prop='C02', file='ip/__init__.py', cls='IPNetwork', func='_netmask_int', kind='net', params=[], ret='int'),
    dict(name='IPNetwork_first', tie='NV.Tie.net_first', prop='C02', file='ip/__init__.py', cls='IPNetwork', func='first', kind='net', params=[], ret='int'),
    dict(name='IPNetwork_last', tie='NV.Tie.net_last', prop='C02', file='ip/__init__.py', cls='IPNetwork', func='last', kind='net', params=[], ret='int'),
    dict(name='IPNetwork_size', tie='NV.Tie.net_size', prop='C02', file='ip/__init__.py', cls='IPListMixin', func='size', kind='net', params=[], ret='int', self_cls='IPNetwork'),
    dict(name='IPNetwork_ip', tie='NV.Tie.net_ip', prop='C02', file='ip/__init__.py', cls='IPNetwork', func='ip', kind='net', params=[], ret='ctor2'),
    dict(name='IPNetwork_network', tie='NV.Tie.net_network', prop='C02', file='ip/__init__.py', cls='IPNetwork', func='network', kind='net', params=[], ret='ctor2'),
    dict(name='IPNetwork_broadcast', tie='NV.Tie.net_broadcast', prop='C02', file='ip/__init__.py', cls='IPNetwork', func='broadcast', kind='net', params=[], ret='opt_ctor2'),
    dict(name='IPNetwork_netmask', tie='NV.Tie.net_netmask', prop='C02', file='ip/__init__.py', cls='IPNetwork', func='netmask', kind='net', params=[], ret='ctor2'),
    dict(name='IPNetwork_hostmask', tie='NV.Tie.net_hostmask', prop='C02', file='ip/__init__.py', cls='IPNetwork', func='hostmask', kind='net', params=[], ret='ctor2'),
    dict(name='IPNetwork_cidr', tie='NV.Tie.net_cidr', prop='C02', file='ip/__init__.py', cls='IPNetwork', func='cidr', kind='net', params=[], ret='ctor3'),
    dict(name='IPNetwork_iadd', tie='NV.Tie.net_iadd', prop='C11', file='ip/__init__.py', cls='IPNetwork', func='__iadd__', kind='net', params=[('num', 'int')], ret='self'),
    dict(name='IPNetwork_isub', tie='NV.Tie.net_isub', prop='C11', file='ip/__init__.py', cls='IPNetwork', func='__isub__', kind='net', params=[('num', 'int')], ret='self'),
    dict(name='IPNetwork_ipv6', tie='NV.Tie.net_ipv6', prop='C16', file='ip/__init__.py', cls='IPNetwork', func='ipv6', kind='net', params=[('ipv4_compatible', 'bool')], ret='opt_ctor3'),
    dict(name='IPNetwork_sort_key', tie='NV.Tie.net_sort_key', prop='C12', file='ip/__init__.py', cls='IPNetwork', func='sort_key', kind='net', params=[], ret='tuple4'),
    dict(name='BaseIP_is_ipv4_mapped', tie='NV.Tie.is_ipv4_mapped', prop='C16', file='ip/__init__.py', cls='BaseIP', func='is_ipv4_mapped', kind='addr', params=[], ret='bool'),
    dict(name='BaseIP_is_ipv4_compat', tie='NV.Tie.is_ipv4_compat', prop='C16', file='ip/__init__.py', cls='BaseIP', func='is_ipv4_compat', kind='addr', params=[], ret='bool'),
    dict(name='IPAddress_key', tie='NV.Tie.addr_key', prop='C12', file='ip/__init__.py', cls='IPAddress', func='key', kind='addr', params=[], ret='tuple2'),
    dict(name='IPAddress_sort_key', tie='NV.Tie.addr_sort_key', prop='C12', file='ip/__init__.py', cls='IPAddress', func='sort_key', kind='addr', params=[], ret='tuple3'),
    dict(name='IPAddress_int', tie='NV.Tie.addr_int', prop='C14', file='ip/__init__.py', cls='IPAddress', func='__int__', kind='addr', params=[], ret='int'),
    dict(name='IPAddress_index', tie='NV.Tie.addr_index', prop='C14', file='ip/__init__.py', cls='IPAddress', func='__index__', kind='addr', params=[], ret='int'),
    dict(name='IPNetwork_key', tie='NV.Tie.net_key', prop='C12', file='ip/__init__.py', cls='IPNetwork', func='key', kind='net', params=[], ret='tuple3'),
    dict(name='IPRange_first', tie='NV.Tie.rng_first', prop='C10', file='ip/__init__.py', cls='IPRange', func='first', kind='rng', params=[], ret='int'),
    dict(name='IPRange_last', tie='NV.Tie.rng_last', prop='C10', file='ip/__init__.py', cls='IPRange', func='last', kind='rng', params=[], ret='int'),
    dict(name='IPRange_size', tie='NV.Tie.rng_size', prop='C10', file='ip/__init__.py', cls='IPListMixin', func='size', kind='rng', params=[], ret='int', self_cls='IPRange'),
    dict(name='IPNetwork_len', tie='NV.Tie.net_len', prop='C10', file='ip/__init__.py', cls='IPListMixin', func='__len__', kind='net', params=[], ret='int', self_cls='IPNetwork'),
    dict(name='IPRange_len', tie='NV.Tie.rng_len', prop='C10', file='ip/__init__.py', cls='IPListMixin', func='__len__', kind='rng', params=[], ret='int', self_cls='IPRange'),
    dict(name='IPRange_key', tie='NV.Tie.rng_key', prop='C12', file='ip/__init__.py', cls='IPRange', func='key', kind='rng', params=[], ret='tuple3'),
    dict(name='IPAddress_set_value', tie='NV.Tie.addr_set_value', prop='C14', file='ip/__init__.py', cls='BaseIP', func='_set_value', kind='addr', params=[('value', 'int')], ret='self'),
    dict(name='IPNetwork_set_value', tie='NV.Tie.net_set_value', prop='C02', file='ip/__init__.py', cls='BaseIP', func='_set_value', kind='net', params=[('value', 'int')], ret='self'),
    dict(name='IPNetwork_set_prefixlen', tie='NV.Tie.net_set_prefixlen', prop='C02', file='ip/__init__.py', cls='IPNetwork', func='_set_prefixlen', kind='net', params=[('value', 'int')], ret='self'),
    # EUI: derived identifiers (`end` = value when the if / elif chain over the two strategy modules is left without a
    # return: Python returns None there, which no constructed object reaches - the theorems assume version 48 or 64)
    dict(name='EUI_is_iab', tie='NV.Tie.eui_is_iab', prop='C08', file='eui/__init__.py', cls='EUI', func='is_iab', kind='eui', params=[], ret='bool', end='false'),
    dict(name='EUI_eui64', tie='NV.Tie.eui_eui64', prop='C08', file='eui/__init__.py', cls='EUI', func='eui64', kind='eui', params=[], ret='ctor2'),
    dict(name='EUI_modified_eui64', tie='NV.Tie.eui_modified_eui64', prop='C08', file='eui/__init__.py', cls='EUI', func='modified_eui64', kind='eui', params=[], ret='ctor2'),
    dict(name='EUI_ipv6', tie='NV.Tie.eui_ipv6', prop='C08', file='eui/__init__.py', cls='EUI', func='ipv6', kind='eui', params=[('prefix', 'int')], ret='ctor2'),
    dict(name='EUI_ipv6_link_local', tie='NV.Tie.eui_ipv6_link_local', prop='C08', file='eui/__init__.py', cls='EUI', func='ipv6_link_local', kind='eui', params=[], ret='ctor2'),
    dict(name='IAB_split_iab_mac', tie='NV.Tie.iab_split', prop='C08', file='eui/__init__.py', cls='IAB', func='split_iab_mac', kind=None, params=[('eui_int', 'int'), ('strict', 'bool')], ret='tuple2'),
    # netaddr.strategy: the generic word codecs (lists of ints; `for` loops become recursion on the count / the list)
    dict(name='valid_words', tie='NV.Tie.valid_words_eq', prop='C15', file='strategy/__init__.py', cls=None, func='valid_words', kind=None,
         params=[('words', 'ilist'), ('word_size', 'int'), ('num_words', 'int')], ret='bool'),
    dict(name='int_to_words', tie='NV.Tie.int_to_words_eq', prop='C15', file='strategy/__init__.py', cls=None, func='int_to_words', kind=None,
         params=[('int_val', 'int'), ('word_size', 'int'), ('num_words', 'int')], ret='ilist'),
    dict(name='words_to_int', tie='NV.Tie.words_to_int_eq', prop='C15', file='strategy/__init__.py', cls=None, func='words_to_int', kind=None,
         params=[('words', 'ilist'), ('word_size', 'int'), ('num_words', 'int')], ret='int'),
    # spanning_cidr over a list of IPNetwork objects (iterator protocol: iter / next / StopIteration, chain, generator)
    dict(name='spanning_cidr', tie='NV.Tie.spanning_cidr_eq', prop='C13', file='ip/__init__.py', cls=None, func='spanning_cidr', kind=None,
         params=[('ip_addrs', 'netlist')], ret='ctor3', fuel='prefixlen.toNat'),
    # (iprange_to_cidrs is listed after cidr_partition and spanning_cidr, which it calls: see below)
    # the halving loop of cidr_partition (arguments already IPNetwork objects: `target = IPNetwork(target)` is the identity)
    dict(name='cidr_partition', tie='NV.Tie.cidr_partition_eq', prop='C09', file='ip/__init__.py', cls=None, func='cidr_partition', kind=None,
         params=[('target', 'obj:net'), ('exclude', 'obj:net')], ret='lists3', fuel='(width exclude_ver + 1)'),
    dict(name='cidr_exclude', tie='NV.Tie.cidr_exclude_eq', prop='C09', file='ip/__init__.py', cls=None, func='cidr_exclude', kind=None,
         params=[('target', 'obj:net'), ('exclude', 'obj:net')], ret='list3'),
    dict(name='iprange_to_cidrs', tie='NV.Tie.iprange_to_cidrs_ok', prop='C05', file='ip/__init__.py', cls=None, func='iprange_to_cidrs', kind=None,
         params=[('start', 'obj:net'), ('end', 'obj:net')], ret='list3'),
    # `x in y`: one translation per operand class (isinstance tests are decided by the declared class)
    dict(name='IPNetwork_contains_addr', tie='NV.Tie.net_contains_addr', prop='C04', file='ip/__init__.py', cls='IPNetwork', func='__contains__', kind='net', params=[('other', 'obj:addr')], ret='bool'),
    dict(name='IPNetwork_contains_net', tie='NV.Tie.net_contains_net', prop='C04', file='ip/__init__.py', cls='IPNetwork', func='__contains__', kind='net', params=[('other', 'obj:net')], ret='bool'),
    dict(name='IPNetwork_contains_rng', tie='NV.Tie.net_contains_rng', prop='C04', file='ip/__init__.py', cls='IPNetwork', func='__contains__', kind='net', params=[('other', 'obj:rng')], ret='bool'),
    dict(name='IPRange_contains_addr', tie='NV.Tie.rng_contains_addr', prop='C04', file='ip/__init__.py', cls='IPRange', func='__contains__', kind='rng', params=[('other', 'obj:addr')], ret='bool'),
    dict(name='IPRange_contains_net', tie='NV.Tie.rng_contains_net', prop='C04', file='ip/__init__.py', cls='IPRange', func='__contains__', kind='rng', params=[('other', 'obj:net')], ret='bool'),
    dict(name='IPRange_contains_rng', tie='NV.Tie.rng_contains_rng', prop='C04', file='ip/__init__.py', cls='IPRange', func='__contains__', kind='rng', params=[('other', 'obj:rng')], ret='bool'),
]

# class of an object operand -> the classes isinstance() says yes to
ISA = {'addr': {'BaseIP', 'IPAddress'}, 'net': {'BaseIP', 'IPNetwork', 'IPListMixin'}, 'rng': {'BaseIP', 'IPRange', 'IPListMixin'}}
OBJ_FIELDS = {'addr': ['ver', 'val'], 'net': ['ver', 'val', 'plen'], 'rng': ['ver', 'lo', 'hi']}

CTOR_NAMES = {'IPAddress', 'IPNetwork', 'klass', 'EUI'}


def find_func(tree, cls, func):
    """the LAST definition wins, as in Python; property setters (decorated x.setter) are skipped"""
    found = None
    for node in tree.body:
        if cls is None and isinstance(node, ast.FunctionDef) and node.name == func:
            found = node
        if isinstance(node, ast.ClassDef) and node.name == cls:
            for sub in node.body:
                if isinstance(sub, ast.FunctionDef) and sub.name == func:
                    if any(isinstance(d, ast.Attribute) and d.attr in ('setter', 'deleter') for d in sub.decorator_list):
                        continue
                    found = sub
    return found


class Ctx:
    def __init__(self, spec, table):
        self.spec = spec
        self.table = table          # name -> spec of every translated function (for calls)
        self.kind = spec['kind']
        self.params = dict(spec['params'])
        self.ctor_alias = set(CTOR_NAMES)
        self.bools = {p for p, t in spec['params'] if t == 'bool'}
        self.objs = {p: t[4:] for p, t in spec['params'] if t.startswith('obj:')}
        self.opts = set()           # local variables holding Optional constructor results
        self.vartypes = {}          # local variable -> 'int' | 'list3'
        self.vartypes.update({p: 'ilist' for p, t in spec['params'] if t == 'ilist'})
        self.vartypes.update({p: 'netlist' for p, t in spec['params'] if t == 'netlist'})
        self.nets = {}              # local network object (from a constructor tuple) -> (val, plen, ver) Lean names, ver an Int
        self.listlits = {}          # local list literal of ints -> names of its components
        self.objvars = {}           # local variable holding a constructed object -> names of its tuple components
        self.fn = None              # the FunctionDef being translated
        self.stored = 0             # > 0 while translating statements that follow a store to a field of self
        self.loops = []             # auxiliary loop definitions (text)
        self.nloops = 0
        self.raises = False


def self_cls(spec):
    return spec.get('self_cls', spec['cls'])


def lookup_member(ctx, attr):
    """a property / method of the same class that is itself translated"""
    for s in ctx.table.values():
        if s['func'] == attr and s['kind'] == ctx.kind and (self_cls(s) == self_cls(ctx.spec) or s['kind'] in ('net', 'rng')):
            return s
    return None


def self_args(ctx):
    return ' '.join(KINDS[ctx.kind][0])


# ---------------------------------------------------------------- expressions -> Lean

def attr_chain(e):
    parts = []
    while isinstance(e, ast.Attribute):
        parts.append(e.attr)
        e = e.value
    if isinstance(e, ast.Name):
        parts.append(e.id)
        return list(reversed(parts))
    return None


def intrinsic(ctx, e):
    ch = attr_chain(e)
    if ch is None:
        return None
    if ch[0] == 'self':
        if ch[1:] == ['_value'] and ctx.kind:
            return 'val'
        if ch[1:] in (['_prefixlen'], ['prefixlen']) and ctx.kind == 'net':
            return 'plen'
        if ch[1:] == ['_module', 'width']:
            return '((width ver : Nat) : Int)'
        if ch[1:] == ['_module', 'max_int']:
            return '((maxInt ver : Nat) : Int)'
        if ch[1:] in (['_module', 'version'], ['version']):
            return '((ver : Nat) : Int)'
        if ch[1:] == ['value'] and ctx.kind == 'eui':
            return 'val'
        if ch[1:] == ['_start', '_value'] and ctx.kind == 'rng':
            return 'lo'
        if ch[1:] == ['_end', '_value'] and ctx.kind == 'rng':
            return 'hi'
    if ch[0] in ctx.objs:
        k, o = ctx.objs[ch[0]], ch[0]
        if ch[1:] == ['_value'] and k in ('addr', 'net'):
            return '%s_val' % o
        if ch[1:] == ['_prefixlen'] and k == 'net':
            return '%s_plen' % o
        if ch[1:] == ['_start', '_value'] and k == 'rng':
            return '%s_lo' % o
        if ch[1:] == ['_end', '_value'] and k == 'rng':
            return '%s_hi' % o
        if ch[1:] == ['_module', 'width']:
            return '((width %s_ver : Nat) : Int)' % o
        if ch[1:] == ['_module', 'max_int']:
            return '((maxInt %s_ver : Nat) : Int)' % o
        if ch[1:] in (['_module', 'version'], ['version']):
            return '((%s_ver : Nat) : Int)' % o
        if ch[1:] == ['prefixlen'] and k == 'net':
            return '%s_plen' % o
        if len(ch) == 2:
            # a translated property of the operand's class, applied to the operand's fields
            for sp in ctx.table.values():
                if sp['func'] == ch[1] and sp['kind'] == k and sp['ret'] == 'int' and not sp.get('_raises') and not sp['params']:
                    return '(%s %s)' % (sp['name'], ' '.join('%s_%s' % (o, f) for f in OBJ_FIELDS[k]))
    if ch[0] in ctx.nets and len(ch) == 2:
        v_, p_, r_ = ctx.nets[ch[0]]
        if ch[1] in ('prefixlen', '_prefixlen'):
            return p_
        if ch[1] == '_value':
            return v_
        if ch[1] == 'version':
            return r_
        for sp in ctx.table.values():
            if sp['func'] == ch[1] and sp['kind'] == 'net' and sp['ret'] == 'int' and not sp.get('_raises') and not sp['params']:
                return '(%s (%s).toNat %s %s)' % (sp['name'], r_, v_, p_)
    if ch in (['_ipv4', 'max_int'],):
        return '((maxInt 4 : Nat) : Int)'
    if ch in (['_ipv4', 'width'],):
        return '((width 4 : Nat) : Int)'
    if ch in (['_ipv6', 'max_int'],):
        return '((maxInt 6 : Nat) : Int)'
    if ch in (['_ipv6', 'width'],):
        return '((width 6 : Nat) : Int)'
    return None


def is_ctor_call(ctx, e):
    if not isinstance(e, ast.Call):
        return False
    f = e.func
    if isinstance(f, ast.Name) and f.id in ctx.ctor_alias:
        return True
    if isinstance(f, ast.Attribute) and f.attr == '__class__' and isinstance(f.value, ast.Name) and f.value.id == 'self':
        return True
    return False


def ctor_class(ctx, e):
    f = e.func
    if isinstance(f, ast.Name) and f.id in ('IPAddress', 'IPNetwork', 'EUI'):
        return f.id
    return ctx.spec.get('self_cls') or ctx.spec['cls']        # klass / self.__class__


def ctor_args(ctx, e):
    # signatures: IPAddress(addr, version=None, flags=0), EUI(addr, version=None, dialect=None) - a second positional
    # argument IS the version; IPNetwork(addr, implicit_prefix=False, version=None, flags=0) - it is NOT
    # (seed C09-r9-1 / C11-r9-1 passed the version there; the tuple kept by the translation must not hide that)
    if ctor_class(ctx, e) in ('IPNetwork', 'IPListMixin', None) and len(e.args) > 1:
        raise Untranslatable('IPNetwork(...) with a second positional argument: that parameter is implicit_prefix, not version')
    if len(e.args) > 2:
        raise Untranslatable('constructor call with more than two positional arguments')
    out = []
    for a in e.args:
        if isinstance(a, ast.Tuple):
            out += [ival(ctx, x) for x in a.elts]
        else:
            out.append(ival(ctx, a))
    for k in e.keywords:
        if k.arg != 'version':
            raise Untranslatable('constructor keyword %s' % k.arg)
        out.append(ival(ctx, k.value))
    return out


BINOPS = {ast.Add: '(%s + %s)', ast.Sub: '(%s - %s)', ast.Mult: '(%s * %s)',
          ast.BitAnd: '(Py.iand %s %s)', ast.BitOr: '(Py.ior %s %s)', ast.BitXor: '(Py.ixor %s %s)',
          ast.LShift: '(Py.shl %s %s)', ast.RShift: '(Py.shr %s %s)',
          ast.FloorDiv: '(Py.fdiv %s %s)', ast.Mod: '(Py.fmod %s %s)', ast.Pow: '(Py.pow %s %s)'}
CMPOPS = {ast.Eq: '%s = %s', ast.NotEq: '%s ≠ %s', ast.Lt: '%s < %s', ast.LtE: '%s ≤ %s', ast.Gt: '%s > %s', ast.GtE: '%s ≥ %s'}


def call_member(ctx, s, extra):
    """call of another translated function on the same self; returns (lean term, raises?)"""
    args = [self_args(ctx)] if s['kind'] else []
    t = '(%s %s)' % (s['name'], ' '.join(args + extra))
    return t, s.get('_raises', False)


def ival(ctx, e):
    """Lean term of type Int"""
    if isinstance(e, ast.Constant) and isinstance(e.value, bool):
        raise Untranslatable('bool used as int')
    if isinstance(e, ast.Constant) and isinstance(e.value, int):
        return '(%d : Int)' % e.value if e.value >= 0 else '(-%d : Int)' % -e.value
    if isinstance(e, ast.Name):
        if e.id in ctx.bools:
            raise Untranslatable('bool variable used as int')
        if e.id == '_sys_maxint':
            return 'sysmaxint'          # sys.maxsize: a parameter of the translation (platform dependent)
        return nm(e.id)
    it = intrinsic(ctx, e)
    if it is not None:
        return it
    if isinstance(e, ast.Attribute) and isinstance(e.value, ast.Name) and e.value.id == 'self':
        s = lookup_member(ctx, e.attr)
        if s is not None and s['ret'] == 'int':
            t, r = call_member(ctx, s, [])
            if r:
                raise Untranslatable('raising member inside an expression')
            return t
    if isinstance(e, ast.Subscript) and isinstance(e.value, ast.Name) and e.value.id in ctx.listlits \
            and isinstance(e.slice, ast.Constant) and isinstance(e.slice.value, int) \
            and 0 <= e.slice.value < len(ctx.listlits[e.value.id]):
        return ctx.listlits[e.value.id][e.slice.value]
    if isinstance(e, ast.BinOp) and type(e.op) in BINOPS:
        return BINOPS[type(e.op)] % (ival(ctx, e.left), ival(ctx, e.right))
    if isinstance(e, ast.UnaryOp) and isinstance(e.op, ast.USub):
        return '(-%s)' % ival(ctx, e.operand)
    if isinstance(e, ast.UnaryOp) and isinstance(e.op, ast.Invert):
        return '(-%s - 1)' % ival(ctx, e.operand)
    if isinstance(e, ast.Call) and isinstance(e.func, ast.Name) and e.func.id == 'int' and len(e.args) == 1 and not e.keywords:
        a = e.args[0]
        if ctx.kind == 'rng' and attr_chain(a) == ['self', '_start']:
            return 'lo'
        if ctx.kind == 'rng' and attr_chain(a) == ['self', '_end']:
            return 'hi'
        if isinstance(a, ast.Call) and isinstance(a.func, ast.Attribute) and isinstance(a.func.value, ast.Name) \
                and a.func.value.id == 'self' and not a.keywords:
            sm = lookup_member(ctx, a.func.attr)
            if sm is not None and sm['ret'] == 'ctor2' and not sm.get('_raises'):
                return '%s.1' % call_member(ctx, sm, [ival(ctx, x) for x in a.args])[0]
        # int(self.network) etc.: the integer of a constructor tuple is its first component
        if isinstance(a, ast.Attribute) and isinstance(a.value, ast.Name) and a.value.id == 'self':
            s = lookup_member(ctx, a.attr)
            if s is not None and s['ret'] == 'ctor2':
                t, r = call_member(ctx, s, [])
                if r:
                    raise Untranslatable('raising member inside an expression')
                return '%s.1' % t
        return ival(ctx, a)
    if isinstance(e, ast.Call) and isinstance(e.func, ast.Name) and e.func.id == 'len' and len(e.args) == 1 \
            and isinstance(e.args[0], ast.Name) and ctx.vartypes.get(e.args[0].id) == 'ilist':
        return '((%s.length : Nat) : Int)' % nm(e.args[0].id)
    if isinstance(e, ast.Call) and isinstance(e.func, ast.Name) and e.func.id in ('min', 'max') and len(e.args) == 2 and not e.keywords:
        return '(%s %s %s)' % (e.func.id, ival(ctx, e.args[0]), ival(ctx, e.args[1]))
    if isinstance(e, ast.IfExp):
        return '(if %s then %s else %s)' % (prop(ctx, e.test), ival(ctx, e.body), ival(ctx, e.orelse))
    raise Untranslatable('integer expression %s' % ast.dump(e)[:80])


def static_test(ctx, e):
    """True / False when the test is `isinstance(<object operand>, <class>)`, else None"""
    if isinstance(e, ast.Call) and isinstance(e.func, ast.Name) and e.func.id == 'isinstance' and len(e.args) == 2 \
            and isinstance(e.args[0], ast.Name) and e.args[0].id in ctx.objs and isinstance(e.args[1], ast.Name):
        return e.args[1].id in ISA[ctx.objs[e.args[0].id]]
    if isinstance(e, ast.Call) and isinstance(e.func, ast.Name) and e.func.id == 'isinstance' and len(e.args) == 2 \
            and isinstance(e.args[0], ast.Name) and ctx.params.get(e.args[0].id) == 'int' \
            and isinstance(e.args[1], ast.Name) and e.args[1].id in ('_int_type', 'int'):
        return True      # the parameter is declared an int: this translation is the int-argument case
    if isinstance(e, ast.Call) and isinstance(e.func, ast.Name) and e.func.id == 'hasattr' and len(e.args) == 2 \
            and isinstance(e.args[0], ast.Name) and ctx.vartypes.get(e.args[0].id) == 'ilist' \
            and isinstance(e.args[1], ast.Constant) and e.args[1].value == '__iter__':
        return True      # the parameter is declared a list / tuple of ints
    if isinstance(e, ast.UnaryOp) and isinstance(e.op, ast.Not):
        st = static_test(ctx, e.operand)
        return None if st is None else (not st)
    return None


def prop(ctx, e):
    """Lean term of type Prop (decidable)"""
    st = static_test(ctx, e)
    if st is not None:
        return 'True' if st else 'False'
    if isinstance(e, ast.Compare) and len(e.ops) == 1 and isinstance(e.ops[0], ast.Eq) and ctx.kind == 'eui' \
            and attr_chain(e.left) == ['self', '_module'] and isinstance(e.comparators[0], ast.Name) \
            and e.comparators[0].id in ('_eui48', '_eui64'):
        return '(ver = %s)' % e.comparators[0].id[4:]
    if isinstance(e, ast.Compare) and len(e.ops) == 1 and isinstance(e.ops[0], ast.In) \
            and attr_chain(e.comparators[0]) in (['IAB', 'IAB_EUI_VALUES'], ['cls', 'IAB_EUI_VALUES']):
        return '(Py.inNat %s NV.Gen.iabEuiValues)' % ival(ctx, e.left)
    if isinstance(e, ast.Compare):
        terms = [e.left] + list(e.comparators)
        parts = []
        for op, a, b in zip(e.ops, terms, terms[1:]):
            if type(op) not in CMPOPS:
                raise Untranslatable('comparison %s' % type(op).__name__)
            parts.append(CMPOPS[type(op)] % (ival(ctx, a), ival(ctx, b)))
        return '(' + ' ∧ '.join(parts) + ')'
    if isinstance(e, ast.BoolOp):
        j = ' ∧ ' if isinstance(e.op, ast.And) else ' ∨ '
        return '(' + j.join(prop(ctx, v) for v in e.values) + ')'
    if isinstance(e, ast.UnaryOp) and isinstance(e.op, ast.Not):
        return '(¬ %s)' % prop(ctx, e.operand)
    if isinstance(e, ast.Constant) and isinstance(e.value, bool):
        return 'True' if e.value else 'False'
    if isinstance(e, ast.Name) and e.id in ctx.bools:
        return '(%s = true)' % e.id
    if isinstance(e, ast.Call) and isinstance(e.func, ast.Attribute) and isinstance(e.func.value, ast.Name) \
            and e.func.value.id == 'self' and not e.args and not e.keywords:
        s = lookup_member(ctx, e.func.attr)
        if s is not None and s['ret'] == 'bool' and not s.get('_raises'):
            return '(%s = true)' % call_member(ctx, s, [])[0]
    if isinstance(e, ast.Call) and isinstance(e.func, ast.Name) and not e.keywords:
        for sp in ctx.table.values():
            if sp['cls'] is None and sp['func'] == e.func.id and sp['ret'] == 'bool' and not sp.get('_raises') \
                    and len(sp['params']) == len(e.args):
                args = []
                for a, (pn, pt) in zip(e.args, sp['params']):
                    if pt == 'ilist':
                        if not (isinstance(a, ast.Name) and ctx.vartypes.get(a.id) == 'ilist'):
                            raise Untranslatable('list argument')
                        args.append(nm(a.id))
                    else:
                        args.append(ival(ctx, a))
                return '(%s %s = true)' % (sp['name'], ' '.join(args))
    # int truthiness
    try:
        return '(%s ≠ 0)' % ival(ctx, e)
    except Untranslatable:
        raise Untranslatable('condition %s' % ast.dump(e)[:80])


# ---------------------------------------------------------------- statements -> Lean

def ret_type(spec):
    r = spec['ret']
    base = {'int': 'Int', 'bool': 'Bool', 'ctor2': 'Int × Int', 'ctor3': 'Int × Int × Int',
            'opt_ctor2': 'Option (Int × Int)', 'opt_ctor3': 'Option (Int × Int × Int)'}.get(r)
    if r.startswith('tuple'):
        base = ' × '.join('Int' for _ in range(int(r[5:])))
    if r == 'lists3':
        base = 'List (Int × Int × Int) × List (Int × Int × Int) × List (Int × Int × Int)'
    if r == 'ilist':
        base = 'List Int'
    if r == 'list3':
        base = 'List (Int × Int × Int)'
    if r == 'self':
        base = ' × '.join('Int' for _ in KINDS[spec['kind']][1])
    return base


def wrap_ok(ctx, t):
    return '.ok %s' % t if ctx.spec['_raises'] else t


def obj_tuple(ctx, e):
    """a network object as the tuple (value, prefixlen, version): a constructor call, an operand, or `operand.cidr`"""
    if is_ctor_call(ctx, e):
        a = ctor_args(ctx, e)
        if len(a) != 3:
            raise Untranslatable('list element constructor arity %d' % len(a))
        return '(' + ', '.join(a) + ')'
    if isinstance(e, ast.Name) and e.id in ctx.nets:
        return '(%s, %s, %s)' % ctx.nets[e.id]
    if isinstance(e, ast.Name) and ctx.objs.get(e.id) == 'net':
        return '(%s_val, %s_plen, ((%s_ver : Nat) : Int))' % (e.id, e.id, e.id)
    ch = attr_chain(e)
    if ch and len(ch) == 2 and ctx.objs.get(ch[0]) == 'net':
        for sp in ctx.table.values():
            if sp['func'] == ch[1] and sp['kind'] == 'net' and sp['ret'] == 'ctor3' and not sp['params']:
                return '(%s %s_ver %s_val %s_plen)' % (sp['name'], ch[0], ch[0], ch[0])
    raise Untranslatable('list element %s' % ast.dump(e)[:60])


def lval(ctx, e):
    """Lean term of type List (Int × Int × Int)"""
    if isinstance(e, ast.List):
        return '[' + ', '.join(obj_tuple(ctx, x) for x in e.elts) + ']'
    if isinstance(e, ast.Name) and ctx.vartypes.get(e.id) == 'list3':
        return nm(e.id)
    if isinstance(e, ast.BinOp) and isinstance(e.op, ast.Add):
        return '(%s ++ %s)' % (lval(ctx, e.left), lval(ctx, e.right))
    if isinstance(e, ast.Subscript) and isinstance(e.slice, ast.Slice) and e.slice.lower is None and e.slice.upper is None \
            and isinstance(e.slice.step, ast.UnaryOp) and isinstance(e.slice.step.op, ast.USub) \
            and isinstance(e.slice.step.operand, ast.Constant) and e.slice.step.operand.value == 1:
        return '(%s).reverse' % lval(ctx, e.value)
    if isinstance(e, ast.Subscript) and isinstance(e.slice, ast.Constant) and e.slice.value in (0, 1, 2) \
            and isinstance(e.value, ast.Call) and isinstance(e.value.func, ast.Name) and not e.value.keywords:
        for sp in ctx.table.values():
            if sp['cls'] is None and sp['func'] == e.value.func.id and sp['ret'] == 'lists3' and not sp.get('_raises') \
                    and len(sp['params']) == len(e.value.args):
                args = []
                for a in e.value.args:
                    args += net_fields(ctx, a)
                return '(%s %s)%s' % (sp['name'], ' '.join(args), ['.1', '.2.1', '.2.2'][e.slice.value])
    raise Untranslatable('list expression %s' % ast.dump(e)[:60])


def net_fields(ctx, a):
    """(ver : Nat, val, plen) Lean terms of a network object given by name"""
    if isinstance(a, ast.Name) and a.id in ctx.nets:
        v_, p_, r_ = ctx.nets[a.id]
        return ['(%s).toNat' % r_, v_, p_]
    if isinstance(a, ast.Name) and ctx.objs.get(a.id) == 'net':
        return ['%s_ver' % a.id, '%s_val' % a.id, '%s_plen' % a.id]
    raise Untranslatable('network argument %s' % ast.dump(a)[:50])


def retval(ctx, e):
    r = ctx.spec['ret']
    if r == 'ilist':
        # tuple(reversed(words)) / list(reversed(words)) / words
        if isinstance(e, ast.Call) and isinstance(e.func, ast.Name) and e.func.id in ('tuple', 'list') and len(e.args) == 1:
            e = e.args[0]
        if isinstance(e, ast.Call) and isinstance(e.func, ast.Name) and e.func.id == 'reversed' and len(e.args) == 1 \
                and isinstance(e.args[0], ast.Name) and ctx.vartypes.get(e.args[0].id) == 'ilist':
            return '(%s).reverse' % nm(e.args[0].id)
        if isinstance(e, ast.Name) and ctx.vartypes.get(e.id) == 'ilist':
            return nm(e.id)
        raise Untranslatable('return of %s' % ast.dump(e)[:60])
    if r == 'list3':
        return lval(ctx, e)
    if r == 'lists3':
        if isinstance(e, ast.Tuple) and len(e.elts) == 3:
            return '(' + ', '.join(lval(ctx, x) for x in e.elts) + ')'
        raise Untranslatable('return of something else than three lists')
    if r == 'bool':
        return '(decide %s)' % prop(ctx, e)
    if r == 'int':
        return ival(ctx, e)
    if r == 'self':
        if isinstance(e, ast.Name) and e.id == 'self':
            return '(' + ', '.join(KINDS[ctx.kind][1]) + ')'
        raise Untranslatable('return of something else than self')
    if r.startswith('ctor'):
        n = int(r[4:])
        if isinstance(e, ast.Name) and e.id in ctx.objvars and len(ctx.objvars[e.id]) == n:
            return '(' + ', '.join(ctx.objvars[e.id]) + ')'
        if isinstance(e, ast.Call) and isinstance(e.func, ast.Attribute) and isinstance(e.func.value, ast.Name) \
                and e.func.value.id == 'self' and not e.keywords:
            sm = lookup_member(ctx, e.func.attr)
            if sm is not None and sm['ret'] == r and not sm.get('_raises'):
                return call_member(ctx, sm, [ival(ctx, x) for x in e.args])[0]
        if is_ctor_call(ctx, e):
            a = ctor_args(ctx, e)
            if len(a) != n:
                raise Untranslatable('constructor arity %d, expected %d' % (len(a), n))
            return '(' + ', '.join(a) + ')'
        raise Untranslatable('return of a non-constructor')
    if r.startswith('tuple'):
        n = int(r[5:])
        if isinstance(e, ast.Tuple) and len(e.elts) == n:
            return '(' + ', '.join(ival(ctx, x) for x in e.elts) + ')'
        raise Untranslatable('return of a non-tuple')
    if r.startswith('opt_ctor'):
        if isinstance(e, ast.Name) and e.id in ctx.opts:
            return e.id
        if isinstance(e, ast.Constant) and e.value is None:
            return 'none'
        if is_ctor_call(ctx, e):
            return '(some (' + ', '.join(ctor_args(ctx, e)) + '))'
        raise Untranslatable('return of %s' % ast.dump(e)[:60])
    raise Untranslatable('return kind %s' % r)


def assigned_vars(stmts):
    out = []
    for s in ast.walk(ast.Module(body=list(stmts), type_ignores=[])):
        if isinstance(s, (ast.Assign, ast.AugAssign)):
            tg = s.targets if isinstance(s, ast.Assign) else [s.target]
            for t in tg:
                if isinstance(t, ast.Name) and t.id not in out:
                    out.append(t.id)
        if isinstance(s, ast.Expr) and isinstance(s.value, ast.Call) and isinstance(s.value.func, ast.Attribute) \
                and s.value.func.attr == 'append' and isinstance(s.value.func.value, ast.Name) and s.value.func.value.id not in out:
            out.append(s.value.func.value.id)
    return out


def block(ctx, stmts, ind, loop=None):
    """Lean term for the statement list (the rest of the function is part of the list: continuation
    passing by duplication).  loop = (name, vars, after) when inside a while body: falling off the end
    re-enters the loop, `break` continues with `after`."""
    pad = '  ' * ind
    if not stmts:
        if loop is not None:
            return '%s%s %s' % (pad, loop[0], ' '.join(loop[1]))
        if ctx.spec['ret'] in ('opt_ctor2', 'opt_ctor3'):
            return pad + wrap_ok(ctx, 'none')
        if ctx.spec.get('end') is not None:
            return pad + wrap_ok(ctx, ctx.spec['end'])
        if ctx.spec['ret'] == 'self':      # a setter: returns None, the caller sees the stored fields
            return pad + wrap_ok(ctx, '(' + ', '.join(KINDS[ctx.kind][1]) + ')')
        raise Untranslatable('function can fall off its end')
    s, rest = stmts[0], stmts[1:]
    if isinstance(s, ast.Expr) and isinstance(s.value, ast.Constant) and isinstance(s.value.value, str):
        return block(ctx, rest, ind, loop)
    if isinstance(s, ast.Pass):
        return block(ctx, rest, ind, loop)
    if isinstance(s, ast.Return):
        return pad + wrap_ok(ctx, retval(ctx, s.value))
    if isinstance(s, ast.Raise):
        exc = s.exc
        name = exc.func.id if isinstance(exc, ast.Call) and isinstance(exc.func, ast.Name) else (exc.id if isinstance(exc, ast.Name) else None)
        if name not in EXC:
            raise Untranslatable('raise of %r' % name)
        if ctx.stored:
            # the translation is functional: an exception carries no state, so "stored, then raised" (a partially
            # applied update) would silently look like "raised" - refuse instead of hiding it
            raise Untranslatable('raise after a store to a field of self (partial update on an error path)')
        return pad + '.error .%s' % EXC[name]
    if isinstance(s, ast.Break):
        if loop is None:
            raise Untranslatable('break outside loop')
        return block(ctx, loop[2], ind, loop[3])
    if isinstance(s, (ast.Assign, ast.AugAssign)):
        if isinstance(s, ast.Assign):
            if len(s.targets) != 1:
                raise Untranslatable('multiple assignment')
            tgt, val = s.targets[0], s.value
        else:
            tgt = s.target
            val = ast.BinOp(left=ast.Name(id=None), op=s.op, right=s.value)
            val.left = tgt if isinstance(tgt, ast.Name) else ast.Attribute(value=tgt.value, attr=tgt.attr)
        if isinstance(tgt, ast.Attribute) and isinstance(tgt.value, ast.Name) and tgt.value.id == 'self':
            fld = {'_value': 'val', '_prefixlen': 'plen'}.get(tgt.attr)
            if fld is None or fld not in KINDS[ctx.kind][1]:
                raise Untranslatable('store to self.%s' % tgt.attr)
            rhs = ival(ctx, val)
            ctx.stored += 1
            try:
                tail = block(ctx, rest, ind, loop)
            finally:
                ctx.stored -= 1
            return '%slet %s : Int := %s\n%s' % (pad, fld, rhs, tail)
        if isinstance(tgt, ast.Attribute) and isinstance(tgt.value, ast.Name) and tgt.value.id in ctx.objvars \
                and tgt.attr == '_value':
            c0 = ctx.objvars[tgt.value.id][0]
            val2 = val
            if isinstance(s, ast.AugAssign):
                val2 = ast.BinOp(left=ast.Name(id=c0), op=s.op, right=s.value)
            return '%slet %s : Int := %s\n%s' % (pad, c0, ival(ctx, val2), block(ctx, rest, ind, loop))
        if isinstance(s, ast.AugAssign) and isinstance(tgt, ast.Name) and ctx.vartypes.get(tgt.id) == 'list3' \
                and isinstance(s.op, ast.Add):
            return '%slet %s : List (Int × Int × Int) := %s ++ %s\n%s' % (pad, tgt.id, tgt.id, lval(ctx, s.value), block(ctx, rest, ind, loop))
        if isinstance(tgt, ast.Tuple) and len(tgt.elts) == 3 and all(isinstance(t, ast.Name) for t in tgt.elts) \
                and isinstance(val, ast.Call) and isinstance(val.func, ast.Name) and not val.keywords:
            for sp in ctx.table.values():
                if sp['cls'] is None and sp['func'] == val.func.id and sp['ret'] == 'lists3' and not sp.get('_raises') \
                        and len(sp['params']) == len(val.args):
                    args = []
                    for a in val.args:
                        args += net_fields(ctx, a)
                    call = '(%s %s)' % (sp['name'], ' '.join(args))
                    out = ''
                    for t, pj in zip(tgt.elts, ['.1', '.2.1', '.2.2']):
                        ctx.vartypes[t.id] = 'list3'
                        out += '%slet %s : List (Int × Int × Int) := %s%s\n' % (pad, nm(t.id), call, pj)
                    return out + block(ctx, rest, ind, loop)
        if not isinstance(tgt, ast.Name):
            raise Untranslatable('assignment target')
        v = tgt.id
        # target = IPNetwork(target): the operand is declared to be that object already
        if v in ctx.objs and is_ctor_call(ctx, val) and len(val.args) == 1 and isinstance(val.args[0], ast.Name) \
                and val.args[0].id == v and not val.keywords:
            return block(ctx, rest, ind, loop)
        if isinstance(val, ast.Call) and isinstance(val.func, ast.Name) and val.func.id == 'iter' and len(val.args) == 1 \
                and isinstance(val.args[0], ast.Name) and ctx.vartypes.get(val.args[0].id) == 'netlist':
            # an iterator over a list is the list of the items still to come
            ctx.vartypes[v] = 'netiter'
            return '%slet %s : List (Nat × Int × Int) := %s\n%s' % (pad, nm(v), nm(val.args[0].id), block(ctx, rest, ind, loop))
        # x = [e1, e2, ...]: a literal list of ints, read back only by constant index
        if isinstance(val, ast.List) and val.elts and ctx.spec['ret'] != 'ilist':
            try:
                terms = [ival(ctx, x) for x in val.elts]
            except Untranslatable:
                terms = None
            if terms is not None:
                names = ['%s__%d' % (v, i) for i in range(len(terms))]
                ctx.listlits[v] = names
                lets = ''.join('%slet %s : Int := %s\n' % (pad, n, t) for n, t in zip(names, terms))
                return lets + block(ctx, rest, ind, loop)
        # x = IPNetwork((v, p), version=r): a local network object
        if is_ctor_call(ctx, val) and ctor_class(ctx, val) == 'IPNetwork' and not ctx.spec['ret'].startswith('opt_ctor'):
            a3 = ctor_args(ctx, val)
            if len(a3) == 3:
                names = ('%s__val' % v, '%s__plen' % v, '%s__ver' % v)
                ctx.nets[v] = names
                lets = ''.join('%slet %s : Int := %s\n' % (pad, n, t) for n, t in zip(names, a3))
                return lets + block(ctx, rest, ind, loop)
        # x = f(...) for a translated module-level function returning a network (possibly raising)
        if isinstance(val, ast.Call) and isinstance(val.func, ast.Name) and not val.keywords:
            for sp in ctx.table.values():
                if sp['cls'] is None and sp['func'] == val.func.id and sp['ret'] == 'ctor3' and len(sp['params']) == len(val.args):
                    args = []
                    for a, (pn, pt) in zip(val.args, sp['params']):
                        args.append(net_items(ctx, a) if pt == 'netlist' else ival(ctx, a))
                    names = ('%s__val' % v, '%s__plen' % v, '%s__ver' % v)
                    ctx.nets[v] = names
                    call = '(%s %s)' % (sp['name'], ' '.join(args))
                    tail = block(ctx, rest, ind + 1, loop)
                    bind = '%s  let %s : Int := %s__t.1\n%s  let %s : Int := %s__t.2.1\n%s  let %s : Int := %s__t.2.2\n' % (
                        pad, names[0], v, pad, names[1], v, pad, names[2], v)
                    if sp.get('_raises'):
                        return '%smatch %s with\n%s| .error e => .error e\n%s| .ok %s__t =>\n%s%s' % (pad, call, pad, pad, v, bind, tail)
                    return '%slet %s__t := %s\n%s%s' % (pad, v, call, bind.replace(pad + '  ', pad), block(ctx, rest, ind, loop))
        # x = xs.pop(): the last item (IndexError on an empty list), xs loses it
        if isinstance(val, ast.Call) and isinstance(val.func, ast.Attribute) and val.func.attr == 'pop' and not val.args \
                and isinstance(val.func.value, ast.Name) and ctx.vartypes.get(val.func.value.id) == 'list3':
            xs = val.func.value.id
            names = ('%s__val' % v, '%s__plen' % v, '%s__ver' % v)
            ctx.nets[v] = names
            ctx.raises_extra = True
            tail = block(ctx, rest, ind + 1, loop)
            return ('%smatch (%s).getLast? with\n%s| none => .error .index\n%s| some %s__t =>\n' % (pad, xs, pad, pad, v) +
                    '%s  let %s : Int := %s__t.1\n%s  let %s : Int := %s__t.2.1\n%s  let %s : Int := %s__t.2.2\n' % (
                        pad, names[0], v, pad, names[1], v, pad, names[2], v) +
                    '%s  let %s : List (Int × Int × Int) := (%s).dropLast\n%s' % (pad, xs, xs, tail))
        # xs = <list expression>
        if ctx.vartypes.get(v) == 'list3' or (isinstance(val, ast.Subscript) and not isinstance(val.value, ast.Name)):
            try:
                t = lval(ctx, val)
                ctx.vartypes[v] = 'list3'
                return '%slet %s : List (Int × Int × Int) := %s\n%s' % (pad, v, t, block(ctx, rest, ind, loop))
            except Untranslatable:
                if ctx.vartypes.get(v) == 'list3':
                    raise
        if isinstance(val, ast.List) and not val.elts and ctx.spec['ret'] == 'ilist':
            ctx.vartypes[v] = 'ilist'
            return '%slet %s : List Int := []\n%s' % (pad, nm(v), block(ctx, rest, ind, loop))
        if isinstance(val, ast.List):
            ctx.vartypes[v] = 'list3'
            return '%slet %s : List (Int × Int × Int) := %s\n%s' % (pad, v, lval(ctx, val), block(ctx, rest, ind, loop))
        # klass = self.__class__
        if isinstance(val, ast.Attribute) and val.attr == '__class__':
            ctx.ctor_alias.add(v)
            return block(ctx, rest, ind, loop)
        if isinstance(val, ast.Constant) and val.value is None and ctx.spec['ret'].startswith('opt_ctor'):
            ctx.opts.add(v)
            return '%slet %s : %s := none\n%s' % (pad, v, ret_type(ctx.spec), block(ctx, rest, ind, loop))
        if is_ctor_call(ctx, val) and (v in ctx.opts or ctx.spec['ret'].startswith('opt_ctor')):
            ctx.opts.add(v)
            return '%slet %s : %s := some (%s)\n%s' % (pad, v, ret_type(ctx.spec), ', '.join(ctor_args(ctx, val)), block(ctx, rest, ind, loop))
        # x = self.member() where the member returns a constructed object: x is a fresh object the function owns
        if isinstance(val, ast.Call) and isinstance(val.func, ast.Attribute) and isinstance(val.func.value, ast.Name) \
                and val.func.value.id == 'self' and not val.keywords:
            sm = lookup_member(ctx, val.func.attr)
            if sm is not None and sm['ret'] in ('ctor2', 'ctor3') and not sm.get('_raises'):
                t, _ = call_member(ctx, sm, [ival(ctx, a) for a in val.args])
                n = int(sm['ret'][4:])
                comps = ['%s__%d' % (v, i) for i in range(n)]
                ctx.objvars[v] = comps
                proj = ['.1', '.2'] if n == 2 else ['.1', '.2.1', '.2.2']
                lets = ''.join('%slet %s : Int := %s%s\n' % (pad, c, t, pj) for c, pj in zip(comps, proj))
                return lets + block(ctx, rest, ind, loop)
        # x = self.raising_member()
        if isinstance(val, ast.Call) and isinstance(val.func, ast.Attribute) and isinstance(val.func.value, ast.Name) \
                and val.func.value.id == 'self':
            sm = lookup_member(ctx, val.func.attr)
            if sm is not None and sm.get('_raises') and sm['ret'] == 'int':
                t, _ = call_member(ctx, sm, [ival(ctx, a) for a in val.args])
                return '%smatch %s with\n%s| .error e => .error e\n%s| .ok %s =>\n%s' % (pad, t, pad, pad, v, block(ctx, rest, ind + 1, loop))
        ctx.vartypes.setdefault(v, 'int')
        return '%slet %s : Int := %s\n%s' % (pad, nm(v), ival(ctx, val), block(ctx, rest, ind, loop))
    if isinstance(s, ast.Expr) and isinstance(s.value, ast.Call) and isinstance(s.value.func, ast.Attribute) \
            and s.value.func.attr == 'append' and isinstance(s.value.func.value, ast.Name) \
            and ctx.vartypes.get(s.value.func.value.id) == 'list3' and len(s.value.args) == 1:
        v = s.value.func.value.id
        return '%slet %s : List (Int × Int × Int) := %s ++ [%s]\n%s' % (pad, v, v, obj_tuple(ctx, s.value.args[0]), block(ctx, rest, ind, loop))
    if isinstance(s, ast.Expr) and isinstance(s.value, ast.Call) and isinstance(s.value.func, ast.Attribute) \
            and s.value.func.attr == 'append' and isinstance(s.value.func.value, ast.Name) \
            and ctx.vartypes.get(s.value.func.value.id) == 'ilist' and len(s.value.args) == 1:
        v = nm(s.value.func.value.id)
        return '%slet %s : List Int := %s ++ [%s]\n%s' % (pad, v, v, ival(ctx, s.value.args[0]), block(ctx, rest, ind, loop))
    if isinstance(s, ast.For):
        return for_loop(ctx, s, rest, ind, loop)
    if isinstance(s, ast.Try):
        return try_next(ctx, s, rest, ind, loop)
    if isinstance(s, ast.If):
        st = static_test(ctx, s.test)
        if st is not None:
            return block(ctx, (list(s.body) if st else list(s.orelse)) + rest, ind, loop)
        a = block(ctx, list(s.body) + rest, ind + 1, loop)
        b = block(ctx, list(s.orelse) + rest, ind + 1, loop)
        return '%sif %s then\n%s\n%selse\n%s' % (pad, prop(ctx, s.test), a, pad, b)
    if isinstance(s, ast.While):
        if s.orelse:
            raise Untranslatable('while-else')
        fuel = ctx.spec.get('fuel')
        if not fuel:
            raise Untranslatable('while loop without a fuel term')
        ctx.nloops += 1
        lname = '%s_loop%d' % (ctx.spec['name'], ctx.nloops)
        before = locals_before(ctx, s)
        inbody = [v for v in assigned_vars(s.body) if v in before]
        lv = inbody + [v for v in before if v not in inbody]
        # loop variables: the locals defined before the loop - first the ones the body assigns, then the others
        selfp = ' '.join('(%s : %s)' % (f, 'Nat' if f == 'ver' else 'Int') for f in KINDS[ctx.kind][0])
        par = ' '.join('(%s : %s)' % (nm(v), VT[ctx.vartypes.get(v, 'int')]) for v in lv)
        extra = ' '.join(param_binders(ctx.spec))
        rt = ret_type(ctx.spec)
        rt = 'R (%s)' % rt if ctx.spec['_raises'] else rt
        call_vars = KINDS[ctx.kind][0] + param_names(ctx.spec) + [nm(v) for v in lv]
        after = block(ctx, rest, 2, loop)
        body = block(ctx, list(s.body), 3, (lname + ' fuel', call_vars, rest, loop))
        ctx.loops.append(
            'def %s (fuel0 : Nat) %s %s %s : %s :=\n  match fuel0 with\n  | 0 =>\n%s\n  | fuel + 1 =>\n    if %s then\n%s\n    else\n%s\n'
            % (lname, selfp, extra, par, rt, after, prop(ctx, s.test), body, block(ctx, rest, 3, loop)))
        return '%s%s (%s + 1) %s' % (pad, lname, fuel, ' '.join(call_vars))
    raise Untranslatable('statement %s' % type(s).__name__)


VT = {'int': 'Int', 'list3': 'List (Int × Int × Int)', 'ilist': 'List Int', 'netiter': 'List (Nat × Int × Int)'}


def locals_before(ctx, s):
    return [v for v in assigned_vars([st for st in ast.walk(ctx.fn) if isinstance(st, ast.stmt) and st is not ctx.fn
                                      and getattr(st, 'lineno', 0) < s.lineno])
            if v in ctx.vartypes and v not in ctx.params]


def for_loop(ctx, s, rest, ind, loop):
    """`for _ in range(E)`, `for x in L`, `for i, x in enumerate(reversed(L))` (L a list of ints): an auxiliary
    definition by recursion on the count / on the list; falling off the body continues with the next item"""
    if s.orelse:
        raise Untranslatable('for-else')
    pad = '  ' * ind
    it = s.iter
    ctx.nloops += 1
    lname = '%s_loop%d' % (ctx.spec['name'], ctx.nloops)
    before = locals_before(ctx, s)
    inbody = [v for v in assigned_vars(s.body) if v in before]
    lv = inbody + [v for v in before if v not in inbody]
    selfp = ' '.join('(%s : %s)' % (f, 'Nat' if f == 'ver' else 'Int') for f in KINDS[ctx.kind][0])
    extra = ' '.join(param_binders(ctx.spec))
    par = ' '.join('(%s : %s)' % (nm(v), VT[ctx.vartypes.get(v, 'int')]) for v in lv)
    rt = ret_type(ctx.spec)
    rt = 'R (%s)' % rt if ctx.spec['_raises'] else rt
    call_vars = KINDS[ctx.kind][0] + param_names(ctx.spec) + [nm(v) for v in lv]
    after = block(ctx, rest, 2, loop)

    def is_list(e):
        return isinstance(e, ast.Name) and ctx.vartypes.get(e.id) == 'ilist'
    if isinstance(it, ast.Call) and isinstance(it.func, ast.Name) and it.func.id in ('range', '_range') and len(it.args) == 1 \
            and isinstance(s.target, ast.Name) and s.target.id == '_':
        body = block(ctx, list(s.body), 2, (lname + ' cnt', call_vars, rest, loop))
        ctx.loops.append('def %s (cnt0 : Nat) %s %s %s : %s :=\n  match cnt0 with\n  | 0 =>\n%s\n  | cnt + 1 =>\n%s\n'
                         % (lname, selfp, extra, par, rt, after, body))
        return '%s%s (%s).toNat %s' % (pad, lname, ival(ctx, it.args[0]), ' '.join(call_vars))
    if is_list(it) and isinstance(s.target, ast.Name):
        x = nm(s.target.id)
        ctx.vartypes[s.target.id] = 'int'
        body = block(ctx, list(s.body), 2, (lname + ' items', call_vars, rest, loop))
        ctx.loops.append('def %s (items0 : List Int) %s %s %s : %s :=\n  match items0 with\n  | [] =>\n%s\n  | %s :: items =>\n%s\n'
                         % (lname, selfp, extra, par, rt, after, x, body))
        return '%s%s %s %s' % (pad, lname, nm(it.id), ' '.join(call_vars))
    if isinstance(it, ast.Call) and isinstance(it.func, ast.Name) and it.func.id == 'enumerate' and len(it.args) == 1 \
            and isinstance(it.args[0], ast.Call) and isinstance(it.args[0].func, ast.Name) and it.args[0].func.id == 'reversed' \
            and len(it.args[0].args) == 1 and is_list(it.args[0].args[0]) \
            and isinstance(s.target, ast.Tuple) and len(s.target.elts) == 2 and all(isinstance(t, ast.Name) for t in s.target.elts):
        i, x = nm(s.target.elts[0].id), nm(s.target.elts[1].id)
        ctx.vartypes[s.target.elts[0].id] = 'int'
        ctx.vartypes[s.target.elts[1].id] = 'int'
        body = block(ctx, list(s.body), 2, (lname + ' items (%s + 1)' % i, call_vars, rest, loop))
        ctx.loops.append('def %s (items0 : List Int) (%s : Int) %s %s %s : %s :=\n  match items0 with\n  | [] =>\n%s\n  | %s :: items =>\n%s\n'
                         % (lname, i, selfp, extra, par, rt, after, x, body))
        return '%s%s (%s).reverse (0 : Int) %s' % (pad, lname, nm(it.args[0].args[0].id), ' '.join(call_vars))
    if isinstance(s.target, ast.Name):
        src = net_items(ctx, it)
        x = s.target.id
        ctx.objs[x] = 'net'
        body = block(ctx, list(s.body), 2, (lname + ' items', call_vars, rest, loop))
        ctx.loops.append('def %s (items0 : List (Nat × Int × Int)) %s %s %s : %s :=\n  match items0 with\n  | [] =>\n%s\n  | (%s_ver, %s_val, %s_plen) :: items =>\n%s\n'
                         % (lname, selfp, extra, par, rt, after, x, x, x, body))
        return '%s%s %s %s' % (pad, lname, src, ' '.join(call_vars))
    raise Untranslatable('for loop over %s' % ast.dump(it)[:60])


def next_call(ctx, e):
    """`_iter_next(it)` / `next(it)`, possibly wrapped in `IPNetwork(...)` (the items are declared to be networks):
    the iterator variable, else None"""
    if is_ctor_call(ctx, e) and ctor_class(ctx, e) == 'IPNetwork' and len(e.args) == 1 and not e.keywords:
        e = e.args[0]
    if isinstance(e, ast.Call) and isinstance(e.func, ast.Name) and e.func.id in ('_iter_next', 'next') and len(e.args) == 1 \
            and isinstance(e.args[0], ast.Name) and ctx.vartypes.get(e.args[0].id) == 'netiter':
        return e.args[0].id
    return None


def try_next(ctx, s, rest, ind, loop):
    """try: x = IPNetwork(_iter_next(it)); y = ...  except StopIteration: <handler>  -- each `next` either takes
    the head of the remaining items or runs the handler"""
    if s.orelse or s.finalbody or len(s.handlers) != 1:
        raise Untranslatable('try statement shape')
    h = s.handlers[0]
    if not (isinstance(h.type, ast.Name) and h.type.id == 'StopIteration'):
        raise Untranslatable('except clause %s' % ast.dump(h.type)[:40] if h.type is not None else 'bare except')
    for st in s.body:
        if not (isinstance(st, ast.Assign) and len(st.targets) == 1 and isinstance(st.targets[0], ast.Name)
                and next_call(ctx, st.value)):
            raise Untranslatable('statement inside try: only `x = next(iterator)` is understood')
    handler = block(ctx, list(h.body), ind + 1, loop)

    def go(stmts, ind2):
        pad = '  ' * ind2
        if not stmts:
            return block(ctx, rest, ind2, loop)
        st = stmts[0]
        v, it = st.targets[0].id, next_call(ctx, st.value)
        ctx.objs[v] = 'net'
        inner = go(stmts[1:], ind2 + 1)
        return '%smatch %s with\n%s| [] =>\n%s\n%s| (%s_ver, %s_val, %s_plen) :: %s =>\n%s' % (
            pad, nm(it), pad, handler, pad, v, v, v, nm(it), inner)
    return go(list(s.body), ind)


def net_items(ctx, e):
    """a Lean list of network objects (ver, val, plen) for an iterable of networks"""
    if isinstance(e, ast.Call) and ((isinstance(e.func, ast.Attribute) and e.func.attr == 'chain') or
                                    (isinstance(e.func, ast.Name) and e.func.id == 'chain')) and not e.keywords:
        return '(' + ' ++ '.join(net_items(ctx, a) for a in e.args) + ')'
    if isinstance(e, ast.List) and all(isinstance(x, ast.Name) and (ctx.objs.get(x.id) == 'net' or x.id in ctx.nets) for x in e.elts):
        return '[' + ', '.join('(%s, %s, %s)' % tuple(net_fields(ctx, x)) for x in e.elts) + ']'
    if isinstance(e, ast.GeneratorExp) and len(e.generators) == 1 and not e.generators[0].ifs \
            and isinstance(e.generators[0].target, ast.Name) and isinstance(e.generators[0].iter, ast.Name) \
            and ctx.vartypes.get(e.generators[0].iter.id) in ('netiter', 'netlist') \
            and is_ctor_call(ctx, e.elt) and ctor_class(ctx, e.elt) == 'IPNetwork' and len(e.elt.args) == 1 \
            and isinstance(e.elt.args[0], ast.Name) and e.elt.args[0].id == e.generators[0].target.id and not e.elt.keywords:
        return nm(e.generators[0].iter.id)          # IPNetwork(x) of a network is that network
    if isinstance(e, ast.Name) and ctx.vartypes.get(e.id) in ('netiter', 'netlist'):
        return nm(e.id)
    raise Untranslatable('iterable of networks %s' % ast.dump(e)[:60])


def has_raise(fn, ctx_table, spec):
    for n in ast.walk(fn):
        if isinstance(n, ast.Raise):
            return True
        if isinstance(n, ast.Call) and isinstance(n.func, ast.Attribute) and n.func.attr == 'pop' and not n.args:
            return True
        if isinstance(n, ast.Call) and isinstance(n.func, ast.Name):
            for sp in ctx_table.values():
                if sp['cls'] is None and sp['func'] == n.func.id and sp.get('_raises'):
                    return True
    return False


def param_binders(spec):
    out = ['(sysmaxint : Int)'] if spec.get('_sysmax') else []
    for p, t in spec['params']:
        if t.startswith('obj:'):
            out += ['(%s_%s : %s)' % (p, f, 'Nat' if f == 'ver' else 'Int') for f in OBJ_FIELDS[t[4:]]]
        elif t == 'ilist':
            out.append('(%s : List Int)' % nm(p))
        elif t == 'netlist':
            out.append('(%s : List (Nat × Int × Int))' % nm(p))
        else:
            out.append('(%s : %s)' % (nm(p), 'Bool' if t == 'bool' else 'Int'))
    return out


def param_names(spec):
    out = ['sysmaxint'] if spec.get('_sysmax') else []
    for p, t in spec['params']:
        if t.startswith('obj:'):
            out += ['%s_%s' % (p, f) for f in OBJ_FIELDS[t[4:]]]
        else:
            out.append(nm(p))
    return out


def signature(spec):
    ps = ['(%s : %s)' % (f, 'Nat' if f == 'ver' else 'Int') for f in KINDS[spec['kind']][0]]
    ps += param_binders(spec)
    rt = ret_type(spec)
    if spec['_raises']:
        rt = 'R (%s)' % rt
    return ' '.join(ps), rt


def netaddr_root():
    r = os.environ.get('NETADDR_REPO') or '/repo'
    return os.path.join(r, 'netaddr')


def source_of(spec, root=None):
    path = os.path.join(root or netaddr_root(), spec['file'])
    src = open(path, encoding='utf-8').read()
    tree = ast.parse(src)
    fn = find_func(tree, spec['cls'], spec['func'])
    if fn is None:
        raise Untranslatable('function %s.%s not found' % (spec['cls'], spec['func']))
    return fn, ast.get_source_segment(src, fn)


def calls_raising(fn, ctx):
    for n in ast.walk(fn):
        if isinstance(n, ast.Attribute) and isinstance(n.value, ast.Name) and n.value.id == 'self':
            s = lookup_member(ctx, n.attr)
            if s is not None and s.get('_raises'):
                return True
    return False


def translate_all(root=None, funcs=None):
    """returns (lean_text, report) where report[name] = {'ok': bool, 'why': str, 'source': str}"""
    table = {}
    report = {}
    defs = []
    for spec in (funcs or FUNCS):
        spec = dict(spec)
        try:
            fn, text = source_of(spec, root)
            ctx = Ctx(spec, table)
            spec['_raises'] = has_raise(fn, table, spec) or calls_raising(fn, ctx)
            spec['_sysmax'] = any(isinstance(n, ast.Name) and n.id == '_sys_maxint' for n in ast.walk(fn))
            ctx.spec = spec
            ctx.fn = fn
            ctx.table = dict(table)
            ctx.table[spec['name']] = spec
            body = block(ctx, list(fn.body), 1)
            ps, rt = signature(spec)
            d = ''.join(ctx.loops)
            d += '/-- netaddr/%s  %s.%s -/\n@[tie_unfold] def %s %s : %s :=\n%s\n' % (spec['file'], spec['cls'], spec['func'], spec['name'], ps, rt, body)
            defs.append(d)
            table[spec['name']] = spec
            report[spec['name']] = {'ok': True, 'source': text, 'raises': spec['_raises']}
        except Untranslatable as ex:
            report[spec['name']] = {'ok': False, 'why': str(ex)}
        except (SyntaxError, OSError) as ex:
            report[spec['name']] = {'ok': False, 'why': 'source unreadable: %s' % ex}
    head = textwrap.dedent('''\
        /- GENERATED by harness/pytrans.py from the current source of /repo's netaddr — do not edit.
           Shallow translation of the listed functions; `Props/Tie.lean` proves each equal to the
           hand-written model function under the code's own range guards. -/
        import NetaddrVerif.Model.PyOps
        import NetaddrVerif.Gen.Dialects
        namespace NV.Trans
        open NV

        ''')
    lean = head + '\n'.join(defs) + '\nend NV.Trans\n'
    return lean, report


if __name__ == '__main__':
    import sys
    lean, rep = translate_all()
    sys.stdout.write(lean)
    for k, v in rep.items():
        if not v['ok']:
            sys.stderr.write('UNTRANSLATABLE %s: %s\n' % (k, v['why']))
