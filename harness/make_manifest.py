#!/usr/bin/env python3
"""Regenerate MANIFEST.json from obligations/Cxx.json (one per claimed property).
Properties without an obligations file are listed under not_applicable with a reason."""
import json, os
HERE = os.path.dirname(os.path.abspath(__file__))
VERIF = os.path.dirname(HERE)
props = [json.loads(l) for l in open(os.path.join(VERIF, 'properties.jsonl'))]
checks, na = [], []
for p in props:
    pid = p['id']
    f = os.path.join(VERIF, 'obligations', pid + '.json')
    if not os.path.exists(f):
        na.append({'property_id': pid, 'reason': 'check not built yet in this round (planned: Lean model + correspondence, DESIGN.md section 5)'})
        continue
    o = json.load(open(f))
    if o.get('not_applicable'):
        na.append({'property_id': pid, 'reason': o['not_applicable']})
        continue
    checks.append({
        'property_id': pid,
        'quick_cmd': './check %s quick' % pid,
        'thorough_cmd': './check %s thorough' % pid,
        'evidence_file': 'evidence/%s.json' % pid,
        'replay_cmd_template': './check --replay {path}',
        'engine': 'lean-model+correspondence',
        'level_claimed': {
            'category': 'proof',
            'text': o.get('level_text', 'Lean 4 theorems about an executable model of the anchored code, for all inputs; model tied to /repo by regenerated tables and a differential correspondence run on every check.'),
            'design_ref': o.get('design_ref', 'DESIGN.md section 5, ' + pid),
        },
        'level_note': o.get('level_note', 'Trusted: Lean kernel, axioms propext/Classical.choice/Quot.sound, the table generator, the correspondence harness and oracle; modelled not verified: ' + '; '.join(o.get('modelled_not_verified', [])) ) + (
            '' if not o.get('tie_theorems') else
            ' Translation tie (DESIGN.md 4.5): the current source text of %d functions this property rests on is translated into Lean on every run '
            '(harness/pytrans.py -> Gen/Trans.lean) and proved equal to the model functions (%s); a lost tie theorem falls back to the widened correspondence.'
            % (len(o['tie_theorems']), ', '.join(t.replace('NV.Tie.', '') for t in o['tie_theorems']))),
        'technique': o.get('technique', 'Lean 4 machine-checked proof over a hand-written model + differential correspondence with the implementation') + (
            '' if not o.get('tie_theorems') else ' + source-to-Lean translation of the arithmetic functions, proved equal to the model'),
    })
m = {
    'version': 1,
    'setup_cmd': './check --setup',
    'hooks': {
        'guard': 'NETADDR_VERIF',
        'enable': 'none needed: no guarded code was added to /repo; checks import /repo\'s working tree directly',
        'baseline_off_cmd': 'cd /repo && /venv/bin/python -m pytest -ra -q -p no:cacheprovider --timeout=900 --continue-on-collection-errors',
        'source_commits': [],
        'add_only': True,
    },
    'engines': [{
        'name': 'lean-model+correspondence', 'path': 'check',
        'serves_properties': [c['property_id'] for c in checks],
        'kind_free_text': 'Lean 4 model + theorems (lean/), regenerated tables (harness/gen), native driver line protocol, Python correspondence + independent oracle (harness/props)',
    }],
    'checks': checks,
    'not_applicable': na,
    'notes': 'fix: commits in /repo are listed in known_findings.json (status fixed). See DESIGN.md.',
}
json.dump(m, open(os.path.join(VERIF, 'MANIFEST.json'), 'w'), indent=1)
print('checks:', [c['property_id'] for c in checks], 'n/a:', len(na))
