"""Translator part of the tie: regenerate lean/NetaddrVerif/Gen/*.lean from /repo's
current working tree.  Each module in harness/gen/ has emit() -> {filename: content}.
Files are rewritten only when their content changed (keeps lake's no-op rebuild fast).
An unrecognised shape raises: the tie is broken and the check reports it."""
import importlib, os, pkgutil, sys

HERE = os.path.dirname(os.path.abspath(__file__))
GEN_DIR = os.path.join(os.path.dirname(HERE), 'lean', 'NetaddrVerif', 'Gen')


def regenerate():
    sys.path.insert(0, HERE)
    import gen
    changed = []
    for m in sorted(pkgutil.iter_modules(gen.__path__), key=lambda m: m.name):
        mod = importlib.import_module('gen.' + m.name)
        for fn, content in mod.emit().items():
            path = os.path.join(GEN_DIR, fn)
            old = open(path).read() if os.path.exists(path) else None
            if old != content:
                os.makedirs(GEN_DIR, exist_ok=True)
                with open(path, 'w') as f:
                    f.write(content)
                changed.append(fn)
    return changed


if __name__ == '__main__':
    print('regenerated:', regenerate())
