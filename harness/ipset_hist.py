"""Shared by C06 and C07: IPSet operation histories — generator, implementation runner,
independent interval-set reference.

A history is a tuple of ops over three live sets (indices 0..2).  Model-level argument:
('N', ver, val, plen) | ('R', ver, lo, hi); each carries a *form* telling the implementation
side how to spell it (object, string, int, IPAddress, IPGlob ...), so every argument form of
the property is exercised on the real code while the model sees the canonical argument.

Raw histories (`run_impl(ops, raw=True)`, driver op `ipset_raw`): the arguments of add / rem / list
constructors / list updates / queries go to the model as the caller wrote them (`S:<hex>` strings,
`I:<int>` ints, `A:` addresses, `N:` networks, `R:` ranges) and the model does the
`IPNetwork(x)` / `IPAddress(x)` coercion itself (Model/Coerce.lean).  Extra forms there: 'maskstr'
('addr/netmask'), 'hoststr' ('addr/hostmask'), 'bad' / 'badint' (an argument no constructor accepts: the
step must raise and leave the set as it was), and bare ints as query arguments (`int in ipset`).

ops:  ('new', i, 'none') ('new', i, 'net', arg) ('new', i, 'rng', arg) ('new', i, 'set', j)
      ('new', i, 'list', (arg...))  ('add', i, arg) ('rem', i, arg) ('upd', i, 'set', j)
      ('upd', i, 'arg', arg) ('upd', i, 'list', (arg...)) ('clear', i) ('pop', i) ('compact', i)
      ('copy', j, i, how) ('bin', k, i, j, o) ('q', i, j, arg)
"""
import ast
import copy as _copy
import ipaddress
import pickle

from common import W, plist, tf, rand_value, rand_block, errname
import common

MAXINT = (1 << 63) - 1

# ---------------------------------------------------------------- generation


def _hot_windows(rng):
    wins = {4: [], 6: []}
    for ver in (4, 6):
        w = W[ver]
        m = (1 << w) - 1
        cands = [0, m, 1 << (w - 1), rand_value(rng, w), rand_value(rng, w)]
        if ver == 6:
            cands += [1 << 32, (1 << 32) - 1]          # integer last+1 of the IPv4 space
        for _ in range(2):
            wins[ver].append((rng.choice(cands), rng.choice([w - 2, w - 3, w - 4, w - 8, rng.randrange(0, w + 1)])))
    return wins


def _net_arg(rng, wins, allow6=True, raw=False):
    ver = 6 if (allow6 and rng.random() < 0.3) else 4
    w = W[ver]
    r = rng.random()
    if r < 0.08:
        val, p = rand_value(rng, w), rng.choice([0, 1, 2])
    else:
        val, p = rand_block(rng, ver, rng.choice(wins[ver]))
        if rng.random() < 0.6:
            p = max(p, w - 6)                       # keep blocks small around the hot windows
    form = rng.choice(['net', 'net', 'str', 'cidrstr'])
    if p == w:
        form = rng.choice(['net', 'str', 'addr', 'addrstr', 'int'])
        if form == 'int' and ver == 6 and val <= 0xffffffff:
            form = 'addr'                           # a small int would be read as IPv4
    elif raw and rng.random() < 0.25:
        form = 'hoststr' if (0 < p < w and rng.random() < 0.4) else 'maskstr'
    if raw and ver == 4 and p == w and form in ('str', 'addrstr') and rng.random() < 0.35:
        # bare IPv4 texts that IPNetwork() and IPAddress() read differently (partial: padded on the right / filled in
        # the middle; zero-padded octets: decimal / octal) - the model does the coercion each API documents
        if rng.random() < 0.5:
            val &= ~0xff if rng.random() < 0.6 else ~0xffff
            form = 'partstr'
        else:
            form = 'zpadstr'
    if raw and rng.random() < 0.02:
        form = rng.choice(['bad', 'bad', 'badint'])
    return ('N', ver, val, p, form)


def _rng_arg(rng, wins):
    ver = 6 if rng.random() < 0.25 else 4
    w = W[ver]
    m = (1 << w) - 1
    base, p = rng.choice(wins[ver])
    lo = min(max(base + rng.randrange(-40, 40), 0), m)
    if rng.random() < 0.15:
        lo = rng.choice([0, m - rng.randrange(0, 20), m])
    span = rng.choice([0, 1, 2, 3, 5, 7, 8, 15, 16, 17, 31, 64, 255, 256, 1000])
    hi = min(lo + span, m)
    form = 'range'
    if ver == 4 and rng.random() < 0.35:
        # glob-shaped range a.b.c.x-y or a.b.c.*
        lo = lo & ~0xff
        if rng.random() < 0.5:
            hi = lo | 0xff
            form = 'glob*'
        else:
            x = rng.randrange(0, 255)
            y = rng.randrange(x + 1, 256)
            lo, hi = lo | x, lo | y
            form = 'globxy'
    return ('R', ver, lo, hi, form)


def _q_arg(rng, wins, raw=False):
    # membership is defined for addresses and networks (objects or strings), not bare ints
    # (raw histories keep the int: `int in ipset` goes through IPNetwork(int), the model says what happens)
    a = _net_arg(rng, wins, raw=raw)
    if a[4] in ('bad', 'badint'):
        return a[:4] + ('str',)
    return a[:4] + ('addr',) if a[4] == 'int' and not raw else a


def _arg(rng, wins, raw=False):
    return _rng_arg(rng, wins) if rng.random() < 0.25 else _net_arg(rng, wins, raw=raw)


def gen_punctured(rng):
    """a block against ranges / sub-blocks whose ends coincide with the block's ends +-{0,1,2}:
    the boundary cases of the sweeps (_subtract leading/trailing pieces, adjacency, equality)"""
    ver = 6 if rng.random() < 0.3 else 4
    w = W[ver]
    m = (1 << w) - 1
    p = rng.choice([w - 2, w - 3, w - 4, w - 5, w - 8])
    base = rng.choice([0, m, rand_value(rng, w), (1 << 32) if ver == 6 else 0x0a000000])
    H = 1 << (w - p)
    first = base - base % H
    last = first + H - 1
    blk = ('N', ver, first | rng.getrandbits(w - p), p, rng.choice(['net', 'str']))
    pieces = []
    for _ in range(rng.randrange(1, 4)):
        lo = min(max(first + rng.choice([-2, -1, 0, 0, 1, 2, rng.randrange(H)]), 0), m)
        hi = min(max(last - rng.choice([-2, -1, 0, 0, 1, 2, rng.randrange(H)]), 0), m)
        if rng.random() < 0.4:
            hi = min(lo + rng.choice([0, 1, 2, 3]), m)
        if rng.random() < 0.2:
            lo = max(hi - rng.choice([0, 1, 2, 3]), 0)
        if lo > hi:
            lo, hi = hi, lo
        pieces.append(('R', ver, lo, hi, 'range'))
    ops = [('new', 0, 'list', (blk,)), ('new', 1, 'list', tuple(pieces))]
    if rng.random() < 0.4:
        q = rng.randrange(p, w + 1)
        ops.append(('add', 1, ('N', ver, (first + rng.randrange(H)) & m, q, 'net')))
    if rng.random() < 0.3:
        ops.append(('rem', 0, ('N', ver, rng.choice([first, last, first + rng.randrange(H)]), w, 'addr')))
    for o in shuffle4(rng):
        a, b = (0, 1) if rng.random() < 0.5 else (1, 0)
        ops.append(('bin', 2, a, b, o))
        ops.append(('q', 2, a, ('N', ver, rng.choice([first, last, min(last + 1, m), max(first - 1, 0)]), w, 'addr')))
    ops.append(('q', 0, 1, ('N', ver, first, p, 'net')))
    ops.append(('q', 1, 0, ('N', ver, last, w, 'addrstr')))
    return tuple(ops)


def gen_seam(rng):
    """both families in one set with the IPv6 integers continuing (or nearly continuing) the IPv4 integers:
    the two families are different address spaces, so such a set is never one range, however the
    integers line up (top of IPv4 / 2^32 in IPv6; 0.0.0.5 / ::6; a.b.c.0/24 / ::a.b.(c+1).0/120 ...)"""
    m4 = (1 << 32) - 1
    k = rng.random()
    if k < 0.35:
        hi4 = m4                                         # IPv4 part ends at 255.255.255.255
        lo4 = hi4 - rng.choice([0, 1, 3, 7, 255, (1 << 31) - 1, m4])
    else:
        lo4 = rng.choice([0, 5, 0x0a000000, rng.getrandbits(32) & ~0xff])
        hi4 = min(lo4 + rng.choice([0, 1, 3, 7, 255, 256, 1000]), m4)
    lo6 = hi4 + 1 + rng.choice([0, 0, 0, 0, 1, -1, 2])
    lo6 = max(lo6, 0)
    hi6 = lo6 + rng.choice([0, 0, 1, 3, 7, 255, (1 << 32) - 1, 1000])
    a4 = ('R', 4, lo4, hi4, 'range')
    a6 = ('R', 6, lo6, hi6, 'range')
    ops = []
    if rng.random() < 0.5:
        ops.append(('new', 0, 'list', (a4, a6) if rng.random() < 0.5 else (a6, a4)))
    else:
        ops += [('new', 0, 'rng', a4), ('add', 0, a6)]
    ops.append(('new', 1, 'rng', a4 if rng.random() < 0.5 else a6))
    ops.append(('q', 0, 1, ('N', 6, lo6, 128, 'addr')))
    ops.append(('q', 0, 0, ('N', 4, hi4, 32, 'addr')))
    if rng.random() < 0.5:
        ops.append(('bin', 2, 0, 1, rng.choice(['sub', 'and', 'xor', 'or'])))
        ops.append(('q', 2, 0, ('N', 4, lo4, 32, 'addrstr')))
    if rng.random() < 0.3:
        # one family emptied again: now it may be contiguous
        ops.append(('rem', 0, a4 if rng.random() < 0.5 else a6))
        ops.append(('q', 0, 1, ('N', 6, hi6, 128, 'addr')))
    return tuple(ops)


def gen_seam_nested(rng):
    """the seam again, with NESTING on both sides of it: an IPv4 block of A that strictly contains a block of B and
    an IPv6 block of A that strictly contains a block of B, the IPv6 block starting (as an integer) right after the
    IPv4 block ends - the sweeps of `-` and `^` then have a trailing IPv4 remainder and a leading IPv6 remainder that
    are adjacent as integers and must NOT be joined (seeds C07-r10-1/2 compared integers only inside _subtract)"""
    k = rng.choice([1, 1, 2, 2, 3, 4, 6, 8])
    b = (rng.choice([0, 0, 5, 0x0a0000, rng.getrandbits(20)]) << (k + 1)) & 0xffffffff
    a4 = ('N', 4, b, 32 - k, 'net')                       # [b, b + 2^k - 1]
    a6 = ('N', 6, b + (1 << k), 128 - k, 'net')           # [b + 2^k, b + 2^(k+1) - 1]: starts right behind it
    n = 1 << k
    # B: something inside the IPv4 block that leaves a trailing remainder, something inside the IPv6 block that
    # leaves a leading remainder (and variations)
    c4 = rng.choice([b, b + rng.randrange(n - 1)]) if n > 1 else b
    c6 = b + n + (rng.choice([n - 1, 1 + rng.randrange(n - 1)]) if n > 1 else 0)
    inner = []
    r = rng.random()
    if r < 0.7:
        inner.append(('N', 4, c4, 32, rng.choice(['net', 'addr'])))
    if r > 0.2:
        inner.append(('N', 6, c6, 128, rng.choice(['net', 'addr'])))
    if rng.random() < 0.3 and k >= 2:
        inner.append(('N', 6, b + n + (n >> 1), 128 - k + 1, 'net'))      # the upper half of the IPv6 block
    A = [a4, a6]
    if rng.random() < 0.3:
        A.append(('N', 4, (b + 4 * n) & 0xffffffff, 32, 'net'))
    rng.shuffle(A)
    ops = [('new', 0, 'list', tuple(A)), ('new', 1, 'list', tuple(inner))]
    for _ in range(rng.randrange(1, 4)):
        x, y = (0, 1) if rng.random() < 0.7 else (1, 0)
        op = rng.choice(['sub', 'xor', 'sub', 'xor', 'and', 'or'])
        if rng.random() < 0.25:
            ops.append(('bin', x, x, y, op))               # augmented spelling
            ops.append(('q', x, y, ('N', 6, b + n, 128, 'addr')))
        else:
            ops.append(('bin', 2, x, y, op))
            ops.append(('q', 2, x, ('N', 4, (b + n - 1) & 0xffffffff, 32, 'addr')))
            ops.append(('q', 2, y, ('N', 6, b + n, 128, 'addr')))
    return tuple(ops)


def gen_biglen(rng):
    """IPv6 sets whose total size is around sys.maxsize while every single block is well below it
    (several /66 ... /70 blocks, or the range 0 .. sys.maxsize-1 plus a little): len() must give the
    total or IndexError, whatever the sizes of the members"""
    ops = []
    k = rng.random()
    if k < 0.85:
        p = rng.choice([66, 66, 67, 67, 68, 69])
        need = 1 << (p - 65)                      # this many /p blocks hold 2^63 addresses
        n = max(1, need + rng.choice([-1, -1, 0, 0, 1, 2]))
        slots = rng.sample(range(0, 4 * need + 8, 2), n)      # even slots: no two blocks are siblings or adjacent
        blks = tuple(('N', 6, s << (128 - p), p, 'net') for s in slots)
        ops.append(('new', 0, 'list', blks))
        if rng.random() < 0.5:
            ops.append(('add', 0, ('N', 6, (1 << 127) + rng.getrandbits(20), 128, 'addr')))
    else:
        base = rng.choice([0, 1 << 64, rng.getrandbits(60) << 64])
        hi = base + MAXINT - 1 + rng.choice([-1, 0, 0, 1])
        ops.append(('new', 0, 'rng', ('R', 6, base, hi, 'range')))
        if rng.random() < 0.6:
            ops.append(('add', 0, ('N', 6, hi + rng.choice([1, 2, 3]), 128, 'addr')))
        if rng.random() < 0.4:
            ops.append(('add', 0, ('N', 4, rng.getrandbits(32), rng.choice([32, 31, 24]), 'net')))
    ops.append(('new', 1, 'set', 0))
    ops.append(('q', 0, 1, ('N', 6, 1 << 127, 128, 'addr')))
    if rng.random() < 0.5:
        ops.append(('rem', 0, ('N', 6, rng.getrandbits(6) << 122, rng.choice([66, 70, 128]), 'net')))
        ops.append(('q', 0, 1, ('N', 6, 0, 128, 'addr')))
    return tuple(ops)


def gen_lopsided(rng):
    """a set of many scattered blocks against a set of one or two, the small one's blocks being siblings of /
    equal to / inside / next to members of the big one - both orders, plain and augmented operators and update():
    an implementation may treat operands of very different sizes differently (a seeded change inserted the
    blocks of a much smaller operand one by one - and merged *the operand's own key objects* in place)"""
    ver = 6 if rng.random() < 0.3 else 4
    w = W[ver]
    p = rng.choice([w - 8, w - 8, w - 4, w - 2, w - 12, w]) if rng.random() < 0.8 else rng.randrange(8, w + 1)
    nslots = 1 << min(p, 20)
    nbig = rng.choice([9, 10, 12, 17, 24, 33, 40])
    base_slot = rng.choice([0, nslots - 4 * nbig - 4, rng.randrange(max(1, nslots - 4 * nbig - 4))])
    base_slot = max(0, base_slot) & ~3
    step = rng.choice([2, 2, 4])                     # even slots: no two members are siblings or adjacent when step == 4
    slots = [base_slot + step * i for i in range(nbig) if base_slot + step * i < nslots]
    sh = w - p
    big = tuple(('N', ver, s << sh, p, 'net') for s in slots)
    small = []
    for _ in range(rng.choice([1, 1, 1, 2])):
        s0 = rng.choice(slots)
        k = rng.random()
        if k < 0.5:
            small.append(('N', ver, (s0 ^ 1) << sh, p, rng.choice(['net', 'str'])))            # the sibling
        elif k < 0.65 and p < w:
            small.append(('N', ver, ((s0 ^ 1) << sh) | (rng.getrandbits(1) << (sh - 1)), p + 1, 'net'))   # half of the sibling
        elif k < 0.8:
            small.append(('N', ver, s0 << sh, p, 'net'))                                         # a member itself
        elif k < 0.9 and p > 1:
            small.append(('N', ver, (s0 >> 1) << (sh + 1), p - 1, 'net'))                      # the parent
        else:
            small.append(('N', ver, (min(s0 + 1, nslots - 1)) << sh, p, 'net'))
    ops = [('new', 0, 'list', big), ('new', 1, 'list', tuple(small))]
    probe = ('N', ver, (rng.choice(slots) ^ 1) << sh, w, 'addr')
    for _ in range(rng.randrange(1, 4)):
        a, b = (0, 1) if rng.random() < 0.6 else (1, 0)
        k = rng.random()
        if k < 0.35:
            ops.append(('bin', 2, a, b, rng.choice(['or', 'or', 'xor', 'sub', 'and'])))
        elif k < 0.55:
            ops.append(('bin', a, a, b, rng.choice(['or', 'or', 'xor', 'sub', 'and'])))       # augmented spelling
        elif k < 0.8:
            ops.append(('upd', a, 'set', b))
        else:
            ops.append(('new', 2, 'set', a))
            ops.append(('upd', 2, 'set', b))
        ops.append(('q', b, a, probe))
        ops.append(('q', a, 2, probe))
    return tuple(ops)


def gen_crowded(rng):
    """a range added to (or updated into) a CROWDED set - more members than any range has blocks (2*width - 2), so
    an implementation that treats the blocks of the range one by one sees them next to many neighbours - where
    members already present complete the sibling chain of one block of the range (the merge cascade then climbs
    through the later blocks) and other members lie strictly inside a later block (seed C06-r10-1: the blocks
    were all inserted first and compacted one at a time; a later block swallowed as a sibling kept its stale
    subnets)"""
    ver = 4 if rng.random() < 0.75 else 6
    w = W[ver]
    nbg = (2 * w + 4) + rng.randrange(0, 14)
    m = rng.choice([3, 4, 5, 6, 7, 8])
    base = (rng.getrandbits(w - 14) << 13) | (rng.getrandbits(13 - m) << m)
    base &= (1 << w) - 1
    bg0 = (base ^ (1 << (w - 1))) & ~0xfff
    bg = [('N', ver, bg0 + 4 * i, w, rng.choice(['net', 'addr'])) for i in range(nbg)]   # stride 4: nothing merges
    k = rng.random()
    inner = []
    if k < 0.4:
        lo, hi = base + 1, base + (1 << m) - 1                    # blocks .1/32 .2/31 .4/30 ... upwards
        inner.append(('N', ver, base, w, 'addr'))                 # the sibling of the first block
        for _ in range(rng.randrange(1, 4)):
            j = rng.randrange(1, m)
            inner.append(('N', ver, base + (1 << j) + rng.randrange(1 << j), w, rng.choice(['net', 'addr'])))
    elif k < 0.8:
        lo, hi = base, base + (1 << m) - 2                        # the mirror image
        inner.append(('N', ver, base + (1 << m) - 1, w, 'addr'))
        for _ in range(rng.randrange(1, 4)):
            j = rng.randrange(1, m)
            top = base + (1 << m) - (1 << j)                      # block [top - 2^j, top - 1]
            inner.append(('N', ver, top - 1 - rng.randrange(1 << j), w, rng.choice(['net', 'addr'])))
    else:
        lo = base + rng.randrange(1 << m)
        hi = min(base + (1 << m) - 1 + rng.choice([0, 0, 1, 5]), lo + rng.randrange(1 << m))
        for _ in range(rng.randrange(2, 7)):
            q = rng.choice([w, w, w - 1, w - 2])
            inner.append(('N', ver, (base + rng.randrange(-2, (1 << m) + 2)) & ((1 << w) - 1), q, 'net'))
    members = bg + inner
    rng.shuffle(members)
    r = ('R', ver, lo, max(lo, hi), 'range')
    ops = [('new', 0, 'list', tuple(members))]
    if rng.random() < 0.6:
        ops.append(('add', 0, r))
    else:
        ops.append(('upd', 0, 'arg', r))
    probe = ('N', ver, rng.choice([lo, hi, base, base + (1 << m) - 1]) & ((1 << w) - 1), w, 'addr')
    ops.append(('q', 0, 0, probe))
    if rng.random() < 0.3:
        ops.append(('rem', 0, ('N', ver, lo, w, 'addr')))
        ops.append(('q', 0, 0, probe))
    return tuple(ops)


def shuffle4(rng):
    l = ['or', 'and', 'sub', 'xor']
    rng.shuffle(l)
    return l[:rng.randrange(1, 5)]


def gen_history(rng, tier, raw=False):
    r0 = rng.random()
    if r0 < 0.22:
        return gen_punctured(rng)
    if r0 < 0.26:
        return gen_seam(rng) if rng.random() < 0.5 else gen_seam_nested(rng)
    if r0 < 0.28:
        return gen_biglen(rng)
    if r0 < 0.33:
        return gen_lopsided(rng)
    if r0 < 0.38:
        return gen_crowded(rng)
    wins = _hot_windows(rng)
    n = rng.randrange(1, 13 if tier == 'quick' else 31)
    ops = []
    # start with some content in sets 0 and 1 so that operators have something to chew on
    for i in (0, 1):
        if rng.random() < 0.8:
            ops.append(('new', i, 'list', tuple(_arg(rng, wins, raw) for _ in range(rng.randrange(0, 5)))))
    for _ in range(n):
        i = rng.randrange(3)
        j = rng.randrange(3)
        r = rng.random()
        if r < 0.22:
            ops.append(('add', i, _arg(rng, wins, raw)))
        elif r < 0.40:
            ops.append(('rem', i, _arg(rng, wins, raw)))
        elif r < 0.47:
            k = rng.random()
            if k < 0.35:
                ops.append(('upd', i, 'set', j))
            elif k < 0.5:
                ops.append(('upd', i, 'arg', _arg(rng, wins, raw)))
            else:
                ops.append(('upd', i, 'list', tuple(_arg(rng, wins, raw) for _ in range(rng.randrange(0, 4)))))
        elif r < 0.53:
            k = rng.random()
            if k < 0.2:
                ops.append(('new', i, 'none'))
            elif k < 0.4:
                ops.append(('new', i, 'net', _net_arg(rng, wins, raw=raw)))
            elif k < 0.55:
                ops.append(('new', i, 'rng', _rng_arg(rng, wins)))
            elif k < 0.7:
                ops.append(('new', i, 'set', j))
            else:
                ops.append(('new', i, 'list', tuple(_arg(rng, wins, raw) for _ in range(rng.randrange(0, 5)))))
        elif r < 0.56:
            ops.append(('clear', i))
        elif r < 0.62:
            ops.append(('pop', i))
        elif r < 0.66:
            ops.append(('compact', i))
        elif r < 0.72:
            ops.append(('copy', j, i, rng.choice(['copy', 'copy.copy', 'deepcopy', 'p0', 'p1', 'p2', 'p3', 'p4', 'p5'])))
        elif r < 0.86:
            ops.append(('bin', rng.randrange(3), i, j, rng.choice(['or', 'and', 'sub', 'xor'])))
        else:
            ops.append(('q', i, j, _q_arg(rng, wins, raw)))
    # always end with a query so every history observes the algebra
    ops.append(('q', rng.randrange(3), rng.randrange(3), _q_arg(rng, wins, raw)))
    return tuple(ops)


# ---------------------------------------------------------------- protocol line

def _tok(a):
    if a[0] == 'N':
        return 'N:%d:%d:%d' % (a[1], a[2], a[3])
    return 'R:%d:%d:%d' % (a[1], a[2], a[3])


def is_bad(a):
    """an argument no constructor accepts"""
    return a[0] == 'N' and a[4] in ('bad', 'badint')


def op_raises(op):
    """does the step carry an argument that must be refused (the step then changes nothing)"""
    k = op[0]
    if k in ('add', 'rem'):
        return is_bad(op[2])
    if k in ('new', 'upd') and op[2] in ('net', 'arg'):
        return is_bad(op[3])
    if k in ('new', 'upd') and op[2] == 'list':
        return any(is_bad(a) for a in op[3])
    return False


def _is_obj(a):
    """forms that reach the API as IPNetwork / IPRange objects"""
    return a[0] == 'R' or a[4] == 'net'


def _raw_tok(a):
    """the argument as the caller wrote it (coercion left to the model)"""
    if a[0] == 'R':
        return 'R:%d:%d:%d' % (a[1], a[2], a[3])
    _, ver, val, p, form = a
    if form == 'net':
        return 'N:%d:%d:%d' % (ver, val, p)
    if form == 'addr':
        return 'A:%d:%d' % (ver, val)
    x = build_arg(a)
    if isinstance(x, int):
        return 'I:%d' % x
    return 'S:' + x.encode('utf-8').hex()


def raw_op_token(op, pop_choice=None):
    """token of op `ipset_raw`; a single string/int/address handed to IPSet(...) / update(...) is wrapped
    in a list by the harness (build side does the same), so it is a one-element list op"""
    k = op[0]
    if k in ('add', 'rem'):
        return '%s,%d,%s' % (k, op[1], _raw_tok(op[2]))
    if k in ('new', 'upd') and op[2] == 'list':
        return ','.join([k, str(op[1]), 'list'] + [_raw_tok(a) for a in op[3]])
    if k in ('new', 'upd') and op[2] in ('net', 'arg') and not _is_obj(op[3]):
        return ','.join([k, str(op[1]), 'list', _raw_tok(op[3])])
    if k == 'q':
        return 'q,%d,%d,%s' % (op[1], op[2], _raw_tok(op[3]))
    return op_token(op, pop_choice)


def op_token(op, pop_choice=None):
    k = op[0]
    if k == 'new':
        if op[2] == 'none':
            return 'new,%d,none' % op[1]
        if op[2] in ('net', 'rng'):
            return 'new,%d,%s,%s' % (op[1], op[2], _tok(op[3]))
        if op[2] == 'set':
            return 'new,%d,set,%d' % (op[1], op[3])
        return ','.join(['new', str(op[1]), 'list'] + [_tok(a) for a in op[3]])
    if k in ('add', 'rem'):
        return '%s,%d,%s' % (k, op[1], _tok(op[2]))
    if k == 'upd':
        if op[2] == 'set':
            return 'upd,%d,set,%d' % (op[1], op[3])
        if op[2] == 'arg':
            return 'upd,%d,arg,%s' % (op[1], _tok(op[3]))
        return ','.join(['upd', str(op[1]), 'list'] + [_tok(a) for a in op[3]])
    if k in ('clear', 'compact'):
        return '%s,%d' % (k, op[1])
    if k == 'pop':
        return 'pop,%d,%s' % (op[1], pop_choice or '-')
    if k == 'copy':
        return 'copy,%d,%d' % (op[1], op[2])
    if k == 'bin':
        return 'bin,%d,%d,%d,%s' % (op[1], op[2], op[3], op[4])
    if k == 'q':
        return 'q,%d,%d,%s' % (op[1], op[2], _tok(op[3]))
    raise ValueError(op)


# ---------------------------------------------------------------- implementation side

def _quad(v):
    return '%d.%d.%d.%d' % (v >> 24, (v >> 16) & 255, (v >> 8) & 255, v & 255)


def _addr_text(ver, v):
    return _quad(v) if ver == 4 else str(ipaddress.IPv6Address(v))


def build_arg(a):
    import netaddr
    if a[0] == 'N':
        _, ver, val, p, form = a
        if form == 'net':
            return common.make_net(ver, val, p)
        if form in ('str', 'cidrstr'):
            return '%s/%d' % (_addr_text(ver, val), p)
        if form == 'addr':
            return common.make_addr(ver, val)
        if form == 'addrstr':
            return _addr_text(ver, val)
        if form == 'partstr':
            octs = [val >> 24, (val >> 16) & 255, (val >> 8) & 255, val & 255]
            while len(octs) > 1 and octs[-1] == 0:
                octs.pop()
            return '.'.join('%d' % o for o in octs)
        if form == 'zpadstr':
            return '.'.join('%03d' % o for o in (val >> 24, (val >> 16) & 255, (val >> 8) & 255, val & 255))
        if form == 'int':
            return val
        w = W[ver]
        host = (1 << (w - p)) - 1
        if form == 'maskstr':
            return '%s/%s' % (_addr_text(ver, val), _addr_text(ver, ((1 << w) - 1) ^ host))
        if form == 'hoststr':
            return '%s/%s' % (_addr_text(ver, val), _addr_text(ver, host))
        if form == 'bad':
            t = _addr_text(ver, val)
            return ['%s/%d' % (t, w + 1 + p), t + '/', t + ('.1' if ver == 4 else ':x'), '', 'bad', t + '//%d' % p,
                    '%s/%s' % (t, _addr_text(ver, (1 << (w - 1)) - 2))][(val + p) % 7]
        if form == 'badint':
            return [(1 << 128) + val, -1 - val][(val + p) % 2]
        raise ValueError(form)
    _, ver, lo, hi, form = a
    if form == 'range':
        return common.make_range(ver, lo, hi)
    if form == 'glob*':
        return netaddr.IPGlob('%d.%d.%d.*' % (lo >> 24, (lo >> 16) & 255, (lo >> 8) & 255))
    if form == 'globxy':
        return netaddr.IPGlob('%d.%d.%d.%d-%d' % (lo >> 24, (lo >> 16) & 255, (lo >> 8) & 255, lo & 255, hi & 255))
    raise ValueError(form)


def scramble_returned(s):
    """What a caller may do with a list an accessor handed out: reorder it, drop from it, append to it.
    It is the caller's list; the set must not notice (a seeded change returned an internal cached list
    from iter_cidrs()).  Elements are not touched: those are the set's own key objects."""
    for get in (s.iter_cidrs, lambda: s.iter_ipranges()):
        try:
            l = get()
        except Exception:
            continue
        if isinstance(l, list) and l:
            l.reverse()
            l.append(l[0])
            l.pop(0)
            if len(l) > 1:
                l.pop()


def show_set(s):
    scramble_returned(s)
    return plist('%d:%d/%d' % (c.version, c.value, c.prefixlen) for c in s.iter_cidrs())


def _err(e):
    return '!' + errname(e)


def query_obs(a, b, n, raw=False):
    from netaddr import IPNetwork
    scramble_returned(a)
    scramble_returned(b)
    try:
        ln = str(len(a))
    except Exception as e:
        ln = _err(e)
    try:
        r = a.iprange()
        ipr = '-' if r is None else '%d:%d-%d' % (r.version, r.first, r.last)
    except Exception as e:
        ipr = _err(e)
    try:
        contig = tf(a.iscontiguous())
    except Exception as e:
        contig = _err(e)
    iprs = plist('%d:%d-%d' % (r.version, r.first, r.last) for r in a.iter_ipranges())
    if a.size <= 64:
        it = plist('%d:%d' % (ip.version, int(ip)) for ip in list(common.paired(lambda: iter(a))))
    else:
        it = '-'
    if raw:
        try:
            isin = tf(n in a)
        except Exception as e:
            isin = _err(e)
    else:
        isin = tf(n in a)
    return ' '.join([tf(a == b), tf(a.issubset(b)), tf(a.issuperset(b)), tf(a < b), tf(a > b), tf(a.isdisjoint(b)),
                     str(a.size), ln, contig, ipr, iprs, isin, it,
                     tf(a != b), tf(a <= b), tf(a >= b), tf(bool(a)), 's:' + repr(a).encode('utf-8').hex()])


def run_impl(ops, raw=False):
    """replay on real IPSet objects; returns (list of observation strings, driver line, extras)
    extras: per op a dict with repr-level observations for the C06 oracle.
    raw: the driver line is an `ipset_raw` history (arguments uncoerced) and a raising step is
    observed as `!<error class>` (the model says which); the set it was aimed at stays as it was"""
    op_token = raw_op_token if raw else globals()['op_token']
    import netaddr
    from netaddr import IPSet, IPNetwork
    sets = [IPSet(), IPSet(), IPSet()]
    obs, toks, extras = [], [], []
    for op in ops:
        k = op[0]
        pop_choice = None
        extra = {}
        try:
            if k == 'new':
                i = op[1]
                if op[2] == 'none':
                    sets[i] = IPSet()
                elif op[2] in ('net', 'rng'):
                    x = build_arg(op[3])
                    x0 = x
                    if not isinstance(x, (IPNetwork, netaddr.IPRange)):
                        x = [x]               # the constructor takes a network/range/set object or an iterable
                    sets[i] = IPSet(x)
                    common.disturb(x0)         # the caller's object is the caller's: moving it must not move the set
                elif op[2] == 'set':
                    sets[i] = IPSet(sets[op[3]])
                else:
                    xs = [build_arg(a) for a in op[3]]
                    sets[i] = IPSet(xs if len(xs) % 2 else iter(xs))       # containers and one-shot iterators alike
                    common.disturb(*xs)
                touched = i
            elif k == 'add':
                x = build_arg(op[2])
                sets[op[1]].add(x)
                common.disturb(x)
                touched = op[1]
            elif k == 'rem':
                x = build_arg(op[2])
                sets[op[1]].remove(x)
                common.disturb(x)
                touched = op[1]
            elif k == 'upd':
                i = op[1]
                if op[2] == 'set':
                    sets[i].update(sets[op[3]])
                elif op[2] == 'arg':
                    x = build_arg(op[3])
                    x0 = x
                    if not isinstance(x, (IPNetwork, netaddr.IPRange)):
                        x = [x]               # update() takes an iterable or a network/range object
                    sets[i].update(x)
                    common.disturb(x0)
                else:
                    xs = [build_arg(a) for a in op[3]]
                    sets[i].update(xs if len(xs) % 2 else (y for y in xs))
                    common.disturb(*xs)
                touched = i
            elif k == 'clear':
                sets[op[1]].clear()
                touched = op[1]
            elif k == 'compact':
                sets[op[1]].compact()
                touched = op[1]
            elif k == 'pop':
                touched = op[1]
                try:
                    b = sets[op[1]].pop()
                    pop_choice = 'N:%d:%d:%d' % (b.version, b.value, b.prefixlen)
                except KeyError:
                    pop_choice = '-'
                    toks.append(op_token(op, pop_choice))
                    obs.append('!key')
                    extras.append(extra)
                    continue
            elif k == 'copy':
                j, i, how = op[1], op[2], op[3]
                src = sets[i]
                if how == 'copy':
                    sets[j] = src.copy()
                elif how == 'copy.copy':
                    sets[j] = _copy.copy(src)
                elif how == 'deepcopy':
                    sets[j] = _copy.deepcopy(src)
                else:
                    sets[j] = pickle.loads(pickle.dumps(src, int(how[1:])))
                touched = j
            elif k == 'bin':
                kk, i, j, o = op[1], op[2], op[3], op[4]
                a, b = sets[i], sets[j]
                before = (show_set(a), show_set(b))
                if kk == i and (len(before[0]) // 3 + len(o)) % 3 != 0:
                    # the augmented spelling `a op= b` (also `a op= a`): Python falls back to `a = a op b` when
                    # the class has no in-place operator; whatever the class does, the name ends up bound to the
                    # set-theoretic result and the right operand (when it is another object) is unchanged
                    r = a
                    if o == 'or':
                        r |= b
                    elif o == 'and':
                        r &= b
                    elif o == 'sub':
                        r -= b
                    else:
                        r ^= b
                    extra['operands_unchanged'] = (j == i) or show_set(b) == before[1]
                elif (len(before[0]) // 3 + len(before[1]) // 3 + len(o)) % 3 == 1:
                    # the named method instead of the operator (the class binds the operators to these methods;
                    # both spellings are the API)
                    common.COUNTS['call/set-algebra-by-method-name'] += 1
                    r = {'or': a.union, 'and': a.intersection, 'sub': a.difference, 'xor': a.symmetric_difference}[o](b)
                else:
                    if o == 'or':
                        r = a | b
                    elif o == 'and':
                        r = a & b
                    elif o == 'sub':
                        r = a - b
                    else:
                        r = a ^ b
                    extra['operands_unchanged'] = (show_set(a), show_set(b)) == before and r is not a and r is not b
                sets[kk] = r
                touched = kk
            elif k == 'q':
                n = build_arg(op[3])
                toks.append(op_token(op))
                a, b = sets[op[1]], sets[op[2]]
                before = (show_set(a), show_set(b), len(sets))
                obs.append(query_obs(a, b, n, raw))
                # a query is not a mutation: both operands (and the slots holding them) are as they were
                extra['operands_unchanged'] = ((show_set(a), show_set(b), len(sets)) == before
                                               and sets[op[1]] is a and sets[op[2]] is b)
                extras.append(extra)
                continue
            else:
                raise ValueError(op)
            s = sets[touched]
            extra['repr'] = repr(s)
            extra['iter_head'] = [(ip.version, int(ip)) for ip, _ in zip(iter(s), range(3))]
            toks.append(op_token(op, pop_choice))
            obs.append(show_set(s))
        except Exception as e:      # no modelled op raises on valid arguments
            toks.append(op_token(op, pop_choice))
            obs.append(('!' if raw else '!exc:') + errname(e))
        extras.append(extra)
    return obs, ('ipset_raw ' if raw else 'ipset ') + ';'.join(toks), extras


# ---------------------------------------------------------------- independent reference

def iv_norm(ivs):
    """sorted, merged (overlapping or adjacent) interval list"""
    out = []
    for lo, hi in sorted(ivs):
        if out and lo <= out[-1][1] + 1:
            if hi > out[-1][1]:
                out[-1] = (out[-1][0], hi)
        else:
            out.append((lo, hi))
    return out


def iv_union(a, b):
    return iv_norm(list(a) + list(b))


def iv_inter(a, b):
    out = []
    i = j = 0
    while i < len(a) and j < len(b):
        lo = max(a[i][0], b[j][0])
        hi = min(a[i][1], b[j][1])
        if lo <= hi:
            out.append((lo, hi))
        if a[i][1] < b[j][1]:
            i += 1
        else:
            j += 1
    return out


def iv_diff(a, b):
    out = []
    for lo, hi in a:
        cur = lo
        for blo, bhi in b:
            if bhi < cur or blo > hi:
                continue
            if blo > cur:
                out.append((cur, blo - 1))
            cur = max(cur, bhi + 1)
            if cur > hi:
                break
        if cur <= hi:
            out.append((cur, hi))
    return out


class RefSet(object):
    """a set of (version, address) pairs as per-family normalised interval lists"""

    def __init__(self, d=None):
        self.d = {4: [], 6: []} if d is None else d

    def copy(self):
        return RefSet({4: list(self.d[4]), 6: list(self.d[6])})

    def binop(self, other, f):
        return RefSet({v: f(self.d[v], other.d[v]) for v in (4, 6)})

    def __or__(self, o):
        return self.binop(o, iv_union)

    def __and__(self, o):
        return self.binop(o, iv_inter)

    def __sub__(self, o):
        return self.binop(o, iv_diff)

    def __xor__(self, o):
        return self.binop(o, lambda a, b: iv_union(iv_diff(a, b), iv_diff(b, a)))

    def __eq__(self, o):
        return self.d == o.d

    def size(self):
        return sum(hi - lo + 1 for v in (4, 6) for lo, hi in self.d[v])

    def cidrs(self):
        """the unique minimal CIDR list: greedy split of every normal interval"""
        out = []
        for v in (4, 6):
            w = W[v]
            for lo, hi in self.d[v]:
                while lo <= hi:
                    k = w if lo == 0 else (lo & -lo).bit_length() - 1
                    k = min(k, (hi - lo + 1).bit_length() - 1)
                    out.append((v, lo, w - k))
                    lo += 1 << k
        return out


def arg_ivs(a):
    """(version, lo, hi) denoted by a model-level argument"""
    if a[0] == 'N':
        _, ver, val, p = a[:4]
        w = W[ver]
        H = 1 << (w - p)
        lo = val - val % H
        return ver, lo, lo + H - 1
    return a[1], a[2], a[3]


def ref_of_args(args):
    r = RefSet()
    for a in args:
        ver, lo, hi = arg_ivs(a)
        r.d[ver] = iv_union(r.d[ver], [(lo, hi)])
    return r


def show_ref(r):
    return plist('%d:%d/%d' % c for c in r.cidrs())


RAISES = '!raises'          # expected observation of a step that carries an unacceptable argument
ANY = '*'                   # a query column the reference leaves open


def ref_query(a, b, narg):
    ver, lo, hi = arg_ivs(narg)
    n = RefSet()
    n.d[ver] = [(lo, hi)]
    sub = (a - b).size() == 0
    sup = (b - a).size() == 0
    sz = a.size()
    ln = str(sz) if sz <= MAXINT else '!index'
    ivs = [(v, lo_, hi_) for v in (4, 6) for lo_, hi_ in a.d[v]]
    contig = len(ivs) <= 1
    if not contig:
        ipr = '!value'
    elif not ivs:
        ipr = '-'
    else:
        ipr = '%d:%d-%d' % ivs[0]
    iprs = plist('%d:%d-%d' % t for t in ivs)
    if sz <= 64:
        it = plist('%d:%d' % (v, x) for v, lo_, hi_ in ivs for x in range(lo_, hi_ + 1))
    else:
        it = '-'
    return ' '.join([tf(a == b), tf(sub), tf(sup), tf(sub and sz < b.size()), tf(sup and sz > b.size()),
                     tf((a & b).size() == 0), str(sz), ln, tf(contig), ipr, iprs,
                     ANY if narg[4:5] == ('int',) else tf((n - a).size() == 0), it,
                     tf(not (a == b)), tf(sub), tf(sup), tf(sz > 0), show_ref(a)])


def run_ref(ops, impl_line):
    """expected observation per op from plain set theory.  `pop` uses the block the
    implementation returned (taken from the finished driver line): it must be one of the
    canonical blocks of the set, and is removed."""
    toks = impl_line.split(' ', 1)[1].split(';')
    sets = [RefSet(), RefSet(), RefSet()]
    out = []
    for op, tok in zip(ops, toks):
        k = op[0]
        if op_raises(op):
            out.append(RAISES)          # a refused operation is not part of the history
        elif k == 'new':
            i = op[1]
            if op[2] == 'none':
                sets[i] = RefSet()
            elif op[2] in ('net', 'rng'):
                sets[i] = ref_of_args([op[3]])
            elif op[2] == 'set':
                sets[i] = sets[op[3]].copy()
            else:
                sets[i] = ref_of_args(op[3])
            out.append(show_ref(sets[i]))
        elif k == 'add':
            sets[op[1]] = sets[op[1]] | ref_of_args([op[2]])
            out.append(show_ref(sets[op[1]]))
        elif k == 'rem':
            sets[op[1]] = sets[op[1]] - ref_of_args([op[2]])
            out.append(show_ref(sets[op[1]]))
        elif k == 'upd':
            i = op[1]
            if op[2] == 'set':
                sets[i] = sets[i] | sets[op[3]]
            elif op[2] == 'arg':
                sets[i] = sets[i] | ref_of_args([op[3]])
            else:
                sets[i] = sets[i] | ref_of_args(op[3])
            out.append(show_ref(sets[i]))
        elif k == 'clear':
            sets[op[1]] = RefSet()
            out.append(show_ref(sets[op[1]]))
        elif k == 'compact':
            out.append(show_ref(sets[op[1]]))
        elif k == 'pop':
            choice = tok.split(',')[2]
            s = sets[op[1]]
            if choice == '-':
                out.append('!key' if s.size() == 0 else 'pop raised KeyError on a non-empty set')
            else:
                _, ver, val, p = choice.split(':')
                b = (int(ver), int(val), int(p))
                if b not in s.cidrs():
                    out.append('pop returned %s which is not a block of %s' % (choice, show_ref(s)))
                else:
                    sets[op[1]] = s - ref_of_args([('N',) + b])
                    out.append(show_ref(sets[op[1]]))
        elif k == 'copy':
            sets[op[1]] = sets[op[2]].copy()
            out.append(show_ref(sets[op[1]]))
        elif k == 'bin':
            a, b = sets[op[2]], sets[op[3]]
            r = {'or': a | b, 'and': a & b, 'sub': a - b, 'xor': a ^ b}[op[4]]
            sets[op[1]] = r
            out.append(show_ref(r))
        elif k == 'q':
            out.append(ref_query(sets[op[1]], sets[op[2]], op[3]))
    return out


REPR_COL = 17               # column of the query row that carries repr(set) as an `s:<hex>` token


def repr_col_shown(tok):
    """the repr column of a query row -> the `[ver:value/plen,...]` list it spells (stdlib parser)"""
    rp = bytes.fromhex(tok[2:]).decode('utf-8')
    return plist('%d:%d/%d' % t for t in parse_repr(rp))


def parse_repr(rp):
    """IPSet(['a/p', ...]) -> [(ver, value, plen)] with the stdlib parser"""
    assert rp.startswith('IPSet(') and rp.endswith(')')
    strs = ast.literal_eval(rp[6:-1])
    out = []
    for s in strs:
        iface = ipaddress.ip_interface(s)
        out.append((iface.version, int(iface.ip), iface.network.prefixlen))
    return out
