/-
Model/SubnetTrace.lean — `IPNetwork.__iadd__`, `__isub__`, `next`, `previous`
(netaddr/ip/__init__.py:1105-1142, 1251-1273) written STATEMENT BY STATEMENT, beside the
functional models `Subnet.iadd / isub / next / previous` of Model/Subnet.lean (which stay as they
are).  Executable, core Lean only.

    def __iadd__(self, num):                                             # :1105
        new_value = int(self.network) + (self.size * num)                # :1116
        if (new_value + (self.size - 1)) > self._module.max_int:         # :1118
            raise IndexError('increment exceeds address boundary!')      # :1119
        if new_value < 0:                                                # :1120
            raise IndexError('increment is less than zero!')             # :1121
        self._value = new_value                                          # :1123
        return self                                                      # :1124

    def __isub__(self, num):                                             # :1126
        new_value = int(self.network) - (self.size * num)                # :1137
        if new_value < 0:                                                # :1139
            raise IndexError('decrement is less than zero!')
        if (new_value + (self.size - 1)) > self._module.max_int:         # :1141
            raise IndexError('decrement exceeds address boundary!')
        self._value = new_value                                          # :1144
        return self

    def next(self, step=1):                                              # :1263
        ip_copy = self.__class__('%s/%d' % (self.network, self.prefixlen),
            self._module.version)                                        # :1270
        ip_copy += step                                                  # :1272
        return ip_copy                                                   # :1273
    (previous: the same with `ip_copy -= step`, :1251-1261)

Two objects are in play, the receiver of the call and the private copy `ip_copy`; every statement
names the object it works on, the interpreter keeps both, and nothing is rolled back when a
statement raises (Python has no transactions).  So "a refused step stores nothing", "the single
store is the last statement before `return`", "next()/previous() never store into the receiver"
are statements about the ORDER and the TARGETS of the statements of the programs below — a body
that stored first and tested afterwards, or a `next` that ran `self += step`, would be a different
statement list with a different event log — and not consequences of how a result type is
unpacked (as they are for `Subnet.stepIadd`, whose error branch returns `n` by definition).
-/
import NetaddrVerif.Model.Subnet
namespace NV.Subnet.Trace
open NV

/-- the objects a statement can name -/
inductive Obj where
  /-- the receiver of the call (`self` of `__iadd__` / `__isub__` called directly, `self` of
      `next` / `previous`) -/
  | recv
  /-- the local `ip_copy` of `next` / `previous` (it is `self` inside the `__iadd__` /
      `__isub__` that `ip_copy += step` calls) -/
  | copy
deriving DecidableEq, Repr, Inhabited

/-- the statements of the four bodies -/
inductive Stmt where
  /-- `ip_copy = self.__class__('%s/%d' % (self.network, self.prefixlen), self._module.version)` -/
  | mkCopy
  /-- `new_value = int(self.network) + (self.size * num)` (`-` when `minus`), `self` being `o` -/
  | compute (o : Obj) (minus : Bool) (num : Int)
  /-- `if (new_value + (self.size - 1)) > self._module.max_int: raise IndexError(...)` -/
  | ifAboveRaise (o : Obj)
  /-- `if new_value < 0: raise IndexError(...)` -/
  | ifBelowRaise (o : Obj)
  /-- `self._value = new_value` -/
  | store (o : Obj)
  /-- `return self` (in `next` / `previous`: `return ip_copy`) -/
  | ret (o : Obj)
deriving DecidableEq, Repr, Inhabited

/-- what happens, in the order it happens -/
inductive Ev where
  /-- the constructor of the private copy ran and left it as `c` (the constructor stores
      `_value`, `_prefixlen`, `_module` into the NEW object) -/
  | copied (c : Net)
  /-- `new_value` was computed from the attributes of `o` -/
  | computed (o : Obj) (nv : Int)
  /-- the `> max_int` test was evaluated; `raised` = it was true -/
  | testAbove (o : Obj) (raised : Bool)
  /-- the `< 0` test was evaluated; `raised` = it was true -/
  | testBelow (o : Obj) (raised : Bool)
  /-- `o._value = v` was executed -/
  | store (o : Obj) (v : Int)
  | ret (o : Obj)
  | raise (e : Err)
deriving DecidableEq, Repr, Inhabited

structure St where
  /-- the receiver object -/
  recv : Net
  /-- `ip_copy`, unbound before `mkCopy` -/
  copy : Option Net := none
  /-- the local `new_value` (unset = 0; every body computes it first) -/
  nv : Int := 0
  log : List Ev := []
  /-- `none` running · `some (.ok o)` returned the object `o` · `some (.error e)` raised `e` -/
  out : Option (Except Err Obj) := none
deriving Repr, Inhabited

def St.obj (st : St) : Obj → Option Net
  | .recv => some st.recv
  | .copy => st.copy

def St.setObj (st : St) (o : Obj) (n : Net) : St :=
  match o with
  | .recv => { st with recv := n }
  | .copy => { st with copy := some n }

/-- a statement naming `ip_copy` before it is bound (UnboundLocalError; none of the four bodies
    does that) -/
def St.unbound (st : St) : St :=
  { st with out := some (.error .other), log := st.log ++ [.raise .other] }

/-- one statement.  Every attribute read (`self.network`, `self.size`, `self._module.max_int`)
    is made on the object AS IT IS at that moment: `self.size` is evaluated again in the
    `> max_int` test, as the code does. -/
def step (st : St) : Stmt → St
  | .mkCopy =>
    let c := netCopy st.recv
    { st with copy := some c, log := st.log ++ [.copied c] }
  | .compute o minus num =>
    match st.obj o with
    | none => st.unbound
    | some n =>
      let w := width n.ver
      let size : Int := (netSize w n.val n.plen : Nat)
      let net : Int := (netNetwork w n.val n.plen : Nat)
      let nv := if minus then net - size * num else net + size * num
      { st with nv := nv, log := st.log ++ [.computed o nv] }
  | .ifAboveRaise o =>
    match st.obj o with
    | none => st.unbound
    | some n =>
      let size : Int := (netSize (width n.ver) n.val n.plen : Nat)
      if st.nv + (size - 1) > (maxInt n.ver : Nat) then
        { st with out := some (.error .index), log := st.log ++ [.testAbove o true, .raise .index] }
      else { st with log := st.log ++ [.testAbove o false] }
  | .ifBelowRaise o =>
    match st.obj o with
    | none => st.unbound
    | some _ =>
      if st.nv < 0 then
        { st with out := some (.error .index), log := st.log ++ [.testBelow o true, .raise .index] }
      else { st with log := st.log ++ [.testBelow o false] }
  | .store o =>
    match st.obj o with
    | none => st.unbound
    | some n =>
      let st' := st.setObj o { n with val := st.nv.toNat }
      { st' with log := st'.log ++ [.store o st.nv] }
  | .ret o => { st with out := some (.ok o), log := st.log ++ [.ret o] }

/-- a statement list stops at the first `return` / `raise` -/
def runStmts : List Stmt → St → St
  | [], st => st
  | s :: ss, st => if st.out.isSome then st else runStmts ss (step st s)

/-- the body of `__iadd__` (`minus = false`, :1116-1124: above-test first) and of `__isub__`
    (`minus = true`, :1137-1145: below-test first) with `self` bound to `o` -/
def body (o : Obj) (minus : Bool) (num : Int) : List Stmt :=
  if minus then [.compute o true num, .ifBelowRaise o, .ifAboveRaise o, .store o, .ret o]
  else [.compute o false num, .ifAboveRaise o, .ifBelowRaise o, .store o, .ret o]

/-- `n += num` / `n -= num` on the receiver -/
def stepProg (minus : Bool) (num : Int) : List Stmt := body .recv minus num
/-- `n.next(k)` / `n.previous(k)`: the copy, then the in-place body on THE COPY, whose
    `return self` hands the copy back (`ip_copy += step` rebinds `ip_copy` to it, `return ip_copy`) -/
def copyProg (minus : Bool) (k : Int) : List Stmt := .mkCopy :: body .copy minus k

def run (prog : List Stmt) (n : Net) : St := runStmts prog { recv := n }

/-- `n += k` as executed -/
def iaddRun (n : Net) (k : Int) : St := run (stepProg false k) n
/-- `n -= k` as executed -/
def isubRun (n : Net) (k : Int) : St := run (stepProg true k) n
/-- `n.next(k)` as executed -/
def nextRun (n : Net) (k : Int) : St := run (copyProg false k) n
/-- `n.previous(k)` as executed -/
def prevRun (n : Net) (k : Int) : St := run (copyProg true k) n

/-- the value of the call (the returned object / the exception; a body that falls off its end
    returns `None`, reported as `Err.other` — none of the four does) and the receiver afterwards -/
def St.result (st : St) : R Net × Net :=
  (match st.out with
   | some (.ok o) => (match st.obj o with | some n => .ok n | none => .error .other)
   | some (.error e) => .error e
   | none => .error .other,
   st.recv)

/-- the live object after the statement `n += k` / `n -= k` and the exception, in the shape in
    which `Subnet.stepIadd` / `stepIsub` report them -/
def St.stepResult (st : St) : Net × Option Err :=
  (st.recv, match st.out with
            | some (.ok _) => none
            | some (.error e) => some e
            | none => some .other)

/-- the stores into the slots of live objects, oldest first: target and stored value -/
def stores : List Ev → List (Obj × Int)
  | [] => []
  | .store o v :: r => (o, v) :: stores r
  | _ :: r => stores r

/-- what can be watched from outside the real objects (an `IPNetwork` subclass whose
    `__setattr__` logs): the stores into the receiver, and the stores into any other object of
    the receiver's class created during the call — the constructor's three, then the step's -/
def Ev.observable : Ev → Option String
  | .copied c => some s!"c:wv:{c.val},c:wp:{c.plen},c:wm"
  | .store .recv v => some s!"r:wv:{v}"
  | .store .copy v => some s!"c:wv:{v}"
  | _ => none

end NV.Subnet.Trace
