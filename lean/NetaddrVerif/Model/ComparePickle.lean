/-
Model/ComparePickle.lean — rich comparisons and `__hash__` of `BaseIP` (from `key()` /
`sort_key()`, shared definitions in Model/Compare.lean), `sorted()` over IP objects, and the
`__getstate__` / `__setstate__` / `__reduce__` methods of IPAddress, IPNetwork, IPRange,
IPGlob, IPSet and EUI at value level, plus the one rule of CPython's reduce protocol that
decides whether `__setstate__` is called (MODELLED RUNTIME).  Property C12.

`IPGlob` is an `IPRange` for the comparison part (its `key`/`sort_key` are inherited).  In the
second half of the file (pickling with the states as Python values, `PyVal`) an IPGlob is a
`Glob.GlobObj` whose `__setstate__` recomputes the glob text with the functions of Model/Glob.lean,
and OUI / IAB and `IPSet.__reduce__` are modelled as well; that half is what the driver runs.
-/
import NetaddrVerif.Model.Compare
import NetaddrVerif.Model.Glob
namespace NV.Cmp
open NV

/-- an IP object that takes part in comparisons -/
inductive Obj where
  | addr (a : Addr)
  | net (n : Net)
  | rng (r : Rng)
deriving DecidableEq, Repr, Inhabited

/-- `x.key()` -/
def Obj.key : Obj → List Int
  | .addr a => a.key
  | .net n => n.key
  | .rng r => r.key

/-- `x.sort_key()` -/
def Obj.sortKey : Obj → List Int
  | .addr a => a.sortKey
  | .net n => n.sortKey
  | .rng r => r.sortKey

def Obj.ver : Obj → Nat
  | .addr a => a.ver
  | .net n => n.ver
  | .rng r => r.ver

/-- `BaseIP.__eq__`: `self.key() == other.key()` (tuple equality) -/
def eq (x y : Obj) : Bool := x.key == y.key
/-- `BaseIP.__ne__`: `self.key() != other.key()` -/
def ne (x y : Obj) : Bool := x.key != y.key
/-- `BaseIP.__lt__`: `self.sort_key() < other.sort_key()` -/
def lt (x y : Obj) : Bool := tupleCmp x.sortKey y.sortKey == .lt
/-- `BaseIP.__le__`: `self.sort_key() <= other.sort_key()` -/
def le (x y : Obj) : Bool := tupleCmp x.sortKey y.sortKey != .gt
/-- `BaseIP.__gt__`: `self.sort_key() > other.sort_key()` -/
def gt (x y : Obj) : Bool := tupleCmp x.sortKey y.sortKey == .gt
/-- `BaseIP.__ge__`: `self.sort_key() >= other.sort_key()` -/
def ge (x y : Obj) : Bool := tupleCmp x.sortKey y.sortKey != .lt

/-- `BaseIP.__hash__`: `hash(self.key())`; the tuple hash of CPython is an uninterpreted
    function `h` of the key -/
def hashOf (h : List Int → Int) (x : Obj) : Int := h x.key

/-- `sorted(l)`: timsort is the stable sort that only asks `b < a`; `List.mergeSort` with
    `le a b := ¬ (b < a)` is that stable sort -/
def sortObjs (l : List Obj) : List Obj := l.mergeSort (fun a b => !(lt b a))

/-! ### pickling: `__getstate__` / `__setstate__` per class, at value level -/

/-- `IPAddress.__getstate__`: `(self._value, self._module.version)` -/
def getstateAddr (a : Addr) : Int × Int := (a.val, a.ver)

/-- `IPAddress.__setstate__`: `ValueError` for a version other than 4/6; the value is stored
    as it comes -/
def setstateAddr (s : Int × Int) : R Addr :=
  let (value, version) := s
  if version = 4 then .ok ⟨4, value.toNat⟩
  else if version = 6 then .ok ⟨6, value.toNat⟩
  else .error .value

/-- `IPNetwork.__getstate__`: `(self._value, self._prefixlen, self._module.version)` -/
def getstateNet (n : Net) : Int × Int × Int := (n.val, n.plen, n.ver)

/-- `IPNetwork.__setstate__`: `ValueError` for a version other than 4/6 or a prefix length
    outside `0..width` -/
def setstateNet (s : Int × Int × Int) : R Net :=
  let (value, prefixlen, version) := s
  if version = 4 ∨ version = 6 then
    let ver := version.toNat
    if 0 ≤ prefixlen ∧ prefixlen ≤ (width ver : Int) then .ok ⟨ver, value.toNat, prefixlen.toNat⟩
    else .error .value
  else .error .value

/-- `IPAddress(value, version)` as used by `IPRange.__setstate__` -/
def mkAddr (value version : Int) : R Addr :=
  if version = 4 ∨ version = 6 then
    let ver := version.toNat
    if 0 ≤ value ∧ value ≤ (maxInt ver : Int) then .ok ⟨ver, value.toNat⟩ else .error .addrFormat
  else .error .value

/-- `IPRange.__getstate__` (inherited by `IPGlob`): `(self._start.value, self._end.value, version)` -/
def getstateRng (r : Rng) : Int × Int × Int := (r.lo, r.hi, r.ver)

/-- `IPRange.__setstate__`: `_start = IPAddress(start, version)`, `_module = _start._module`,
    `_end = IPAddress(end, version)` -/
def setstateRng (s : Int × Int × Int) : R Rng := do
  let (start, end_, version) := s
  let a ← mkAddr start version
  let b ← mkAddr end_ version
  pure ⟨a.ver, a.val, b.val⟩

/-- an `EUI`: `_module.version` (48 / 64), `_value`, and the dialect class (opaque id) -/
structure Eui where
  ver : Nat
  val : Nat
  dialect : Nat
deriving DecidableEq, Repr, Inhabited

/-- `EUI.__getstate__`: `(self._value, self._module.version, self.dialect)` -/
def getstateEui (e : Eui) : Int × Int × Nat := (e.val, e.ver, e.dialect)

/-- `EUI.__setstate__`: `ValueError` for a version other than 48/64; value and dialect class
    are stored as they come (the dialect of a live EUI is never None) -/
def setstateEui (s : Int × Int × Nat) : R Eui :=
  let (value, version, dialect) := s
  if version = 48 then .ok ⟨48, value.toNat, dialect⟩
  else if version = 64 then .ok ⟨64, value.toNat, dialect⟩
  else .error .value

/-- `IPNetwork((value, prefixlen), version=version)`: `parse_ip_network` on an int tuple -/
def mkNetTuple (s : Int × Int × Int) : R Net :=
  let (value, prefixlen, version) := s
  if version = 4 ∨ version = 6 then
    let ver := version.toNat
    if ¬ (0 ≤ value ∧ value ≤ (maxInt ver : Int)) then .error .addrFormat
    else if ¬ (0 ≤ prefixlen ∧ prefixlen ≤ (width ver : Int)) then .error .addrFormat
    else .ok ⟨ver, value.toNat, prefixlen.toNat⟩
  else .error .value

/-- `dict.fromkeys(nets, True)` on IPNetwork keys: a later key that compares equal
    (`key()` = version, first, last) to an earlier one is dropped, the earlier object stays -/
def fromKeys : List Net → List Net
  | [] => []
  | n :: t => n :: (fromKeys t).filter (fun m => m.key != n.key)

/-- `IPSet.__getstate__`: `tuple(cidr.__getstate__() for cidr in self._cidrs)`;
    an IPSet is the list of its dict keys in insertion order -/
def getstateSet (s : List Net) : List (Int × Int × Int) := s.map getstateNet

/-- `IPSet.__setstate__`: `dict.fromkeys(IPNetwork((v, p), version=ver) for v, p, ver in state)` -/
def setstateSet (st : List (Int × Int × Int)) : R (List Net) := do
  let nets ← st.mapM mkNetTuple
  pure (fromKeys nets)

/-! ### the reduce protocol (MODELLED RUNTIME) -/

/-- how a copy is made: `copy.copy`, `copy.deepcopy`, `pickle.loads(pickle.dumps(x, proto))` -/
inductive How where
  | copy | deepcopy | pickle (proto : Nat)
deriving DecidableEq, Repr

/-- CPython, classes WITHOUT their own `__reduce__` (IPAddress, IPNetwork, IPRange, IPGlob,
    EUI): protocols 0 and 1 go through `copyreg._reduce_ex`, which drops a falsy state
    (`if dict: return _reconstructor, args, dict else: return _reconstructor, args`) so that
    `__setstate__` is never called; protocols >= 2 and the `copy` module pass every state that
    `is not None`. -/
def passesState (how : How) (truthy : Bool) : Bool :=
  match how with
  | .pickle p => if p < 2 then truthy else true
  | _ => true

/-- reconstruction of a default-reduce object: `cls.__new__(cls)` (no slot is set) and then
    `__setstate__(state)` if the state is passed.  A blank object is `.error .other`
    (every later attribute access raises AttributeError). -/
def reconstruct {σ α : Type} (how : How) (state : σ) (truthy : Bool) (setstate : σ → R α) : R α :=
  if passesState how truthy then setstate state else .error .other

/-- all the state tuples of this file are non-empty tuples: truthy -/
def roundtripAddr (how : How) (a : Addr) : R Addr := reconstruct how (getstateAddr a) true setstateAddr
def roundtripNet (how : How) (n : Net) : R Net := reconstruct how (getstateNet n) true setstateNet
def roundtripRng (how : How) (r : Rng) : R Rng := reconstruct how (getstateRng r) true setstateRng
def roundtripEui (how : How) (e : Eui) : R Eui := reconstruct how (getstateEui e) true setstateEui

/-- `IPSet.__reduce__` returns `(cls, (), state)`: under every protocol and in the `copy`
    module the object is rebuilt by calling `IPSet()` (`_cidrs = {}`) and then
    `__setstate__(state)` because a tuple state `is not None` — also when it is empty. -/
def roundtripSet (_how : How) (s : List Net) : R (List Net) := setstateSet (getstateSet s)

/-! ### pickling with the states as Python values

The section above passes the truth value of the state as a constant.  Here the state of every
class is an actual Python value, `bool(state)` is computed from it, `__setstate__` starts by
unpacking that value, and IPGlob / OUI / IAB and the `__reduce__` of IPSet are modelled too.
The driver runs THESE functions. -/

/-- the Python values that occur in the pickled states of netaddr objects -/
inductive PyVal where
  | int (i : Int)
  | str (s : List Char)
  | none
  | cls (id : Nat)                       -- a class object, pickled by reference (EUI dialect)
  | tuple (xs : List PyVal)
  | list (xs : List PyVal)
  | dict (kvs : List (PyVal × PyVal))
deriving Repr, Inhabited

/-- `bool(x)`: an int iff non-zero, a str / tuple / list / dict iff non-empty, None never, a
    class always -/
def truthy : PyVal → Bool
  | .int i => i != 0
  | .str s => !s.isEmpty
  | .none => false
  | .cls _ => true
  | .tuple xs => !xs.isEmpty
  | .list xs => !xs.isEmpty
  | .dict kvs => !kvs.isEmpty

/-- `a, b, … = state` with `n` targets: a tuple or list of exactly `n` items unpacks; another
    length is ValueError; an int / None / class is TypeError (not iterable).  str and dict are
    iterable too but never occur as a state: outside the modelled domain (`.other`). -/
def unpack (n : Nat) : PyVal → R (List PyVal)
  | .tuple xs | .list xs => if xs.length = n then .ok xs else .error .value
  | .int _ | .none | .cls _ => .error .type_
  | .str _ | .dict _ => .error .other

/-- a slot of a state that the methods compare / range-check as an int; the states written by
    `__getstate__` only hold ints there (anything else: outside the modelled domain) -/
def asInt : PyVal → R Int
  | .int i => .ok i
  | _ => .error .other

/-- whether the reconstruction calls `__setstate__(state)` for a class WITHOUT its own
    `__reduce__`: never for `None`; protocols 0 and 1 (`copyreg._reduce_ex`: `if dict:`) only for
    a truthy state; protocols >= 2 and the copy module for every state that `is not None` -/
def sendsState (how : How) (state : PyVal) : Bool :=
  match state with
  | .none => false
  | st => passesState how (truthy st)

/-- default reconstruction: `object.__new__(cls)` (no slot set: a blank object, `.error .other`)
    and then `__setstate__(state)` if the state is sent -/
def reconstructV {α : Type} (how : How) (state : PyVal) (setstate : PyVal → R α) : R α :=
  if sendsState how state then setstate state else .error .other

/-- `IPAddress.__getstate__`: `self._value, self._module.version` -/
def getstateAddrV (a : Addr) : PyVal := .tuple [.int a.val, .int a.ver]
/-- `IPAddress.__setstate__`: `value, version = state`, then as `setstateAddr` -/
def setstateAddrV (st : PyVal) : R Addr := do
  match ← unpack 2 st with
  | [value, version] => setstateAddr (← asInt value, ← asInt version)
  | _ => .error .other

/-- `IPNetwork.__getstate__`: `self._value, self._prefixlen, self._module.version` -/
def getstateNetV (n : Net) : PyVal := .tuple [.int n.val, .int n.plen, .int n.ver]
/-- `IPNetwork.__setstate__`: `value, prefixlen, version = state`, then as `setstateNet` -/
def setstateNetV (st : PyVal) : R Net := do
  match ← unpack 3 st with
  | [value, prefixlen, version] => setstateNet (← asInt value, ← asInt prefixlen, ← asInt version)
  | _ => .error .other

/-- `IPRange.__getstate__`: `self._start.value, self._end.value, self._module.version` -/
def getstateRngV (r : Rng) : PyVal := .tuple [.int r.lo, .int r.hi, .int r.ver]
/-- `IPRange.__setstate__`: `start, end, version = state`, then as `setstateRng` -/
def setstateRngV (st : PyVal) : R Rng := do
  match ← unpack 3 st with
  | [start, end_, version] => setstateRng (← asInt start, ← asInt end_, ← asInt version)
  | _ => .error .other

/-- `EUI.__getstate__`: `self._value, self._module.version, self.dialect` (a class) -/
def getstateEuiV (e : Eui) : PyVal := .tuple [.int e.val, .int e.ver, .cls e.dialect]
/-- `EUI.__setstate__`: `value, version, dialect = state`, then as `setstateEui` -/
def setstateEuiV (st : PyVal) : R Eui := do
  match ← unpack 3 st with
  | [value, version, .cls d] => setstateEui (← asInt value, ← asInt version, d)
  | _ => .error .other

def roundtripAddrV (how : How) (a : Addr) : R Addr := reconstructV how (getstateAddrV a) setstateAddrV
def roundtripNetV (how : How) (n : Net) : R Net := reconstructV how (getstateNetV n) setstateNetV
def roundtripRngV (how : How) (r : Rng) : R Rng := reconstructV how (getstateRngV r) setstateRngV
def roundtripEuiV (how : How) (e : Eui) : R Eui := reconstructV how (getstateEuiV e) setstateEuiV

/-! #### IPGlob -/

/-- `IPGlob.__getstate__`: `super().__getstate__()` — the IPRange state; the glob text is NOT
    part of the state -/
def getstateGlobV (g : Glob.GlobObj) : PyVal := getstateRngV ⟨4, g.lo, g.hi⟩

/-- `IPGlob.__setstate__`: `super().__setstate__(state)`, then
    `self.glob = iprange_to_globs(self._start, self._end)[0]` — an assignment through the
    property setter `_set_glob`, which re-derives the bounds from the text and the text from the
    bounds once more -/
def setstateGlobV (st : PyVal) : R Glob.GlobObj := do
  let r ← setstateRngV st
  match Glob.iprangeToGlobs ⟨r.ver, r.lo⟩ ⟨r.ver, r.hi⟩ with
  | .ok (g :: _) => Glob.setGlob g
  | .ok [] => .error .index
  | .error e => .error e

def roundtripGlobV (how : How) (g : Glob.GlobObj) : R Glob.GlobObj :=
  reconstructV how (getstateGlobV g) setstateGlobV

/-! #### OUI and IAB -/

/-- an `OUI`: `_value` and `records` (a list of registration dicts — any Python value here) -/
structure Oui where
  val : Nat
  records : PyVal
deriving Repr, Inhabited

/-- an `IAB`: `_value` and `record` (one registration dict) -/
structure Iab where
  val : Nat
  record : PyVal
deriving Repr, Inhabited

/-- `OUI.__getstate__`: `self._value, self.records` -/
def getstateOuiV (o : Oui) : PyVal := .tuple [.int o.val, o.records]
/-- `OUI.__setstate__`: `self._value, self.records = state` (no check at all) -/
def setstateOuiV (st : PyVal) : R Oui := do
  match ← unpack 2 st with
  | [value, records] => pure ⟨(← asInt value).toNat, records⟩
  | _ => .error .other

/-- `IAB.__getstate__`: `self._value, self.record` -/
def getstateIabV (o : Iab) : PyVal := .tuple [.int o.val, o.record]
/-- `IAB.__setstate__`: `self._value, self.record = state` -/
def setstateIabV (st : PyVal) : R Iab := do
  match ← unpack 2 st with
  | [value, record] => pure ⟨(← asInt value).toNat, record⟩
  | _ => .error .other

def roundtripOuiV (how : How) (o : Oui) : R Oui := reconstructV how (getstateOuiV o) setstateOuiV
def roundtripIabV (how : How) (o : Iab) : R Iab := reconstructV how (getstateIabV o) setstateIabV

/-! #### IPSet: `__reduce__` -/

/-- `IPSet.__getstate__`: `tuple([cidr.__getstate__() for cidr in self._cidrs])` -/
def getstateSetV (s : List Net) : PyVal := .tuple (s.map getstateNetV)

/-- one item of the IPSet state: `value, prefixlen, version` of the generator's `for` target -/
def asTriple (it : PyVal) : R (Int × Int × Int) := do
  match ← unpack 3 it with
  | [value, prefixlen, version] => pure (← asInt value, ← asInt prefixlen, ← asInt version)
  | _ => .error .other

/-- `IPSet.__setstate__`: iterates the state (tuple or list; anything else: TypeError for a
    non-iterable, outside the domain for str/dict) and hands the triples to `setstateSet` -/
def setstateSetV : PyVal → R (List Net)
  | .tuple items | .list items => do
    let triples ← items.mapM asTriple
    setstateSet triples
  | .int _ | .none | .cls _ => .error .type_
  | .str _ | .dict _ => .error .other

/-- what `__reduce__` returns: `(callable, args, state)`; the callable is the class itself -/
structure Reduce where
  args : PyVal
  state : PyVal
deriving Repr

/-- `IPSet.__reduce__`: `(self.__class__, (), self.__getstate__())` -/
def reduceSet (s : List Net) : Reduce := ⟨.tuple [], getstateSetV s⟩

/-- CPython, an object WITH its own `__reduce__` (MODELLED RUNTIME): `object.__reduce_ex__(proto)`
    calls the overriding `__reduce__` under every protocol, and so does the copy module; the
    rebuild is `y = callable(*args)` — here `IPSet()`: `_cidrs = {}`, an initialised empty set —
    followed by `y.__setstate__(state)` whenever `state is not None` (pickle emits BUILD under
    the same condition).  No truth test of the state anywhere: `how` does not matter. -/
def rebuildSet (_how : How) (r : Reduce) : R (List Net) :=
  match r.args with
  | .tuple [] =>
    let y : List Net := []
    match r.state with
    | .none => .ok y
    | st => setstateSetV st
  | _ => .error .other                   -- `IPSet(*args)` with arguments: not what `__reduce__` writes

def roundtripSetV (how : How) (s : List Net) : R (List Net) := rebuildSet how (reduceSet s)

/-- what the round trip of an IPSet WOULD be without `IPSet.__reduce__` (the class as it was
    before fix F15): the default rule, which tests the truth of the state under protocols 0, 1 -/
def roundtripSetDefault (how : How) (s : List Net) : R (List Net) :=
  reconstructV how (getstateSetV s) setstateSetV

/-! #### all picklable objects of the property in one type -/

inductive PObj where
  | addr (a : Addr)
  | net (n : Net)
  | rng (r : Rng)
  | glob (g : Glob.GlobObj)
  | set (s : List Net)
  | eui (e : Eui)
  | oui (o : Oui)
  | iab (o : Iab)
deriving Repr

/-- `copy.copy(x)`, `copy.deepcopy(x)`, `pickle.loads(pickle.dumps(x, proto))` -/
def roundtripV (how : How) : PObj → R PObj
  | .addr a => (roundtripAddrV how a).map .addr
  | .net n => (roundtripNetV how n).map .net
  | .rng r => (roundtripRngV how r).map .rng
  | .glob g => (roundtripGlobV how g).map .glob
  | .set s => (roundtripSetV how s).map .set
  | .eui e => (roundtripEuiV how e).map .eui
  | .oui o => (roundtripOuiV how o).map .oui
  | .iab o => (roundtripIabV how o).map .iab

/-! #### `hash()` of every kind of object (audit round 2, finding 4)

`hash(x)` is `type(x).__hash__(x)`, and raises TypeError when the class has `__hash__ = None`:
  * `BaseIP.__hash__` (netaddr/ip/__init__.py:71-75): `hash(self.key())` — `IPAddress`, `IPNetwork`, `IPRange`;
    `IPGlob` inherits it from `IPRange` (`key()` = version, first, last);
  * `EUI.__hash__` (netaddr/eui/__init__.py:565-567): `hash((self.version, self._value))`;
  * `IPSet.__hash__` (netaddr/ip/sets.py:224-231): `raise TypeError('IP sets are unhashable!')`;
  * `OUI` / `IAB` (netaddr/eui/__init__.py:103, 272) define `__eq__` and no `__hash__`, so Python sets
    `__hash__ = None` on the class and `hash()` raises TypeError. -/

/-- the tuple `hash()` is applied to, or TypeError (`Err.type_`) for the unhashable kinds -/
def hashFieldsP : PObj → R PyVal
  | .addr a => .ok (.tuple (a.key.map .int))
  | .net n => .ok (.tuple (n.key.map .int))
  | .rng r => .ok (.tuple (r.key.map .int))
  | .glob g => .ok (.tuple ((Rng.key ⟨4, g.lo, g.hi⟩).map .int))
  | .eui e => .ok (.tuple [.int e.ver, .int e.val])
  | .set _ => .error .type_
  | .oui _ => .error .type_
  | .iab _ => .error .type_

/-- `hash(x)`; the tuple hash of CPython is an uninterpreted function `h` of the tuple -/
def hashOfP (h : PyVal → Int) (x : PObj) : R Int := (hashFieldsP x).map h

end NV.Cmp
