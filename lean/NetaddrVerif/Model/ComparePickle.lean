/-
Model/ComparePickle.lean — rich comparisons and `__hash__` of `BaseIP` (from `key()` /
`sort_key()`, shared definitions in Model/Compare.lean), `sorted()` over IP objects, and the
`__getstate__` / `__setstate__` / `__reduce__` methods of IPAddress, IPNetwork, IPRange,
IPGlob, IPSet and EUI at value level, plus the one rule of CPython's reduce protocol that
decides whether `__setstate__` is called (MODELLED RUNTIME).  Property C12.

`IPGlob` is an `IPRange` for this model (its `key`/`sort_key` are inherited; its
`__setstate__` recomputes the glob text from the restored bounds, which is C17's subject).
-/
import NetaddrVerif.Model.Compare
namespace NV.Cmp
open NV

/-- an IP object that takes part in comparisons -/
inductive Obj where
  | addr (a : Addr)
  | net (n : Net)
  | rng (r : Rng)
deriving DecidableEq, Repr, Inhabited

/-- `x.key()` -/
def Obj.key : Obj → List Int
  | .addr a => a.key
  | .net n => n.key
  | .rng r => r.key

/-- `x.sort_key()` -/
def Obj.sortKey : Obj → List Int
  | .addr a => a.sortKey
  | .net n => n.sortKey
  | .rng r => r.sortKey

def Obj.ver : Obj → Nat
  | .addr a => a.ver
  | .net n => n.ver
  | .rng r => r.ver

/-- `BaseIP.__eq__`: `self.key() == other.key()` (tuple equality) -/
def eq (x y : Obj) : Bool := x.key == y.key
/-- `BaseIP.__ne__`: `self.key() != other.key()` -/
def ne (x y : Obj) : Bool := x.key != y.key
/-- `BaseIP.__lt__`: `self.sort_key() < other.sort_key()` -/
def lt (x y : Obj) : Bool := tupleCmp x.sortKey y.sortKey == .lt
/-- `BaseIP.__le__`: `self.sort_key() <= other.sort_key()` -/
def le (x y : Obj) : Bool := tupleCmp x.sortKey y.sortKey != .gt
/-- `BaseIP.__gt__`: `self.sort_key() > other.sort_key()` -/
def gt (x y : Obj) : Bool := tupleCmp x.sortKey y.sortKey == .gt
/-- `BaseIP.__ge__`: `self.sort_key() >= other.sort_key()` -/
def ge (x y : Obj) : Bool := tupleCmp x.sortKey y.sortKey != .lt

/-- `BaseIP.__hash__`: `hash(self.key())`; the tuple hash of CPython is an uninterpreted
    function `h` of the key -/
def hashOf (h : List Int → Int) (x : Obj) : Int := h x.key

/-- `sorted(l)`: timsort is the stable sort that only asks `b < a`; `List.mergeSort` with
    `le a b := ¬ (b < a)` is that stable sort -/
def sortObjs (l : List Obj) : List Obj := l.mergeSort (fun a b => !(lt b a))

/-! ### pickling: `__getstate__` / `__setstate__` per class, at value level -/

/-- `IPAddress.__getstate__`: `(self._value, self._module.version)` -/
def getstateAddr (a : Addr) : Int × Int := (a.val, a.ver)

/-- `IPAddress.__setstate__`: `ValueError` for a version other than 4/6; the value is stored
    as it comes -/
def setstateAddr (s : Int × Int) : R Addr :=
  let (value, version) := s
  if version = 4 then .ok ⟨4, value.toNat⟩
  else if version = 6 then .ok ⟨6, value.toNat⟩
  else .error .value

/-- `IPNetwork.__getstate__`: `(self._value, self._prefixlen, self._module.version)` -/
def getstateNet (n : Net) : Int × Int × Int := (n.val, n.plen, n.ver)

/-- `IPNetwork.__setstate__`: `ValueError` for a version other than 4/6 or a prefix length
    outside `0..width` -/
def setstateNet (s : Int × Int × Int) : R Net :=
  let (value, prefixlen, version) := s
  if version = 4 ∨ version = 6 then
    let ver := version.toNat
    if 0 ≤ prefixlen ∧ prefixlen ≤ (width ver : Int) then .ok ⟨ver, value.toNat, prefixlen.toNat⟩
    else .error .value
  else .error .value

/-- `IPAddress(value, version)` as used by `IPRange.__setstate__` -/
def mkAddr (value version : Int) : R Addr :=
  if version = 4 ∨ version = 6 then
    let ver := version.toNat
    if 0 ≤ value ∧ value ≤ (maxInt ver : Int) then .ok ⟨ver, value.toNat⟩ else .error .addrFormat
  else .error .value

/-- `IPRange.__getstate__` (inherited by `IPGlob`): `(self._start.value, self._end.value, version)` -/
def getstateRng (r : Rng) : Int × Int × Int := (r.lo, r.hi, r.ver)

/-- `IPRange.__setstate__`: `_start = IPAddress(start, version)`, `_module = _start._module`,
    `_end = IPAddress(end, version)` -/
def setstateRng (s : Int × Int × Int) : R Rng := do
  let (start, end_, version) := s
  let a ← mkAddr start version
  let b ← mkAddr end_ version
  pure ⟨a.ver, a.val, b.val⟩

/-- an `EUI`: `_module.version` (48 / 64), `_value`, and the dialect class (opaque id) -/
structure Eui where
  ver : Nat
  val : Nat
  dialect : Nat
deriving DecidableEq, Repr, Inhabited

/-- `EUI.__getstate__`: `(self._value, self._module.version, self.dialect)` -/
def getstateEui (e : Eui) : Int × Int × Nat := (e.val, e.ver, e.dialect)

/-- `EUI.__setstate__`: `ValueError` for a version other than 48/64; value and dialect class
    are stored as they come (the dialect of a live EUI is never None) -/
def setstateEui (s : Int × Int × Nat) : R Eui :=
  let (value, version, dialect) := s
  if version = 48 then .ok ⟨48, value.toNat, dialect⟩
  else if version = 64 then .ok ⟨64, value.toNat, dialect⟩
  else .error .value

/-- `IPNetwork((value, prefixlen), version=version)`: `parse_ip_network` on an int tuple -/
def mkNetTuple (s : Int × Int × Int) : R Net :=
  let (value, prefixlen, version) := s
  if version = 4 ∨ version = 6 then
    let ver := version.toNat
    if ¬ (0 ≤ value ∧ value ≤ (maxInt ver : Int)) then .error .addrFormat
    else if ¬ (0 ≤ prefixlen ∧ prefixlen ≤ (width ver : Int)) then .error .addrFormat
    else .ok ⟨ver, value.toNat, prefixlen.toNat⟩
  else .error .value

/-- `dict.fromkeys(nets, True)` on IPNetwork keys: a later key that compares equal
    (`key()` = version, first, last) to an earlier one is dropped, the earlier object stays -/
def fromKeys : List Net → List Net
  | [] => []
  | n :: t => n :: (fromKeys t).filter (fun m => m.key != n.key)

/-- `IPSet.__getstate__`: `tuple(cidr.__getstate__() for cidr in self._cidrs)`;
    an IPSet is the list of its dict keys in insertion order -/
def getstateSet (s : List Net) : List (Int × Int × Int) := s.map getstateNet

/-- `IPSet.__setstate__`: `dict.fromkeys(IPNetwork((v, p), version=ver) for v, p, ver in state)` -/
def setstateSet (st : List (Int × Int × Int)) : R (List Net) := do
  let nets ← st.mapM mkNetTuple
  pure (fromKeys nets)

/-! ### the reduce protocol (MODELLED RUNTIME) -/

/-- how a copy is made: `copy.copy`, `copy.deepcopy`, `pickle.loads(pickle.dumps(x, proto))` -/
inductive How where
  | copy | deepcopy | pickle (proto : Nat)
deriving DecidableEq, Repr

/-- CPython, classes WITHOUT their own `__reduce__` (IPAddress, IPNetwork, IPRange, IPGlob,
    EUI): protocols 0 and 1 go through `copyreg._reduce_ex`, which drops a falsy state
    (`if dict: return _reconstructor, args, dict else: return _reconstructor, args`) so that
    `__setstate__` is never called; protocols >= 2 and the `copy` module pass every state that
    `is not None`. -/
def passesState (how : How) (truthy : Bool) : Bool :=
  match how with
  | .pickle p => if p < 2 then truthy else true
  | _ => true

/-- reconstruction of a default-reduce object: `cls.__new__(cls)` (no slot is set) and then
    `__setstate__(state)` if the state is passed.  A blank object is `.error .other`
    (every later attribute access raises AttributeError). -/
def reconstruct {σ α : Type} (how : How) (state : σ) (truthy : Bool) (setstate : σ → R α) : R α :=
  if passesState how truthy then setstate state else .error .other

/-- all the state tuples of this file are non-empty tuples: truthy -/
def roundtripAddr (how : How) (a : Addr) : R Addr := reconstruct how (getstateAddr a) true setstateAddr
def roundtripNet (how : How) (n : Net) : R Net := reconstruct how (getstateNet n) true setstateNet
def roundtripRng (how : How) (r : Rng) : R Rng := reconstruct how (getstateRng r) true setstateRng
def roundtripEui (how : How) (e : Eui) : R Eui := reconstruct how (getstateEui e) true setstateEui

/-- `IPSet.__reduce__` returns `(cls, (), state)`: under every protocol and in the `copy`
    module the object is rebuilt by calling `IPSet()` (`_cidrs = {}`) and then
    `__setstate__(state)` because a tuple state `is not None` — also when it is empty. -/
def roundtripSet (_how : How) (s : List Net) : R (List Net) := setstateSet (getstateSet s)

end NV.Cmp
