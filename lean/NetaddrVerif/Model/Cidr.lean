/-
Model/Cidr.lean — the CIDR list algorithms of netaddr/ip/__init__.py as written:
`cidr_partition`, `cidr_exclude`, `spanning_cidr`, `iprange_to_cidrs`, `cidr_merge`.
Executable, core Lean only.  Blocks inside one family are `Pfx` (value, prefixlen) at a
width `w`; the `Net`-level wrappers add the version.
-/
import NetaddrVerif.Model.Network
namespace NV

/-- an `IPNetwork` inside one family: `(_value, _prefixlen)` -/
structure Pfx where
  val : Nat
  plen : Nat
deriving Repr, DecidableEq, Inhabited

def Pfx.first (w : Nat) (b : Pfx) : Nat := netFirst w b.val b.plen
def Pfx.last (w : Nat) (b : Pfx) : Nat := netLast w b.val b.plen
/-- `.cidr` -/
def Pfx.cidr (w : Nat) (b : Pfx) : Pfx := ⟨b.val &&& netmaskInt w b.plen, b.plen⟩

/-- the `while exclude.prefixlen >= new_prefixlen` loop of cidr_partition, as written
    (`ef` = exclude.first, `ep` = exclude.prefixlen, `np` = new_prefixlen) -/
def partLoop (w ef ep : Nat) (np iLower iUpper : Nat) (left right : List Pfx) : List Pfx × List Pfx :=
  if _h : ep ≥ np then
    let r : List Pfx × List Pfx × Nat :=
      if ef ≥ iUpper then (left ++ [⟨iLower, np⟩], right, iUpper)
      else (left, right ++ [⟨iUpper, np⟩], iLower)
    let np' := np + 1
    if np' > w then (r.1, r.2.1)
    else partLoop w ef ep np' r.2.2 (r.2.2 + 2 ^ (w - np')) r.1 r.2.1
  else (left, right)
termination_by ep + 1 - np

/-- `cidr_partition(target, exclude)` inside one family of width `w` -/
def cidrPartition (w : Nat) (t e : Pfx) : List Pfx × List Pfx × List Pfx :=
  if e.last w < t.first w then ([], [], [t.cidr w])
  else if t.last w < e.first w then ([t.cidr w], [], [])
  else if t.plen ≥ e.plen then ([], [t], [])
  else
    let np := t.plen + 1
    let tf := t.first w
    let lr := partLoop w (e.first w) e.plen np tf (tf + 2 ^ (w - np)) [] []
    (lr.1, [e], lr.2.reverse)

/-- `cidr_exclude(target, exclude)` -/
def cidrExclude (w : Nat) (t e : Pfx) : List Pfx :=
  let p := cidrPartition w t e
  p.1 ++ p.2.2

/-- the widening loop of `spanning_cidr`:
    `while prefixlen > 0 and ipnum > lowest: prefixlen -= 1; ipnum = highest & -(1 << (width - prefixlen))`.
    For a non-negative Python int, `x & -(1 << k)` clears the low `k` bits: `(x >>> k) <<< k`. -/
def spanLoop (w lo hi : Nat) : Nat → Nat → Pfx
  | 0, ipnum => ⟨ipnum, 0⟩
  | p + 1, ipnum =>
    if ipnum > lo then spanLoop w lo hi p ((hi >>> (w - p)) <<< (w - p))
    else ⟨ipnum, p + 1⟩

/-- `spanning_cidr` on the (first, last) pairs of ≥ 2 networks of one family:
    running min of first / max of last, then the loop -/
def spanningOf (w : Nat) (lo hi : Nat) : Pfx := spanLoop w lo hi w hi

def spanningCidr (w : Nat) (nets : List Pfx) : R Pfx :=
  match nets with
  | a :: b :: rest =>
    let lo := (b :: rest).foldl (fun m n => min m (n.first w)) (a.first w)
    let hi := (b :: rest).foldl (fun m n => max m (n.last w)) (a.last w)
    .ok (spanningOf w lo hi)
  | _ => .error .value

/-- `iprange_to_cidrs(start, end)` for two networks of one family -/
def iprangeToCidrs (w : Nat) (s e : Pfx) : List Pfx :=
  let lo := s.first w
  let hi := e.last w
  let span := spanningOf w (min (s.first w) (e.first w)) (max (s.last w) (e.last w))
  -- `if cidr_span.first < iprange[0]`
  let st : List Pfx × Pfx :=
    if span.first w < lo then
      let l := (cidrPartition w span ⟨lo - 1, w⟩).2.2
      (l.dropLast, l.getLast?.getD span)      -- `cidr_list.pop()`
    else ([], span)
  -- `if cidr_span.last > iprange[1]`
  if st.2.last w > hi then st.1 ++ (cidrPartition w st.2 ⟨hi + 1, w⟩).1
  else st.1 ++ [st.2]

/-- closed interval of one family (spec-level view of a `cidr_merge` range tuple) -/
structure Iv where
  first : Nat
  last : Nat
deriving Repr, DecidableEq, Inhabited

/-- an input of `cidr_merge` after `IPNetwork(ip)` conversion: a network (addresses and
    strings become networks) or an `IPRange` -/
inductive MItem where
  | net (ver : Nat) (p : Pfx)
  | rng (ver lo hi : Nat)
deriving Repr, DecidableEq, Inhabited

/-- the tuple `(version, last, first, original)`; `orig = none` is the merged 3-tuple -/
structure MRange where
  ver : Nat
  last : Nat
  first : Nat
  orig : Option MItem
deriving Repr, DecidableEq, Inhabited

def MItem.toRange : MItem → MRange
  | .net ver p => ⟨ver, p.last (width ver), p.first (width ver), some (.net ver p)⟩
  | .rng ver lo hi => ⟨ver, hi, lo, some (.rng ver lo hi)⟩

/-- tuple order on `(version, last, first)`; ties are merged by the sweep, so the
    comparison of the 4th component (the object) never influences the result -/
def MRange.le (a b : MRange) : Bool :=
  a.ver < b.ver || (a.ver == b.ver && (a.last < b.last || (a.last == b.last && a.first ≤ b.first)))

/-- functional form of the backward sweep of `cidr_merge`
    `i = len-1; while i > 0: if r[i].ver == r[i-1].ver and r[i].first - 1 <= r[i-1].last:
         r[i-1] = (ver, r[i].last, min(firsts)); del r[i]; i -= 1`
    `revPrefix` is r[0..i-1] reversed, `cur` is r[i], `done` is r[i+1..]. -/
def mergeSweep : List MRange → MRange → List MRange → List MRange
  | [], cur, done => cur :: done
  | p :: rest, cur, done =>
    if cur.ver = p.ver ∧ (cur.first : Int) - 1 ≤ p.last then
      mergeSweep rest ⟨cur.ver, cur.last, min p.first cur.first, none⟩ done
    else mergeSweep rest p (cur :: done)

/-- the final loop of `cidr_merge`: unmerged network → `.cidr`, unmerged range → `.cidrs()`,
    merged → `iprange_to_cidrs(first, last)` -/
def MRange.emit (r : MRange) : List Net :=
  let w := width r.ver
  match r.orig with
  | some (.net ver p) => [⟨ver, (p.cidr w).val, p.plen⟩]
  | some (.rng ver lo hi) => (iprangeToCidrs w ⟨lo, w⟩ ⟨hi, w⟩).map (fun b => ⟨ver, b.val, b.plen⟩)
  | none => (iprangeToCidrs w ⟨r.first, w⟩ ⟨r.last, w⟩).map (fun b => ⟨r.ver, b.val, b.plen⟩)

/-- `cidr_merge` -/
def cidrMerge (items : List MItem) : List Net :=
  let sorted := (items.map MItem.toRange).mergeSort MRange.le
  match sorted.reverse with
  | [] => []
  | cur :: rest => (mergeSweep rest cur []).flatMap MRange.emit

end NV
