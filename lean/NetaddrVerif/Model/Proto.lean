/-
Model/Proto.lean — token-level helpers of the driver's line protocol (DESIGN.md App. D).
Integers are decimal (optional leading '-'), strings are `s:` + hex of their UTF-8 bytes,
`-` is Python's None, lists are `[a,b,…]` without spaces.
-/
import NetaddrVerif.Model.Basic
namespace NV.Proto

def parseInt (s : String) : Option Int := s.toInt?
def parseNat (s : String) : Option Nat := s.toNat?

def hexDigit (c : Char) : Option Nat :=
  if '0' ≤ c ∧ c ≤ '9' then some (c.toNat - '0'.toNat)
  else if 'a' ≤ c ∧ c ≤ 'f' then some (c.toNat - 'a'.toNat + 10)
  else if 'A' ≤ c ∧ c ≤ 'F' then some (c.toNat - 'A'.toNat + 10)
  else none

/-- bytes from a hex string -/
def hexBytes : List Char → Option (List Nat)
  | [] => some []
  | a :: b :: t => do
      let x ← hexDigit a
      let y ← hexDigit b
      let r ← hexBytes t
      pure ((x * 16 + y) :: r)
  | _ => none

/-- decode UTF-8 bytes to code points (harness only sends valid UTF-8) -/
partial def utf8Decode : List Nat → List Char
  | [] => []
  | b :: t =>
    if b < 0x80 then Char.ofNat b :: utf8Decode t
    else if b < 0xE0 then
      match t with
      | c :: t' => Char.ofNat ((b % 0x20) * 64 + c % 64) :: utf8Decode t'
      | _ => []
    else if b < 0xF0 then
      match t with
      | c :: d :: t' => Char.ofNat (((b % 0x10) * 64 + c % 64) * 64 + d % 64) :: utf8Decode t'
      | _ => []
    else
      match t with
      | c :: d :: e :: t' =>
        Char.ofNat ((((b % 8) * 64 + c % 64) * 64 + d % 64) * 64 + e % 64) :: utf8Decode t'
      | _ => []

/-- `s:<hex>` token → characters -/
def parseStr (tok : String) : Option (List Char) :=
  if tok.startsWith "s:" then (hexBytes (tok.drop 2).toString.toList).map utf8Decode else none

def hexOfNat (n : Nat) : Char := if n < 10 then Char.ofNat (48 + n) else Char.ofNat (87 + n)

def utf8Encode (c : Char) : List Nat :=
  let n := c.toNat
  if n < 0x80 then [n]
  else if n < 0x800 then [0xC0 + n / 64, 0x80 + n % 64]
  else if n < 0x10000 then [0xE0 + n / 4096, 0x80 + (n / 64) % 64, 0x80 + n % 64]
  else [0xF0 + n / 262144, 0x80 + (n / 4096) % 64, 0x80 + (n / 64) % 64, 0x80 + n % 64]

/-- characters → `s:<hex>` token -/
def showStr (cs : List Char) : String :=
  "s:" ++ String.ofList ((cs.flatMap utf8Encode).flatMap (fun b => [hexOfNat (b / 16), hexOfNat (b % 16)]))

/-- `[a,b,c]` → tokens -/
def parseList (tok : String) : Option (List String) :=
  if tok.startsWith "[" && tok.endsWith "]" then
    let inner := ((tok.drop 1).dropEnd 1).toString
    if inner.isEmpty then some [] else some (inner.splitOn ",")
  else none

def showList (xs : List String) : String := "[" ++ ",".intercalate xs ++ "]"

def showBool (b : Bool) : String := if b then "T" else "F"

def showErr (e : Err) : String := "!" ++ e.tag

def showOptNat : Option Nat → String
  | none => "-"
  | some n => toString n

def showNet (n : Net) : String := s!"{n.ver}:{n.val}/{n.plen}"

/-- `N:ver:val:plen` -/
def parseNet (tok : String) : Option Net :=
  match tok.splitOn ":" with
  | ["N", a, b, c] => do pure ⟨← a.toNat?, ← b.toNat?, ← c.toNat?⟩
  | _ => none

def parseAddr (tok : String) : Option Addr :=
  match tok.splitOn ":" with
  | ["A", a, b] => do pure ⟨← a.toNat?, ← b.toNat?⟩
  | _ => none

def parseRng (tok : String) : Option Rng :=
  match tok.splitOn ":" with
  | ["R", a, b, c] => do pure ⟨← a.toNat?, ← b.toNat?, ← c.toNat?⟩
  | _ => none

end NV.Proto
