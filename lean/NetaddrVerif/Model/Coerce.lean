/-
Model/Coerce.lean — the argument-coercion glue of the APIs that take "an address or network in
any form" (netaddr/ip/__init__.py, netaddr/ip/sets.py), as written:

  `toNet`   `IPNetwork(x)`      (no version, flags 0, implicit_prefix False)
  `toAddr`  `IPAddress(x, flags=…)` (no version)
  `mergeRaw`     `cidr_merge(ip_addrs)`           — `IPNetwork(ip)` for everything that is not an
                                                     IPNetwork / IPRange
  `spanningRaw`  `spanning_cidr(ip_addrs)`        — `IPNetwork(·)` of the first two elements eagerly,
                                                     of the others lazily inside the loop
  `addRaw/removeRaw/listArgs/updateRaw/newRaw/containsRaw`, `stepRaw`
                 `IPSet.add / remove / update / __init__ / __contains__`
  `inRaw`        `x in IPNetwork` / `x in IPRange` (`IPNetwork(other)` / `IPAddress(other)` for a
                                                     non-BaseIP operand)
  `matchRaw`     `all/smallest/largest_matching_cidr(ip, cidrs)`

A Python argument is a `Raw`: `str`, `int`, `IPAddress` object or `IPNetwork` object; the APIs
that also accept an `IPRange` take an `Item`.  The text parsers are Model/AddrParse.lean and
Model/NetParse.lean with the platform back end (Props/C01 `backend_irrelevant`: the back end is
unobservable); the algorithms behind the glue are the existing ones of Model/Cidr.lean,
Model/SpanErr.lean, Model/IPSet.lean, Model/Contains.lean.  Core Lean only.
-/
import NetaddrVerif.Model.NetParse
import NetaddrVerif.Model.Address
import NetaddrVerif.Model.SpanErr
import NetaddrVerif.Model.IPSet
import NetaddrVerif.Model.Contains
namespace NV.Coerce
open NV NV.AddrParse NV.NetParse

/-- a Python argument: `str`, `int`, `IPAddress`, `IPNetwork` -/
inductive Raw where
  | str (s : List Char)
  | int (i : Int)
  | addr (a : Addr)
  | net (n : Net)
deriving Repr, DecidableEq, Inhabited

/-- the back end the driver runs (the other one is proved equal in Props/C01) -/
def be : Backend := .platform

/-- `IPNetwork(x)`.
    * `IPNetwork` object: `hasattr(addr, '_prefixlen')` — value, module, prefixlen copied;
    * `IPAddress` object: `hasattr(addr, '_value')` — value, module, `prefixlen = module.width`;
    * `str`: version None, so `parse_ip_network(_ipv4, …)`, on AddrFormatError
      `parse_ip_network(_ipv6, …)`, on AddrFormatError again "invalid IPNetwork";
    * `int`: neither attribute, version None, `parse_ip_network(_ipv4, addr)` falls through its
      `isinstance` chain to `raise TypeError('unexpected type …')`, which the
      `except AddrFormatError` of the constructor does not catch. -/
def toNet : Raw → R Net
  | .str s => ipNetwork be (.str s) false none 0
  | .int _ => .error .type_
  | .addr a => ipNetwork be (.copyAddr a) false none 0
  | .net n => ipNetwork be (.copyNet n) false none 0

/-- `IPAddress(x, flags=flags)`.
    * any `BaseIP` (address or network object): copy constructor — `_value`, `_module` copied;
    * `str`: '/' → ValueError, else IPv4 then IPv6 `str_to_int(addr, flags)`;
    * `int`: magnitude-based family (`0..2^32-1` IPv4, above up to `2^128-1` IPv6, else
      AddrFormatError); `flags` plays no role. -/
def toAddr (x : Raw) (flags : Nat := 0) : R Addr :=
  match x with
  | .str s => ipAddress be s none flags
  | .int i => Address.ctor i none
  | .addr a => .ok a
  | .net n => .ok ⟨n.ver, n.val⟩

/-- an element of the sequences `cidr_merge`, `spanning_cidr`, `IPSet(...)`, `IPSet.update` take,
    or the argument of `IPSet.add/remove`, `x in y`: a `Raw` or an `IPRange` object -/
inductive Item where
  | raw (x : Raw)
  | rng (r : Rng)
deriving Repr, DecidableEq, Inhabited

/-! ### cidr_merge -/

/-- the loop head of `cidr_merge`:
    `if isinstance(ip, (IPNetwork, IPRange)): net = ip  else: net = IPNetwork(ip)` -/
def mergeItem : Item → R MItem
  | .rng r => .ok (.rng r.ver r.lo r.hi)
  | .raw (.net n) => .ok (.net n.ver ⟨n.val, n.plen⟩)
  | .raw x => (toNet x).map (fun n => MItem.net n.ver ⟨n.val, n.plen⟩)

/-- `cidr_merge(ip_addrs)`: the elements are converted in order (the first failing one raises),
    then the existing algorithm runs -/
def mergeRaw (items : List Item) : R (List Net) :=
  (items.mapM mergeItem).map cidrMerge

/-! ### spanning_cidr -/

/-- `IPNetwork(ip)` of a sequence element; an `IPRange` has neither `_prefixlen` nor a set
    `_value` slot (`IPRange.__init__` never calls `BaseIP.__init__`), so it reaches
    `parse_ip_network` and its TypeError -/
def spanItem : Item → R Net
  | .raw x => toNet x
  | .rng _ => .error .type_

/-- the `for network in chain([network_b], (IPNetwork(ip) for ip in ip_addrs_iter))` loop from
    its second element on: each element is converted when the loop reaches it, then its
    version is checked (TypeError) -/
def spanRest (ver : Nat) : List Item → R (List Net)
  | [] => .ok []
  | x :: xs => do
    let n ← spanItem x
    if n.ver ≠ ver then .error .type_
    else
      let ns ← spanRest ver xs
      pure (n :: ns)

/-- `spanning_cidr(ip_addrs)`: `IPNetwork(next(it))` twice (`StopIteration` → ValueError; a
    conversion error of the first element comes before the ValueError of a one-element
    sequence), version check of the second, the lazy rest, then the existing computation -/
def spanningRaw (items : List Item) : R Net :=
  match items with
  | [] => .error .value
  | a :: rest1 => do
    let na ← spanItem a
    match rest1 with
    | [] => .error .value
    | b :: rest => do
      let nb ← spanItem b
      if nb.ver ≠ na.ver then .error .type_
      else
        let ns ← spanRest na.ver rest
        Span.spanningCidrNets (na :: nb :: ns)

/-! ### IPSet -/

open NV.IPSet in
/-- `IPSet.add(addr, flags)`:
    IPRange → the range path; IPNetwork → `addr.cidr`; int →
    `IPNetwork(IPAddress(addr, flags=flags))` (no `.cidr`); anything else → `IPNetwork(addr).cidr`;
    then `self._cidrs[addr] = True; self._compact_single_network(addr)` -/
def addRaw (s : IPSet.St) (x : Item) (flags : Nat := 0) : R IPSet.St :=
  match x with
  | .rng r => .ok (addRange s r)
  | .raw (.net n) => .ok (addNet s n)
  | .raw (.int i) => do
    let a ← toAddr (.int i) flags
    let n ← toNet (.addr a)
    pure (compactSingle (dInsert s n) n)
  | .raw x => do
    let n ← toNet x
    pure (addNet s n)

open NV.IPSet in
/-- `IPSet.remove(addr, flags)`:
    IPRange → `self.remove(cidr)` for every block; int → `addr = IPAddress(addr, flags=flags)`;
    anything else → `addr = IPNetwork(addr)`; then `self.add(addr)`, the scan `addr in cidr`,
    `cidr_exclude(cidr, addr)`.  For the int branch `addr` stays an `IPAddress`: `add` turns it
    into `IPNetwork(addr).cidr`, `cidr_exclude` into `IPNetwork(addr)`, and `addr in cidr` for an
    address is the containment of its full-width network (Props/C04), which is what `removeNet`
    runs on. -/
def removeRaw (s : IPSet.St) (x : Item) (flags : Nat := 0) : R IPSet.St :=
  match x with
  | .rng r => .ok (removeRange s r)
  | .raw (.int i) => do
    let a ← toAddr (.int i) flags
    let n ← toNet (.addr a)
    pure (removeNet s n)
  | .raw x => do
    let n ← toNet x
    pure (removeNet s n)

/-- first pass of `IPSet.__init__` / `IPSet.update` over the iterable:
    `if isinstance(addr, int): addr = IPAddress(addr, flags=flags)` -/
def intPass (flags : Nat) : Item → R Item
  | .raw (.int i) => (toAddr (.int i) flags).map (fun a => Item.raw (.addr a))
  | x => .ok x

/-- a converted `cidr_merge` input as an `IPSet.Arg` -/
def argOfMItem : MItem → IPSet.Arg
  | .net ver p => .net ⟨ver, p.val, p.plen⟩
  | .rng ver lo hi => .rng ⟨ver, lo, hi⟩

/-- the two passes over the iterable of `IPSet(iterable, flags)` / `update(iterable, flags)`:
    all ints first (`mergeable`), then `cidr_merge`'s own conversion of every element in order -/
def listArgs (xs : List Item) (flags : Nat := 0) : R (List IPSet.Arg) := do
  let ys ← xs.mapM (intPass flags)
  let ms ← ys.mapM mergeItem
  pure (ms.map argOfMItem)

/-- `IPSet.update(iterable)` for a list -/
def updateRaw (s : IPSet.St) (xs : List Item) (flags : Nat := 0) : R IPSet.St :=
  (listArgs xs flags).map (IPSet.updateList s)

/-- `IPSet(iterable)` for a list -/
def newRaw (xs : List Item) (flags : Nat := 0) : R IPSet.St :=
  (listArgs xs flags).map IPSet.newOfList

/-- `ip in ipset`: `supernet = IPNetwork(ip)`, then the walk up the supernets -/
def containsRaw (s : IPSet.St) (x : Item) : R Bool :=
  (spanItem x).map (IPSet.contains s)

/-- one step of a history whose arguments are still raw.  `plain` is every operation that takes
    no coercible argument (or takes network / range objects only). -/
inductive ROp where
  | plain (op : IPSet.Op)
  | newList (i : Nat) (xs : List Item)
  | add (i : Nat) (x : Item)
  | rem (i : Nat) (x : Item)
  | updList (i : Nat) (xs : List Item)
deriving Repr, Inhabited

/-- a raising operation leaves every set as it was (the conversions come before the first
    mutation; a raising constructor assigns nothing) -/
def stepRaw (sets : List IPSet.St) : ROp → List IPSet.St × Nat × Option Err
  | .plain op => IPSet.stepOp sets op
  | .newList i xs =>
    match newRaw xs with
    | .ok s => (IPSet.setSet sets i s, i, none)
    | .error e => (sets, i, some e)
  | .add i x =>
    match addRaw (IPSet.getSet sets i) x with
    | .ok s => (IPSet.setSet sets i s, i, none)
    | .error e => (sets, i, some e)
  | .rem i x =>
    match removeRaw (IPSet.getSet sets i) x with
    | .ok s => (IPSet.setSet sets i s, i, none)
    | .error e => (sets, i, some e)
  | .updList i xs =>
    match updateRaw (IPSet.getSet sets i) xs with
    | .ok s => (IPSet.setSet sets i s, i, none)
    | .error e => (sets, i, some e)

def runRaw (ops : List ROp) : List IPSet.St := ops.foldl (fun sets op => (stepRaw sets op).1) []

/-! ### x in y -/

open NV.Contains in
/-- `other in self` through the container's own `__contains__`:
    a `BaseIP` operand is compared directly; anything else is `IPNetwork(other) in self` for a
    network container, `IPAddress(other) in self` for a range / glob container -/
def inRaw (y : Contains.Cont) (x : Item) : R Bool :=
  match x with
  | .rng r => .ok (contains y (.rng r))
  | .raw (.addr a) => .ok (contains y (.addr a))
  | .raw (.net n) => .ok (contains y (.net n))
  | .raw x =>
    match y with
    | .net _ => (toNet x).map (fun n => contains y (.net n))
    | .rng _ => (toAddr x).map (fun a => contains y (.addr a))

/-! ### matching helpers -/

inductive Which where
  | all | small | large
deriving Repr, DecidableEq, Inhabited

/-- `ip = IPAddress(ip)` then `sorted([IPNetwork(cidr) for cidr in cidrs])` and the scan;
    `all` returns the list, `small`/`large` at most one block -/
def matchRaw (which : Which) (ip : Raw) (cidrs : List Raw) : R (List Net) := do
  let a ← toAddr ip
  let ns ← cidrs.mapM toNet
  pure (match which with
    | .all => Contains.allMatching a ns
    | .small => (Contains.smallestMatching a ns).toList
    | .large => (Contains.largestMatching a ns).toList)

end NV.Coerce
