/-
Model/Splitter.lean — `netaddr.contrib.subnet_splitter.SubnetSplitter` as written (C20).
Executable, core Lean only.

The object's state is the Python set `self._subnets`.  It is modelled as the list of its
elements in *some* iteration order (the order is not fixed by Python; every theorem is for all
orders).  `available_subnets()` is the stable sort of that list by descending prefix length,
exactly like `sorted(self._subnets, key=lambda x: x.prefixlen, reverse=True)`.
-/
import NetaddrVerif.Model.Cidr
import NetaddrVerif.Model.Subnet
namespace NV.Splitter
open NV

/-- `IPNetwork.__eq__` / `__hash__` go through `key() = (version, first, last)` -/
def keyEq (a b : Net) : Bool := a.ver == b.ver && a.first == b.first && a.last == b.last

/-- `SubnetSplitter(base_cidr)`: `self._subnets = set([IPNetwork(base_cidr)])` -/
def init (base : Net) : List Net := [base]

/-- `available_subnets()` -/
def availableSubnets (s : List Net) : List Net := s.mergeSort (fun a b => a.plen ≥ b.plen)

/-- `remove_subnet(ip_network)`: `self._subnets.remove(ip_network)` (KeyError when absent) -/
def removeSubnet (s : List Net) (x : Net) : R (List Net) :=
  if s.any (keyEq x) then .ok (s.eraseP (keyEq x)) else .error .key

/-- `self._subnets.union(set(remaining))`: elements already present are not added again -/
def unionSet (s : List Net) (rem : List Net) : List Net :=
  rem.foldl (fun acc r => if acc.any (keyEq r) then acc else acc ++ [r]) s

def toItems (l : List Net) : List MItem := l.map (fun n => .net n.ver ⟨n.val, n.plen⟩)

/-- `remaining = [cidr]; for merged in cidr_merge(subnets):
       remaining = [left for block in remaining for left in cidr_exclude(block, merged)]` -/
def subtractAll (w : Nat) (cidr : Pfx) (merged : List Net) : List Pfx :=
  merged.foldl (fun rem m => rem.flatMap (fun b => cidrExclude w b ⟨m.val, m.plen⟩)) [cidr]

/-- the `for cidr in self.available_subnets()` loop of `extract_subnet`; result = (returned
    subnets, new `_subnets`).  Every raising point (`subnet()`, `set.remove`) comes before the
    first mutation, so an error leaves the object unchanged. -/
def extractLoop (s : List Net) (pfx : Int) (count : Option Int) : List Net → R (List Net × List Net)
  | [] => .ok ([], s)
  | cidr :: rest =>
    match Subnet.subnet cidr pfx count with
    | .error e => .error e
    | .ok subnets =>
      if subnets.isEmpty then extractLoop s pfx count rest
      else
        match removeSubnet s cidr with
        | .error e => .error e
        | .ok s1 =>
          let w := width cidr.ver
          let remaining := subtractAll w ⟨cidr.val, cidr.plen⟩ (cidrMerge (toItems subnets))
          .ok (subnets, unionSet s1 (remaining.map (fun b => ⟨cidr.ver, b.val, b.plen⟩)))

/-- `extract_subnet(prefix, count)` -/
def extractSubnet (s : List Net) (pfx : Int) (count : Option Int) : R (List Net × List Net) :=
  extractLoop s pfx count (availableSubnets s)

/-- The set's iteration order is unknown; the harness tells the model which free block the
    implementation split by naming it (`hint`): that element is moved to the front of the
    modelled iteration order (a no-op on the set).  If the named block is a legitimate first
    choice (largest prefix length that still fits) the stable sort keeps it first in its class and
    the model splits the same block; otherwise the outputs differ and the check reports it. -/
def moveToFront (s : List Net) (hint : Net) : List Net :=
  match s.find? (keyEq hint) with
  | some x => x :: s.eraseP (keyEq hint)
  | none => s

inductive Op where
  | extract (pfx : Int) (count : Option Int) (hint : Option Net)
  | remove (x : Net)
deriving Repr

/-- what a step shows: the returned subnets, or the error -/
abbrev Obs := R (List Net)

def reorder (s : List Net) : Option Net → List Net
  | none => s
  | some h => moveToFront s h

/-- one call on the live object; a raising call leaves `_subnets` as it was -/
def step (s : List Net) : Op → List Net × Obs
  | .extract pfx count hint =>
    match extractSubnet (reorder s hint) pfx count with
    | .ok (subs, s') => (s', .ok subs)
    | .error e => (reorder s hint, .error e)
  | .remove x =>
    match removeSubnet s x with
    | .ok s' => (s', .ok [])
    | .error e => (s, .error e)

/-- run a history, collecting (observation, state after) of every step -/
def run (s : List Net) : List Op → List (Obs × List Net)
  | [] => []
  | op :: ops =>
    let r := step s op
    (r.2, r.1) :: run r.1 ops

end NV.Splitter
