/-
Model/IPSetText.lean — `IPSet.__repr__` at text level (C06):
    'IPSet(%r)' % [str(c) for c in sorted(self._cidrs)]
`str(c)` is `IPNetwork.__str__` = `NetParse.netStr` (C03's printer, default dialect).  The `%r`
of a list of `str` objects is CPython's: `[` + `', '`-joined `repr(str)` + `]`, and `repr` of a
string without quotes / backslashes / non-printables is the string between single quotes (the
CIDR strings consist of hex digits, `.`, `:` and `/` only).
-/
import NetaddrVerif.Model.IPSet
import NetaddrVerif.Model.NetParse
namespace NV.IPSet
open NV NV.AddrParse NV.NetParse

/-- `[str(c) for c in sorted(self._cidrs)]` -/
def reprStrs (be : Backend) (s : St) : List (List Char) := (reprSet s).map (netStr be)

/-- `repr(str)` for a string without quotes, backslashes or non-printables -/
def pyStrRepr (t : List Char) : List Char := '\'' :: t ++ ['\'']

/-- `', '.join(repr(t) for t in strs)` -/
def joinQuoted : List (List Char) → List Char
  | [] => []
  | [a] => pyStrRepr a
  | a :: b :: r => pyStrRepr a ++ [',', ' '] ++ joinQuoted (b :: r)

/-- `repr(list_of_str)` for such strings -/
def pyListRepr (strs : List (List Char)) : List Char := '[' :: joinQuoted strs ++ [']']

/-- `repr(ipset)` -/
def reprText (be : Backend) (s : St) : List Char :=
  "IPSet(".toList ++ pyListRepr (reprStrs be s) ++ [')']

end NV.IPSet
