/-
Model/Convert.lean — IPv4 <-> IPv6 conversion (property C16).  Core Lean only.

Follows netaddr/ip/__init__.py:
  `isIpv4Mapped / isIpv4Compat`     BaseIP.is_ipv4_mapped / is_ipv4_compat  (`_value >> 32`)
  `addrIpv4 / addrIpv6`             IPAddress.ipv4 / ipv6
  `netIpv4 / netIpv6`               IPNetwork.ipv4 / ipv6

`klass(v, ver)` is the integer branch of `IPAddress.__init__` (Model/Address.lean `ctor`).
`IPNetwork.ipv6` builds its result from a `(value, prefixlen)` tuple: `mkNet` is the tuple
branch of `parse_ip_network` with its two range checks.  `IPNetwork.ipv4` formats
`'%s/%d' % (dotted quad, prefixlen)` and re-parses that string; the model takes the integer
shortcut — the same `mkNet` checks on (value, prefixlen) — and the text round trip
(`int_to_str` then `inet_pton` + `int()` of the prefix) is listed under
`modelled_not_verified` (its theorem is C01/C03's).
-/
import NetaddrVerif.Model.Address
namespace NV.Convert
open NV NV.Address

/-- `0xffff00000000` : the offset of the IPv4-mapped block `::ffff:0:0/96` -/
def mappedLo : Nat := 0xffff00000000
/-- `0xffffffffffff` : last address of the IPv4-mapped block -/
def mappedHi : Nat := 0xffffffffffff

/-- `self._module.version == 6 and (self._value >> 32) == 0xffff` -/
def isIpv4Mapped (ver val : Nat) : Bool := ver == 6 && (val >>> 32) == 0xffff
/-- `self._module.version == 6 and (self._value >> 32) == 0` -/
def isIpv4Compat (ver val : Nat) : Bool := ver == 6 && (val >>> 32) == 0

/-- `IPAddress.ipv4()`; Python falls off the `if/elif` with `ip = None` for any other version,
    which cannot occur for a constructed object (`.other`). -/
def addrIpv4 (a : Addr) : R Addr :=
  if a.ver = 4 then ctor a.val (some 4)
  else if a.ver = 6 then
    if a.val ≤ maxInt 4 then ctor a.val (some 4)                     -- `0 <= v <= _ipv4.max_int`
    else if mappedLo ≤ a.val ∧ a.val ≤ mappedHi then ctor ((a.val : Int) - (mappedLo : Int)) (some 4)
    else .error .addrConversion
  else .error .other

/-- `IPAddress.ipv6(ipv4_compatible)` -/
def addrIpv6 (a : Addr) (compat : Bool) : R Addr :=
  if a.ver = 6 then
    if compat ∧ (mappedLo ≤ a.val ∧ a.val ≤ mappedHi) then ctor ((a.val : Int) - (mappedLo : Int)) (some 6)
    else ctor a.val (some 6)
  else if a.ver = 4 then
    --  `ip = klass(self._value, 6)` is evaluated first in both cases
    match ctor a.val (some 6) with
    | .error e => .error e
    | .ok ip => if !compat then ctor ((mappedLo : Int) + (a.val : Int)) (some 6) else .ok ip
  else .error .other

/-- the `(value, prefixlen)` tuple branch of `parse_ip_network` (and, as the integer-level
    shortcut, of the `'%s/%d'` string branch): both components range-checked -/
def mkNet (ver : Nat) (val : Int) (plen : Int) : R Net :=
  if ¬ (0 ≤ val ∧ val ≤ (maxInt ver : Int)) then .error .addrFormat
  else if ¬ (0 ≤ plen ∧ plen ≤ (width ver : Int)) then .error .addrFormat
  else .ok ⟨ver, val.toNat, plen.toNat⟩

/-- `IPNetwork.ipv4()` -/
def netIpv4 (n : Net) : R Net :=
  if n.ver = 4 then mkNet 4 n.val n.plen
  else if n.ver = 6 then
    if n.plen < 96 then .error .addrConversion
    else if n.val ≤ maxInt 4 then mkNet 4 n.val ((n.plen : Int) - 96)
    else if mappedLo ≤ n.val ∧ n.val ≤ mappedHi then mkNet 4 ((n.val : Int) - (mappedLo : Int)) ((n.plen : Int) - 96)
    else .error .addrConversion
  else .error .other

/-- `IPNetwork.ipv6(ipv4_compatible)` -/
def netIpv6 (n : Net) (compat : Bool) : R Net :=
  if n.ver = 6 then
    if compat ∧ (mappedLo ≤ n.val ∧ n.val ≤ mappedHi) then mkNet 6 ((n.val : Int) - (mappedLo : Int)) n.plen
    else mkNet 6 n.val n.plen
  else if n.ver = 4 then
    if compat then mkNet 6 n.val ((n.plen : Int) + 96)
    else mkNet 6 ((mappedLo : Int) + (n.val : Int)) ((n.plen : Int) + 96)
  else .error .other

end NV.Convert
