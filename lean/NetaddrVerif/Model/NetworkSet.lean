/-
Model/NetworkSet.lean — additions to the C02 model (Model/Network.lean is shared and stays as
it is): `IPNetwork.ip`, and the three setters of `IPNetwork` written statement by statement as
the Python writes them, in a form where an assignment that happens BEFORE a failing check would
be visible.

The setters of netaddr/ip/__init__.py:

    def _set_value(self, value):                       # BaseIP
        if not isinstance(value, _int_type):  raise TypeError
        if not 0 <= value <= self._module.max_int:  raise AddrFormatError
        self._value = value

    def _set_prefixlen(self, value):                   # IPNetwork
        if not isinstance(value, _int_type):  raise TypeError
        if not 0 <= value <= self._module.width:  raise AddrFormatError
        self._prefixlen = value

    @netmask.setter
    def netmask(self, value):                          # IPNetwork
        ip = IPAddress(value)                          # may raise AddrFormatError
        if ip.version != self.version:  raise ValueError
        if not ip.is_netmask():  raise ValueError
        self.prefixlen = ip.netmask_bits()             # may raise ValueError; then _set_prefixlen

The trace monad `M` keeps the object and the log of stores THROUGH a raise (nothing is rolled
back: Python has no transactions), so "the object is unchanged after a rejected assignment" is a
statement about the order of statements, not a definition.
-/
import NetaddrVerif.Model.Network
namespace NV.Network

/-- `IPNetwork.ip`: `IPAddress(self._value, self._module.version)` -/
def netIp (n : Net) : Addr := ⟨n.ver, n.val⟩

end NV.Network

namespace NV.SetTrace
open NV

/-- a store into a slot of the live object -/
inductive Ev where
  | storeValue (v : Nat)        -- `self._value = v`
  | storePrefixlen (p : Nat)    -- `self._prefixlen = p`
deriving DecidableEq, Repr

/-- the live object and every store made so far, oldest first -/
structure St where
  obj : Net
  log : List Ev
deriving DecidableEq, Repr

/-- a method body: it returns or raises, and in BOTH cases hands on the state it has reached -/
def M (α : Type) : Type := St → Except Err α × St

def M.pure {α : Type} (a : α) : M α := fun s => (.ok a, s)
def M.bind {α β : Type} (m : M α) (f : α → M β) : M β := fun s =>
  match m s with
  | (.ok a, s') => f a s'
  | (.error e, s') => (.error e, s')
instance : Monad M where
  pure := M.pure
  bind := M.bind

/-- `raise e` -/
def raise {α : Type} (e : Err) : M α := fun s => (.error e, s)
/-- reading `self` -/
def self : M Net := fun s => (.ok s.obj, s)
/-- a call of a function that does not touch `self` (constructing `IPAddress(value)`, the methods
    of that other object) -/
def call {α : Type} (r : R α) : M α := fun s => (r, s)
/-- `self._value = v` -/
def storeValue (v : Nat) : M Unit := fun s => (.ok (), ⟨{ s.obj with val := v }, s.log ++ [.storeValue v]⟩)
/-- `self._prefixlen = p` -/
def storePrefixlen (p : Nat) : M Unit := fun s => (.ok (), ⟨{ s.obj with plen := p }, s.log ++ [.storePrefixlen p]⟩)

/-- `if not isinstance(value, int): raise TypeError` — hands on the int -/
def expectInt : SetArg → M Int
  | .int i => pure i
  | _ => raise .type_

/-- `BaseIP._set_value`, statement by statement -/
def setValueT (x : SetArg) : M Unit := do
  let value ← expectInt x
  let n ← self
  if ¬ (0 ≤ value ∧ value ≤ (maxInt n.ver : Int)) then raise .addrFormat
  storeValue value.toNat

/-- `IPNetwork._set_prefixlen`, statement by statement -/
def setPrefixlenT (x : SetArg) : M Unit := do
  let value ← expectInt x
  let n ← self
  if ¬ (0 ≤ value ∧ value ≤ (width n.ver : Int)) then raise .addrFormat
  storePrefixlen value.toNat

/-- the `netmask` setter, statement by statement; its last statement is the assignment
    `self.prefixlen = …`, i.e. a call of `_set_prefixlen` -/
def setNetmaskT (x : SetArg) : M Unit := do
  let ip ← call (addrOfSetArg x)
  let n ← self
  if ip.ver ≠ n.ver then raise .value
  if !isNetmask (width ip.ver) ip.val then raise .value
  let bits ← call (netmaskBits (width ip.ver) ip.val)
  setPrefixlenT (.int bits)

def setterBody : SetOp → M Unit
  | .value x => setValueT x
  | .prefixlen x => setPrefixlenT x
  | .netmask x => setNetmaskT x

/-- one assignment statement `n.<attr> = x` on the live object `n`: outcome, the object as the
    setter left it, and the stores it made -/
def setterTrace (n : Net) (op : SetOp) : Except Err Unit × St := setterBody op ⟨n, []⟩

/-- the live-object step of the driver: whatever state the setter body reached is the state of
    the object afterwards (no roll-back) -/
def stepTrace (n : Net) (op : SetOp) : Net × Option Err :=
  match setterTrace n op with
  | (.ok _, s) => (s.obj, none)
  | (.error e, s) => (s.obj, some e)

end NV.SetTrace
