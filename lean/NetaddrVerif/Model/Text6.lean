/-
Model/Text6.lean — MODELLED PLATFORM (DESIGN.md 3.1 / App. B): glibc `inet_pton(AF_INET6, ·)`
and `inet_ntop(AF_INET6, ·)` as seen through CPython's `socket` module, written in split/join
style (split on ':', classify the empty tokens, parse groups, refill the gap; print = choose
the zero run, replace it by an empty token, join).  Validated against `socket.*` by the
platform ops `pton6` / `ntop6` of the C01 check on every run.
-/
import NetaddrVerif.Model.Text4
namespace NV.Text6
open NV.Text4

/-- `'%x' % w` -/
def hex (w : Nat) : List Char := Nat.toDigits 16 w

/-- `'%.4x' % w` -/
def hex4 (w : Nat) : List Char :=
  let d := hex w
  List.replicate (4 - d.length) '0' ++ d

/-- the eight 16-bit groups of a 128-bit value, most significant first (`struct.unpack('>8H', …)`) -/
def words (v : Nat) : List Nat :=
  [(v >>> 112) % 65536, (v >>> 96) % 65536, (v >>> 80) % 65536, (v >>> 64) % 65536,
   (v >>> 48) % 65536, (v >>> 32) % 65536, (v >>> 16) % 65536, v % 65536]

/-- big-endian value of a list of 16-bit groups -/
def ofWords (ws : List Nat) : Nat := ws.foldl (fun a w => a * 65536 + w) 0

/-- a group: 1-4 hex digits -/
def hextet (t : List Char) : Option Nat :=
  if 1 ≤ t.length ∧ t.length ≤ 4 ∧ t.all isHexC then some (ofBase 16 t) else none

/-- parse the tokens between the colons: groups so far, index of the gap if seen.
    `last` tells whether the token is the last one (only there a dotted quad is allowed). -/
def groups : List (List Char) → List Nat → Option Nat → Option (List Nat × Option Nat)
  | [], ws, gap => some (ws, gap)
  | t :: rest, ws, gap =>
    if t.isEmpty then groups rest ws (some ws.length)
    else if t.contains '.' then
      if !rest.isEmpty then none else
      match pton4 t with
      | some v4 => some (ws ++ [v4 / 65536, v4 % 65536], gap)
      | none => none
    else match hextet t with
      | some h => groups rest (ws ++ [h]) gap
      | none => none

/-- drop one of the two empty tokens a leading "::" produces; a single leading ':' is refused -/
def trimFront (toks : List (List Char)) : Option (List (List Char)) :=
  match toks with
  | t0 :: t1 :: rest => if t0.isEmpty then (if t1.isEmpty then some (t1 :: rest) else none) else some toks
  | _ => some toks

/-- same at the end -/
def trimBack (toks : List (List Char)) : Option (List (List Char)) :=
  if toks.getLast? == some [] then
    (if toks.dropLast.getLast? == some [] then some toks.dropLast else none)
  else some toks

/-- `socket.inet_pton(AF_INET6, s)` as an integer (`none` = OSError / ValueError) -/
def pton6 (s : List Char) : Option Nat :=
  let toks := s.splitOn ':'
  if toks.length < 3 then none else
  match trimFront toks with
  | none => none
  | some toks =>
  match trimBack toks with
  | none => none
  | some toks =>
  if (toks.filter List.isEmpty).length > 1 then none else
  match groups toks [] none with
  | none => none
  | some (ws, none) => if ws.length = 8 then some (ofWords ws) else none
  | some (ws, some g) =>
    if ws.length > 7 then none
    else some (ofWords (ws.take g ++ List.replicate (8 - ws.length) 0 ++ ws.drop g))

/-- scan for zero runs: `flags` = "group is zero"; `i` current index; `cur` open run start and
    length; `best` the longest run of length ≥ 2 so far (leftmost on ties). -/
def runScan : List Bool → Nat → Option (Nat × Nat) → Option (Nat × Nat) → Option (Nat × Nat)
  | [], _, cur, best => closeRun cur best
  | true :: r, i, none, best => runScan r (i + 1) (some (i, 1)) best
  | true :: r, i, some (b, l), best => runScan r (i + 1) (some (b, l + 1)) best
  | false :: r, i, cur, best => runScan r (i + 1) none (closeRun cur best)
where
  closeRun (cur best : Option (Nat × Nat)) : Option (Nat × Nat) :=
    match cur with
    | none => best
    | some (b, l) =>
      if l < 2 then best else
      match best with
      | none => some (b, l)
      | some (b', l') => if l > l' then some (b, l) else some (b', l')

/-- leftmost longest run of ≥ 2 zero groups: (start, length) -/
def longestRun (flags : List Bool) : Option (Nat × Nat) := runScan flags 0 none none

/-- does glibc print the last 32 bits as a dotted quad?  run starts at 0 and has length 6, or
    length 5 with group 5 = ffff -/
def v4Tail (ws : List Nat) (best : Option (Nat × Nat)) : Bool :=
  match best with
  | some (0, l) => l == 6 || (l == 5 && ws.getD 5 0 == 0xffff)
  | _ => false

/-- the token list glibc prints for groups `ws` of value `v`, given the chosen zero run -/
def ntop6Toks (v : Nat) (ws : List Nat) (best : Option (Nat × Nat)) : List (List Char) :=
  let toks := ws.map hex
  let toks := if v4Tail ws best then toks.take 6 ++ [ntoa (v % 4294967296)] else toks
  match best with
  | none => toks
  | some (b, l) =>
    (if b == 0 then [[]] else []) ++ toks.take b ++ [[]] ++ toks.drop (b + l)
      ++ (if b + l == 8 then [[]] else [])

/-- `socket.inet_ntop(AF_INET6, packed v)` -/
def ntop6 (v : Nat) : List Char :=
  [':'].intercalate (ntop6Toks v (words v) (longestRun ((words v).map (· == 0))))

end NV.Text6
