/-
Model/Address.lean — `IPAddress` arithmetic, bitwise operators, the integer branch of
`IPAddress.__init__` and the scalar observers (property C14).  Core Lean only.

Follows netaddr/ip/__init__.py function by function:
  `ctor`            IPAddress.__init__(addr:int, version)      (integer branch only)
  `add/radd/sub/rsub`   __add__/__radd__/__sub__/__rsub__      (explicit 0..max_int guard, IndexError,
                                                                 then rebuilt through the constructor)
  `iadd/isub`       __iadd__/__isub__                            (same guard, object mutated in place)
  `or_/and_/xor_`   __or__/__and__/__xor__                       (`int(other)`, rebuilt through ctor)
  `shl/shr`         __lshift__/__rshift__
  `toInt/index/hex/nonzero`  __int__/__index__/hex()/__bool__

`self._value` is a `Nat` (the constructor keeps it in range); the other operand `n` is any
Python int, hence `Int`.  Python's infinite two's-complement `|`, `&`, `^` with a negative
right operand are `pyOr/pyAnd/pyXor` below (`-(m+1) = ~m`).
-/
import NetaddrVerif.Model.Basic
namespace NV.Address
open NV

/-- `IPAddress(x, version)` for an `int` x.  `ver = none` is "version not given":
    magnitude-based detection.  An explicit version other than 4 / 6 is Python's ValueError. -/
def ctor (x : Int) (ver : Option Nat) : R Addr :=
  match ver with
  | some v =>
    if v = 4 ∨ v = 6 then
      --  `if 0 <= int(addr) <= self._module.max_int`
      if 0 ≤ x ∧ x ≤ (maxInt v : Int) then .ok ⟨v, x.toNat⟩ else .error .addrFormat
    else .error .value
  | none =>
    if 0 ≤ x ∧ x ≤ (maxInt 4 : Int) then .ok ⟨4, x.toNat⟩
    else if (maxInt 4 : Int) < x ∧ x ≤ (maxInt 6 : Int) then .ok ⟨6, x.toNat⟩
    else .error .addrFormat

/-- the shared tail of `__add__/__sub__/__rsub__`: guard, then `self.__class__(new_value, version)` -/
def guardNew (a : Addr) (nv : Int) : R Addr :=
  if 0 ≤ nv ∧ nv ≤ (maxInt a.ver : Int) then ctor nv (some a.ver) else .error .index

/-- `a + n` -/
def add (a : Addr) (n : Int) : R Addr := guardNew a ((a.val : Int) + n)
/-- `n + a`  (`__radd__ = __add__`) -/
def radd (a : Addr) (n : Int) : R Addr := add a n
/-- `a - n` -/
def sub (a : Addr) (n : Int) : R Addr := guardNew a ((a.val : Int) - n)
/-- `n - a` -/
def rsub (a : Addr) (n : Int) : R Addr := guardNew a (n - (a.val : Int))

/-- the shared tail of `__iadd__/__isub__`: guard, then `self._value = new_value; return self` -/
def guardInplace (a : Addr) (nv : Int) : R Addr :=
  if 0 ≤ nv ∧ nv ≤ (maxInt a.ver : Int) then .ok ⟨a.ver, nv.toNat⟩ else .error .index

/-- `a += n` : the new state of the object -/
def iadd (a : Addr) (n : Int) : R Addr := guardInplace a ((a.val : Int) + n)
/-- `a -= n` -/
def isub (a : Addr) (n : Int) : R Addr := guardInplace a ((a.val : Int) - n)

/-- a live object under an in-place operator: a failing one leaves the object as it was -/
def stepInplace (a : Addr) (r : R Addr) : Addr × Option Err :=
  match r with
  | .ok a' => (a', none)
  | .error e => (a, some e)

/-! ### Python's `|`, `&`, `^` between a non-negative int and any int -/

/-- `a | n` -/
def pyOr (a : Nat) : Int → Int
  | .ofNat n => .ofNat (a ||| n)
  | .negSucc m => .negSucc (m ^^^ (m &&& a))       -- a | ~m = ~(m & ~a);  m & ~a = m ^ (m & a)

/-- `a & n` -/
def pyAnd (a : Nat) : Int → Int
  | .ofNat n => .ofNat (a &&& n)
  | .negSucc m => .ofNat (a ^^^ (a &&& m))         -- a & ~m = a ^ (a & m)

/-- `a ^ n` -/
def pyXor (a : Nat) : Int → Int
  | .ofNat n => .ofNat (a ^^^ n)
  | .negSucc m => .negSucc (a ^^^ m)               -- a ^ ~m = ~(a ^ m)

/-- the right operand of a bitwise operator: an int, or another IPAddress (any version) -/
inductive Operand where
  | int (n : Int)
  | addr (b : Addr)
deriving DecidableEq, Repr, Inhabited

/-- `int(other)` -/
def Operand.toInt : Operand → Int
  | .int n => n
  | .addr b => (b.val : Int)

/-- `a | other` -/
def or_ (a : Addr) (x : Operand) : R Addr := ctor (pyOr a.val x.toInt) (some a.ver)
/-- `a & other` -/
def and_ (a : Addr) (x : Operand) : R Addr := ctor (pyAnd a.val x.toInt) (some a.ver)
/-- `a ^ other` -/
def xor_ (a : Addr) (x : Operand) : R Addr := ctor (pyXor a.val x.toInt) (some a.ver)
/-- `a << n`, n ≥ 0 -/
def shl (a : Addr) (n : Nat) : R Addr := ctor ((a.val <<< n : Nat) : Int) (some a.ver)
/-- `a >> n`, n ≥ 0 -/
def shr (a : Addr) (n : Nat) : R Addr := ctor ((a.val >>> n : Nat) : Int) (some a.ver)

/-! ### observers -/

/-- `int(a)` -/
def toInt (a : Addr) : Nat := a.val
/-- `a.__index__()` -/
def index (a : Addr) : Nat := a.val
/-- `hex(a)` = `'0x%x' % a.__index__()` -/
def hex (a : Addr) : List Char := '0' :: 'x' :: Nat.toDigits 16 a.val
/-- `bool(a)` -/
def nonzero (a : Addr) : Bool := a.val != 0

end NV.Address
