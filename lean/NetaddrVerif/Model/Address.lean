/-
Model/Address.lean — `IPAddress` arithmetic, bitwise operators, the integer branch of
`IPAddress.__init__` and the scalar observers (property C14).  Core Lean only.

Follows netaddr/ip/__init__.py function by function:
  `ctor`            IPAddress.__init__(addr:int, version)      (integer branch only)
  `add/radd/sub/rsub`   __add__/__radd__/__sub__/__rsub__      (explicit 0..max_int guard, IndexError,
                                                                 then rebuilt through the constructor)
  `iadd/isub`       __iadd__/__isub__                            (same guard, object mutated in place)
  `or_/and_/xor_`   __or__/__and__/__xor__                       (`int(other)`, rebuilt through ctor)
  `shl/shr`         __lshift__/__rshift__
  `toInt/index/hex/nonzero`  __int__/__index__/hex()/__bool__

`self._value` is a `Nat` (the constructor keeps it in range); the other operand `n` is any
Python int, hence `Int`.  Python's infinite two's-complement `|`, `&`, `^` with a negative
right operand are `pyOr/pyAnd/pyXor` below (`-(m+1) = ~m`).
-/
import NetaddrVerif.Model.Basic
namespace NV.Address
open NV

/-- `IPAddress(x, version)` for an `int` x.  `ver = none` is "version not given":
    magnitude-based detection.  An explicit version other than 4 / 6 is Python's ValueError. -/
def ctor (x : Int) (ver : Option Nat) : R Addr :=
  match ver with
  | some v =>
    if v = 4 ∨ v = 6 then
      --  `if 0 <= int(addr) <= self._module.max_int`
      if 0 ≤ x ∧ x ≤ (maxInt v : Int) then .ok ⟨v, x.toNat⟩ else .error .addrFormat
    else .error .value
  | none =>
    if 0 ≤ x ∧ x ≤ (maxInt 4 : Int) then .ok ⟨4, x.toNat⟩
    else if (maxInt 4 : Int) < x ∧ x ≤ (maxInt 6 : Int) then .ok ⟨6, x.toNat⟩
    else .error .addrFormat

/-- the shared tail of `__add__/__sub__/__rsub__`: guard, then `self.__class__(new_value, version)` -/
def guardNew (a : Addr) (nv : Int) : R Addr :=
  if 0 ≤ nv ∧ nv ≤ (maxInt a.ver : Int) then ctor nv (some a.ver) else .error .index

/-- `a + n` -/
def add (a : Addr) (n : Int) : R Addr := guardNew a ((a.val : Int) + n)
/-- `n + a`  (`__radd__ = __add__`) -/
def radd (a : Addr) (n : Int) : R Addr := add a n
/-- `a - n` -/
def sub (a : Addr) (n : Int) : R Addr := guardNew a ((a.val : Int) - n)
/-- `n - a` -/
def rsub (a : Addr) (n : Int) : R Addr := guardNew a (n - (a.val : Int))

/-- the shared tail of `__iadd__/__isub__`: guard, then `self._value = new_value; return self` -/
def guardInplace (a : Addr) (nv : Int) : R Addr :=
  if 0 ≤ nv ∧ nv ≤ (maxInt a.ver : Int) then .ok ⟨a.ver, nv.toNat⟩ else .error .index

/-- `a += n` : the new state of the object -/
def iadd (a : Addr) (n : Int) : R Addr := guardInplace a ((a.val : Int) + n)
/-- `a -= n` -/
def isub (a : Addr) (n : Int) : R Addr := guardInplace a ((a.val : Int) - n)

/-- a live object under an in-place operator: a failing one leaves the object as it was -/
def stepInplace (a : Addr) (r : R Addr) : Addr × Option Err :=
  match r with
  | .ok a' => (a', none)
  | .error e => (a, some e)

/-! ### Python's `|`, `&`, `^` between a non-negative int and any int -/

/-- `a | n` -/
def pyOr (a : Nat) : Int → Int
  | .ofNat n => .ofNat (a ||| n)
  | .negSucc m => .negSucc (m ^^^ (m &&& a))       -- a | ~m = ~(m & ~a);  m & ~a = m ^ (m & a)

/-- `a & n` -/
def pyAnd (a : Nat) : Int → Int
  | .ofNat n => .ofNat (a &&& n)
  | .negSucc m => .ofNat (a ^^^ (a &&& m))         -- a & ~m = a ^ (a & m)

/-- `a ^ n` -/
def pyXor (a : Nat) : Int → Int
  | .ofNat n => .ofNat (a ^^^ n)
  | .negSucc m => .negSucc (a ^^^ m)               -- a ^ ~m = ~(a ^ m)

/-- the right operand of a bitwise operator: an int, or another IPAddress (any version) -/
inductive Operand where
  | int (n : Int)
  | addr (b : Addr)
deriving DecidableEq, Repr, Inhabited

/-- `int(other)` -/
def Operand.toInt : Operand → Int
  | .int n => n
  | .addr b => (b.val : Int)

/-- `a | other` -/
def or_ (a : Addr) (x : Operand) : R Addr := ctor (pyOr a.val x.toInt) (some a.ver)
/-- `a & other` -/
def and_ (a : Addr) (x : Operand) : R Addr := ctor (pyAnd a.val x.toInt) (some a.ver)
/-- `a ^ other` -/
def xor_ (a : Addr) (x : Operand) : R Addr := ctor (pyXor a.val x.toInt) (some a.ver)
/-- `a << n`, n ≥ 0 -/
def shl (a : Addr) (n : Nat) : R Addr := ctor ((a.val <<< n : Nat) : Int) (some a.ver)
/-- `a >> n`, n ≥ 0 -/
def shr (a : Addr) (n : Nat) : R Addr := ctor ((a.val >>> n : Nat) : Int) (some a.ver)

/-! ### observers -/

/-- `int(a)` -/
def toInt (a : Addr) : Nat := a.val
/-- `a.__index__()` -/
def index (a : Addr) : Nat := a.val
/-- `hex(a)` = `'0x%x' % a.__index__()` -/
def hex (a : Addr) : List Char := '0' :: 'x' :: Nat.toDigits 16 a.val
/-- `bool(a)` -/
def nonzero (a : Addr) : Bool := a.val != 0

/-! ### shifts with any right operand (added; `shl`/`shr` above are the `n ≥ 0` int case)

`__lshift__` is `self.__class__(self._value << numbits, version)`.  `self._value` is a plain
`int`, so `self._value << numbits` is CPython's `int.__lshift__`:
  * `numbits` an `int` `< 0`          → `ValueError('negative shift count')`
  * `numbits` an `int` `≥ 0`          → the exact product `value · 2^numbits`
  * `numbits` an `IPAddress`          → `int.__lshift__` answers `NotImplemented`, the reflected
                                         `IPAddress.__rlshift__` does not exist → `TypeError`
    (`__index__` is *not* consulted by binary operators).
The reflected spellings `n << a`, `n >> a` (an int on the left, the address as the count) hit the
same missing `__rlshift__`/`__rrshift__`: always `TypeError`. -/

/-- `v << x` for a Python int `v ≥ 0` and a right operand that is an int or an IPAddress -/
def pyShl (v : Nat) : Operand → R Int
  | .addr _ => .error .type_
  | .int n => if n < 0 then .error .value else .ok ((v <<< n.toNat : Nat) : Int)

/-- `v >> x` -/
def pyShr (v : Nat) : Operand → R Int
  | .addr _ => .error .type_
  | .int n => if n < 0 then .error .value else .ok ((v >>> n.toNat : Nat) : Int)

/-- `a << x`, any operand: the shift is evaluated first (its exception propagates), then the
    constructor range-checks the product -/
def lshift (a : Addr) (x : Operand) : R Addr := do
  let r ← pyShl a.val x
  ctor r (some a.ver)

/-- `a >> x`, any operand -/
def rshift (a : Addr) (x : Operand) : R Addr := do
  let r ← pyShr a.val x
  ctor r (some a.ver)

/-- `n << a` (int on the left): `int.__lshift__(n, a)` is `NotImplemented` and `IPAddress` defines
    no `__rlshift__` -/
def rlshift (_a : Addr) (_n : Int) : R Addr := .error .type_

/-- `n >> a` -/
def rrshift (_a : Addr) (_n : Int) : R Addr := .error .type_

/-! ### `__iadd__` / `__isub__` as the statements the Python writes (added)

```
def __iadd__(self, num):
    new_value = int(self._value + num)
    if 0 <= new_value <= self._module.max_int:
        self._value = new_value
        return self
    raise IndexError('result outside valid IP address boundary!')
```
The body is kept as a list of statements run by a small interpreter over a state that holds the
receiver object, the local `new_value`, the outcome and a log of the primitive events (attribute
reads, the two comparisons of the chained test in their short-circuit order, attribute writes,
return, raise).  A version of the body that assigned before testing would show a `writeValue`
event in front of the `cmp…` events (and a changed receiver on the failing paths). -/
namespace Inplace

/-- statements without sub-statements -/
inductive Prim where
  /-- `new_value = int(self._value + num)`  /  `… - num` when `minus` -/
  | compute (minus : Bool) (num : Int)
  /-- `self._value = new_value` -/
  | assign
  /-- `return self` -/
  | retSelf
  /-- `raise IndexError(...)` -/
  | raiseIndex
deriving DecidableEq, Repr, Inhabited

inductive Stmt where
  | prim (p : Prim)
  /-- `if 0 <= new_value <= self._module.max_int: body` -/
  | ifInRange (body : List Prim)
deriving Repr, Inhabited

/-- primitive events, in the order they happen -/
inductive Ev where
  /-- `self._value` is read (yielding `v`) -/
  | readValue (v : Nat)
  /-- `0 <= new_value` evaluated -/
  | cmpLo (ok : Bool)
  /-- `self._module` is read (for `.max_int`); only reached when `cmpLo` passed -/
  | readModule
  /-- `new_value <= max_int` evaluated -/
  | cmpHi (ok : Bool)
  /-- `self._value` is written with `v` -/
  | writeValue (v : Int)
  | ret
  | raise (e : Err)
deriving DecidableEq, Repr, Inhabited

structure St where
  /-- the receiver object -/
  self : Addr
  /-- the local `new_value` (unset = 0; every body computes it first) -/
  nv : Int := 0
  log : List Ev := []
  /-- `none` running · `some none` returned `self` · `some (some e)` raised `e` -/
  out : Option (Option Err) := none
deriving Repr, Inhabited

def stepPrim (st : St) : Prim → St
  | .compute minus num =>
    { st with nv := if minus then (st.self.val : Int) - num else (st.self.val : Int) + num,
              log := st.log ++ [.readValue st.self.val] }
  | .assign => { st with self := ⟨st.self.ver, st.nv.toNat⟩, log := st.log ++ [.writeValue st.nv] }
  | .retSelf => { st with out := some none, log := st.log ++ [.ret] }
  | .raiseIndex => { st with out := some (some .index), log := st.log ++ [.raise .index] }

/-- a statement list stops at the first `return` / `raise` -/
def runPrims : List Prim → St → St
  | [], st => st
  | p :: ps, st => if st.out.isSome then st else runPrims ps (stepPrim st p)

def runStmts : List Stmt → St → St
  | [], st => st
  | s :: ss, st =>
    if st.out.isSome then st else
    match s with
    | .prim p => runStmts ss (stepPrim st p)
    | .ifInRange body =>
      --  chained comparison: `0 <= new_value` first; only if true `new_value <= self._module.max_int`
      if 0 ≤ st.nv then
        if st.nv ≤ (maxInt st.self.ver : Int) then
          runStmts ss (runPrims body { st with log := st.log ++ [.cmpLo true, .readModule, .cmpHi true] })
        else runStmts ss { st with log := st.log ++ [.cmpLo true, .readModule, .cmpHi false] }
      else runStmts ss { st with log := st.log ++ [.cmpLo false] }

/-- the body of `__iadd__` (`minus = false`) / `__isub__` (`minus = true`) -/
def body (minus : Bool) (num : Int) : List Stmt :=
  [.prim (.compute minus num), .ifInRange [.assign, .retSelf], .prim .raiseIndex]

/-- run a body on a receiver -/
def run (prog : List Stmt) (a : Addr) : St := runStmts prog { self := a }

/-- the receiver afterwards and the exception, if any (a body that falls off its end returns
    `None`; none of the bodies here does, it is reported as `Err.other`) -/
def St.result (st : St) : Addr × Option Err :=
  match st.out with
  | some o => (st.self, o)
  | none => (st.self, some .other)

/-- `a += n` as executed -/
def iaddRun (a : Addr) (n : Int) : St := run (body false n) a
/-- `a -= n` as executed -/
def isubRun (a : Addr) (n : Int) : St := run (body true n) a

/-- what can be watched from outside the real object: reads of `_value`, reads of `_module`,
    writes of `_value` -/
def Ev.observable : Ev → Option String
  | .readValue v => some s!"rv:{v}"
  | .readModule => some "rm"
  | .writeValue v => some s!"wv:{v}"
  | _ => none

end Inplace

/-! ### `hex()` digit by digit (added): the specification string, written out independently of
`Nat.toDigits` -/

/-- the sixteen lowercase hexadecimal digit characters -/
def lowerHexDigit : Nat → Char
  | 0 => '0' | 1 => '1' | 2 => '2' | 3 => '3' | 4 => '4' | 5 => '5' | 6 => '6' | 7 => '7'
  | 8 => '8' | 9 => '9' | 10 => 'a' | 11 => 'b' | 12 => 'c' | 13 => 'd' | 14 => 'e' | _ => 'f'

/-- most significant digit first, no leading zeros, `"0"` for zero -/
def hexDigits (n : Nat) : List Char :=
  if _h : n < 16 then [lowerHexDigit n] else hexDigits (n / 16) ++ [lowerHexDigit (n % 16)]
decreasing_by omega

end NV.Address
