/-
Model/Basic.lean — shared vocabulary of the executable model (core Lean only, no Mathlib:
everything under Model/ and Gen/ is compiled into the native driver).

Python `int` values that the code keeps inside `0 .. max_int` are `Nat`; places where the
code can go negative use `Int` locally.  Exceptions are `Except Err`.
-/
namespace NV

/-- Exception classes that properties name.  Messages are not modelled. -/
inductive Err where
  | addrFormat | addrConversion | value | type_ | index | notRegistered | key | notImpl | other
deriving DecidableEq, Repr, Inhabited

def Err.tag : Err → String
  | .addrFormat => "addrFormat"
  | .addrConversion => "addrConversion"
  | .value => "value"
  | .type_ => "type"
  | .index => "index"
  | .notRegistered => "notRegistered"
  | .key => "key"
  | .notImpl => "notImpl"
  | .other => "other"

abbrev R (α : Type) := Except Err α

/-- `module.width` of the two IP strategy modules and the two EUI ones. -/
def width (ver : Nat) : Nat :=
  if ver = 4 then 32 else if ver = 6 then 128 else ver

/-- `module.max_int = 2 ** width - 1`. -/
def maxInt (ver : Nat) : Nat := 2 ^ width ver - 1

/-- An `IPNetwork`: `_module.version`, `_value`, `_prefixlen`. -/
structure Net where
  ver : Nat
  val : Nat
  plen : Nat
deriving DecidableEq, Repr, Inhabited

/-- An `IPAddress`: `_module.version`, `_value`. -/
structure Addr where
  ver : Nat
  val : Nat
deriving DecidableEq, Repr, Inhabited

/-- An `IPRange`: version, `_start._value`, `_end._value`. -/
structure Rng where
  ver : Nat
  lo : Nat
  hi : Nat
deriving DecidableEq, Repr, Inhabited

def Net.WF (n : Net) : Prop := (n.ver = 4 ∨ n.ver = 6) ∧ n.val < 2 ^ width n.ver ∧ n.plen ≤ width n.ver
def Addr.WF (a : Addr) : Prop := (a.ver = 4 ∨ a.ver = 6) ∧ a.val < 2 ^ width a.ver

theorem two_pow_pos (k : Nat) : 0 < 2 ^ k := Nat.pos_of_ne_zero (by simp)

end NV
