/-
Model/IPSet.lean — `netaddr.ip.sets.IPSet` as a state machine (C06, C07), following
netaddr/ip/sets.py function by function.

State = the keys of `self._cidrs` in insertion order (`List Net`).  Python's dict compares
keys with `IPNetwork.__eq__` = `key()` = `(version, first, last)`; assigning an existing key
keeps the old key object and its position; `del` removes the equal key.  Iteration order is
kept for determinism of the executable model, but no modelled observation depends on it:
everything observable goes through `sorted(self._cidrs)`; `pop()` takes the block the
implementation chose as an argument (DESIGN.md 3.1).

`x in net` for two networks is taken in its specified form (same version, interval
inclusion); C04 proves the shift-compare spelling of `IPNetwork.__contains__` equal to it.
-/
import NetaddrVerif.Model.Cidr
import NetaddrVerif.Model.Compare
namespace NV.IPSet
open NV

abbrev St := List Net

/-- `IPNetwork.__eq__`: equal `key()` -/
def keyEq (a b : Net) : Bool := a.ver == b.ver && a.first == b.first && a.last == b.last

/-- `k in self._cidrs` -/
def dMem (s : St) (k : Net) : Bool := s.any (fun c => keyEq c k)
/-- `self._cidrs[k] = True` -/
def dInsert (s : St) (k : Net) : St := if dMem s k then s else s ++ [k]
/-- `del self._cidrs[k]` -/
def dDel (s : St) (k : Net) : St := s.filter (fun c => !keyEq c k)
/-- `dict.fromkeys(l, True)` -/
def fromKeys (l : List Net) : St := l.foldl dInsert []

/-- `a in b` for two networks (specified form, see header) -/
def netIn (a b : Net) : Bool := a.ver == b.ver && b.first ≤ a.first && a.last ≤ b.last

def toPfx (n : Net) : Pfx := ⟨n.val, n.plen⟩
def ofPfx (ver : Nat) (b : Pfx) : Net := ⟨ver, b.val, b.plen⟩

/-- `iprange_to_cidrs(IPAddress(lo), IPAddress(hi))` -/
def rangeCidrs (ver lo hi : Nat) : List Net :=
  let w := width ver
  (iprangeToCidrs w ⟨lo, w⟩ ⟨hi, w⟩).map (ofPfx ver)

/-- `cidr_merge(self._cidrs)`-style call on keys plus extra items -/
def mergeKeys (keys : List Net) (extra : List MItem) : List Net :=
  cidrMerge (keys.map (fun n => MItem.net n.ver (toPfx n)) ++ extra)

/-- `supernet = self.cidr; supernet._prefixlen = q; supernet.cidr` -/
def supernetAt (n : Net) (q : Nat) : Net := netCidr ⟨n.ver, (netCidr n).val, q⟩

/-- the `for cidr in self._cidrs` scan of `_compact_single_network`:
    returns `(to_remove, True)` when a supernet of `a` was met, else `(to_remove, False)` -/
def scan (a : Net) : List Net → List Net → List Net × Bool
  | [], acc => (acc, false)
  | c :: rest, acc =>
    if c.ver != a.ver || keyEq c a then scan a rest acc
    else if c.first ≥ a.first && c.last ≤ a.last then scan a rest (acc ++ [c])
    else if c.first ≤ a.first && c.last ≥ a.last then (acc, true)
    else scan a rest acc

/-- the `while added_network.prefixlen != 0` merge loop (fuel = prefixlen) -/
def mergeLoop : Nat → St → Net → Nat → St
  | 0, s, _, _ => s
  | fuel + 1, s, a, shift =>
    if a.plen = 0 then s else
    let w := width a.ver
    let theBit := (a.val >>> shift) % 2
    let size := 2 ^ (w - a.plen)
    let net := netNetwork w a.val a.plen
    -- `previous()` / `next()`: network address -/+ one block size, same prefix
    let cand : Net := if theBit = 1 then ⟨a.ver, net - size, a.plen⟩ else ⟨a.ver, net + size, a.plen⟩
    if !dMem s cand then s
    else
      let s1 := dDel (dDel s cand) a
      let a' : Net := ⟨a.ver, (a.val >>> (shift + 1)) <<< (shift + 1), a.plen - 1⟩
      mergeLoop fuel (dInsert s1 a') a' (shift + 1)

/-- `_compact_single_network(added_network)`; `a` is already a key of `s` -/
def compactSingle (s : St) (a : Net) : St :=
  let w := width a.ver
  if a.plen = w then
    if (List.range a.plen).any (fun q => dMem s (supernetAt a q)) then dDel s a
    else mergeLoop a.plen s a (w - a.plen)
  else
    let (toRemove, sup) := scan a s []
    if sup then dDel s a
    else mergeLoop a.plen (toRemove.foldl dDel s) a (w - a.plen)

/-- `compact()` -/
def compact (s : St) : St := fromKeys (mergeKeys s [])

/-- `add(addr)` for anything that is not an IPRange: the harness sends the network
    `IPNetwork(addr)` (ints and addresses are /width networks); `add` normalises with `.cidr` -/
def addNet (s : St) (n : Net) : St :=
  let a := netCidr n
  compactSingle (dInsert s a) a

/-- `add(IPRange)` -/
def addRange (s : St) (r : Rng) : St :=
  compact ((rangeCidrs r.ver r.lo r.hi).foldl dInsert s)

/-- `remove(addr)` for a network / address / int argument -/
def removeNet (s : St) (addr : Net) : St :=
  let s1 := addNet s addr
  match s1.find? (fun c => netIn addr c) with
  | none => s1
  | some c =>
    let rem := (cidrExclude (width c.ver) (toPfx c) (toPfx addr)).map (ofPfx c.ver)
    rem.foldl dInsert (dDel s1 c)

/-- `remove(IPRange)` -/
def removeRange (s : St) (r : Rng) : St :=
  (rangeCidrs r.ver r.lo r.hi).foldl removeNet s

/-- argument forms after the harness has parsed strings / ints -/
inductive Arg where
  | net (n : Net)            -- IPNetwork, IPAddress, int, str
  | rng (r : Rng)            -- IPRange, IPGlob
deriving Repr, Inhabited

def Arg.toItem : Arg → MItem
  | .net n => .net n.ver (toPfx n)
  | .rng r => .rng r.ver r.lo r.hi

def add (s : St) : Arg → St
  | .net n => addNet s n
  | .rng r => addRange s r

def remove (s : St) : Arg → St
  | .net n => removeNet s n
  | .rng r => removeRange s r

/-- `update(IPSet)` -/
def updateSet (s t : St) : St := fromKeys (mergeKeys (s ++ t) [])

/-- `update(iterable)`: merged blocks are added to the old keys, then `compact()` -/
def updateList (s : St) (items : List Arg) : St :=
  compact ((mergeKeys s (items.map Arg.toItem)).foldl dInsert s)

/-- `IPSet(iterable)` constructor forms -/
def newOfNet (n : Net) : St := [netCidr n]
def newOfRange (r : Rng) : St := fromKeys (rangeCidrs r.ver r.lo r.hi)
def newOfSet (t : St) : St := fromKeys (sortNets t)
def newOfList (items : List Arg) : St := fromKeys (cidrMerge (items.map Arg.toItem))

/-- `copy()`, pickling, `copy.copy/deepcopy`: same keys in the same order -/
def copy (s : St) : St := fromKeys s

/-- `pop()`: the harness supplies the block the implementation returned -/
def pop (s : St) (b : Net) : R St :=
  if dMem s b then .ok (dDel s b) else .error .key

/-- `iter_cidrs()` = `sorted(self._cidrs)` -/
def iterCidrs (s : St) : List Net := sortNets s

/-- `__contains__(ip)`: `IPNetwork(ip)`, then walk the supernets by decrementing `_prefixlen` -/
def contains (s : St) (n : Net) : Bool :=
  (List.range (n.plen + 1)).any (fun q => dMem s ⟨n.ver, n.val, q⟩)

def size (s : St) : Nat := (s.map (fun c => netSize (width c.ver) c.val c.plen)).sum

/-- `__len__`: IndexError above `sys.maxsize` -/
def len (maxint : Nat) (s : St) : R Nat :=
  if size s > maxint then .error .index else .ok (size s)

/-- `__eq__`: dict equality (all values are True) -/
def eq (s t : St) : Bool := s.length == t.length && s.all (fun c => dMem t c)

def issubset (s t : St) : Bool := s.all (fun c => contains t c)
def issuperset (s t : St) : Bool := t.all (fun c => contains s c)
def lt (s t : St) : Bool := size s < size t && issubset s t
def gt (s t : St) : Bool := size s > size t && issuperset s t

/-- `Net.sort_key() <` -/
def netLt (a b : Net) : Bool := tupleLt a.sortKey b.sortKey

/-- the two-cursor sweep of `intersection` (fuel ≥ |own| + |other|) -/
def interSweep : Nat → List Net → List Net → St → St
  | 0, _, _, acc => acc
  | _ + 1, [], _, acc => acc
  | _ + 1, _ :: _, [], acc => acc
  | fuel + 1, a :: as, b :: bs, acc =>
    if keyEq a b then interSweep fuel as bs (dInsert acc a)
    else if netIn a b then interSweep fuel as (b :: bs) (dInsert acc a)
    else if netIn b a then interSweep fuel (a :: as) bs (dInsert acc b)
    else if netLt a b then interSweep fuel as (b :: bs) acc
    else interSweep fuel (a :: as) bs acc

def intersection (s t : St) : St :=
  interSweep (s.length + t.length + 1) (sortNets s) (sortNets t) []

def isdisjoint (s t : St) : Bool := (intersection s t).isEmpty

/-- a `(version, first, last)` tuple -/
abbrev VR := Nat × Nat × Nat

/-- the `while subnet_idx < len(subnets)` loop of `_subtract`;
    returns (unconsumed subnets, ranges, prev_subnet) -/
def subtractLoop (sup : Net) : Net → List Net → List VR → List Net × List VR × Net
  | prev, [], acc => ([], acc, prev)
  | prev, c :: rest, acc =>
    if !netIn c sup then (c :: rest, acc, prev)
    else if prev.last + 1 == c.first then subtractLoop sup c rest acc
    else subtractLoop sup c rest (acc ++ [(sup.ver, prev.last + 1, c.first - 1)])

/-- `_subtract(supernet, subnets, subnet_idx, ranges)` on the suffix `subnets[subnet_idx:]` -/
def subtract (sup : Net) (subs : List Net) (ranges : List VR) : List Net × List VR :=
  match subs with
  | [] => ([], ranges)
  | sub :: rest =>
    let r1 := if sub.first > sup.first then ranges ++ [(sup.ver, sup.first, sub.first - 1)] else ranges
    let (rest', r2, prev) := subtractLoop sup sub rest r1
    let first := prev.last + 1
    let r3 := if first ≤ sup.last then r2 ++ [(sup.ver, first, sup.last)] else r2
    (rest', r3)

/-- `_iter_merged_ranges(sorted_ranges)` -/
def mergedRangesAux : VR → List VR → List VR
  | cur, [] => [cur]
  | (cv, cs, ce), (nv, ns, ne) :: rest =>
    if ns == ce + 1 && nv == cv then mergedRangesAux (cv, cs, ne) rest
    else (cv, cs, ce) :: mergedRangesAux (nv, ns, ne) rest

def mergedRanges : List VR → List VR
  | [] => []
  | r :: rest => mergedRangesAux r rest

/-- keys produced from merged ranges through `iprange_to_cidrs` -/
def rangesToCidrs (rs : List VR) : List Net :=
  (mergedRanges rs).flatMap (fun r => rangeCidrs r.1 r.2.1 r.2.2)

def vrOf (n : Net) : VR := (n.ver, n.first, n.last)

/-- the sweep of `difference`: returns (result_cidrs, result_ranges) -/
def diffSweep : Nat → List Net → List Net → St → List VR → St × List VR
  | 0, _, _, cs, rs => (cs, rs)
  | _ + 1, [], _, cs, rs => (cs, rs)
  | _ + 1, a :: as, [], cs, rs => ((a :: as).foldl dInsert cs, rs)
  | fuel + 1, a :: as, b :: bs, cs, rs =>
    if keyEq a b then diffSweep fuel as bs cs rs
    else if netIn a b then diffSweep fuel as (b :: bs) cs rs
    else if netIn b a then
      let (bs', rs') := subtract a (b :: bs) rs
      diffSweep fuel as bs' cs rs'
    else if netLt a b then diffSweep fuel as (b :: bs) (dInsert cs a) rs
    else diffSweep fuel (a :: as) bs cs rs

def difference (s t : St) : St :=
  let (cs, rs) := diffSweep (s.length + t.length + 1) (sortNets s) (sortNets t) [] []
  (rangesToCidrs rs).foldl dInsert cs

/-- the sweep of `symmetric_difference`: returns result_ranges -/
def xorSweep : Nat → List Net → List Net → List VR → List VR
  | 0, _, _, rs => rs
  | _ + 1, as, [], rs => rs ++ as.map vrOf
  | _ + 1, [], bs, rs => rs ++ bs.map vrOf
  | fuel + 1, a :: as, b :: bs, rs =>
    if keyEq a b then xorSweep fuel as bs rs
    else if netIn a b then
      let (as', rs') := subtract b (a :: as) rs
      xorSweep fuel as' bs rs'
    else if netIn b a then
      let (bs', rs') := subtract a (b :: bs) rs
      xorSweep fuel as bs' rs'
    else if netLt a b then xorSweep fuel as (b :: bs) (rs ++ [vrOf a])
    else xorSweep fuel (a :: as) bs (rs ++ [vrOf b])

def symmetricDifference (s t : St) : St :=
  fromKeys (rangesToCidrs (xorSweep (s.length + t.length + 1) (sortNets s) (sortNets t) []))

/-- `union` = `copy()` + `update(other)` -/
def union (s t : St) : St := updateSet (copy s) t

/-- `iscontiguous()` (as repaired: compares `(version, integer)` pairs) -/
def contigAux : Nat × Nat → List Net → Bool
  | _, [] => true
  | prev, c :: rest => if (c.ver, c.first) != prev then false else contigAux (c.ver, c.last + 1) rest

def iscontiguous (s : St) : Bool :=
  match iterCidrs s with
  | [] => true
  | [_] => true
  | c :: rest => contigAux (c.ver, c.first) (c :: rest)

/-- `iprange()`: None for the empty set, ValueError when not contiguous -/
def iprange (s : St) : R (Option Rng) :=
  if iscontiguous s then
    match iterCidrs s with
    | [] => .ok none
    | c :: rest => .ok (some ⟨c.ver, c.first, ((c :: rest).getLast?.getD c).last⟩)
  else .error .value

/-- `iter_ipranges()` -/
def iterIpranges (s : St) : List VR := mergedRanges ((iterCidrs s).map vrOf)

/-! ### histories: typed operations over several live sets -/

inductive BinOp where
  | or | and | sub | xor
deriving Repr, DecidableEq, Inhabited

/-- one mutating step of a history over indexed live sets.  `pop` carries the block the
    implementation returned (`none` = it raised KeyError). -/
inductive Op where
  | newNone (i : Nat)
  | newNet (i : Nat) (n : Net)
  | newRng (i : Nat) (r : Rng)
  | newSet (i j : Nat)
  | newList (i : Nat) (xs : List Arg)
  | add (i : Nat) (x : Arg)
  | rem (i : Nat) (x : Arg)
  | updSet (i j : Nat)
  | updArg (i : Nat) (x : Arg)
  | updList (i : Nat) (xs : List Arg)
  | clear (i : Nat)
  | pop (i : Nat) (b : Option Net)
  | compact (i : Nat)
  | copy (j i : Nat)
  | bin (k i j : Nat) (o : BinOp)
deriving Repr, Inhabited

def getSet (sets : List St) (i : Nat) : St := sets.getD i []
def setSet (sets : List St) (i : Nat) (s : St) : List St :=
  let sets := if sets.length ≤ i then sets ++ List.replicate (i + 1 - sets.length) [] else sets
  sets.set i s

def binOp (o : BinOp) (a b : St) : St :=
  match o with
  | .or => union a b
  | .and => intersection a b
  | .sub => difference a b
  | .xor => symmetricDifference a b

/-- apply one operation; returns the new sets and the index of the touched set
    (a failing `pop` leaves everything unchanged) -/
def stepOp (sets : List St) : Op → List St × Nat × Option Err
  | .newNone i => (setSet sets i [], i, none)
  | .newNet i n => (setSet sets i (newOfNet n), i, none)
  | .newRng i r => (setSet sets i (newOfRange r), i, none)
  | .newSet i j => (setSet sets i (newOfSet (getSet sets j)), i, none)
  | .newList i xs => (setSet sets i (newOfList xs), i, none)
  | .add i x => (setSet sets i (add (getSet sets i) x), i, none)
  | .rem i x => (setSet sets i (remove (getSet sets i) x), i, none)
  | .updSet i j => (setSet sets i (updateSet (getSet sets i) (getSet sets j)), i, none)
  | .updArg i x => (setSet sets i (add (getSet sets i) x), i, none)
  | .updList i xs => (setSet sets i (updateList (getSet sets i) xs), i, none)
  | .clear i => (setSet sets i [], i, none)
  | .pop i none => (sets, i, if (getSet sets i).isEmpty then some .key else some .other)
  | .pop i (some b) =>
    match pop (getSet sets i) b with
    | .ok s => (setSet sets i s, i, none)
    | .error e => (sets, i, some e)
  | .compact i => (setSet sets i (compact (getSet sets i)), i, none)
  | .copy j i => (setSet sets j (copy (getSet sets i)), j, none)
  | .bin k i j o => (setSet sets k (binOp o (getSet sets i) (getSet sets j)), k, none)

/-- run a whole history from no sets at all -/
def runOps (ops : List Op) : List St := ops.foldl (fun sets op => (stepOp sets op).1) []

/-! ### additions (C06/C07 deepening): address iteration, `repr`, `!=`, and the non-mutating
operations as steps over the store of live sets.  Nothing above is changed. -/

/-- `IPNetwork.__iter__` = `iter_iprange(IPAddress(first), IPAddress(last))`: the index starts
    at `first` and is yielded while `index <= last` (nothing when `first > last`) -/
def netAddrs (c : Net) : List (Nat × Nat) :=
  (List.range' c.first (c.last + 1 - c.first)).map (fun a => (c.ver, a))

/-- `IPSet.__iter__` = `itertools.chain(*sorted(self._cidrs))`: `(version, address)` pairs -/
def iterAddrs (s : St) : List (Nat × Nat) := (iterCidrs s).flatMap netAddrs

/-- `__repr__` = `'IPSet(%r)' % [str(c) for c in sorted(self._cidrs)]` at value level: the
    sorted key list, each key shown as `(version, value, prefixlen)` — `str(c)` prints the stored
    value (host bits included) and the prefix length (Model/IPSetText.lean prints the strings) -/
def reprSet (s : St) : List Net := sortNets s

/-- `__ne__`: `self._cidrs != other._cidrs` (dict `!=` is the negation of dict `==`) -/
def ne (s t : St) : Bool := !(eq s t)

/-- `__bool__` / `__nonzero__`: `bool(self._cidrs)` -/
def nonzero (s : St) : Bool := !s.isEmpty

/-- `__le__ = issubset`, `__ge__ = issuperset` -/
def le (s t : St) : Bool := issubset s t
def ge (s t : St) : Bool := issuperset s t

/-- the live sets of a history -/
abbrev Store := List St

/-- the non-mutating operations: comparisons, predicates, size, the range views, membership,
    iteration, `iter_cidrs`, `repr`, truth value -/
inductive QOp where
  | eq (i j : Nat) | ne (i j : Nat)
  | issubset (i j : Nat) | issuperset (i j : Nat)
  | le (i j : Nat) | ge (i j : Nat) | lt (i j : Nat) | gt (i j : Nat)
  | isdisjoint (i j : Nat)
  | size (i : Nat) | len (i : Nat)
  | iscontiguous (i : Nat) | iprange (i : Nat) | iterIpranges (i : Nat)
  | contains (i : Nat) (n : Net)
  | iter (i : Nat) | iterCidrs (i : Nat) | repr (i : Nat) | nonzero (i : Nat)
deriving Repr, Inhabited, DecidableEq

/-- what a query returns -/
inductive QVal where
  | bool (b : Bool)
  | nat (n : Nat)
  | rng (r : Option Rng)
  | ranges (l : List VR)
  | addrs (l : List (Nat × Nat))
  | cidrs (l : List Net)
deriving Repr, Inhabited, DecidableEq

/-- the value (or exception) of a query on the current store; `maxint` = `sys.maxsize` -/
def evalQ (maxint : Nat) (sets : Store) : QOp → R QVal
  | .eq i j => .ok (.bool (eq (getSet sets i) (getSet sets j)))
  | .ne i j => .ok (.bool (ne (getSet sets i) (getSet sets j)))
  | .issubset i j => .ok (.bool (issubset (getSet sets i) (getSet sets j)))
  | .issuperset i j => .ok (.bool (issuperset (getSet sets i) (getSet sets j)))
  | .le i j => .ok (.bool (le (getSet sets i) (getSet sets j)))
  | .ge i j => .ok (.bool (ge (getSet sets i) (getSet sets j)))
  | .lt i j => .ok (.bool (lt (getSet sets i) (getSet sets j)))
  | .gt i j => .ok (.bool (gt (getSet sets i) (getSet sets j)))
  | .isdisjoint i j => .ok (.bool (isdisjoint (getSet sets i) (getSet sets j)))
  | .size i => .ok (.nat (size (getSet sets i)))
  | .len i => (len maxint (getSet sets i)).map .nat
  | .iscontiguous i => .ok (.bool (iscontiguous (getSet sets i)))
  | .iprange i => (iprange (getSet sets i)).map .rng
  | .iterIpranges i => .ok (.ranges (iterIpranges (getSet sets i)))
  | .contains i n => .ok (.bool (contains (getSet sets i) n))
  | .iter i => .ok (.addrs (iterAddrs (getSet sets i)))
  | .iterCidrs i => .ok (.cidrs (iterCidrs (getSet sets i)))
  | .repr i => .ok (.cidrs (reprSet (getSet sets i)))
  | .nonzero i => .ok (.bool (nonzero (getSet sets i)))

/-- a query as a step of a history: the store it leaves behind and what it returned -/
def stepQ (maxint : Nat) (sets : Store) (q : QOp) : Store × R QVal := (sets, evalQ maxint sets q)

/-- a history step is a mutation / construction (`Op`) or a query (`QOp`) -/
inductive Step where
  | op (o : Op)
  | q (q : QOp)
deriving Repr, Inhabited

/-- one step of a mixed history: new store and, for a query, its outcome -/
def stepAny (maxint : Nat) (sets : Store) : Step → Store × Option (R QVal)
  | .op o => ((stepOp sets o).1, none)
  | .q q => ((stepQ maxint sets q).1, some (stepQ maxint sets q).2)

/-! #### the same answers, computed faster (the driver runs these; `Lemmas/IPSetIterFast.lean`
proves each equal to the definition above) -/

/-- `k in keys` where `keys` are the `(version, first, last)` tuples of a dict, computed once -/
def dMemK (keys : List VR) (k : Net) : Bool :=
  let kk := vrOf k
  keys.any (fun c => c == kk)

def containsK (keys : List VR) (n : Net) : Bool :=
  (List.range (n.plen + 1)).any (fun q => dMemK keys ⟨n.ver, n.val, q⟩)

def issubsetK (s t : St) : Bool :=
  let keys := t.map vrOf
  s.all (fun c => containsK keys c)

def eqK (s t : St) : Bool :=
  let keys := t.map vrOf
  s.length == t.length && s.all (fun c => dMemK keys c)

/-- `evalQ` with the dictionary keys of the right operand computed once per query -/
def evalQFast (maxint : Nat) (sets : Store) : QOp → R QVal
  | .eq i j => .ok (.bool (eqK (getSet sets i) (getSet sets j)))
  | .ne i j => .ok (.bool (!(eqK (getSet sets i) (getSet sets j))))
  | .issubset i j => .ok (.bool (issubsetK (getSet sets i) (getSet sets j)))
  | .issuperset i j => .ok (.bool (issubsetK (getSet sets j) (getSet sets i)))
  | .le i j => .ok (.bool (issubsetK (getSet sets i) (getSet sets j)))
  | .ge i j => .ok (.bool (issubsetK (getSet sets j) (getSet sets i)))
  | .lt i j => .ok (.bool (size (getSet sets i) < size (getSet sets j) && issubsetK (getSet sets i) (getSet sets j)))
  | .gt i j => .ok (.bool (size (getSet sets i) > size (getSet sets j) && issubsetK (getSet sets j) (getSet sets i)))
  | .contains i n => .ok (.bool (containsK ((getSet sets i).map vrOf) n))
  | q => evalQ maxint sets q

/-- a query step evaluated the fast way -/
def stepQFast (maxint : Nat) (sets : Store) (q : QOp) : Store × R QVal := (sets, evalQFast maxint sets q)

/-- a row of queries evaluated one after the other, the store threaded through them -/
def runQs (maxint : Nat) (sets : Store) (qs : List QOp) : Store × List (R QVal) :=
  qs.foldl (fun acc q => let r := stepQFast maxint acc.1 q; (r.1, acc.2 ++ [r.2])) (sets, [])

end NV.IPSet
