/-
Model/Eui.lean — EUI-48 / EUI-64 text, constructor, word access and derived identifiers
(property C08), following netaddr/strategy/eui48.py, eui64.py and netaddr/eui/__init__.py as
the code is NOW (after fixes a35d92e: ei / word assignment / bits(sep) under non-octet
dialects, and 5492517: every string parser is tried before the integer fallback).

The regular expressions are not modelled as a regex engine: `Gen/MacFormats.lean` is their
parsed shape (`^G(sep G){n-1}$`, G = ([0-9A-F]{lo,hi}), IGNORECASE) and `matchFmt` is the one
matcher for that shape, including Python's rule that `$` also matches before a final '\n'.
Core Lean only.
-/
import NetaddrVerif.Model.Basic
import NetaddrVerif.Model.PyRuntime
import NetaddrVerif.Model.Compare
import NetaddrVerif.Model.Codec
import NetaddrVerif.Gen.MacFormats
import NetaddrVerif.Gen.Dialects
namespace NV.Eui
open NV.Gen

/-- `[0-9A-F]` under re.IGNORECASE -/
def isHex (c : Char) : Bool :=
  ('0' ≤ c && c ≤ '9') || ('a' ≤ c && c ≤ 'f') || ('A' ≤ c && c ≤ 'F')

/-- the pattern against the whole string (as if `$` were `\Z`): the captured groups -/
def matchExact (f : MacFmt) (s : List Char) : Option (List (List Char)) :=
  let toks := match f.sep with
    | [] => [s]
    | c :: _ => s.splitOn c
  if toks.length = f.groups ∧ toks.all (fun t => f.lo ≤ t.length && t.length ≤ f.hi && t.all isHex) then some toks
  else none

/-- `regexp.findall(addr)` for an anchored pattern: at most one match; `$` matches at the
    end or just before a newline that ends the string -/
def matchFmt (f : MacFmt) (s : List Char) : Option (List (List Char)) :=
  match matchExact f s with
  | some t => some t
  | none => if s.getLast? = some '\n' then matchExact f s.dropLast else none

/-- `for regexp in FORMATS: … break` — the groups of the first pattern that matches -/
def firstMatch (fmts : List MacFmt) (s : List Char) : Option (List (List Char)) :=
  fmts.findSome? (fun f => matchFmt f s)

/-- `int(''.join(['%.<pad>x' % int(w, 16) for w in words]), 16)` -/
def joinWords (pad : Nat) (words : List (List Char)) : Option Nat := do
  let ns ← words.mapM (fun w => Py.pyInt 16 w)
  let v ← Py.pyInt 16 ((ns.map (fun n => Codec.fmtHex pad false n.toNat)).flatten)
  pure v.toNat

/-- `eui48.str_to_int`: 6 / 3 / 2 / 1 groups -/
def strToInt48 (s : List Char) : R Nat :=
  match firstMatch macFormats s with
  | none => .error .addrFormat
  | some words =>
    let pad : Option Nat :=
      if words.length = 6 then some 2 else if words.length = 3 then some 4
      else if words.length = 2 then some 6 else if words.length = 1 then some 12 else none
    match pad with
    | none => .error .addrFormat
    | some pad => match joinWords pad words with
      | some v => .ok v
      | none => .error .value

/-- `eui64.str_to_int`: 8 / 4 / 1 groups -/
def strToInt64 (s : List Char) : R Nat :=
  match firstMatch eui64Formats s with
  | none => .error .addrFormat
  | some words =>
    let pad : Option Nat :=
      if words.length = 8 then some 2 else if words.length = 4 then some 4
      else if words.length = 1 then some 16 else none
    match pad with
    | none => .error .addrFormat
    | some pad => match joinWords pad words with
      | some v => .ok v
      | none => .error .value

def strToInt (ver : Nat) (s : List Char) : R Nat := if ver = 48 then strToInt48 s else strToInt64 s

/-- `module.max_int` -/
def maxInt (ver : Nat) : Nat := if ver = 48 then 2 ^ eui48Width - 1 else 2 ^ eui64Width - 1

def widthOf (ver : Nat) : Nat := if ver = 48 then eui48Width else eui64Width

def defaultDialect (ver : Nat) : Dialect := if ver = 48 then macDefault else eui64Default

/-- `module.int_to_str(int_val, dialect)` -/
def intToStr (d : Dialect) (v : Nat) : R (List Char) := do
  let words ← Codec.intToWords v d.wordSize d.numWords
  pure (d.sep.intercalate (words.map (Codec.fmtHex d.pad d.upper)))

/-- the `addr` argument of the constructor -/
inductive AddrArg where
  | str (s : List Char)
  | int (n : Int)
deriving Repr

/-- `_set_value` with an explicit version -/
def setExplicit (ver : Nat) : AddrArg → R (Nat × Nat)
  | .str s => match strToInt ver s with
    | .ok v => .ok (ver, v)
    | .error _ => .error .addrFormat
  | .int n => if 0 ≤ n ∧ n ≤ (maxInt ver : Int) then .ok (ver, n.toNat) else .error .addrFormat

/-- `_set_value` with the version still unknown, string argument: the two string parsers in
    order, then `int(value)` against the two widths in order -/
def setImplicitStr (s : List Char) : R (Nat × Nat) :=
  match strToInt48 s with
  | .ok v => .ok (48, v)
  | .error .addrFormat =>
    match strToInt64 s with
    | .ok v => .ok (64, v)
    | .error .addrFormat =>
      match Py.pyInt 10 s with
      | none => .error .addrFormat
      | some n =>
        if 0 ≤ n ∧ n ≤ (maxInt 48 : Int) then .ok (48, n.toNat)
        else if 0 ≤ n ∧ n ≤ (maxInt 64 : Int) then .ok (64, n.toNat)
        else .error .addrFormat
    | .error e => .error e
  | .error e => .error e

/-- `EUI(addr, version)` → (version, value) -/
def ofAny (addr : AddrArg) (version : Option Int) : R (Nat × Nat) :=
  match version with
  | some ver => if ver = 48 ∨ ver = 64 then setExplicit ver.toNat addr else .error .value
  | none =>
    match addr with
    | .int n =>
      if 0 ≤ n ∧ n ≤ 0xffffffffffff then setExplicit 48 addr
      else if 0xffffffffffff < n ∧ n ≤ 0xffffffffffffffff then setExplicit 64 addr
      else .error .type_        -- module stays None; eui48.str_to_int(int) raises TypeError
    | .str s => setImplicitStr s

/-! ## word access under the object's own dialect -/

/-- `tuple[idx]` with Python's negative indexing -/
def pyIndex (xs : List Nat) (idx : Int) : Option Nat :=
  let i : Int := if idx < 0 then idx + xs.length else idx
  if i < 0 then none else xs[i.toNat]?

/-- `EUI.__getitem__(idx)` for an int index -/
def getIdx (v : Nat) (d : Dialect) (idx : Int) : R Nat :=
  if ¬ (-(d.numWords : Int) ≤ idx ∧ idx ≤ (d.numWords : Int) - 1) then .error .index else do
  let words ← Codec.intToWords v d.wordSize d.numWords
  match pyIndex words idx with
  | some x => pure x
  | none => .error .index

/-- `EUI.__getitem__(slice(a, b, c))` -/
def getSlice (v : Nat) (d : Dialect) (a b c : Option Int) : R (List Nat) := do
  let words ← Codec.intToWords v d.wordSize d.numWords
  match Py.sliceIndices a b c words.length with
  | none => .error .value
  | some (s, e, st) => (Py.pyRange s e st).mapM (fun i => match pyIndex words i with
      | some x => .ok x
      | none => .error .index)

/-- `EUI.__setitem__(idx, value)` for int arguments (as fixed: bound `2 ** word_size - 1`,
    dialect passed to both word codecs) → the new `_value` -/
def setItem (v : Nat) (d : Dialect) (idx value : Int) : R Nat :=
  if ¬ (0 ≤ idx ∧ idx ≤ (d.numWords : Int) - 1) then .error .index
  else if ¬ (0 ≤ value ∧ value ≤ (2 : Int) ^ d.wordSize - 1) then .error .index
  else do
    let words ← Codec.intToWords v d.wordSize d.numWords
    Codec.wordsToInt (words.set idx.toNat value.toNat) d.wordSize d.numWords

/-! ## oui / ei / iab -/

/-- `EUI.words` (module default dialect) -/
def words (ver v : Nat) : R (List Nat) :=
  Codec.intToWords v (defaultDialect ver).wordSize (defaultDialect ver).numWords

/-- `EUI.ei`: `'%02X-…' % tuple(self.words[3:6])` (48) / `[3:8]` (64) -/
def ei (ver v : Nat) : R (List Char) := do
  let ws ← words ver v
  let n := if ver = 48 then 3 else 5
  let part := (ws.drop 3).take n
  if part.length ≠ n then .error .type_ else
  pure (['-'].intercalate (part.map (Codec.fmtHex 2 true)))

/-- the integer handed to `OUI(...)` by `EUI.oui` (ValueError outside 24 bits; the registry
    lookup of the OUI constructor belongs to C19) -/
def oui (ver v : Nat) : R Nat :=
  let o := if ver = 48 then v >>> 24 else v >>> 40
  if o ≤ 0xffffff then .ok o else .error .value

/-- `EUI.is_iab()` -/
def isIab (v : Nat) : Bool := iabEuiValues.contains (v >>> 24)

/-- `IAB.split_iab_mac(eui_int, strict)` -/
def splitIabMac (e : Nat) (strict : Bool) : R (Nat × Nat) :=
  if iabEuiValues.contains (e >>> 12) then .ok (e, 0) else
  let userMask := 2 ^ 12 - 1
  let iabMask := (2 ^ 48 - 1) ^^^ userMask
  let iabBits := e >>> 12
  let userBits := (e ||| iabMask) - iabMask
  if iabEuiValues.contains (iabBits >>> 12) then
    if strict && userBits != 0 then .error .value else .ok (iabBits, userBits)
  else .error .value

/-- `EUI.iab`: the integer value of `IAB(self._value >> 12)` or None (registry lookup: C19) -/
def iab (v : Nat) : R (Option Nat) :=
  if isIab v then do
    let (i, _) ← splitIabMac (v >>> 12) false
    pure (some i)
  else pure none

/-! ## derived identifiers -/

/-- the `new_value` of `EUI.eui64()` -/
def eui64Value (ver v : Nat) : Nat :=
  if ver = 48 then ((v >>> 24) <<< 40) ||| 0xfffe000000 ||| (v &&& 0xffffff) else v

/-- `EUI.eui64()` = `EUI(new_value, version=64)` -/
def eui64 (ver v : Nat) : R (Nat × Nat) := ofAny (.int (eui64Value ver v)) (some 64)

/-- `EUI.modified_eui64()` -/
def modifiedEui64 (ver v : Nat) : R (Nat × Nat) := do
  let (w, x) ← eui64 ver v
  pure (w, x ^^^ 0x0200000000000000)

/-- `EUI.ipv6(prefix)`: `IPAddress(int(prefix) + int(self.modified_eui64()), version=6)` -/
def ipv6 (ver v pfx : Nat) : R Nat := do
  let (_, m) ← modifiedEui64 ver v
  let s := pfx + m
  if s ≤ 2 ^ 128 - 1 then pure s else .error .addrFormat

/-- `EUI.ipv6_link_local()` -/
def ipv6LinkLocal (ver v : Nat) : R Nat := ipv6 ver v 0xfe800000000000000000000000000000

/-! ## comparison / hash key -/

/-- `(self.version, self._value)` -/
def key (ver v : Nat) : List Int := [ver, v]

/-- `EUI.bits(word_sep)` -/
def bits (ver v : Nat) (sep : Option (List Char)) : R (List Char) :=
  match sep with
  | none => Codec.intToBits v (defaultDialect ver).wordSize (defaultDialect ver).numWords (defaultDialect ver).sep
  | some s => Codec.intToBits v 8 (widthOf ver / 8) s

/-- `EUI.packed` -/
def packed (ver v : Nat) : R (List Nat) :=
  if ver = 48 then Codec.E48.intToPacked v else Codec.E64.intToPacked v

/-! ## additions (error classes, EUI-64 receivers of is_iab / iab, format) -/

/-- `_set_value` with an explicit version, spelled as the code is: only an `AddrFormatError`
    of `str_to_int` is caught and re-raised; any other exception class would travel on unchanged
    (`setExplicit` maps every error to `addrFormat`; `Lemmas/C08LCtor.lean` proves that
    `str_to_int` has no other error, so the two agree: `setExplicitF_eq`) -/
def setExplicitF (ver : Nat) : AddrArg → R (Nat × Nat)
  | .str s => match strToInt ver s with
    | .ok v => .ok (ver, v)
    | .error .addrFormat => .error .addrFormat
    | .error e => .error e
  | .int n => if 0 ≤ n ∧ n ≤ (maxInt ver : Int) then .ok (ver, n.toNat) else .error .addrFormat

/-- `EUI(addr, version)` → (version, value), with `setExplicitF` (the function the driver runs;
    `ofAnyF_eq : ofAnyF = ofAny`) -/
def ofAnyF (addr : AddrArg) (version : Option Int) : R (Nat × Nat) :=
  match version with
  | some ver => if ver = 48 ∨ ver = 64 then setExplicitF ver.toNat addr else .error .value
  | none =>
    match addr with
    | .int n =>
      if 0 ≤ n ∧ n ≤ 0xffffffffffff then setExplicitF 48 addr
      else if 0xffffffffffff < n ∧ n ≤ 0xffffffffffffffff then setExplicitF 64 addr
      else .error .type_
    | .str s => setImplicitStr s

/-- `EUI.is_iab()`: the OUI field of the receiver - bits 24.. of an EUI-48, bits 40.. of an EUI-64 -
    against `IAB.IAB_EUI_VALUES` (repaired code, fix 14211a2; before, bits 24.. whatever the version) -/
def isIabOf (ver v : Nat) : Bool :=
  if ver = 48 then isIab v else iabEuiValues.contains (v >>> 40)

/-- `EUI.iab`: `IAB(self._value >> 12)` for an EUI-48, `IAB(self._value >> 28)` for an EUI-64, when
    `is_iab()`; None otherwise -/
def iabOf (ver v : Nat) : R (Option Nat) :=
  if ver = 48 then iab v
  else if iabEuiValues.contains (v >>> 40) then do
    let (i, _) ← splitIabMac (v >>> 28) false
    pure (some i)
  else pure none

/-- `EUI.__str__()`: `self._module.int_to_str(self._value, self._dialect)` -/
def str (d : Dialect) (v : Nat) : R (List Char) := intToStr d v

/-- `EUI.format(dialect)`: `_validate_dialect(dialect)` (None → the default dialect of the
    receiver's version, NOT the receiver's own dialect), then `int_to_str` -/
def format (ver v : Nat) (arg : Option Dialect) : R (List Char) :=
  intToStr (arg.getD (defaultDialect ver)) v

end NV.Eui
