/-
Model/Glob.lean — netaddr/ip/glob.py as it is now (after fix e2505da): `valid_glob`,
`glob_to_iptuple`, `glob_to_iprange`, `iprange_to_globs` (+ inner `_iprange_to_glob`),
`glob_to_cidrs`, `cidr_to_glob`, `IPGlob`.  Executable, core Lean only.

Conventions: `str` = `List Char`; `str.split(sep)` = core `List.splitOn sep` (same results on
every string: `''.split('.') = ['']`, empty parts kept); `'.'.join` = `List.intercalate`;
`int(x)` = `Py.pyInt 10`; `str(n)`/`'%s' % n` of a non-negative int = `Nat.toDigits 10`.
-/
import NetaddrVerif.Model.Cidr
import NetaddrVerif.Model.PyRuntime
namespace NV.Glob

/-- `c in '0123456789'` -/
def isDec (c : Char) : Bool := '0' ≤ c && c ≤ '9'

/-- body of the first loop of `valid_glob` for one numeral: `*` is skipped; otherwise the
    numeral must be non-empty, all of `0123456789`, and without a leading zero -/
def numeralOk (t : List Char) : Bool :=
  if t == ['*'] then true
  else if t.isEmpty || t.any (fun c => !isDec c) then false
  else if t.length > 1 && t.head? == some '0' then false
  else true

/-- `seen_hyphen`, `seen_asterisk` -/
structure St where
  hyph : Bool
  ast : Bool
deriving DecidableEq, Repr

/-- one iteration of the second loop of `valid_glob`; `none` = `return False` -/
def stepOctet (st : St) (octet : List Char) : Option St :=
  if octet.contains '-' then
    if st.hyph then none
    else if st.ast then none
    else
      -- `(octet1, octet2) = [int(i) for i in octet.split('-')]`; a ValueError (from `int`
      -- or from unpacking a list that has not exactly two items) returns False
      match (octet.splitOn '-').mapM (Py.pyInt 10) with
      | some [o1, o2] =>
        if o1 ≥ o2 then none
        else if ¬ (0 ≤ o1 ∧ o1 ≤ 254) then none
        else if ¬ (1 ≤ o2 ∧ o2 ≤ 255) then none
        else some ⟨true, st.ast⟩
      | _ => none
  else if octet == ['*'] then some ⟨st.hyph, true⟩
  else
    if st.hyph then none
    else if st.ast then none
    else match Py.pyInt 10 octet with
      | some v => if 0 ≤ v ∧ v ≤ 255 then some st else none
      | none => none

/-- the second loop -/
def machine : St → List (List Char) → Bool
  | _, [] => true
  | st, o :: r =>
    match stepOctet st o with
    | some st' => machine st' r
    | none => false

/-- `valid_glob(ipglob)` for a `str` argument (any other type returns False) -/
def validGlob (s : List Char) : Bool :=
  let octets := s.splitOn '.'
  if octets.length ≠ 4 then false
  else if !(octets.all (fun o => (o.splitOn '-').all numeralOk)) then false
  else machine ⟨false, false⟩ octets

/-- the `(start token, end token)` an octet contributes in `glob_to_iptuple/iprange` -/
def octetTokens (octet : List Char) : List Char × List Char :=
  if octet.contains '-' then
    let tokens := octet.splitOn '-'
    (tokens.headD [], (tokens.drop 1).headD [])
  else if octet == ['*'] then (['0'], ['2', '5', '5'])
  else (octet, octet)

/-- decimal octet token of a dotted quad -/
def decOctet (t : List Char) : Option Nat :=
  if t.isEmpty || t.any (fun c => !isDec c) || (t.length > 1 && t.head? == some '0') then none
  else
    let v := t.foldl (fun a c => a * 10 + (c.toNat - 48)) 0
    if v ≤ 255 then some v else none

/-- MODELLED (not verified): `IPAddress(s)` on the strings `glob_to_iptuple/iprange` build.
    After `valid_glob` these are four plain decimal octets 0..255 without leading zeros
    (theorem `NV.C17.glob_conv_total`), on which `inet_aton` is decimal dotted-quad parsing. -/
def ipAddress4 (s : List Char) : R Nat :=
  match (s.splitOn '.').mapM decOctet with
  | some [a, b, c, d] => .ok (a * 2 ^ 24 + b * 2 ^ 16 + c * 2 ^ 8 + d)
  | _ => .error .addrFormat

def startEndStrings (s : List Char) : List Char × List Char :=
  let toks := (s.splitOn '.').map octetTokens
  (['.'].intercalate (toks.map (·.1)), ['.'].intercalate (toks.map (·.2)))

/-- `glob_to_iptuple(ipglob)`: `(int(start), int(end))`, both IPv4 -/
def globToIptuple (s : List Char) : R (Nat × Nat) :=
  if !validGlob s then .error .addrFormat
  else
    match ipAddress4 (startEndStrings s).1 with
    | .error e => .error e
    | .ok lo =>
      match ipAddress4 (startEndStrings s).2 with
      | .error e => .error e
      | .ok hi => .ok (lo, hi)

/-- `glob_to_iprange(ipglob)`: `IPRange(start, end)` (which rejects start > end) -/
def globToIprange (s : List Char) : R Rng :=
  if !validGlob s then .error .addrFormat
  else
    match ipAddress4 (startEndStrings s).1 with
    | .error e => .error e
    | .ok lo =>
      match ipAddress4 (startEndStrings s).2 with
      | .error e => .error e
      | .ok hi => if lo > hi then .error .addrFormat else .ok ⟨4, lo, hi⟩

/-- `[int(_) for _ in str(ip).split('.')]` of an IPv4 address -/
def octets4 (v : Nat) : List Nat := [v / 2 ^ 24 % 256, v / 2 ^ 16 % 256, v / 2 ^ 8 % 256, v % 256]

/-- `str(n)` -/
def dec (n : Nat) : List Char := Nat.toDigits 10 n

/-- state of the inner `_iprange_to_glob` loop -/
structure GSt where
  tokens : List (List Char)
  hyph : Bool
  ast : Bool
deriving Repr

/-- body of `for i in range(4)` in `_iprange_to_glob` on `(t1[i], t2[i])` -/
def rangeStep (st : GSt) (a b : Nat) : R GSt :=
  if a = b then .ok { st with tokens := st.tokens ++ [dec a] }
  else if a = 0 ∧ b = 255 then .ok { st with tokens := st.tokens ++ [['*']], ast := true }
  else if !st.ast then
    if !st.hyph then .ok { st with tokens := st.tokens ++ [dec a ++ '-' :: dec b], hyph := true }
    else .error .addrConversion
  else .error .addrConversion

def rangeLoop : GSt → List (Nat × Nat) → R GSt
  | st, [] => .ok st
  | st, (a, b) :: r =>
    match rangeStep st a b with
    | .ok st' => rangeLoop st' r
    | .error e => .error e

/-- inner `_iprange_to_glob(lb, ub)` on two IPv4 values -/
def iprangeToGlob (lb ub : Nat) : R (List Char) :=
  match rangeLoop ⟨[], false, false⟩ ((octets4 lb).zip (octets4 ub)) with
  | .ok st => .ok (['.'].intercalate st.tokens)
  | .error e => .error e

/-- the `try:` part of `iprange_to_globs` -/
def singleGlob (lo hi : Nat) : R (List Char) :=
  match iprangeToGlob lo hi with
  | .ok g => if !validGlob g then .error .addrConversion else .ok g
  | .error e => .error e

/-- `iprange_to_globs(start, end)` on two `IPAddress` objects -/
def iprangeToGlobs (s e : Addr) : R (List (List Char)) :=
  if s.ver ≠ 4 ∧ e.ver ≠ 4 then .error .addrConversion
  else if s.ver ≠ 4 ∨ e.ver ≠ 4 then .error .value    -- `int('::1')` inside `_iprange_to_glob`
  else
    match singleGlob s.val e.val with
    | .ok g => .ok [g]
    | .error .addrConversion =>
      (iprangeToCidrs 32 ⟨s.val, 32⟩ ⟨e.val, 32⟩).mapM (fun c => iprangeToGlob (c.first 32) (c.last 32))
    | .error x => .error x

/-- `glob_to_cidrs(ipglob)` -/
def globToCidrs (s : List Char) : R (List Pfx) :=
  match globToIptuple s with
  | .ok (lo, hi) => .ok (iprangeToCidrs 32 ⟨lo, 32⟩ ⟨hi, 32⟩)
  | .error e => .error e

/-- `cidr_to_glob(cidr)` on an `IPNetwork` -/
def cidrToGlob (n : Net) : R (List Char) :=
  match iprangeToGlobs ⟨n.ver, n.first⟩ ⟨n.ver, n.last⟩ with
  | .ok [g] => .ok g
  | .ok _ => .error .addrConversion
  | .error e => .error e

/-- an `IPGlob` object: `_start`, `_end`, `_glob` -/
structure GlobObj where
  lo : Nat
  hi : Nat
  glob : List Char
deriving Repr, DecidableEq

/-- `IPGlob._set_glob(ipglob)` -/
def setGlob (ipglob : List Char) : R GlobObj :=
  match globToIptuple ipglob with
  | .error e => .error e
  | .ok (lo, hi) =>
    match iprangeToGlobs ⟨4, lo⟩ ⟨4, hi⟩ with
    | .ok (g :: _) => .ok ⟨lo, hi, g⟩
    | .ok [] => .error .index
    | .error e => .error e

/-- `IPGlob(ipglob)`: `glob_to_iptuple`, `IPRange.__init__`, then
    `self.glob = iprange_to_globs(self._start, self._end)[0]` through the setter -/
def ipGlob (ipglob : List Char) : R GlobObj :=
  match globToIptuple ipglob with
  | .error e => .error e
  | .ok (lo, hi) =>
    if lo > hi then .error .addrFormat
    else match iprangeToGlobs ⟨4, lo⟩ ⟨4, hi⟩ with
      | .ok (g :: _) => setGlob g
      | .ok [] => .error .index
      | .error e => .error e

end NV.Glob
