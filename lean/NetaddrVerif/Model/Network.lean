/-
Model/Network.lean — `IPNetwork` derived attributes and setters, and the mask predicates of
`IPAddress`, spelling by spelling as in netaddr/ip/__init__.py (C02).

Each Python spelling of a mask computation is its own definition; the Props file proves
that they collapse to the closed forms of the property.
-/
import NetaddrVerif.Model.Basic
import NetaddrVerif.Gen.Tables
namespace NV

/-- `IPNetwork._hostmask_int`: `(1 << (width - prefixlen)) - 1` -/
def hostmaskInt (w p : Nat) : Nat := (1 <<< (w - p)) - 1
/-- `IPNetwork._netmask_int`: `max_int ^ _hostmask_int` -/
def netmaskInt (w p : Nat) : Nat := (2 ^ w - 1) ^^^ hostmaskInt w p
/-- `IPNetwork.hostmask`: recomputes `(1 << (width - prefixlen)) - 1` -/
def netHostmask (w p : Nat) : Nat := (1 <<< (w - p)) - 1
/-- `IPNetwork.netmask`: `max_int ^ _hostmask_int` -/
def netNetmask (w p : Nat) : Nat := (2 ^ w - 1) ^^^ hostmaskInt w p
/-- `IPNetwork.network`: `value & _netmask_int` -/
def netNetwork (w v p : Nat) : Nat := v &&& netmaskInt w p
/-- `IPNetwork.first`: `value & (max_int ^ _hostmask_int)` -/
def netFirst (w v p : Nat) : Nat := v &&& ((2 ^ w - 1) ^^^ hostmaskInt w p)
/-- `IPNetwork.last`: `value | ((1 << (width - prefixlen)) - 1)` -/
def netLast (w v p : Nat) : Nat := v ||| ((1 <<< (w - p)) - 1)
/-- `IPListMixin.size`: `int(last - first + 1)` -/
def netSize (w v p : Nat) : Nat := netLast w v p - netFirst w v p + 1
/-- `IPNetwork.broadcast`: None for IPv4 /31 and /32, else `value | _hostmask_int` -/
def netBroadcast (ver w v p : Nat) : Option Nat :=
  if ver = 4 ∧ w - p ≤ 1 then none else some (v ||| hostmaskInt w p)
/-- `IPNetwork.cidr`: `IPNetwork((value & _netmask_int, prefixlen), version)` -/
def netCidr (n : Net) : Net := ⟨n.ver, n.val &&& netmaskInt (width n.ver) n.plen, n.plen⟩
def Net.first (n : Net) : Nat := netFirst (width n.ver) n.val n.plen
def Net.last (n : Net) : Nat := netLast (width n.ver) n.val n.plen

/-- `IPAddress.is_hostmask`: `int_val = value + 1; int_val & (int_val - 1) == 0` -/
def isHostmask (v : Nat) : Bool :=
  let i := v + 1
  i &&& (i - 1) == 0
/-- `IPAddress.is_netmask`: `int_val = (value ^ max_int) + 1; int_val & (int_val - 1) == 0` -/
def isNetmask (w v : Nat) : Bool :=
  let i := (v ^^^ (2 ^ w - 1)) + 1
  i &&& (i - 1) == 0

/-- the `while i_val > 0` loop of `netmask_bits`: count trailing zero bits.  The loop halves
    `i_val`, so `v` iterations always suffice; the fuel makes the recursion structural. -/
def tzAux : Nat → Nat → Nat
  | 0, _ => 0
  | f + 1, v => if v = 0 then 0 else if v % 2 = 1 then 0 else 1 + tzAux f (v / 2)

def trailingZeros (v : Nat) : Nat := tzAux v v

/-- `IPAddress.netmask_bits` -/
def netmaskBits (w v : Nat) : R Nat :=
  if !isNetmask w v then .ok w
  else if v = 0 then .ok 0
  else
    let numbits := trailingZeros v
    -- `mask_length = width - numbits`; Python ints: negative if numbits > width
    if numbits ≤ w then .ok (w - numbits) else .error .value

/-- argument of a setter as the harness can send it -/
inductive SetArg where
  | int (i : Int)              -- a Python int
  | addr (a : Addr)            -- an IPAddress object (netmask setter only)
  | junk                       -- a non-int, non-address object (None, float, list …)
deriving Repr

/-- `BaseIP._set_value` -/
def setValue (n : Net) : SetArg → R Net
  | .int i => if 0 ≤ i ∧ i ≤ (maxInt n.ver : Int) then .ok { n with val := i.toNat } else .error .addrFormat
  | _ => .error .type_

/-- `IPNetwork._set_prefixlen` -/
def setPrefixlen (n : Net) : SetArg → R Net
  | .int i => if 0 ≤ i ∧ i ≤ (width n.ver : Int) then .ok { n with plen := i.toNat } else .error .addrFormat
  | _ => .error .type_

/-- `IPAddress(value)` for an int without explicit version, or an address copy -/
def addrOfSetArg : SetArg → R Addr
  | .int i =>
    if 0 ≤ i ∧ i ≤ (maxInt 4 : Int) then .ok ⟨4, i.toNat⟩
    else if (maxInt 4 : Int) < i ∧ i ≤ (maxInt 6 : Int) then .ok ⟨6, i.toNat⟩
    else .error .addrFormat
  | .addr a => .ok a
  | .junk => .error .addrFormat

/-- `IPNetwork.netmask` setter -/
def setNetmask (n : Net) (x : SetArg) : R Net := do
  let ip ← addrOfSetArg x
  if ip.ver ≠ n.ver then .error .value
  else if !isNetmask (width ip.ver) ip.val then .error .value
  else
    let bits ← netmaskBits (width ip.ver) ip.val
    setPrefixlen n (.int bits)

inductive SetOp where
  | value (x : SetArg) | prefixlen (x : SetArg) | netmask (x : SetArg)
deriving Repr

def applySet (n : Net) : SetOp → R Net
  | .value x => setValue n x
  | .prefixlen x => setPrefixlen n x
  | .netmask x => setNetmask n x

/-- one step of a live object: a failing assignment leaves the object as it was -/
def stepSet (n : Net) (op : SetOp) : Net × Option Err :=
  match applySet n op with
  | .ok n' => (n', none)
  | .error e => (n, some e)

def lookup (t : List (Nat × Nat)) (k : Nat) : Option Nat := (t.find? (fun r => r.1 == k)).map (·.2)

deriving instance DecidableEq for Except

end NV
