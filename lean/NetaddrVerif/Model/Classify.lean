/-
Model/Classify.lean — the classification predicates of `BaseIP`
(netaddr/ip/__init__.py:134-199) over the special-purpose tables at the bottom of that file,
which are regenerated into `Gen/Tables.lean` on every run (C18).

A generated row is `(kind, ver, first, last)`: kind 0 = an `IPNetwork` row, kind 1 = an
`IPRange` row.  `rowCont` rebuilds the container object whose `__contains__` the predicate
calls: for a network row the prefix length is `width - log2(size)` (the row was produced from
an `IPNetwork`, so `size = last - first + 1` is a power of two and the value's host bits do
not influence containment).
-/
import NetaddrVerif.Model.Contains
namespace NV.Classify
open NV NV.Contains

abbrev Row := Nat × Nat × Nat × Nat

/-- the table object behind a generated row -/
def rowCont (r : Row) : Cont :=
  match r with
  | (kind, ver, first, last) =>
    if kind = 0 then .net ⟨ver, first, width ver - Nat.log2 (last - first + 1)⟩
    else .rng ⟨ver, first, last⟩

/-- `self in TABLE_ROW` -/
def inRow (x : Obj) (r : Row) : Bool := contains (rowCont r) x

/-- `self in SINGLE_TABLE` for the one-object tables (`IPV4_LOOPBACK` …): the generator
    emits them as one-row lists -/
def inSingle (x : Obj) (t : List Row) : Bool :=
  match t with
  | [r] => inRow x r
  | _ => false

/-- `for cidr in TABLE: if self in cidr: return True` -/
def scan (x : Obj) : List Row → Bool
  | [] => false
  | r :: rest => if inRow x r then true else scan x rest

/-- `is_multicast` (dispatch spelled `self._module == _ipv4` / `_ipv6`; otherwise `None`) -/
def isMulticast (x : Obj) : Bool :=
  if x.ver = 4 then inSingle x Gen.ipv4Multicast
  else if x.ver = 6 then inSingle x Gen.ipv6Multicast
  else false

/-- `is_unicast`: `not self.is_multicast()` -/
def isUnicast (x : Obj) : Bool := !isMulticast x

/-- `is_loopback` (dispatch spelled `self._module.version == 4` / `6`) -/
def isLoopback (x : Obj) : Bool :=
  if x.ver = 4 then inSingle x Gen.ipv4Loopback
  else if x.ver = 6 then inSingle x Gen.ipv6Loopback
  else false

/-- `is_link_local` -/
def isLinkLocal (x : Obj) : Bool :=
  if x.ver = 4 then inSingle x Gen.ipv4LinkLocal
  else if x.ver = 6 then inSingle x Gen.ipv6LinkLocal
  else false

/-- `is_private`: scan of the family's table, then `if self.is_link_local(): return True` -/
def isPrivate (x : Obj) : Bool :=
  let hit :=
    if x.ver = 4 then scan x Gen.ipv4Private
    else if x.ver = 6 then scan x Gen.ipv6Private
    else false
  if hit then true
  else if isLinkLocal x then true
  else false

/-- `is_reserved` -/
def isReserved (x : Obj) : Bool :=
  if x.ver = 4 then scan x Gen.ipv4Reserved
  else if x.ver = 6 then scan x Gen.ipv6Reserved
  else false

end NV.Classify
