/-
Model/NetParseX.lean — additions to the C03 model (Model/NetParse.lean is shared and stays as it
is): `cidr_abbrev_to_verbose` on NON-str arguments (audit 2a, finding 10) and
`IPNetwork.__repr__` (finding 21).

    def cidr_abbrev_to_verbose(abbrev_cidr):            # netaddr/ip/__init__.py:1514-1594
        def classful_prefix(octet):
            octet = int(octet)
            if not 0 <= octet <= 255:
                raise IndexError('Invalid octet: %r!' % octet)
            …
        if _is_str(abbrev_cidr):                         # skipped for a non-str
            …
        try:
            i = int(abbrev_cidr)                         # int: itself; bool: 0/1; float: truncation;
            return "%s.0.0.0/%s" % (i, classful_prefix(i))   # None / tuple / list: TypeError
        except ValueError:
            if '/' in abbrev_cidr: …                     # non-str: TypeError, and it PROPAGATES (a
            …                                            # raise inside a handler is not caught by
        except (TypeError, IndexError):                  # the sibling clause)
            return abbrev_cidr

So for an int-like argument with `i = int(x)`: 0 ≤ i ≤ 255 → the text `i.0.0.0/<class>`; otherwise
`classful_prefix` raises IndexError and the ARGUMENT ITSELF comes back — except for an int beyond
the interpreter's int-to-str digit limit (4300 digits by default): a ValueError is raised while the
text is being built (CPython ≥ 3.11 compiles `"%s…%s" % (i, f(i))` into in-order formatting, so
`i` itself is formatted with `%s` before `classful_prefix(i)` is even called; without that
optimisation the IndexError message `'%r' % octet` hits the same limit), it lands in
`except ValueError`, where `'/' in abbrev_cidr` raises TypeError out of the function.  Every such
int is outside 0..255, so the two mechanisms cannot be told apart from outside.

    def __repr__(self):                                   # IPNetwork, netaddr/ip/__init__.py:1366-1369
        return "%s('%s')" % (self.__class__.__name__, self)
-/
import NetaddrVerif.Model.NetParse
namespace NV.NetParse
open NV NV.Text4 NV.AddrParse

/-- argument of `cidr_abbrev_to_verbose` -/
inductive AbbrevArg where
  | str (s : List Char)
  | int (i : Int)              -- `type(x) is int`
  | bool (b : Bool)            -- `True` / `False` (`int(True) = 1`)
  | float (trunc : Int)        -- a FINITE float, given by `int(x)` (truncation toward zero)
  | none                       -- `None`, a tuple, a list: `int(x)` raises TypeError
deriving Repr

/-- what comes back: a new text, or the argument object itself -/
inductive AbbrevRes where
  | text (t : List Char)
  | same
deriving Repr, DecidableEq

/-- `sys.get_int_max_str_digits()` (CPython default) -/
def intMaxStrDigits : Nat := 4300

/-- the `try:` block for an argument with `int(abbrev_cidr) = i` (the digit-limit branch can only
    be reached by an int: the truncation of a finite float has at most 309 digits) -/
def abbrevOfInt (i : Int) : R AbbrevRes :=
  match classfulPrefix i with
  | some p => .ok (.text (showInt i ++ ".0.0.0/".toList ++ dec p))
  | none =>
    -- beyond the int-to-str digit limit: ValueError while formatting, then TypeError out of the handler
    if i.natAbs ≥ 10 ^ intMaxStrDigits then .error .type_ else .ok .same

/-- `cidr_abbrev_to_verbose(abbrev_cidr)`, every argument type -/
def cidrAbbrevToVerboseX : AbbrevArg → R AbbrevRes
  | .str s => .ok (.text (cidrAbbrevToVerbose s))
  | .int i => abbrevOfInt i
  | .bool b => abbrevOfInt (if b then 1 else 0)
  | .float t => abbrevOfInt t
  | .none => .ok .same

/-! ### `repr(IPNetwork)` -/

def netReprPrefix : List Char := "IPNetwork('".toList
def netReprSuffix : List Char := "')".toList

/-- `IPNetwork.__repr__`: the class name and `str(net)` in single quotes -/
def netRepr (be : Backend) (n : Net) : List Char :=
  netReprPrefix ++ (netStr be n ++ netReprSuffix)

/-- the text between `IPNetwork('` and `')` (no `eval`: plain prefix / suffix removal);
    `none` when the string does not have that frame -/
def unquoteNetRepr (s : List Char) : Option (List Char) :=
  if netReprPrefix.isPrefixOf s && netReprSuffix.isSuffixOf (s.drop netReprPrefix.length) then
    some ((s.drop netReprPrefix.length).take (s.length - netReprPrefix.length - netReprSuffix.length))
  else none

end NV.NetParse
