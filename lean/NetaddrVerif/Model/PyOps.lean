/-
Model/PyOps.lean — Python `int` operators on Lean `Int`, the target vocabulary of the
source translator (`harness/pytrans.py` → `Gen/Trans.lean`).  Core Lean only.

Python ints are unbounded two's-complement integers.  `+ - *` and comparisons are Lean's;
`&`, `|`, `^` are defined here by the usual case split on the signs (`~x = -x-1`);
`<<`, `>>` take an `Int` count (Python raises `ValueError` for a negative count; the
translation totalises that case to a shift by 0 — every theorem of `Props/Tie*.lean` is
stated under the code's own range guards, under which the count is non-negative);
`//` and `%` are floor division / modulus (`Int.fdiv`, `Int.fmod`); `**` takes a
non-negative exponent.
-/
import NetaddrVerif.Model.Basic
import NetaddrVerif.Model.TieAttr
namespace NV.Py

/-- `~m` for a natural number `m`, i.e. `-(m+1)` -/
@[inline] def notNat (m : Nat) : Int := Int.negSucc m

/-- Python `a & b` -/
def iand : Int → Int → Int
  | .ofNat a, .ofNat b => .ofNat (a &&& b)
  | .ofNat a, .negSucc n => .ofNat (a ^^^ (a &&& n))          -- a & ~n
  | .negSucc m, .ofNat b => .ofNat (b ^^^ (b &&& m))          -- ~m & b
  | .negSucc m, .negSucc n => .negSucc (m ||| n)               -- ~m & ~n = ~(m | n)

/-- Python `a | b` -/
def ior : Int → Int → Int
  | .ofNat a, .ofNat b => .ofNat (a ||| b)
  | .ofNat a, .negSucc n => .negSucc (n ^^^ (n &&& a))         -- a | ~n = ~(n & ~a)
  | .negSucc m, .ofNat b => .negSucc (m ^^^ (m &&& b))
  | .negSucc m, .negSucc n => .negSucc (m &&& n)               -- ~m | ~n = ~(m & n)

/-- Python `a ^ b` -/
def ixor : Int → Int → Int
  | .ofNat a, .ofNat b => .ofNat (a ^^^ b)
  | .ofNat a, .negSucc n => .negSucc (a ^^^ n)
  | .negSucc m, .ofNat b => .negSucc (m ^^^ b)
  | .negSucc m, .negSucc n => .ofNat (m ^^^ n)

/-- Python `a << n` (count totalised at 0 for negative `n`, see the file header) -/
def shl (a n : Int) : Int := a <<< n.toNat
/-- Python `a >> n` (arithmetic shift; same totalisation) -/
def shr (a n : Int) : Int := a >>> n.toNat
/-- Python `a // b` -/
def fdiv (a b : Int) : Int := Int.fdiv a b
/-- Python `a % b` -/
def fmod (a b : Int) : Int := Int.fmod a b
/-- Python `a ** n` for `n ≥ 0` -/
def pow (a n : Int) : Int := a ^ n.toNat

/-- Python `x in <tuple of non-negative ints>` -/
def inNat (x : Int) (l : List Nat) : Prop := 0 ≤ x ∧ x.toNat ∈ l
instance (x : Int) (l : List Nat) : Decidable (inNat x l) := by unfold inNat; infer_instance

@[simp] theorem iand_ofNat (a b : Nat) : iand (a : Int) (b : Int) = ((a &&& b : Nat) : Int) := rfl
@[simp] theorem ior_ofNat (a b : Nat) : ior (a : Int) (b : Int) = ((a ||| b : Nat) : Int) := rfl
@[simp] theorem ixor_ofNat (a b : Nat) : ixor (a : Int) (b : Int) = ((a ^^^ b : Nat) : Int) := rfl

end NV.Py
