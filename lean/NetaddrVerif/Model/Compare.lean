/-
Model/Compare.lean — `key()` / `sort_key()` of IPAddress, IPNetwork, IPRange and Python's
tuple comparison (shared by C04's matching helpers, C12 and the IPSet model).
-/
import NetaddrVerif.Model.Network
namespace NV

/-- Python tuple comparison on int tuples: lexicographic, a proper prefix is smaller -/
def tupleCmp : List Int → List Int → Ordering
  | [], [] => .eq
  | [], _ :: _ => .lt
  | _ :: _, [] => .gt
  | a :: as, b :: bs => if a < b then .lt else if a > b then .gt else tupleCmp as bs

def tupleLt (a b : List Int) : Bool := tupleCmp a b == .lt
def tupleLe (a b : List Int) : Bool := tupleCmp a b != .gt

/-- `int.bit_length()` (`netaddr.core.num_bits`) -/
def numBits (n : Nat) : Nat := if n = 0 then 0 else Nat.log2 n + 1

/-- `IPAddress.key()` = `(version, value)` -/
def Addr.key (a : Addr) : List Int := [a.ver, a.val]
/-- `IPAddress.sort_key()` = `(version, value, width)` -/
def Addr.sortKey (a : Addr) : List Int := [a.ver, a.val, width a.ver]

/-- `IPNetwork.key()` = `(version, first, last)` -/
def Net.key (n : Net) : List Int := [n.ver, n.first, n.last]
/-- `IPNetwork.sort_key()` = `(version, first, prefixlen - 1, value - first)` -/
def Net.sortKey (n : Net) : List Int :=
  [n.ver, n.first, (n.plen : Int) - 1, (n.val : Int) - (n.first : Int)]

/-- `IPRange.key()` = `(version, first, last)` -/
def Rng.key (r : Rng) : List Int := [r.ver, r.lo, r.hi]
/-- `IPRange.sort_key()` = `(version, start, width - num_bits(size))` -/
def Rng.sortKey (r : Rng) : List Int :=
  [r.ver, r.lo, (width r.ver : Int) - (numBits (r.hi - r.lo + 1) : Int)]

/-- `sorted(list of IPNetwork)`: stable merge sort by `sort_key` (timsort is stable too) -/
def sortNets (l : List Net) : List Net := l.mergeSort (fun a b => tupleLe a.sortKey b.sortKey)

end NV
