/-
Model/NetParse.lean — `parse_ip_network`, `IPNetwork.__init__`, `cidr_abbrev_to_verbose`
(+ `classful_prefix`), `strategy.ipv4.expand_partial_address` and `IPNetwork.__str__` as they
are NOW (a second '/' is AddrFormatError; `classful_prefix` raises IndexError for an octet
outside 0..255, which `cidr_abbrev_to_verbose` turns into "return the argument unchanged").
-/
import NetaddrVerif.Model.AddrParse
import NetaddrVerif.Model.Network
import NetaddrVerif.Gen.Tables
namespace NV.NetParse
open NV NV.Text4 NV.AddrParse

/-- `str.split('/', 1)` on a string that contains '/' : text before the first '/', text after it -/
def splitSlash (s : List Char) : List Char × Option (List Char) :=
  if s.contains '/' then (s.takeWhile (· != '/'), some ((s.dropWhile (· != '/')).drop 1))
  else (s, none)

/-- `classful_prefix(octet)` after `int(octet)`; `none` = IndexError -/
def classfulPrefix (octet : Int) : Option Nat :=
  if ¬ (0 ≤ octet ∧ octet ≤ 255) then none
  else if 0 ≤ octet ∧ octet ≤ 127 then some 8
  else if 128 ≤ octet ∧ octet ≤ 191 then some 16
  else if 192 ≤ octet ∧ octet ≤ 223 then some 24
  else if 224 ≤ octet ∧ octet ≤ 239 then some 4
  else some 32

/-- `cidr_abbrev_to_verbose(abbrev_cidr)` for a `str` argument -/
def cidrAbbrevToVerbose (s : List Char) : List Char :=
  if s.contains ':' || s == [] then s else
  match Py.pyInt 10 s with
  | some i =>
    -- "Single octet partial integer or string address."
    match classfulPrefix i with
    | some p => showInt i ++ ".0.0.0/".toList ++ dec p
    | none => s
  | none =>
    -- "Multi octet partial string address with optional prefix."
    let (partAddr, prefix?) := splitSlash s
    let prefixOk : Bool := match prefix? with
      | none => true
      | some p => match Py.pyInt 10 p with
        | some q => 0 ≤ q && q ≤ 32
        | none => false
    if !prefixOk then s else
    let tokens := partAddr.splitOn '.'
    if tokens.length > 4 then s else
    let tokens := tokens ++ List.replicate (4 - tokens.length) ['0']
    match prefix? with
    | some p => ['.'].intercalate tokens ++ ['/'] ++ p
    | none =>
      match Py.pyInt 10 (tokens.headD []) with
      | none => s
      | some o => match classfulPrefix o with
        | none => s
        | some p => ['.'].intercalate tokens ++ ['/'] ++ dec p

/-- `strategy.ipv4.expand_partial_address(addr)` for a `str` argument (error = AddrFormatError) -/
def expandPartialAddress (addr : List Char) : R (List Char) :=
  if addr.contains ':' then .error .addrFormat else
  let tokens? : Option (List (List Char)) :=
    if addr.contains '.' then (addr.splitOn '.').mapM (fun o => (Py.pyInt 10 o).map showInt)
    else (Py.pyInt 10 addr).map (fun i => [showInt i])
  match tokens? with
  | none => .error .addrFormat
  | some tokens =>
    if 1 ≤ tokens.length ∧ tokens.length ≤ 4 then
      .ok (['.'].intercalate (tokens ++ List.replicate (4 - tokens.length) ['0']))
    else .error .addrFormat

def netmaskToPrefix (ver : Nat) : List (Nat × Nat) := if ver = 4 then Gen.netmaskToPrefix4 else Gen.netmaskToPrefix6
def hostmaskToPrefix (ver : Nat) : List (Nat × Nat) := if ver = 4 then Gen.hostmaskToPrefix4 else Gen.hostmaskToPrefix6
def prefixToNetmask (ver : Nat) : List (Nat × Nat) := if ver = 4 then Gen.prefixToNetmask4 else Gen.prefixToNetmask6

/-- argument of `parse_ip_network` / `IPNetwork(...)` -/
inductive NetArg where
  | tuple (value prefixlen : Int)
  | str (s : List Char)
  | copyNet (n : Net)
  | copyAddr (a : Addr)
deriving Repr

/-- NOHOST tail of `parse_ip_network` -/
def applyNohost (ver : Nat) (flags : Nat) (value prefixlen : Nat) : R (Nat × Nat) :=
  if hasFlag flags NOHOST then
    match (prefixToNetmask ver).lookup prefixlen with
    | some netmask => .ok (value &&& netmask, prefixlen)
    | none => .error .key
  else .ok (value, prefixlen)

/-- the prefix part of the string branch: `int(val2)`, else netmask / hostmask lookup -/
def resolvePrefix (be : Backend) (ver : Nat) (val2 : Option (List Char)) : R Int :=
  match val2 with
  | none => .ok (width ver)
  | some t =>
    match Py.pyInt 10 t with
    | some i => .ok i
    | none =>
      match ipAddress be t (some ver) INET_PTON with
      | .error e => .error e
      | .ok mask =>
        if isNetmask (width ver) mask.val then
          match (netmaskToPrefix ver).lookup mask.val with
          | some p => .ok p
          | none => .error .key
        else if isHostmask mask.val then
          match (hostmaskToPrefix ver).lookup mask.val with
          | some p => .ok p
          | none => .error .key
        else .error .addrFormat

/-- `'/' in val2` (a second slash; `False` when there is no prefix part) -/
def secondSlash (val2 : Option (List Char)) : Bool :=
  match val2 with
  | some t => t.contains '/'
  | none => false

/-- the string branch of `parse_ip_network` after the split at the first '/':
    address part (strict parse, else partial-address expansion for IPv4), prefix part, range
    check, NOHOST -/
def parseStrCore (be : Backend) (ver : Nat) (val1 : List Char) (val2 : Option (List Char)) (flags : Nat) : R (Nat × Nat) :=
  let ip : R Addr :=
    match ipAddress be val1 (some ver) INET_PTON with
    | .ok a => .ok a
    | .error .addrFormat =>
      if ver = 4 then
        match expandPartialAddress val1 with
        | .ok expanded => ipAddress be expanded (some ver) INET_PTON
        | .error e => .error e
      else .error .addrFormat
    | .error e => .error e
  match ip with
  | .error e => .error e
  | .ok a =>
    match resolvePrefix be ver val2 with
    | .error e => .error e
    | .ok prefixlen =>
      if ¬ (0 ≤ prefixlen ∧ prefixlen ≤ (width ver : Int)) then .error .addrFormat
      else applyNohost ver flags a.val prefixlen.toNat

/-- `parse_ip_network(module, addr, implicit_prefix, flags)` for tuple and str arguments -/
def parseIpNetwork (be : Backend) (ver : Nat) (arg : NetArg) (implicitPrefix : Bool) (flags : Nat) : R (Nat × Nat) :=
  match arg with
  | .tuple value prefixlen =>
    if ¬ (0 ≤ value ∧ value ≤ (maxInt ver : Int)) then .error .addrFormat
    else if ¬ (0 ≤ prefixlen ∧ prefixlen ≤ (width ver : Int)) then .error .addrFormat
    else applyNohost ver flags value.toNat prefixlen.toNat
  | .str addr0 =>
    let addr := if implicitPrefix then cidrAbbrevToVerbose addr0 else addr0
    let (val1, val2) := splitSlash addr
    if secondSlash val2 then .error .addrFormat else parseStrCore be ver val1 val2 flags
  | _ => .error .type_

/-- `IPNetwork(addr, implicit_prefix, version, flags)` -/
def ipNetwork (be : Backend) (arg : NetArg) (implicitPrefix : Bool) (version : Option Nat) (flags : Nat) : R Net :=
  match arg with
  | .copyNet n => .ok n
  | .copyAddr a => .ok ⟨a.ver, a.val, width a.ver⟩
  | _ =>
    match version with
    | some ver =>
      if ver = 4 ∨ ver = 6 then
        match parseIpNetwork be ver arg implicitPrefix flags with
        | .ok (v, p) => .ok ⟨ver, v, p⟩
        | .error e => .error e
      else .error .value
    | none =>
      match parseIpNetwork be 4 arg implicitPrefix flags with
      | .ok (v, p) => .ok ⟨4, v, p⟩
      | .error .addrFormat =>
        match parseIpNetwork be 6 arg implicitPrefix flags with
        | .ok (v, p) => .ok ⟨6, v, p⟩
        | .error e => .error e
      | .error e => .error e

/-- `IPNetwork.__str__`: `"%s/%s" % (module.int_to_str(value), prefixlen)` -/
def netStr (be : Backend) (n : Net) : List Char :=
  intToStr be n.ver n.val ++ ['/'] ++ dec n.plen

end NV.NetParse
