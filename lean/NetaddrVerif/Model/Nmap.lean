/-
Model/Nmap.lean — netaddr/ip/nmap.py as it is now: `_nmap_octet_target_values`,
`_generate_nmap_octet_ranges`, `_parse_nmap_target_spec`, `valid_nmap_range`,
`iter_nmap_range`.  Executable, core Lean only.

The generator is modelled as the list of its first `fuel` yields (`itertools.islice(gen, fuel)`,
`fuel ≥ 1`); an exception raised before the first yield is the `Except` error.  Nothing can be
raised after the first yield (every later step only builds `IPAddress` objects from octets the
guards keep in 0..255 / from integers inside a network).

The two foreign parsers the module calls on the whole target spec, `IPNetwork(spec)` and
`IPAddress(spec)` (C01/C03 territory), are a parameter `Foreign` of the model; `realForeign` is
the pair the Python really calls (the models of C03 and C01 with the arguments nmap.py passes),
and the driver runs the model with `realForeign .platform`.

Second presentation (same behaviour, proved equal in Lemmas/C17LPlan.lean): `parsePlan` is
everything `_parse_nmap_target_spec` does before its first `yield` (all the places where it can
raise), `Plan.items` is the total enumeration that follows.
-/
import NetaddrVerif.Model.Network
import NetaddrVerif.Model.PyRuntime
import NetaddrVerif.Model.NetParse
namespace NV.Nmap

/-- `s.split(sep, 1)` of a string that contains `sep`: text before / after the first `sep` -/
def split1 (sep : Char) (s : List Char) : List Char × List Char :=
  (s.takeWhile (fun c => c != sep), (s.dropWhile (fun c => c != sep)).drop 1)

/-- `if not left: left = 0` … `int(left)`  (`int(0) = 0`) -/
def intOr (t : List Char) (dflt : Int) : Option Int :=
  if t.isEmpty then some dflt else Py.pyInt 10 t

/-- `range(low, high + 1)` -/
def closedRange (low high : Nat) : List Nat := (List.range (high + 1 - low)).map (low + ·)

/-- the values one comma-separated element adds to the set; every failure is a ValueError -/
def elementValues (el : List Char) : R (List Nat) :=
  if el.contains '-' then
    let lr := split1 '-' el
    match intOr lr.1 0 with
    | none => .error .value
    | some low =>
      match intOr lr.2 255 with
      | none => .error .value
      | some high =>
        if ¬ ((0 ≤ low ∧ low ≤ 255) ∧ (0 ≤ high ∧ high ≤ 255)) then .error .value
        else if low > high then .error .value
        else .ok (closedRange low.toNat high.toNat)
  else
    match Py.pyInt 10 el with
    | none => .error .value
    | some octet =>
      if ¬ (0 ≤ octet ∧ octet ≤ 255) then .error .value
      else .ok [octet.toNat]

/-- `sorted(values)` of a Python `set` of ints which the guards keep inside 0..255:
    ascending, duplicate-free -/
def sortedSet (l : List Nat) : List Nat := (List.range 256).filter (fun v => l.contains v)

/-- `_nmap_octet_target_values(spec)` -/
def octetTargetValues (spec : List Char) : R (List Nat) :=
  match (spec.splitOn ',').mapM elementValues with
  | .ok ls => .ok (sortedSet ls.flatten)
  | .error e => .error e

/-- `_generate_nmap_octet_ranges(spec)` for a `str` argument -/
def generateOctetRanges (spec : List Char) : R (List (List Nat)) :=
  if spec.isEmpty then .error .value
  else
    let tokens := spec.splitOn '.'
    if tokens.length ≠ 4 then .error .addrFormat
    else tokens.mapM octetTargetValues

/-- `IPNetwork(target_spec)` and `IPAddress(target_spec)` -/
structure Foreign where
  ipNetwork : List Char → R Net
  ipAddress : List Char → R Addr

/-- first `fuel` elements of `for a in l: for b in g(a): yield b` without building the rest -/
def flatMapTake {α β : Type} (g : α → Nat → List β) : List α → Nat → List β
  | [], _ => []
  | a :: t, fuel =>
    if fuel = 0 then []
    else
      let r := g a fuel
      r ++ flatMapTake g t (fuel - r.length)

/-- the four nested loops; `IPAddress("%d.%d.%d.%d" % (w, x, y, z), 4)` is the value
    `w·2^24 + x·2^16 + y·2^8 + z` (MODELLED: print/parse round trip of a dotted quad) -/
def product4 (ws xs ys zs : List Nat) (fuel : Nat) : List Nat :=
  flatMapTake (fun w f =>
    flatMapTake (fun x f =>
      flatMapTake (fun y f =>
        (zs.take f).map (fun z => w * 2 ^ 24 + x * 2 ^ 16 + y * 2 ^ 8 + z)) ys f) xs f) ws fuel

/-- `for ip in net` (= `iter_iprange(first, last)`), first `fuel` -/
def netIter (n : Net) (fuel : Nat) : List Nat :=
  (List.range (min (n.last + 1 - n.first) fuel)).map (n.first + ·)

/-- `_parse_nmap_target_spec(target_spec)`, first `fuel` yields -/
def parseTargetSpec (F : Foreign) (fuel : Nat) (spec : List Char) : R (List Addr) :=
  if spec.contains '/' then
    let pfx := (split1 '/' spec).2
    match Py.pyInt 10 pfx with
    | none => .error .value
    | some p =>
      if ¬ (0 < p ∧ p < 33) then .error .addrFormat
      else match F.ipNetwork spec with
        | .error e => .error e
        | .ok net =>
          if net.ver ≠ 4 then .error .addrFormat
          else .ok ((netIter net fuel).map (fun v => ⟨4, v⟩))
  else if spec.contains ':' then
    match F.ipAddress spec with
    | .error e => .error e
    | .ok a => .ok ([a].take fuel)
  else
    match generateOctetRanges spec with
    | .ok [ws, xs, ys, zs] => .ok ((product4 ws xs ys zs fuel).map (fun v => ⟨4, v⟩))
    | .ok _ => .error .other          -- unreachable: four tokens give four lists
    | .error e => .error e

/-- `valid_nmap_range(target_spec)` for a `str` argument: one `next()` on the generator;
    TypeError, ValueError, AddrFormatError give False, anything else propagates
    (StopIteration of an empty generator would too) -/
def validNmapRange (F : Foreign) (spec : List Char) : R Bool :=
  match parseTargetSpec F 1 spec with
  | .ok (_ :: _) => .ok true
  | .ok [] => .error .other
  | .error e => if e = .type_ ∨ e = .value ∨ e = .addrFormat then .ok false else .error e

/-- `itertools.islice(iter_nmap_range(spec), fuel)` for one target spec, for `fuel ≥ 1`: the
    generator has been advanced at least once, so the parse phase has run.  (`fuel = 0` is outside
    the domain of this function — the Python generator runs nothing before the first `next()` —
    and is `isliceNmapRange` below; audit 2b finding 2.) -/
def iterNmapRange (F : Foreign) (fuel : Nat) (spec : List Char) : R (List Addr) :=
  parseTargetSpec F fuel spec

/-- `list(itertools.islice(iter_nmap_range(spec), fuel))` for EVERY `fuel`: `islice(gen, 0)`
    never calls `next()`, the body of the generator (nmap.py:99-113, and
    `_parse_nmap_target_spec` behind it) does not start, so nothing is parsed and nothing raised:
    `list(islice(iter_nmap_range('bad'), 0)) == []` -/
def isliceNmapRange (F : Foreign) (fuel : Nat) (spec : List Char) : R (List Addr) :=
  if fuel = 0 then .ok [] else iterNmapRange F fuel spec

/-- `iter_nmap_range(*specs)`: the specs one after the other; the yields before the first
    failing spec are kept (`fuel` bounds each spec separately) -/
def iterNmapRanges (F : Foreign) (fuel : Nat) : List (List Char) → List Addr × Option Err
  | [] => ([], none)
  | s :: r =>
    match parseTargetSpec F fuel s with
    | .error e => ([], some e)
    | .ok l => let t := iterNmapRanges F fuel r; (l ++ t.1, t.2)

/-! ### the foreign parsers as nmap.py calls them -/

/-- `IPNetwork(target_spec)` (nmap.py:75: implicit_prefix=False, version=None, flags=0) and
    `IPAddress(target_spec)` (nmap.py:82: version=None, flags=0), for the back end `be` -/
def realForeign (be : AddrParse.Backend) : Foreign :=
  ⟨fun s => NetParse.ipNetwork be (.str s) false none 0,
   fun s => AddrParse.ipAddress be s none 0⟩

/-! ### parse phase / enumeration phase -/

/-- what `_parse_nmap_target_spec` has in hand when it reaches its first `yield` -/
inductive Plan where
  /-- `for ip in net: yield ip` (nmap.py:78-79), `net` an IPv4 network -/
  | cidr (net : Net)
  /-- `yield IPAddress(target_spec)` (nmap.py:82) -/
  | addr (a : Addr)
  /-- the four nested loops over the octet lists (nmap.py:85-89) -/
  | octets (ws xs ys zs : List Nat)
deriving DecidableEq, Repr

/-- everything `_parse_nmap_target_spec(target_spec)` executes before its first `yield`:
    nmap.py:70-77 ('/' branch: split, `int(prefix)`, range guard, `IPNetwork(...)`, version
    guard), nmap.py:80-82 (':' branch: `IPAddress(...)` is evaluated before the value is
    yielded), nmap.py:84 (`_generate_nmap_octet_ranges`).  Every `raise` of the function and of
    its callees is in here. -/
def parsePlan (F : Foreign) (spec : List Char) : R Plan :=
  if spec.contains '/' then
    let pfx := (split1 '/' spec).2
    match Py.pyInt 10 pfx with
    | none => .error .value
    | some p =>
      if ¬ (0 < p ∧ p < 33) then .error .addrFormat
      else match F.ipNetwork spec with
        | .error e => .error e
        | .ok net =>
          if net.ver ≠ 4 then .error .addrFormat
          else .ok (.cidr net)
  else if spec.contains ':' then
    match F.ipAddress spec with
    | .error e => .error e
    | .ok a => .ok (.addr a)
  else
    match generateOctetRanges spec with
    | .ok [ws, xs, ys, zs] => .ok (.octets ws xs ys zs)
    | .ok _ => .error .other          -- unreachable: four tokens give four lists
    | .error e => .error e

/-- the enumeration phase, first `fuel` items: a total function, nothing can be raised here -/
def Plan.items (fuel : Nat) : Plan → List Addr
  | .cidr net => (netIter net fuel).map (fun v => ⟨4, v⟩)
  | .addr a => [a].take fuel
  | .octets ws xs ys zs => (product4 ws xs ys zs fuel).map (fun v => ⟨4, v⟩)

/-- the whole enumeration (specification only, never executed on large plans) -/
def Plan.all : Plan → List Addr
  | .cidr net => ((List.range (net.last + 1 - net.first)).map (net.first + ·)).map (fun v => ⟨4, v⟩)
  | .addr a => [a]
  | .octets ws xs ys zs =>
    (ws.flatMap fun w => xs.flatMap fun x => ys.flatMap fun y =>
      zs.map fun z => w * 2 ^ 24 + x * 2 ^ 16 + y * 2 ^ 8 + z).map (fun v => ⟨4, v⟩)

/-- `itertools.islice(iter_nmap_range(*specs), fuel)`: ONE budget for the whole call.  Python's
    generator semantics: the specs are taken in argument order; a spec is parsed only when the
    consumer asks for the first item after the previous spec is exhausted, so with `fuel` items
    already delivered nothing more is parsed (and a later bad spec goes unnoticed); a spec that
    fails raises at that point, the items of the earlier specs having been delivered. -/
def isliceNmapRanges (F : Foreign) : Nat → List (List Char) → List Addr × Option Err
  | _, [] => ([], none)
  | fuel, s :: r =>
    if fuel = 0 then ([], none)
    else match parsePlan F s with
      | .error e => ([], some e)
      | .ok p =>
        let l := p.items fuel
        let t := isliceNmapRanges F (fuel - l.length) r
        (l ++ t.1, t.2)

end NV.Nmap
