/-
Model/Eui2.lean — EUI, second part (audit round 2a, findings 4, 6, 8, 11, 13, 17, 23): the
parts of netaddr/eui/__init__.py and netaddr/strategy/eui48.py / eui64.py that Model/Eui.lean
leaves to the driver glue or does not reach:

* `valid_mac` / `valid_eui64` (strategy/eui48.py:138-152, eui64.py:120-139) as functions of
  their own, transcribed separately from `str_to_int`;
* the six comparison operators (eui/__init__.py:569-639) including non-EUI operands, which go
  through the constructor and fall back to `NotImplemented`;
* the whole constructor `EUI(addr, version, dialect)` (eui/__init__.py:344-392): copy
  construction, every argument kind the `_is_int` / `_is_str` / `int()` dispatch tells apart,
  the dialect argument, and the interpreter's int-to-str digit limit in the messages;
* the `value` / `dialect` setters of a live object (eui/__init__.py:420-481);
* `__getitem__` / `__setitem__` for non-int indices and values and the order of their tests
  (eui/__init__.py:523-563);
* the dialect of the objects returned by `eui64()` / `modified_eui64()` (eui/__init__.py:671-704).

Nothing of Model/Eui.lean is changed (it is imported by the C12, C15 and C19 proofs).
Core Lean only.
-/
import NetaddrVerif.Model.Eui
namespace NV.Eui
open NV.Gen

/-! ## valid_mac / valid_eui64 -/

/-- the argument of `valid_str`: a `str`, or any other object (int, None, bytes, …) — for those
    `regexp.findall(addr)` raises TypeError ("expected string or bytes-like object" / "cannot use
    a string pattern on a bytes-like object") -/
inductive ValidArg where
  | str (s : List Char)
  | other
deriving Repr

/-- `eui48.valid_str(addr)` for a str (strategy/eui48.py:138-152):
    `for regexp in RE_MAC_FORMATS: if len(regexp.findall(addr)) != 0: return True` … `return False` -/
def validStr48 (s : List Char) : Bool := macFormats.any (fun f => (matchFmt f s).isSome)

/-- `bool(match[0])` for what `findall` returns: one group gives the captured string itself,
    several groups give a tuple (never empty) -/
def truthyMatch : List (List Char) → Bool
  | [w] => !w.isEmpty
  | ws => !ws.isEmpty

/-- `eui64.valid_str(addr)` for a str (strategy/eui64.py:120-139):
    `if _get_match_result(addr, RE_EUI64_FORMATS): return True` — the first match, tested for
    truth -/
def validStr64 (s : List Char) : Bool :=
  match firstMatch eui64Formats s with
  | none => false
  | some words => truthyMatch words

/-- `netaddr.valid_mac` (= eui48.valid_str): the TypeError of a non-str argument is swallowed
    once per pattern, then `return False` -/
def validMac : ValidArg → Bool
  | .str s => validStr48 s
  | .other => false

/-- `netaddr.valid_eui64` (= eui64.valid_str): `except TypeError: pass`, `return False` -/
def validEui64 : ValidArg → Bool
  | .str s => validStr64 s
  | .other => false

/-! ## the six comparison operators -/

inductive CmpOp where
  | eq | ne | lt | le | gt | ge
deriving DecidableEq, Repr

/-- `(self.version, self._value) <op> (other.version, other._value)` (eui/__init__.py:579, 591,
    603, 615, 627, 639): Python's tuple comparison of the two keys -/
def cmpOp (op : CmpOp) (ver1 v1 ver2 v2 : Nat) : Bool :=
  let c := tupleCmp (key ver1 v1) (key ver2 v2)
  match op with
  | .eq => c == .eq
  | .ne => c != .eq
  | .lt => c == .lt
  | .le => c != .gt
  | .gt => c == .gt
  | .ge => c != .lt

/-- what the interpreter does once `EUI.__<op>__` has returned `NotImplemented` and the reflected
    method of the other operand's type (str, int, float, None, bytes: `object`'s / their own) has
    returned it too: `==` is identity (False for a different object), `!=` its negation, an ordering
    comparison raises TypeError -/
def notImplemented : CmpOp → R Bool
  | .eq => .ok false
  | .ne => .ok true
  | _ => .error .type_

/-! ## the interpreter's int-to-str digit limit -/

/-- `sys.int_info.default_max_str_digits` of CPython ≥ 3.11 -/
def strDigitLimit : Nat := 4300

/-- `'%r' % (n,)` / `'%d' % n` / `repr(n)` raise ValueError: `n` has more than 4300 decimal digits -/
def fmtFails (n : Int) : Bool := decide (10 ^ strDigitLimit ≤ n.natAbs)

/-- `raise E('… %r …' % (n,))`: the message is built first -/
def raiseFmt {α : Type} (n : Int) (e : Err) : R α :=
  if fmtFails n then .error .value else .error e

/-! ## the constructor, every argument kind -/

/-- the `addr` argument of `EUI(...)` / the right-hand side of `e.value = …`, as far as the code
    tells kinds apart (`isinstance(addr, EUI)`, `_is_int`, `_is_str`, `int(value)`):
    a str or an int (`AddrArg`; a bool is an int: True = 1, False = 0), an EUI object, a finite
    float (`t = int(x)`, truncation towards zero), None, a bytes object (which `_is_str` accepts,
    compat.py:24, and `re` then refuses) -/
inductive CtorArg where
  | addr (a : AddrArg)
  | eui (ver v : Nat) (d : Dialect)
  | float (t : Int)
  | pyNone
  | bytes
deriving Repr

/-- the `dialect` argument: None, a class with `word_size` and `word_fmt`, anything else -/
inductive DialectArg where
  | none
  | cls (d : Dialect)
  | junk
deriving Repr

/-- `_validate_dialect` (eui/__init__.py:464-474) -/
def validateDialect (ver : Nat) : DialectArg → R Dialect
  | .none => .ok (defaultDialect ver)
  | .cls d => .ok d
  | .junk => .error .type_

/-- `_set_value` with `self._module` set (eui/__init__.py:444-456): a constructor call with an
    explicit version, and every assignment `e.value = …` to a live object -/
def setValueExplicit (ver : Nat) : CtorArg → R (Nat × Nat)
  | .addr (.str s) => setExplicitF ver (.str s)
  | .addr (.int n) =>
    if 0 ≤ n ∧ n ≤ (maxInt ver : Int) then .ok (ver, n.toNat) else raiseFmt n .addrFormat
  | .eui _ v d =>
    -- `int(value)` is `value._value`; the message of the rejection prints `repr(value)`, which is
    -- `str(value)` under value's dialect and may itself raise (IndexError, a too narrow dialect)
    if v ≤ maxInt ver then .ok (ver, v) else
      match intToStr d v with
      | .ok _ => .error .addrFormat
      | .error e => .error e
  | .float t => if 0 ≤ t ∧ t ≤ (maxInt ver : Int) then .ok (ver, t.toNat) else .error .addrFormat
  | .pyNone => .error .type_          -- int(None)
  | .bytes =>
    -- `_is_str(b'…')` holds: eui48.str_to_int lets the TypeError of `findall` escape,
    -- eui64.str_to_int turns it into AddrFormatError (strategy/eui64.py:151-156)
    if ver = 48 then .error .type_ else .error .addrFormat

/-- `_set_value` with `self._module` still None (eui/__init__.py:421-443): the first step is
    `eui48.str_to_int(value)`, which raises TypeError for anything that is not a str
    (strategy/eui48.py:178, the message prints `%r` of the value) -/
def setValueImplicit : CtorArg → R (Nat × Nat)
  | .addr (.str s) => setImplicitStr s
  | .addr (.int n) => raiseFmt n .type_
  | .eui .. => .error .type_
  | .float _ => .error .type_
  | .pyNone => .error .type_
  | .bytes => .error .type_

/-- the version / value part of `EUI(addr, version, dialect)` for an argument that is not an EUI
    object (eui/__init__.py:373-389): the version test, the default version of an integer, then
    `self.value = addr` -/
def ctorValue (a : CtorArg) (version : Option Int) : R (Nat × Nat) :=
  match version with
  | some k =>
    if k = 48 then setValueExplicit 48 a
    else if k = 64 then setValueExplicit 64 a
    else .error .value           -- 'unsupported EUI version %r': ValueError either way
  | none =>
    match a with
    | .addr (.int n) =>
      if 0 ≤ n ∧ n ≤ 0xffffffffffff then setValueExplicit 48 a
      else if 0xffffffffffff < n ∧ n ≤ 0xffffffffffffffff then setValueExplicit 64 a
      else setValueImplicit a
    | _ => setValueImplicit a

/-- `self.dialect = dialect` after the value has been set (eui/__init__.py:392): an exception of
    the value part comes first -/
def attachDialect (dia : DialectArg) : R (Nat × Nat) → R (Nat × Nat × Dialect)
  | .error e => .error e
  | .ok (ver, v) =>
    match validateDialect ver dia with
    | .error e => .error e
    | .ok d => .ok (ver, v, d)

/-- `EUI(addr, version, dialect)` → (version, value, dialect) (eui/__init__.py:344-392).
    Copy construction takes version, value AND dialect from the argument (the `dialect` argument
    is not looked at) and refuses a different explicit version with ValueError.  Otherwise: the
    version test, then the value, then the dialect — in that order. -/
def ctor (a : CtorArg) (version : Option Int) (dia : DialectArg) : R (Nat × Nat × Dialect) :=
  match a with
  | .eui ver v d =>
    match version with
    | some k => if k ≠ (ver : Int) then .error .value else .ok (ver, v, d)
    | none => .ok (ver, v, d)
  | _ => attachDialect dia (ctorValue a version)

/-! ## setters of a live object -/

/-- `e.value = x` on an object of version `ver`: `_module` is set, so the explicit branch of
    `_set_value` runs — no version detection, no integer fallback for strings; the version (and
    the dialect) stay as they are -/
def setValueLive (ver : Nat) (x : CtorArg) : R (Nat × Nat) := setValueExplicit ver x

/-- `e.dialect = x` (eui/__init__.py:476-477) -/
def setDialectLive (ver : Nat) (x : DialectArg) : R Dialect := validateDialect ver x

/-! ## comparison with any operand -/

/-- the right operand of a comparison: an EUI object, or anything else (which is handed to the
    constructor) -/
inductive Operand where
  | eui (ver v : Nat)
  | arg (a : CtorArg)
deriving Repr

/-- `a <op> other` with `a = EUI(v, version=ver)` (eui/__init__.py:569-639):
    `if not isinstance(other, EUI): try: other = self.__class__(other) except Exception: return
    NotImplemented`, then the comparison of the keys -/
def cmpWith (op : CmpOp) (ver v : Nat) : Operand → R Bool
  | .eui ver2 v2 => .ok (cmpOp op ver v ver2 v2)
  | .arg a =>
    match ctor a none .none with
    | .ok (ver2, v2, _) => .ok (cmpOp op ver v ver2 v2)
    | .error _ => notImplemented op

/-! ## `__getitem__` / `__setitem__`, every index and value kind -/

/-- an index: an int (a bool is one), a slice of ints / None, anything else (str, float, None,
    tuple …) -/
inductive IdxArg where
  | int (i : Int)
  | slice (a b c : Option Int)
  | other
deriving Repr

/-- an assigned value: an int, anything else -/
inductive ValArg where
  | int (x : Int)
  | other
deriving Repr

/-- the result of `e[idx]`: one word or a list of words -/
inductive Item where
  | word (x : Nat)
  | words (xs : List Nat)
deriving Repr, DecidableEq

/-- `EUI.__getitem__(idx)` (eui/__init__.py:523-540): int, slice, else TypeError (no message
    formats an int here) -/
def getItem (v : Nat) (d : Dialect) : IdxArg → R Item
  | .int i => (getIdx v d i).map .word
  | .slice a b c => (getSlice v d a b c).map .words
  | .other => .error .type_

/-- `EUI.__setitem__(idx, value)` (eui/__init__.py:542-563), the tests in the order of the code:
    slice → NotImplementedError; non-int index → TypeError; index out of `0 .. num_words-1` →
    IndexError (message `%d` of the index); non-int value → TypeError; value out of
    `0 .. 2^word_size-1` → IndexError (message `%d` of the value); then the assignment -/
def setItemAny (v : Nat) (d : Dialect) (idx : IdxArg) (val : ValArg) : R Nat :=
  match idx with
  | .slice .. => .error .notImpl
  | .other => .error .type_
  | .int i =>
    if ¬ (0 ≤ i ∧ i ≤ (d.numWords : Int) - 1) then raiseFmt i .index
    else match val with
      | .other => .error .type_
      | .int x =>
        if ¬ (0 ≤ x ∧ x ≤ (2 : Int) ^ d.wordSize - 1) then raiseFmt x .index
        else setItem v d i x

/-! ## the objects returned by eui64() / modified_eui64() -/

/-- `EUI.eui64()` as an object: `self.__class__(new_value, version=64)` — no dialect argument, so
    the result carries the default EUI-64 dialect whatever the receiver's dialect is -/
def eui64Obj (ver v : Nat) : R (Nat × Nat × Dialect) :=
  ctor (.addr (.int (eui64Value ver v))) (some 64) .none

/-- `EUI.modified_eui64()` as an object: `eui64 = self.eui64(); eui64._value ^= 0x02…` -/
def modifiedEui64Obj (ver v : Nat) : R (Nat × Nat × Dialect) := do
  let (w, x, d) ← eui64Obj ver v
  pure (w, x ^^^ 0x0200000000000000, d)

end NV.Eui
