/-
Model/Text4.lean — MODELLED PLATFORM (DESIGN.md 3.1 / App. B): glibc `inet_aton`,
`inet_pton(AF_INET, ·)` as seen through CPython's `socket` module, and the dotted-quad
printer `'%d.%d.%d.%d'` used by `netaddr.strategy.ipv4.int_to_str`.

`str` is `List Char`.  The rules were validated against `socket.*` in the design round and are
re-validated by the platform ops `aton` / `pton4` of the C01 check on every run.
-/
import NetaddrVerif.Model.Basic
namespace NV.Text4

/-- `'%d' % n` for a non-negative int -/
def dec (n : Nat) : List Char := Nat.toDigits 10 n

/-- `'%d' % i` for any int -/
def showInt (i : Int) : List Char :=
  if i < 0 then '-' :: dec (-i).toNat else dec i.toNat

def isDec (c : Char) : Bool := '0' ≤ c && c ≤ '9'
def isOct (c : Char) : Bool := '0' ≤ c && c ≤ '7'
def isHexC (c : Char) : Bool := ('0' ≤ c && c ≤ '9') || ('a' ≤ c && c ≤ 'f') || ('A' ≤ c && c ≤ 'F')
/-- C `isspace` in the C locale -/
def isCSpace (c : Char) : Bool :=
  c == ' ' || c == '\t' || c == '\n' || c == '\r' || c == '\x0b' || c == '\x0c'

def hexVal (c : Char) : Nat :=
  if '0' ≤ c ∧ c ≤ '9' then c.toNat - 48
  else if 'a' ≤ c ∧ c ≤ 'f' then c.toNat - 87
  else c.toNat - 55

/-- positional value of a digit string already checked to be in the base's alphabet -/
def ofBase (b : Nat) (t : List Char) : Nat := t.foldl (fun a c => a * b + hexVal c) 0

/-- `netaddr.strategy.ipv4.int_to_str`: `'%d.%d.%d.%d' % (v >> 24, (v >> 16) & 0xff, (v >> 8) & 0xff, v & 0xff)` -/
def ntoa (v : Nat) : List Char :=
  ['.'].intercalate [dec (v >>> 24), dec ((v >>> 16) &&& 0xff), dec ((v >>> 8) &&& 0xff), dec (v &&& 0xff)]

/-- glibc `inet_pton4` octet rule: 1-3 decimal digits, no leading zero unless "0", value ≤ 255 -/
def octet (t : List Char) : Option Nat :=
  if 1 ≤ t.length ∧ t.length ≤ 3 ∧ t.all isDec ∧ (t.length = 1 ∨ t.head? ≠ some '0') then
    let v := ofBase 10 t
    if v ≤ 255 then some v else none
  else none

/-- `socket.inet_pton(AF_INET, s)`: exactly four strict decimal octets, nothing else
    (`none` = OSError / ValueError). -/
def pton4 (s : List Char) : Option Nat :=
  match s.splitOn '.' with
  | [a, b, c, d] =>
    match octet a, octet b, octet c, octet d with
    | some a, some b, some c, some d => some (a * 16777216 + b * 65536 + c * 256 + d)
    | _, _, _, _ => none
  | _ => none

/-- `strtoul(cp, &endp, 0)` on a string that starts with a decimal digit: value and rest.
    `0x`/`0X` + hex digits; a bare `0x` reads as `0` and stops at the `x`; leading `0` octal
    (stops at the first non-octal digit); else decimal. -/
def strtoul (s : List Char) : Nat × List Char :=
  match s with
  | '0' :: x :: r =>
    if x == 'x' || x == 'X' then
      let ds := r.takeWhile isHexC
      if ds.isEmpty then (0, x :: r) else (ofBase 16 ds, r.dropWhile isHexC)
    else (ofBase 8 (s.takeWhile isOct), s.dropWhile isOct)
  | '0' :: r => (0, r.dropWhile isOct)
  | _ => (ofBase 10 (s.takeWhile isDec), s.dropWhile isDec)

/-- the part loop of glibc `inet_aton`; `parts` are the non-last parts read so far.
    Returns the non-last parts and the last value.  At most four parts, so fuel 4 never runs out. -/
def atonLoop : Nat → List Char → List Nat → Option (List Nat × Nat)
  | 0, _, _ => none
  | fuel + 1, s, parts =>
    match s with
    | [] => none
    | c :: _ =>
      if !isDec c then none else
      let (val, rest) := strtoul s
      if val > 0xffffffff then none else
      match rest with
      | [] => some (parts, val)
      | c' :: rest' =>
        if c' == '.' then
          if parts.length ≥ 3 || val > 255 then none else atonLoop fuel rest' (parts ++ [val])
        else if isCSpace c' then some (parts, val) else none

/-- `socket.inet_aton(s)` as an integer (`none` = OSError / ValueError).  An embedded NUL is
    refused by CPython's argument conversion. -/
def aton (s : List Char) : Option Nat :=
  if s.any (fun c => c.toNat == 0) then none else
  match atonLoop 4 s [] with
  | none => none
  | some (parts, val) =>
    let maxLast := match parts.length with
      | 0 => 0xffffffff | 1 => 0xffffff | 2 => 0xffff | _ => 0xff
    if val > maxLast then none else
    let hi := match parts with
      | [] => 0
      | [a] => a <<< 24
      | [a, b] => (a <<< 24) ||| (b <<< 16)
      | a :: b :: c :: _ => (a <<< 24) ||| (b <<< 16) ||| (c <<< 8)
    some (hi ||| val)

end NV.Text4
