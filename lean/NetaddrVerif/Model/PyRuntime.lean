/-
Model/PyRuntime.lean — the parts of the CPython runtime the netaddr code leans on, as small
total functions (MODELLED RUNTIME, DESIGN.md 3.1/4.3; validated against CPython by the
platform ops `pyint`, `pyslice` in every check that depends on them).
-/
import NetaddrVerif.Model.Basic
namespace NV.Py

def isWs (c : Char) : Bool := c == ' ' || c == '\t' || c == '\n' || c == '\r' || c == '\x0b' || c == '\x0c'

def stripWs (s : List Char) : List Char :=
  ((s.dropWhile isWs).reverse.dropWhile isWs).reverse

/-- value of an ASCII digit in the given base (2, 8, 10, 16), none if not a digit of it -/
def digitVal (base : Nat) (c : Char) : Option Nat :=
  let v : Option Nat :=
    if '0' ≤ c ∧ c ≤ '9' then some (c.toNat - '0'.toNat)
    else if 'a' ≤ c ∧ c ≤ 'f' then some (c.toNat - 'a'.toNat + 10)
    else if 'A' ≤ c ∧ c ≤ 'F' then some (c.toNat - 'A'.toNat + 10)
    else none
  match v with
  | some d => if d < base then some d else none
  | none => none

/-- digits with single underscores allowed only between digits -/
def digitsVal (base : Nat) : List Char → Nat → Bool → Option Nat
  | [], acc, prevDigit => if prevDigit then some acc else none
  | c :: t, acc, prevDigit =>
    if c == '_' then (if prevDigit && !t.isEmpty then digitsVal base t acc false else none)
    else match digitVal base c with
      | some d => digitsVal base t (acc * base + d) true
      | none => none

/-- CPython `int(s, base)` for `base ∈ {2, 8, 10, 16}` on ASCII input: strip whitespace,
    optional sign, optional `0b/0o/0x` prefix (bases 2/8/16; may be followed by one `_`),
    digits with single `_` between digits.  `none` = ValueError. -/
def pyInt (base : Nat) (s : List Char) : Option Int :=
  if s.any (fun c => c.toNat > 127) then none else
  let t := stripWs s
  match t with
  | [] => none
  | c :: r =>
    let (neg, t) := if c == '+' then (false, r) else if c == '-' then (true, r) else (false, t)
    let pref : List Char := if base = 2 then ['b', 'B'] else if base = 8 then ['o', 'O']
      else if base = 16 then ['x', 'X'] else []
    let t := match t with
      | '0' :: p :: r' => if pref.contains p then (match r' with | '_' :: r'' => r'' | _ => r') else t
      | _ => t
    match t with
    | [] => none
    | _ => match digitsVal base t 0 false with
      | some v => some (if neg then -(v : Int) else v)
      | none => none

/-- `slice(a, b, c).indices(n)`; `none` step 0 (ValueError) -/
def sliceIndices (start stop step : Option Int) (n : Nat) : Option (Int × Int × Int) :=
  let len : Int := n
  let st : Int := step.getD 1
  if st = 0 then none else
  let (lower, upper) : Int × Int := if st < 0 then (-1, len - 1) else (0, len)
  let clamp (x : Int) : Int :=
    if x < 0 then (if x + len < lower then lower else x + len)
    else (if x > upper then upper else x)
  let s : Int := match start with
    | none => if st < 0 then upper else lower
    | some x => clamp x
  let e : Int := match stop with
    | none => if st < 0 then lower else upper
    | some x => clamp x
  some (s, e, st)

/-- `list(range(start, stop, step))` (step ≠ 0) -/
def pyRange (start stop step : Int) : List Int :=
  if step > 0 then
    if start ≥ stop then [] else
      let cnt := ((stop - start + step - 1) / step).toNat
      (List.range cnt).map (fun (i : Nat) => start + step * (i : Int))
  else if step < 0 then
    if start ≤ stop then [] else
      let cnt := ((start - stop + (-step) - 1) / (-step)).toNat
      (List.range cnt).map (fun (i : Nat) => start + step * (i : Int))
  else []

end NV.Py
