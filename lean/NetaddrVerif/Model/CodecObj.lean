/-
Model/CodecObj.lean — C15 (audit round 2, finding 8): the object-level accessors of `IPAddress`
(netaddr/ip/__init__.py:519-560) as they are written: each one hands `self._value` to the strategy module
`self._module` (ipv4 / ipv6) and returns what the strategy function returns.

    __bytes__    self._value.to_bytes(self._module.width//8, 'big')
    bits(sep)    self._module.int_to_bits(self._value, word_sep)
    packed       self._module.int_to_packed(self._value)
    words        self._module.int_to_words(self._value)
    bin          self._module.int_to_bin(self._value)
    reverse_dns  self._module.int_to_arpa(self._value)

`a.ver = 4` selects `netaddr.strategy.ipv4`, anything else `netaddr.strategy.ipv6` (an `IPAddress` has one of the
two).  The EUI accessors are `Eui.words / packed / bits` (Model/Eui.lean, C08).  Core Lean only.
-/
import NetaddrVerif.Model.Codec
namespace NV.Codec.IPObj
open NV NV.Codec

/-- `self._module.width` -/
def modWidth (a : Addr) : Nat := if a.ver = 4 then V4.width else V6.width

/-- `IPAddress.__bytes__` -/
def bytes (a : Addr) : R (List Nat) := toBytes (modWidth a / 8) a.val

/-- `IPAddress.bits(word_sep=None)` -/
def bits (a : Addr) (sep : Option (List Char)) : R (List Char) :=
  if a.ver = 4 then V4.intToBits a.val sep else V6.intToBits a.val sep

/-- `IPAddress.packed` -/
def packed (a : Addr) : R (List Nat) :=
  if a.ver = 4 then V4.intToPacked a.val else V6.intToPacked a.val

/-- `IPAddress.words` -/
def words (a : Addr) : R (List Nat) :=
  if a.ver = 4 then V4.intToWords a.val else V6.intToWords a.val

/-- `IPAddress.bin` (`int_to_bin(int_val)` of either module is `_int_to_bin(int_val, width)`) -/
def bin (a : Addr) : R (List Char) := intToBin a.val (modWidth a)

/-- `IPAddress.reverse_dns` -/
def reverseDns (a : Addr) : R (List Char) :=
  if a.ver = 4 then V4.intToArpa a.val else V6.intToArpa a.val

end NV.Codec.IPObj
