/-
Model/Summarise.lean — the thin callers of `iprange_to_cidrs` / `cidr_merge` that property C05
names: `IPRange.cidrs()`, `glob_to_cidrs` (after `glob_to_iptuple` has decoded the four octets;
the glob grammar itself is C17's), `iter_unique_ips`.  Executable, core Lean only.
-/
import NetaddrVerif.Model.Cidr
namespace NV.Summ
open NV

/-- `IPRange.cidrs()`: `iprange_to_cidrs(self._start, self._end)`; the two `IPAddress`
    arguments become `/width` networks inside `iprange_to_cidrs` (`IPNetwork(start)`) -/
def rangeCidrs (r : Rng) : List Net :=
  let w := width r.ver
  (iprangeToCidrs w ⟨r.lo, w⟩ ⟨r.hi, w⟩).map (fun b => ⟨r.ver, b.val, b.plen⟩)

/-- `IPAddress('.'.join(tokens))` of four decimal octets -/
def octetsToInt (os : List Nat) : Nat := os.foldl (fun acc o => acc * 256 + o) 0

/-- `glob_to_cidrs(ipglob)` = `iprange_to_cidrs(*glob_to_iptuple(ipglob))`, on the decoded
    `(start_token, end_token)` pair of every octet (`*` → (0,255), `x-y` → (x,y), `n` → (n,n)) -/
def globToCidrs (os : List (Nat × Nat)) : List Net :=
  rangeCidrs ⟨4, octetsToInt (os.map (·.1)), octetsToInt (os.map (·.2))⟩

/-- `for ip in cidr` (`IPNetwork.__iter__` → `iter_iprange(first, last)`) -/
def netAddrs (n : Net) : List Addr :=
  (List.range (n.last - n.first + 1)).map (fun i => ⟨n.ver, n.first + i⟩)

/-- `iter_unique_ips(*args)`: `for cidr in cidr_merge(args): for ip in cidr: yield ip` -/
def iterUniqueIps (items : List MItem) : List Addr := (cidrMerge items).flatMap netAddrs

end NV.Summ
