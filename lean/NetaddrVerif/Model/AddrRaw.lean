/-
Model/AddrRaw.lean — additions to the C01 model (Model/AddrParse.lean is shared with C03, C17,
Glue/Coerce and stays as it is).

1.  A RAW-EXCEPTION model of `strategy.ipv4/ipv6.str_to_int`, `valid_str` and of
    `IPAddress.__init__` for string arguments.  In Model/AddrParse.lean the platform calls are
    `Option`-valued and `strToInt4/6` can only answer `.addrFormat`, so "a rejected address
    string raises AddrFormatError" is true by construction there.  In the Python the class is the
    RESULT of try/except structure:

      strategy/ipv4.py:119-127   try: [ZEROFILL rewrite]; return unpack(_inet_pton / _inet_aton)
                                 except Exception: raise AddrFormatError
      strategy/ipv6.py:138-142   try: packed = _inet_pton(AF_INET6, addr); return packed_to_int(packed)
                                 except Exception: raise AddrFormatError
      ip/__init__.py:310-317     for module in _ipv4, _ipv6:
                                     try: self._value = module.str_to_int(addr, flags)
                                     except: continue
                                     else: self._module = module; break
      ip/__init__.py:323-327     try: self._value = self._module.str_to_int(addr, flags)
                                 except AddrFormatError: raise AddrFormatError(...)

    Here the platform / runtime calls fail with THEIR OWN exception kinds (`Exn`: OSError from
    glibc, ValueError from `int()` / an embedded NUL / fbsocket, struct.error, TypeError, …), and
    `tryExcept` with an explicit `Clause` (`except:`, `except Exception:`, `except C:`) is what
    turns them into AddrFormatError.  A body with a statement outside the `try` (the shape of
    `str_to_int` before `fix: ZEROFILL preprocessing raised ValueError …`, `strToInt4RawPreFix`)
    is expressible and lets ValueError escape.

2.  `valid_str` of both strategy modules transcribed on its own, statement by statement
    (strategy/ipv4.py:96-111, ipv6.py:122-127): the Python has a second copy of the parsing
    statements there (a `validity` flag, the parsed value discarded, `except Exception` in ipv4
    but a bare `except:` in ipv6), not a call of `str_to_int`.

3.  The two import-time back-end choices (strategy/ipv4.py:13-19 on `sys.platform`,
    strategy/ipv6.py:14-26 on `socket.has_ipv6` …) as two independent parameters `be4 be6`.

4.  `IPAddress.format(dialect)` (ip/__init__.py:612-624).
-/
import NetaddrVerif.Model.AddrParse
namespace NV.AddrRaw
open NV NV.Text4 NV.AddrParse

/-! ### exceptions, `except` clauses, `try` -/

/-- the exception classes that can arise inside the parsing code.  No modelled class is a
    subclass of another modelled class (`AddrFormatError(Exception)`, netaddr/core.py:28;
    `struct.error(Exception)`; UnicodeError is counted with ValueError, its base). -/
inductive Exn where
  /-- `OSError` (= `socket.error`): glibc `inet_aton` / `inet_pton` refused the text -/
  | osError
  /-- `ValueError`: `int()` on a bad token, an embedded NUL in a socket call, every refusal of
      `netaddr.fbsocket.inet_pton`, and the `raise ValueError` statements of `IPAddress.__init__` -/
  | valueError
  /-- `struct.error` (`_struct.unpack` on a packed string of the wrong length) -/
  | structError
  /-- `TypeError` -/
  | typeError
  /-- `netaddr.core.AddrFormatError` -/
  | addrFormat
  /-- a `BaseException` that is not an `Exception` (KeyboardInterrupt, SystemExit, GeneratorExit) -/
  | baseOnly
deriving DecidableEq, Repr, Inhabited

/-- `issubclass(·, Exception)` -/
def Exn.isException : Exn → Bool
  | .baseOnly => false
  | _ => true

/-- protocol tag, spelled as the harness names exception classes -/
def Exn.tag : Exn → String
  | .osError => "other:OSError"
  | .valueError => "value"
  | .structError => "other:error"
  | .typeError => "type"
  | .addrFormat => "addrFormat"
  | .baseOnly => "base"

/-- the header of an `except` clause -/
inductive Clause where
  /-- `except:` -/
  | bare
  /-- `except Exception:` -/
  | exception
  /-- `except C:` for one modelled class `C` -/
  | cls (c : Exn)
deriving DecidableEq, Repr

def Clause.catches : Clause → Exn → Bool
  | .bare, _ => true
  | .exception, e => e.isException
  | .cls c, e => c == e

/-- a Python expression / block: a value or a raised exception -/
abbrev X (α : Type) := Except Exn α

/-- `try: body` / `except <clause>: handler` — an exception the clause does not name propagates -/
def tryExcept {α : Type} (body : X α) (c : Clause) (handler : Exn → X α) : X α :=
  match body with
  | .ok a => .ok a
  | .error e => if c.catches e then handler e else .error e

/-! ### the platform / runtime calls, with their own failures -/

/-- the calls the parsing code makes into the platform and the runtime.  Packed byte strings are
    carried as the integer they encode, so `aton s` stands for
    `_struct.unpack('>I', _inet_aton(s))[0]` etc.; whatever the call sequence raises is the
    `.error`. -/
structure RawPlatform where
  /-- `socket.inet_aton` (bound in strategy/ipv4.py:11 in both configurations) -/
  aton : List Char → X Nat
  /-- `_inet_pton(AF_INET, ·)` of strategy/ipv4.py under the IPv4 back-end choice -/
  pton4 : Backend → List Char → X Nat
  /-- `_inet_pton(AF_INET6, ·)` of strategy/ipv6.py under the IPv6 back-end choice -/
  pton6 : Backend → List Char → X Nat
  /-- `int(i)` on a `str` -/
  pyInt : List Char → X Int

/-- a raw result agrees with an `Option`-valued model: same value on success; on failure SOME
    exception, of a class below `Exception` -/
def Agrees {α : Type} (r : X α) (o : Option α) : Prop :=
  match o with
  | some v => r = .ok v
  | none => ∃ e, r = .error e ∧ e.isException = true

/-- the only thing the theorems need of a platform: it succeeds exactly where the `Option` models
    of Model/Text4, Text6, FbSocket, PyRuntime succeed, with the same values, and what it raises
    otherwise is an `Exception` (any class) -/
structure RawPlatform.Sane (P : RawPlatform) : Prop where
  aton : ∀ s, Agrees (P.aton s) (Text4.aton s)
  pton4 : ∀ be s, Agrees (P.pton4 be s) (inetPton4 be s)
  pton6 : ∀ be s, Agrees (P.pton6 be s) (inetPton6 be s)
  pyInt : ∀ s, Agrees (P.pyInt s) (Py.pyInt 10 s)

/-- CPython's argument conversion refuses an embedded NUL with ValueError before glibc sees the
    text; everything else glibc refuses is OSError -/
def hasNul (s : List Char) : Bool := s.any (fun c => c.toNat == 0)

def glibcFailure (s : List Char) : Exn := if hasNul s then .valueError else .osError

/-- the platform as it is observed on CPython 3 / glibc: socket functions raise OSError
    (ValueError on an embedded NUL), `netaddr.fbsocket.inet_pton` raises ValueError
    (fbsocket.py:113-142, 152-200: one `invalid_addr = ValueError(...)`), `int()` raises
    ValueError.  The driver op `raw_call` ties the success values and the fact that every failure
    is a class below `Exception` (all that `Sane` asks); WHICH class is an observation recorded
    here, not a clause of the property, and no theorem depends on it. -/
def std : RawPlatform where
  aton s := match Text4.aton s with
    | some v => .ok v
    | none => .error (glibcFailure s)
  pton4 be s := match be with
    | .platform => (match Text4.pton4 s with
      | some v => .ok v
      | none => .error (glibcFailure s))
    | .fallback => (match FbSocket.pton4 s with
      | some v => .ok v
      | none => .error .valueError)
  pton6 be s := match be with
    | .platform => (match Text6.pton6 s with
      | some v => .ok v
      | none => .error (glibcFailure s))
    | .fallback => (match FbSocket.pton6 s with
      | some v => .ok v
      | none => .error .valueError)
  pyInt s := match Py.pyInt 10 s with
    | some i => .ok i
    | none => .error .valueError

/-! ### `strategy.ipv4`, statement by statement -/

/-- `'.'.join(['%d' % int(i) for i in addr.split('.')])`: the first `int()` that fails raises -/
def zerofillRaw (P : RawPlatform) (addr : List Char) : X (List Char) := do
  let ts ← (addr.splitOn '.').mapM (fun i => do let n ← P.pyInt i; pure (showInt n))
  pure (['.'].intercalate ts)

/-- the statements inside the `try` of `strategy.ipv4.str_to_int` (ipv4.py:120-125) -/
def strToInt4Body (P : RawPlatform) (be4 : Backend) (addr : List Char) (flags : Nat) : X Nat := do
  -- if flags & ZEROFILL: addr = '.'.join(['%d' % int(i) for i in addr.split('.')])
  let addr ← (if hasFlag flags ZEROFILL then zerofillRaw P addr else pure addr)
  -- if flags & INET_PTON: return _struct.unpack('>I', _inet_pton(AF_INET, addr))[0]
  if hasFlag flags INET_PTON then P.pton4 be4 addr
  -- else: return _struct.unpack('>I', _inet_aton(addr))[0]
  else P.aton addr

/-- `strategy.ipv4.str_to_int(addr, flags)` (ipv4.py:119-127):
    `try: <body>` / `except Exception: raise AddrFormatError(...)` -/
def strToInt4Raw (P : RawPlatform) (be4 : Backend) (addr : List Char) (flags : Nat) : X Nat :=
  tryExcept (strToInt4Body P be4 addr flags) .exception (fun _ => .error .addrFormat)

/-- the shape of `str_to_int` BEFORE `fix: ZEROFILL preprocessing raised ValueError instead of
    AddrFormatError` (commit 9ff219d of /repo): the rewrite stood in front of the `try` -/
def strToInt4RawPreFix (P : RawPlatform) (be4 : Backend) (addr : List Char) (flags : Nat) : X Nat := do
  let addr ← (if hasFlag flags ZEROFILL then zerofillRaw P addr else pure addr)
  tryExcept (if hasFlag flags INET_PTON then P.pton4 be4 addr else P.aton addr) .exception
    (fun _ => .error .addrFormat)

/-- `strategy.ipv4.valid_str(addr, flags)` (ipv4.py:96-111), its own copy of the statements -/
def validStr4Raw (P : RawPlatform) (be4 : Backend) (addr : List Char) (flags : Nat) : X Bool :=
  -- if addr == '': raise AddrFormatError('Empty strings are not supported!')
  if addr == [] then .error .addrFormat else
  -- validity = True
  let validity := true
  -- try: … except Exception: validity = False
  tryExcept (do
      let addr ← (if hasFlag flags ZEROFILL then zerofillRaw P addr else pure addr)
      if hasFlag flags INET_PTON then
        let _ ← P.pton4 be4 addr       -- _inet_pton(AF_INET, addr): value dropped
        pure validity
      else
        let _ ← P.aton addr            -- _inet_aton(addr): value dropped
        pure validity)
    .exception (fun _ => pure false)
  -- return validity

/-! ### `strategy.ipv6` -/

/-- `strategy.ipv6.str_to_int(addr, flags)` (ipv6.py:138-142; `flags` unused):
    `try: packed_int = _inet_pton(AF_INET6, addr); return packed_to_int(packed_int)` /
    `except Exception: raise AddrFormatError(...)` -/
def strToInt6Raw (P : RawPlatform) (be6 : Backend) (addr : List Char) (_flags : Nat) : X Nat :=
  tryExcept (P.pton6 be6 addr) .exception (fun _ => .error .addrFormat)

/-- `strategy.ipv6.valid_str(addr, flags)` (ipv6.py:122-127): a bare `except:` here -/
def validStr6Raw (P : RawPlatform) (be6 : Backend) (addr : List Char) : X Bool :=
  -- if addr == '': raise AddrFormatError('Empty strings are not supported!')
  if addr == [] then .error .addrFormat else
  -- try: _inet_pton(AF_INET6, addr) / except: return False / return True
  tryExcept (do let _ ← P.pton6 be6 addr; pure true) .bare (fun _ => pure false)

/-! ### `IPAddress.__init__` for a `str` argument (ip/__init__.py:284-327) -/

/-- `IPAddress(addr, version, flags)` over two given `str_to_int` functions (`_ipv4.str_to_int`,
    `_ipv6.str_to_int`), so that other shapes of them can be plugged in -/
def ipAddressRawOf (s2i4 s2i6 : List Char → Nat → X Nat) (addr : List Char) (version : Option Nat)
    (flags : Nat) : X Addr := do
  -- if version is not None: 4 -> _ipv4, 6 -> _ipv6, else: raise ValueError
  let module : Option Nat ← match version with
    | none => pure none
    | some ver => if ver = 4 then pure (some 4) else if ver = 6 then pure (some 6) else .error .valueError
  -- if _is_str(addr) and '/' in addr: raise ValueError
  if addr.contains '/' then .error .valueError else
  match module with
  | none =>
    -- for module in _ipv4, _ipv6: try: self._value = module.str_to_int(addr, flags)
    --                             except: continue
    --                             else: self._module = module; break
    -- if self._module is None: raise AddrFormatError
    tryExcept (do let v ← s2i4 addr flags; pure (⟨4, v⟩ : Addr)) .bare (fun _ =>
      tryExcept (do let v ← s2i6 addr flags; pure (⟨6, v⟩ : Addr)) .bare (fun _ =>
        .error .addrFormat))
  | some ver =>
    -- try: self._value = self._module.str_to_int(addr, flags)
    -- except AddrFormatError: raise AddrFormatError('base address %r is not IPv%d' …)
    tryExcept (do let v ← (if ver = 4 then s2i4 else s2i6) addr flags; pure (⟨ver, v⟩ : Addr))
      (.cls .addrFormat) (fun _ => .error .addrFormat)

/-- `IPAddress(addr, version, flags)` with the code as it is now -/
def ipAddressRaw (P : RawPlatform) (be4 be6 : Backend) (addr : List Char) (version : Option Nat)
    (flags : Nat) : X Addr :=
  ipAddressRawOf (strToInt4Raw P be4) (strToInt6Raw P be6) addr version flags

/-! ### the `Option`-level model with two back-end switches -/

/-- `module.str_to_int` with the IPv4 and the IPv6 back end chosen independently -/
def strToInt2 (be4 be6 : Backend) (ver : Nat) (addr : List Char) (flags : Nat) : R Nat :=
  if ver = 4 then strToInt4 be4 addr flags else strToInt6 be6 addr flags

/-- `AddrParse.ipAddress` with the two import-time choices as separate parameters:
    `be4` = strategy/ipv4.py:13-19 (`sys.platform in ('win32', 'cygwin')`), `be6` =
    strategy/ipv6.py:14-26 (`socket.has_ipv6`, presence of `inet_pton` / `AF_INET6`) -/
def ipAddress2 (be4 be6 : Backend) (addr : List Char) (version : Option Nat) (flags : Nat) : R Addr :=
  match version with
  | some ver =>
    if ver ≠ 4 ∧ ver ≠ 6 then .error .value
    else if addr.contains '/' then .error .value
    else match strToInt2 be4 be6 ver addr flags with
      | .ok v => .ok ⟨ver, v⟩
      | .error _ => .error .addrFormat
  | none =>
    if addr.contains '/' then .error .value
    else match strToInt4 be4 addr flags with
      | .ok v => .ok ⟨4, v⟩
      | .error _ =>
        match strToInt6 be6 addr flags with
        | .ok v => .ok ⟨6, v⟩
        | .error _ => .error .addrFormat

/-- how the `Err`-level results of Model/AddrParse.lean read as exception classes: `.value` is
    ValueError, every other error of these functions is AddrFormatError -/
def liftR {α : Type} : R α → X α
  | .ok a => .ok a
  | .error .value => .error .valueError
  | .error _ => .error .addrFormat

/-! ### `IPAddress.format(dialect)` (ip/__init__.py:612-624) -/

/-- the `dialect` argument, by the attributes the code looks at -/
inductive FmtArg where
  /-- `None` -/
  | none
  /-- `ipv6_compact`, `ipv6_full`, `ipv6_verbose` (or a subclass that keeps their attributes) -/
  | dialect (d : Dialect)
  /-- an object without a `word_fmt` attribute (`object`, a string, an int, …) -/
  | noWordFmt
  /-- an object with `word_fmt` but without `compact` (the EUI dialects `mac_unix`, …) -/
  | wordFmtOnly
deriving DecidableEq, Repr

/-- `hasattr(dialect, 'word_fmt')` -/
def FmtArg.hasWordFmt : FmtArg → Bool
  | .dialect _ => true
  | .wordFmtOnly => true
  | _ => false

/-- `strategy.ipv6.int_to_str(int_val, dialect)` (ipv6.py:154-173) for `0 ≤ int_val ≤ max_int`:
    `if dialect is None: dialect = ipv6_compact`; reading `dialect.compact` inside the `try`
    raises AttributeError on an object without it, which `except Exception` turns into ValueError -/
def intToStr6Arg (be6 : Backend) (d : FmtArg) (v : Nat) : R (List Char) :=
  match d with
  | .none => .ok (intToStr6 be6 .compact v)
  | .dialect d => .ok (intToStr6 be6 d v)
  | _ => .error .value

/-- `ip.format(dialect)` for an `IPAddress` with `0 ≤ _value ≤ max_int` -/
def ipFormat (be6 : Backend) (a : Addr) (d : FmtArg) : R (List Char) :=
  -- if dialect is not None: if not hasattr(dialect, 'word_fmt'): raise TypeError
  if d ≠ .none ∧ d.hasWordFmt = false then .error .type_
  -- return self._module.int_to_str(self._value, dialect=dialect)
  else if a.ver = 4 then .ok (Text4.ntoa a.val)      -- ipv4.int_to_str: "dialect: (unused)"
  else intToStr6Arg be6 d a.val

end NV.AddrRaw
