import Lean.Meta.Tactic.Simp.RegisterCommand
/-
Model/TieAttr.lean — the simp set `tie_unfold`: every non-recursive definition of the generated
`Gen/Trans.lean` is tagged with it, so the proofs of `Props/Tie.lean` unfold "whatever the
current source text calls" instead of naming helper functions (a harmless rewrite that moves an
expression into or out of a helper keeps the tie theorems provable).
-/
register_simp_attr tie_unfold
