/-
Model/Subnet.lean — `IPNetwork.subnet / supernet / next / previous / __iadd__ / __isub__ /
iter_hosts` of netaddr/ip/__init__.py as written (C11).  Executable, core Lean only.

Python ints that can go negative (`num`, `step`, `prefixlen`, `count`, `new_value`) are `Int`;
the stored value stays a `Nat` behind the code's own guards.
-/
import NetaddrVerif.Model.Network
namespace NV.Subnet
open NV

/-- `IPNetwork.__iadd__`:
    `new_value = int(self.network) + (self.size * num)`;
    `if (new_value + (self.size - 1)) > max_int: IndexError`; `if new_value < 0: IndexError`;
    `self._value = new_value` -/
def iadd (n : Net) (num : Int) : R Net :=
  let w := width n.ver
  let size : Int := (netSize w n.val n.plen : Nat)
  let newValue : Int := (netNetwork w n.val n.plen : Nat) + size * num
  if newValue + (size - 1) > (maxInt n.ver : Nat) then .error .index
  else if newValue < 0 then .error .index
  else .ok { n with val := newValue.toNat }

/-- `IPNetwork.__isub__`: same with `-`, the two guards in the opposite order -/
def isub (n : Net) (num : Int) : R Net :=
  let w := width n.ver
  let size : Int := (netSize w n.val n.plen : Nat)
  let newValue : Int := (netNetwork w n.val n.plen : Nat) - size * num
  if newValue < 0 then .error .index
  else if newValue + (size - 1) > (maxInt n.ver : Nat) then .error .index
  else .ok { n with val := newValue.toNat }

/-- `self.__class__('%s/%d' % (self.network, self.prefixlen), version)`: a fresh object whose
    value is the network address (the text round trip of the address is C01/C03's subject) -/
def netCopy (n : Net) : Net := ⟨n.ver, netNetwork (width n.ver) n.val n.plen, n.plen⟩

/-- `IPNetwork.next(step)`: `ip_copy += step` on the copy; the receiver is not touched -/
def next (n : Net) (step : Int) : R Net := iadd (netCopy n) step
/-- `IPNetwork.previous(step)` -/
def previous (n : Net) (step : Int) : R Net := isub (netCopy n) step

/-- a live object under `n += k` / `n -= k`: a raising statement leaves the object as it was -/
def stepIadd (n : Net) (k : Int) : Net × Option Err :=
  match iadd n k with
  | .ok n' => (n', none)
  | .error e => (n, some e)
def stepIsub (n : Net) (k : Int) : Net × Option Err :=
  match isub n k with
  | .ok n' => (n', none)
  | .error e => (n, some e)

/-- the loop of `supernet`: `while supernet._prefixlen != self._prefixlen:
    supernets.append(supernet.cidr); supernet._prefixlen += 1`.
    `v` is the value of the host-bit-free copy, `cur` its running `_prefixlen`.  When `cur`
    passes the width, `.cidr` evaluates `1 << (width - prefixlen)` with a negative count:
    ValueError. -/
def supernetLoop (ver w v p : Nat) (cur : Nat) (acc : List Net) : R (List Net) :=
  if cur = p then .ok acc
  else if _h : cur > w then .error .value
  else supernetLoop ver w v p (cur + 1) (acc ++ [netCidr ⟨ver, v, cur⟩])
termination_by w + 1 - cur

/-- `IPNetwork.supernet(prefixlen)` -/
def supernet (n : Net) (q : Int) : R (List Net) :=
  if ¬ (0 ≤ q ∧ q ≤ (width n.ver : Nat)) then .error .value
  else supernetLoop n.ver (width n.ver) (netCidr n).val n.plen q.toNat []

/-- `max_subnets = 2 ** (width - self.prefixlen) // 2 ** (width - prefixlen)`
    (for `prefixlen > width` Python computes with a float `2 ** negative`; the quotient is
    then `2 ** (width - self.prefixlen) * 2 ** (prefixlen - width)`) -/
def maxSubnets (w p q : Nat) : Nat :=
  if q ≤ w then 2 ^ (w - p) / 2 ^ (w - q) else 2 ^ (w - p) * 2 ^ (q - w)

/-- the checks of `subnet` before its loop: `none` = "don't return anything",
    `some count` = number of blocks the loop will yield -/
def subnetCount (n : Net) (q : Int) (count : Option Int) : R (Option Nat) :=
  let w := width n.ver
  if ¬ (0 ≤ (n.plen : Int) ∧ n.plen ≤ w) then .error .value
  else if ¬ ((n.plen : Int) ≤ q) then .ok none
  else
    let maxS : Int := (maxSubnets w n.plen q.toNat : Nat)
    let c : Int := count.getD maxS          -- `if count is None: count = max_subnets`
    if ¬ (1 ≤ c ∧ c ≤ maxS) then .error .value
    else .ok (some c.toNat)

/-- one turn of the loop: `subnet = IPNetwork('%s/%d' % (base_subnet, prefixlen))`
    (AddrFormatError when the prefix is beyond the width);
    `subnet.value += subnet.size * i` (the value setter's range guard);
    `subnet.prefixlen = prefixlen` -/
def subnetItem (n : Net) (q i : Nat) : R Net :=
  let w := width n.ver
  if q > w then .error .addrFormat
  else
    let base := netFirst w n.val n.plen
    let nv := base + netSize w base q * i
    if nv ≤ maxInt n.ver then .ok ⟨n.ver, nv, q⟩ else .error .addrFormat

/-- `while i < count: … i += 1; yield subnet` -/
def subnetLoop (n : Net) (q count : Nat) (i : Nat) (acc : List Net) : R (List Net) :=
  if _h : i < count then
    match subnetItem n q i with
    | .ok s => subnetLoop n q count (i + 1) (acc ++ [s])
    | .error e => .error e
  else .ok acc
termination_by count - i

/-- `list(itertools.islice(n.subnet(prefixlen, count), limit))`: the generator run for at most
    `limit` items (what the driver and the harness can afford for huge counts).
    `subnet` is a generator function (ip/__init__.py:1295-1334): NOTHING of its body runs before
    the first `next()`, not even the argument checks, and `islice(gen, 0)` never calls `next()` —
    so with `limit = 0` the answer is `[]` whatever the arguments (audit 2b finding 2; the
    checks used to be evaluated at limit 0 too). -/
def subnetTake (n : Net) (q : Int) (count : Option Int) (limit : Nat) : R (List Net) :=
  if limit = 0 then .ok []
  else
    match subnetCount n q count with
    | .error e => .error e
    | .ok none => .ok []
    | .ok (some c) => subnetLoop n q.toNat (min c limit) 0 []

/-- `list(n.subnet(prefixlen, count))` -/
def subnet (n : Net) (q : Int) (count : Option Int) : R (List Net) :=
  match subnetCount n q count with
  | .error e => .error e
  | .ok none => .ok []
  | .ok (some c) => subnetLoop n q.toNat c 0 []

/-- the arguments `iter_hosts` hands to `iter_iprange` (`none` = `iter([])`) -/
def hostBounds (n : Net) : Option (Nat × Nat) :=
  let w := width n.ver
  let size := netSize w n.val n.plen
  let first := netFirst w n.val n.plen
  let last := netLast w n.val n.plen
  if n.ver = 4 then
    if size ≥ 4 then some (first + 1, last - 1) else some (first, last)
  else
    if size ≥ 2 then some (first + 1, last) else none

/-- `iter_iprange(start, end)` with the default step 1:
    `index = start - 1; while True: index += 1; if not index <= stop: break; yield index`.
    At most `fuel` items (the generator is lazy; `hi + 1 - lo` turns exhaust it). -/
def iterRange (lo hi : Nat) : Nat → List Nat
  | 0 => []
  | fuel + 1 => if lo ≤ hi then lo :: iterRange (lo + 1) hi fuel else []

/-- `list(itertools.islice(n.iter_hosts(), limit))` -/
def hostsTake (n : Net) (limit : Nat) : List Nat :=
  match hostBounds n with
  | none => []
  | some (lo, hi) => iterRange lo hi (min (hi + 1 - lo) limit)

/-- `list(n.iter_hosts())` -/
def iterHosts (n : Net) : List Nat :=
  match hostBounds n with
  | none => []
  | some (lo, hi) => iterRange lo hi (hi + 1 - lo)

end NV.Subnet
