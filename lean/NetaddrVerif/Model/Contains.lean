/-
Model/Contains.lean — `x in y` for the ranged IP objects and the CIDR matching helpers of
netaddr/ip/__init__.py, as written (C04; used by C18 for the table lookups).

* `IPNetwork.__contains__`  (shift-compare of the network bits; IPRange special case)
* `IPRange.__contains__`    (three operand kinds; `IPGlob` is a subclass of `IPRange` and
                             inherits it, so a glob is an `Rng` here)
* `IPListMixin.__contains__` (generic first/last comparison; overridden by both concrete
                             classes, reachable as `IPListMixin.__contains__(y, x)`)
* `all_matching_cidrs`, `smallest_matching_cidr`, `largest_matching_cidr`
  (sort by `sort_key`, scan, early `break`).

String operands are converted by the constructor the code calls (`IPNetwork(other)` for a
network container, `IPAddress(other)` for a range container); parsing is C01/C03's business,
the harness hands the model the converted object.
-/
import NetaddrVerif.Model.Compare
namespace NV.Contains
open NV

/-- the operand `other` of `__contains__` after the `isinstance(other, BaseIP)` test -/
inductive Obj where
  | addr (a : Addr)
  | net (n : Net)
  | rng (r : Rng)
deriving Repr, DecidableEq, Inhabited

/-- `other._module.version` -/
def Obj.ver : Obj → Nat
  | .addr a => a.ver
  | .net n => n.ver
  | .rng r => r.ver

/-- `other.first` (`IPNetwork.first` / `IPRange.first`; for an address its value) -/
def Obj.first : Obj → Nat
  | .addr a => a.val
  | .net n => n.first
  | .rng r => r.lo

/-- `other.last` -/
def Obj.last : Obj → Nat
  | .addr a => a.val
  | .net n => n.last
  | .rng r => r.hi

/-- `IPNetwork.__contains__(self, other)` for a `BaseIP` operand -/
def netContains (self : Net) (other : Obj) : Bool :=
  if self.ver != other.ver then false
  else
    -- shiftwidth = self._module.width - self._prefixlen ; self_net = self._value >> shiftwidth
    let sw := width self.ver - self.plen
    let selfNet := self.val >>> sw
    match other with
    | .rng r =>
      -- (self_net << shiftwidth) <= other._start._value and ((self_net + 1) << shiftwidth) > other._end._value
      decide (selfNet <<< sw ≤ r.lo) && decide ((selfNet + 1) <<< sw > r.hi)
    | .addr a =>
      -- other_net == self_net
      (a.val >>> sw) == selfNet
    | .net n =>
      -- self_net == other_net and self._prefixlen <= other._prefixlen
      (selfNet == (n.val >>> sw)) && decide (self.plen ≤ n.plen)

/-- `IPRange.__contains__(self, other)` for a `BaseIP` operand (as fixed by 4a3aa59) -/
def rngContains (self : Rng) (other : Obj) : Bool :=
  if self.ver != other.ver then false
  else
    match other with
    | .addr a => decide (self.lo ≤ a.val) && decide (self.hi ≥ a.val)
    | .rng r => decide (self.lo ≤ r.lo) && decide (self.hi ≥ r.hi)
    | .net n =>
      let sw := width n.ver - n.plen
      let otherStart := (n.val >>> sw) <<< sw
      let otherNextStart := otherStart + (1 <<< sw)
      decide (self.lo ≤ otherStart) && decide (self.hi ≥ otherNextStart - 1)

/-- a container: an `IPNetwork`, or an `IPRange`/`IPGlob` -/
inductive Cont where
  | net (n : Net)
  | rng (r : Rng)
deriving Repr, DecidableEq, Inhabited

def Cont.ver : Cont → Nat
  | .net n => n.ver
  | .rng r => r.ver
def Cont.first : Cont → Nat
  | .net n => n.first
  | .rng r => r.lo
def Cont.last : Cont → Nat
  | .net n => n.last
  | .rng r => r.hi

/-- `IPListMixin.__contains__(self, other)` for a `BaseIP` operand -/
def mixinContains (self : Cont) (other : Obj) : Bool :=
  if self.ver != other.ver then false
  else
    match other with
    | .addr a => decide (a.val ≥ self.first) && decide (a.val ≤ self.last)
    | o => decide (o.first ≥ self.first) && decide (o.last ≤ self.last)

/-- `other in self` through the class's own `__contains__` -/
def contains (self : Cont) (other : Obj) : Bool :=
  match self with
  | .net n => netContains n other
  | .rng r => rngContains r other

/-- `cidr.network`: `IPAddress(self._value & self._netmask_int, version)` -/
def network (c : Net) : Addr := ⟨c.ver, netNetwork (width c.ver) c.val c.plen⟩

/-- the `for cidr in sorted(...)` loop of `all_matching_cidrs`:
    `if ip in cidr: matches.append(cidr)`
    `else: if matches and cidr.network not in matches[-1]: break` -/
def allLoop (ip : Addr) : List Net → List Net → List Net
  | [], acc => acc
  | c :: rest, acc =>
    if netContains c (.addr ip) then allLoop ip rest (acc ++ [c])
    else
      match acc.getLast? with
      | some m => if !(netContains m (.addr (network c))) then acc else allLoop ip rest acc
      | none => allLoop ip rest acc

/-- `all_matching_cidrs(ip, cidrs)` on converted arguments -/
def allMatching (ip : Addr) (cidrs : List Net) : List Net := allLoop ip (sortNets cidrs) []

/-- the loop of `smallest_matching_cidr`:
    `if ip in cidr: match = cidr`
    `else: if match is not None and cidr.network not in match: break` -/
def smallLoop (ip : Addr) : List Net → Option Net → Option Net
  | [], m => m
  | c :: rest, m =>
    if netContains c (.addr ip) then smallLoop ip rest (some c)
    else
      match m with
      | some mm => if !(netContains mm (.addr (network c))) then m else smallLoop ip rest m
      | none => smallLoop ip rest m

/-- `smallest_matching_cidr(ip, cidrs)` -/
def smallestMatching (ip : Addr) (cidrs : List Net) : Option Net := smallLoop ip (sortNets cidrs) none

/-- the loop of `largest_matching_cidr`: `if ip in cidr: match = cidr; break` -/
def largeLoop (ip : Addr) : List Net → Option Net
  | [] => none
  | c :: rest => if netContains c (.addr ip) then some c else largeLoop ip rest

/-- `largest_matching_cidr(ip, cidrs)` -/
def largestMatching (ip : Addr) (cidrs : List Net) : Option Net := largeLoop ip (sortNets cidrs)

end NV.Contains
