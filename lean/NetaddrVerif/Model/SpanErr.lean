/-
Model/SpanErr.lean — the argument handling of `spanning_cidr` around the shared
`spanningCidr` of Model/Cidr.lean (C13): fewer than two inputs raise ValueError, a network
of another family raises TypeError (netaddr/ip/__init__.py, `spanning_cidr`).
Inputs are the `IPNetwork(ip)` conversions of the sequence elements.
-/
import NetaddrVerif.Model.Cidr
namespace NV.Span
open NV

/-- `spanning_cidr(ip_addrs)` on converted inputs:
    the first two elements are taken (`StopIteration` → ValueError), then every element from
    the second on is checked against the first one's version (→ TypeError) while the running
    min/max is taken; then the widening loop. -/
def spanningCidrNets (nets : List Net) : R Net :=
  match nets with
  | a :: b :: rest =>
    if (b :: rest).all (fun n => n.ver == a.ver) then
      match spanningCidr (width a.ver) (nets.map (fun n => (⟨n.val, n.plen⟩ : Pfx))) with
      | .ok p => .ok ⟨a.ver, p.val, p.plen⟩
      | .error e => .error e
    else .error .type_
  | _ => .error .value

end NV.Span
