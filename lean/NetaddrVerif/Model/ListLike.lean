/-
Model/ListLike.lean — `IPListMixin` (`__iter__`, `size`, `__len__`, `__getitem__` for ints and
slices, `_iter_slice`) and `iter_iprange`, following netaddr/ip/__init__.py as it is NOW
(after `fix: IPv4 slicing of IPNetwork/IPRange yielded wrong elements`: the slice branch
generates its offsets from `range(*index.indices(self.size))`).  Property C10.

A ranged object (IPNetwork, IPRange, IPGlob) is seen by the mixin only through
`self._module.version`, `self.first`, `self.last`; that triple is `Ranged`.
Every `IPAddress(int, version)` call of the code is `mkAddr` with the code's own range guard
(never assumed: the Props file proves that it cannot fail on well-formed objects).
-/
import NetaddrVerif.Model.Network
import NetaddrVerif.Model.PyRuntime
namespace NV.ListLike
open NV

/-- what `IPListMixin` reads of `self`: `_module.version`, `first`, `last` -/
structure Ranged where
  ver : Nat
  first : Nat
  last : Nat
deriving DecidableEq, Repr, Inhabited

/-- an `IPNetwork` as a ranged object (`first`/`last` are the C02 spellings) -/
def ofNet (n : Net) : Ranged := ⟨n.ver, n.first, n.last⟩
/-- an `IPRange` / `IPGlob` as a ranged object (`first = int(_start)`, `last = int(_end)`) -/
def ofRng (r : Rng) : Ranged := ⟨r.ver, r.lo, r.hi⟩

/-- `IPAddress(value, version)` for an int `value` and an explicit version:
    `ValueError` for a version other than 4/6, `AddrFormatError` unless `0 <= value <= max_int` -/
def mkAddr (ver : Nat) (v : Int) : R Addr :=
  if ver = 4 ∨ ver = 6 then
    if 0 ≤ v ∧ v ≤ (maxInt ver : Int) then .ok ⟨ver, v.toNat⟩ else .error .addrFormat
  else .error .value

/-- The `while True:` loop of `iter_iprange`, one iteration per unit of fuel:
    `index += step`; leave when `not index >= stop` (negative step) / `not index <= stop`;
    otherwise `yield IPAddress(index, version)` (a failing constructor ends the generator with
    its exception).  Returns the yielded addresses; `.error` if a yield raised. -/
def iprLoop (ver : Nat) (stop step : Int) (negativeStep : Bool) : Nat → Int → R (List Addr)
  | 0, _ => .ok []
  | fuel + 1, index =>
    let index := index + step
    if negativeStep then
      if ¬ (index ≥ stop) then .ok []
      else do
        let a ← mkAddr ver index
        let rest ← iprLoop ver stop step negativeStep fuel index
        pure (a :: rest)
    else
      if ¬ (index ≤ stop) then .ok []
      else do
        let a ← mkAddr ver index
        let rest ← iprLoop ver stop step negativeStep fuel index
        pure (a :: rest)

/-- `iter_iprange(start, end, step)` observed for at most `fuel` `next()` calls
    (`itertools.islice(iter_iprange(...), fuel)`):
    `TypeError` when the versions differ, `ValueError` for `step == 0`. -/
def iterIprangeF (fuel : Nat) (a b : Addr) (step : Int) : R (List Addr) :=
  if a.ver ≠ b.ver then .error .type_
  else if step = 0 then .error .value
  else
    let start : Int := a.val
    let stop : Int := b.val
    let negativeStep := decide (step < 0)
    iprLoop a.ver stop step negativeStep fuel (start - step)

/-- fuel that lets the loop of `iter_iprange` run to its `break`: the index moves by at least
    one per iteration, so `|stop - start| + 1` iterations always suffice -/
def iprFuel (a b : Addr) : Nat := ((b.val : Int) - (a.val : Int)).natAbs + 1

/-- `list(iter_iprange(start, end, step))` -/
def iterIprange (a b : Addr) (step : Int) : R (List Addr) := iterIprangeF (iprFuel a b) a b step

/-- `IPListMixin.__iter__` observed for at most `fuel` items:
    `iter_iprange(IPAddress(self.first, version), IPAddress(self.last, version))` -/
def iterF (fuel : Nat) (x : Ranged) : R (List Addr) := do
  let startIp ← mkAddr x.ver x.first
  let endIp ← mkAddr x.ver x.last
  iterIprangeF fuel startIp endIp 1

/-- `list(x)` through `IPListMixin.__iter__` -/
def iter (x : Ranged) : R (List Addr) := do
  let startIp ← mkAddr x.ver x.first
  let endIp ← mkAddr x.ver x.last
  iterIprange startIp endIp 1

/-- `IPListMixin.size`: `int(self.last - self.first + 1)` -/
def size (x : Ranged) : Int := (x.last : Int) - (x.first : Int) + 1

/-- `IPListMixin.__len__`: `IndexError` when `size > sys.maxsize` (`maxsize` is a parameter:
    `2^63 - 1` on this platform) -/
def len (maxsize : Nat) (x : Ranged) : R Int :=
  let sz := size x
  if sz > (maxsize : Int) then .error .index else .ok sz

/-- `IPListMixin.__getitem__` for an int index -/
def getItemInt (x : Ranged) (index : Int) : R Addr :=
  if (- size x) ≤ index ∧ index < 0 then
    mkAddr x.ver ((x.last : Int) + index + 1)
  else if 0 ≤ index ∧ index ≤ size x - 1 then
    mkAddr x.ver ((x.first : Int) + index)
  else .error .index

/-- `IPListMixin._iter_slice`: `for offset in range(start, stop, step): yield IPAddress(first + offset, version)` -/
def iterSlice (x : Ranged) (start stop step : Int) : R (List Addr) :=
  (Py.pyRange start stop step).mapM (fun offset => mkAddr x.ver ((x.first : Int) + offset))

/-- `IPListMixin.__getitem__` for a slice object `slice(a, b, c)` (components None or int):
    `TypeError` for IPv6, `ValueError` from `slice.indices` for a zero step -/
def getItemSlice (x : Ranged) (a b c : Option Int) : R (List Addr) :=
  if x.ver = 6 then .error .type_
  else
    match Py.sliceIndices a b c (size x).toNat with
    | none => .error .value
    | some (start, stop, step) => iterSlice x start stop step

end NV.ListLike
