/-
Model/NetworkMask.lean — the `netmask` setter of `IPNetwork` for EVERY argument form the
constructor `IPAddress(value)` distinguishes (audit 2a, finding 3).  Model/Network.lean
(`SetArg` = int | IPAddress | junk) is shared and stays as it is; this file adds the two argument
forms it leaves out, beside it:

    @netmask.setter
    def netmask(self, value):                          # netaddr/ip/__init__.py:1049-1060
        ip = IPAddress(value)                          # version=None, flags=0
        if ip.version != self.version:  raise ValueError
        if not ip.is_netmask():  raise ValueError
        self.prefixlen = ip.netmask_bits()

`IPAddress(value)` (netaddr/ip/__init__.py:255-327) with version=None, flags=0:
  * `isinstance(addr, BaseIP)` — an `IPAddress` OR an `IPNetwork` object (both derive from
    `BaseIP`): copy branch, `_value` and `_module` taken over; the prefix length of a network
    argument is not looked at                                          → `MaskArg.net`
  * a `str`: '/' in it → ValueError; else `_ipv4.str_to_int(addr, 0)` (= `inet_aton`, the BSD
    shorthand texts), else `_ipv6.str_to_int`, else AddrFormatError     → `MaskArg.str`, which is
    the C01 model function `AddrParse.ipAddress be s none 0` itself
  * an int / anything else: `addrOfSetArg` of Model/Network.lean        → `MaskArg.plain`

Outside the modelled domain (recorded in obligations/C02.json): `bytes` (TypeError out of
`'/' in addr`), `IPRange` / `IPGlob` (AttributeError: no `_value`), `bool` (an int subclass: it IS
an int for `isinstance`, `True` is the address 0.0.0.1).
-/
import NetaddrVerif.Model.NetworkSet
import NetaddrVerif.Model.AddrParse
namespace NV.NetMask
open NV NV.AddrParse NV.SetTrace

/-- argument of `n.netmask = x` -/
inductive MaskArg where
  | plain (x : SetArg)          -- int | IPAddress object | junk (Model/Network.lean)
  | str (s : List Char)         -- a `str`
  | net (m : Net)               -- an `IPNetwork` object (a `BaseIP`: copy branch)
deriving Repr

/-- `IPAddress(value)` as the netmask setter calls it: version=None, flags=0 -/
def addrOfMaskArg (be : Backend) : MaskArg → R Addr
  | .plain x => addrOfSetArg x
  | .str s => ipAddress be s none 0
  | .net m => .ok ⟨m.ver, m.val⟩

/-- the body of the netmask setter after `ip = IPAddress(value)` has returned or raised `r`
    (the same statements as `setNetmask` of Model/Network.lean) -/
def setNetmaskOf (n : Net) (r : R Addr) : R Net := do
  let ip ← r
  if ip.ver ≠ n.ver then .error .value
  else if !isNetmask (width ip.ver) ip.val then .error .value
  else
    let bits ← netmaskBits (width ip.ver) ip.val
    setPrefixlen n (.int bits)

/-- `IPNetwork.netmask` setter, every argument form -/
def setNetmaskX (be : Backend) (n : Net) (x : MaskArg) : R Net := setNetmaskOf n (addrOfMaskArg be x)

inductive SetOpX where
  | value (x : SetArg) | prefixlen (x : SetArg) | netmask (x : MaskArg)
deriving Repr

def applySetX (be : Backend) (n : Net) : SetOpX → R Net
  | .value x => setValue n x
  | .prefixlen x => setPrefixlen n x
  | .netmask x => setNetmaskX be n x

/-- one step of a live object: a failing assignment leaves the object as it was -/
def stepSetX (be : Backend) (n : Net) (op : SetOpX) : Net × Option Err :=
  match applySetX be n op with
  | .ok n' => (n', none)
  | .error e => (n, some e)

/-- the setter operations of Model/Network.lean are the `plain` ones -/
def SetOpX.ofSetOp : SetOp → SetOpX
  | .value x => .value x
  | .prefixlen x => .prefixlen x
  | .netmask x => .netmask (.plain x)

/-! ### statement by statement (Model/NetworkSet.lean's trace monad: stores survive a raise) -/

/-- the netmask setter body with `IPAddress(value)` = `r`; its last statement is the assignment
    `self.prefixlen = …`, i.e. a call of `_set_prefixlen` -/
def setNetmaskOfT (r : R Addr) : M Unit := do
  let ip ← call r
  let n ← self
  if ip.ver ≠ n.ver then raise .value
  if !isNetmask (width ip.ver) ip.val then raise .value
  let bits ← call (netmaskBits (width ip.ver) ip.val)
  setPrefixlenT (.int bits)

def setterBodyX (be : Backend) : SetOpX → M Unit
  | .value x => setValueT x
  | .prefixlen x => setPrefixlenT x
  | .netmask x => setNetmaskOfT (addrOfMaskArg be x)

/-- one assignment statement `n.<attr> = x` on the live object: outcome, the object as the setter
    left it, and the stores it made -/
def setterTraceX (be : Backend) (n : Net) (op : SetOpX) : Except Err Unit × St := setterBodyX be op ⟨n, []⟩

end NV.NetMask
