/-
Model/FbSocket.lean — netaddr's pure-Python fallback `netaddr/fbsocket.py` as it is NOW
(after `fix: fbsocket.inet_pton disagreed with the platform inet_pton`), function by function:
`inet_ntoa`, `_compact_ipv6_tokens`, `inet_ntop`, `_inet_pton_af_inet`, `inet_pton`.

Packed byte strings are carried as the integer they encode (struct pack/unpack of fixed
width is modelled runtime).  `int(token)` / `int(token, 16)` are applied by the code only to
tokens it has already checked to consist of 1-3 characters of `_DEC_DIGITS` / 1-4 characters
of `_HEX_DIGITS`; on those `int` is the positional value, which is what is modelled.
-/
import NetaddrVerif.Model.Text4
namespace NV.FbSocket
open NV.Text4

/-- `'%x' % i` -/
def hex (w : Nat) : List Char := Nat.toDigits 16 w

/-- `inet_ntoa`: `'%d.%d.%d.%d' % _unpack('4B', packed_ip)` -/
def ntoa (v : Nat) : List Char :=
  ['.'].intercalate [dec (v / 16777216 % 256), dec (v / 65536 % 256), dec (v / 256 % 256), dec (v % 256)]

/-- the discovery loop of `_compact_ipv6_tokens`, run over `token == '0'` flags:
    `positions` collects `(num_tokens, start_index)` of every run of more than one zero token.
    State: index, `start_index` (None = no open run), `num_tokens`. -/
def zeroRuns : List Bool → Nat → Option Nat → Nat → List (Nat × Nat) → List (Nat × Nat)
  | [], _, start, num, pos =>
    -- "Store any position not saved before loop exit."
    if num > 1 then pos ++ [(num, start.getD 0)] else pos
  | true :: r, idx, start, num, pos =>
    zeroRuns r (idx + 1) (if start.isNone then some idx else start) (num + 1) pos
  | false :: r, idx, start, num, pos =>
    zeroRuns r (idx + 1) none 0 (if num > 1 then pos ++ [(num, start.getD 0)] else pos)

/-- `positions.sort(key=lambda x: x[1])`: stable insertion sort by start index -/
def insertByStart (p : Nat × Nat) : List (Nat × Nat) → List (Nat × Nat)
  | [] => [p]
  | q :: r => if p.2 < q.2 then p :: q :: r else q :: insertByStart p r

def sortByStart (ps : List (Nat × Nat)) : List (Nat × Nat) :=
  ps.foldr insertByStart []

/-- "Locate longest, left-most run of zeros": first element, replaced by any strictly longer one -/
def bestPosition (ps : List (Nat × Nat)) : Option (Nat × Nat) :=
  match sortByStart ps with
  | [] => none
  | p :: r => some (r.foldl (fun best q => if q.1 > best.1 then q else best) p)

/-- `_compact_ipv6_tokens(tokens)` -/
def compactTokens (tokens : List (List Char)) : List (List Char) :=
  let positions := zeroRuns (tokens.map (· == ['0'])) 0 none 0 []
  match bestPosition positions with
  | none => tokens
  | some (length, startIdx) =>
    let new := tokens.take startIdx ++ [[]] ++ tokens.drop (startIdx + length)
    -- "Add start and end blanks so join creates '::'."
    let new := if new.head? == some [] then [] :: new else new
    if new.getLast? == some [] then new ++ [[]] else new

/-- the eight 16-bit words `_unpack('>8H', packed_ip)` of a 128-bit value -/
def words (v : Nat) : List Nat :=
  [(v >>> 112) % 65536, (v >>> 96) % 65536, (v >>> 80) % 65536, (v >>> 64) % 65536,
   (v >>> 48) % 65536, (v >>> 32) % 65536, (v >>> 16) % 65536, v % 65536]

/-- `inet_ntop(AF_INET6, packed v)`; the re-assembled `int_val` is `v` itself -/
def ntop6 (v : Nat) : List Char :=
  let tokens := (words v).map hex
  let tokens :=
    if (0xffff < v ∧ v ≤ 0xffffffff) ∨ v >>> 32 = 0xffff then
      -- "IPv4 compatible / mapped IPv6": the last two tokens re-read as hex and printed dotted
      let w6 := ofBase 16 (tokens.getD 6 [])
      let w7 := ofBase 16 (tokens.getD 7 [])
      tokens.take 6 ++ [ntoa (w6 * 65536 + w7)]
    else tokens
  [':'].intercalate (compactTokens tokens)

/-- one token of `_inet_pton_af_inet`: 1-3 ASCII digits, no leading zero unless "0", `octet >> 8 == 0` -/
def octet (token : List Char) : Option Nat :=
  if ¬ (1 ≤ token.length ∧ token.length ≤ 3) then none
  else if token.any (fun c => !isDec c) then none
  else if token.head? == some '0' ∧ token.length > 1 then none
  else
    let o := ofBase 10 token
    if o >>> 8 ≠ 0 then none else some o

/-- `_inet_pton_af_inet(ip_string)` as an integer (`none` = ValueError) -/
def pton4 (s : List Char) : Option Nat :=
  let tokens := s.splitOn '.'
  if tokens.length = 4 then
    (tokens.mapM octet).map (fun ws => ws.foldl (fun a w => a * 256 + w) 0)
  else none

/-- the token loop of `inet_pton(AF_INET6, ·)`: `words`, `gap_index`; `n` = `len(tokens)`,
    `index` the loop index -/
def tokenLoop (n : Nat) : List (List Char) → Nat → List Nat → Option Nat → Option (List Nat × Option Nat)
  | [], _, ws, gap => some (ws, gap)
  | token :: rest, index, ws, gap =>
    if token == [] then tokenLoop n rest (index + 1) ws (some ws.length)
    else if token.contains '.' then
      if index ≠ n - 1 then none else
      match pton4 token with
      | none => none
      | some v4 => tokenLoop n rest (index + 1) (ws ++ [v4 / 65536, v4 % 65536]) gap
    else
      if ¬ (1 ≤ token.length ∧ token.length ≤ 4) then none
      else if token.any (fun c => !isHexC c) then none
      else tokenLoop n rest (index + 1) (ws ++ [ofBase 16 token]) gap

/-- `inet_pton(AF_INET6, ip_string)` as an integer (`none` = ValueError) -/
def pton6 (s : List Char) : Option Nat :=
  let tokens := s.splitOn ':'
  if tokens.length < 3 then none else
  -- "A leading or trailing '::' shows up as two empty tokens."
  let tokens? : Option (List (List Char)) :=
    if tokens.head? == some [] then
      (if tokens.getD 1 ['x'] != [] then none else some (tokens.drop 1))
    else some tokens
  match tokens? with
  | none => none
  | some tokens =>
  let tokens? : Option (List (List Char)) :=
    if tokens.getLast? == some [] then
      (if tokens.length < 2 || tokens.getD (tokens.length - 2) ['x'] != [] then none else some tokens.dropLast)
    else some tokens
  match tokens? with
  | none => none
  | some tokens =>
  if tokens.count [] > 1 then none else
  match tokenLoop tokens.length tokens 0 [] none with
  | none => none
  | some (ws, none) =>
    if ws.length ≠ 8 then none else some (ws.foldl (fun a w => a * 65536 + w) 0)
  | some (ws, some g) =>
    if ws.length > 7 then none
    else some ((ws.take g ++ List.replicate (8 - ws.length) 0 ++ ws.drop g).foldl (fun a w => a * 65536 + w) 0)

end NV.FbSocket
