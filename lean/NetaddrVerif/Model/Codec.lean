/-
Model/Codec.lean — binary / bit / word / DNS / base-85 encodings (property C15), following
netaddr/strategy/__init__.py (generic codecs), strategy/ipv4.py, ipv6.py, eui48.py, eui64.py
(per-family packed / arpa / word codecs), ip/rfc1924.py and the object-level accessors, as
the code is NOW (after fix 5385a10: strict character checks in valid_bits / valid_bin).

Conventions: the first part works on `Nat` arguments and words (what a call sees after the
code's own `0 <=` test); the section "signed arguments" at the end takes `Int` and applies that
sign test, and is what the driver runs; byte strings are `List Nat`
with entries < 256; text is `List Char`.  `struct.pack/unpack` are the small functions
`packField` / `unpackFields` (MODELLED RUNTIME).  Core Lean only.
-/
import NetaddrVerif.Model.Basic
import NetaddrVerif.Model.PyRuntime
import NetaddrVerif.Gen.Dialects
import NetaddrVerif.Gen.Base85
import NetaddrVerif.Model.AddrParse
namespace NV.Codec

/-! ## generic word codecs (strategy/__init__.py:33-108) -/

/-- `valid_words(words, word_size, num_words)` -/
def validWords (words : List Nat) (ws nw : Nat) : Bool :=
  words.length == nw && words.all (fun i => decide (i ≤ 2 ^ ws - 1))

/-- the loop of `int_to_words`: `word = int_val & max_word; int_val >>= word_size`, in the
    order the words are appended (least significant first) -/
def wordsLoop (ws : Nat) : Nat → Nat → List Nat
  | 0, _ => []
  | n + 1, v => (v &&& (2 ^ ws - 1)) :: wordsLoop ws n (v >>> ws)

/-- `int_to_words(int_val, word_size, num_words)`; IndexError when out of bounds -/
def intToWords (v ws nw : Nat) : R (List Nat) :=
  if v ≤ 2 ^ (nw * ws) - 1 then .ok (wordsLoop ws nw v).reverse else .error .index

/-- `for i, num in enumerate(reversed(words)): int_val = int_val | (num << k * i)` over the
    already reversed list -/
def orShift (k : Nat) : List Nat → Nat → Nat → Nat
  | [], _, acc => acc
  | x :: t, i, acc => orShift k t (i + 1) (acc ||| (x <<< (k * i)))

/-- `words_to_int(words, word_size, num_words)`; ValueError on an invalid sequence -/
def wordsToInt (words : List Nat) (ws nw : Nat) : R Nat :=
  if validWords words ws nw then .ok (orShift ws words.reverse 0 0) else .error .value

/-! ## bit strings (strategy/__init__.py:12-29, 111-196) -/

/-- `'01'[num & 1]` -/
def bit01 (n : Nat) : Char := if n % 2 = 1 then '1' else '0'

/-- the inner loop of `bytes_to_bits()`: `bits[i] = '01'[num & 1]; num >>= 1` for i = 7 … 0,
    listed in assignment order (least significant bit first) -/
def byteBitsLE : Nat → Nat → List Char
  | 0, _ => []
  | n + 1, num => bit01 num :: byteBitsLE n (num >>> 1)

/-- `BYTES_TO_BITS[b]` -/
def bytesToBits (b : Nat) : List Char := (byteBitsLE 8 b).reverse

/-- `while word: bits.append(BYTES_TO_BITS[word & 255]); word >>= 8` (fuel: `word` itself is
    always enough), in append order -/
def wordChunks : Nat → Nat → List (List Char)
  | 0, _ => []
  | f + 1, word => if word = 0 then [] else bytesToBits (word &&& 255) :: wordChunks f (word >>> 8)

/-- Python `s[-n:]` -/
def takeLast (n : Nat) (s : List Char) : List Char := if n = 0 then s else s.drop (s.length - n)

/-- one word of `int_to_bits`: byte chunks, `or '0' * word_size`, `('0' * ws + bit_str)[-ws:]` -/
def wordBits (ws word : Nat) : List Char :=
  let bitStr := ((wordChunks word word).reverse).flatten
  let bitStr := if bitStr.isEmpty then List.replicate ws '0' else bitStr
  takeLast ws (List.replicate ws '0' ++ bitStr)

/-- `int_to_bits(int_val, word_size, num_words, word_sep)` -/
def intToBits (v ws nw : Nat) (sep : List Char) : R (List Char) := do
  let words ← intToWords v ws nw
  pure (sep.intercalate (words.map (wordBits ws)))

/-- `s.replace(sep, '')` for `sep ≠ ''`: leftmost non-overlapping occurrences removed -/
def replaceDelAux (sep : List Char) : Nat → List Char → List Char
  | 0, s => s
  | _, [] => []
  | f + 1, c :: t =>
    if sep.isPrefixOf (c :: t) then replaceDelAux sep f ((c :: t).drop sep.length)
    else c :: replaceDelAux sep f t

def replaceDel (sep s : List Char) : List Char :=
  if sep = [] then s else replaceDelAux sep s.length s

def is01 (c : Char) : Bool := c == '0' || c == '1'

/-- the tail shared by `valid_bits` and `valid_bin`: `0 <= int(s, 2) <= max_int`, ValueError → False -/
def inRange2 (s : List Char) (width : Nat) : Bool :=
  match Py.pyInt 2 s with
  | some n => decide (0 ≤ n ∧ n ≤ (2 : Int) ^ width - 1)
  | none => false

/-- `valid_bits(bits, width, word_sep)` (as fixed: every character must be 0 or 1) -/
def validBits (bits : List Char) (width : Nat) (sep : List Char) : Bool :=
  let bits := if sep ≠ [] then replaceDel sep bits else bits
  if bits.length ≠ width then false
  else if bits.any (fun c => !is01 c) then false
  else inRange2 bits width

/-- `bits_to_int(bits, width, word_sep)` -/
def bitsToInt (bits : List Char) (width : Nat) (sep : List Char) : R Int :=
  if !validBits bits width sep then .error .value else
  let bits := if sep ≠ [] then replaceDel sep bits else bits
  match Py.pyInt 2 bits with
  | some n => .ok n
  | none => .error .value

/-! ## Python binary literals (strategy/__init__.py:199-273) -/

/-- `bin(v)` for `v ≥ 0` -/
def pyBin (v : Nat) : List Char := '0' :: 'b' :: Nat.toDigits 2 v

/-- `int_to_bin(int_val, width)`; IndexError when longer than width -/
def intToBin (v width : Nat) : R (List Char) :=
  let b := pyBin v
  if (b.drop 2).length > width then .error .index else .ok b

/-- `valid_bin(bin_val, width)` (as fixed: strict character check after the '0b' prefix) -/
def validBin (s : List Char) (width : Nat) : Bool :=
  if !(['0', 'b'].isPrefixOf s) then false else
  let t := s.drop 2
  if t.length > width then false
  else if t.any (fun c => !is01 c) then false
  else inRange2 t width

/-- `bin_to_int(bin_val, width)` -/
def binToInt (s : List Char) (width : Nat) : R Int :=
  if !validBin s width then .error .value else
  match Py.pyInt 2 (s.drop 2) with
  | some n => .ok n
  | none => .error .value

/-! ## struct.pack / struct.unpack of big-endian unsigned fields (MODELLED RUNTIME) -/

def leBytes : Nat → Nat → List Nat
  | 0, _ => []
  | n + 1, v => v % 256 :: leBytes n (v / 256)

/-- `size` big-endian bytes of `v` -/
def beBytes (size v : Nat) : List Nat := (leBytes size v).reverse

/-- one field of `struct.pack('>…')` (`B` = 1, `H` = 2, `I` = 4 bytes): struct.error outside
    `0 .. 256^size - 1` -/
def packField (size v : Nat) : R (List Nat) :=
  if v < 256 ^ size then .ok (beBytes size v) else .error .other

/-- big-endian value of a byte string -/
def beValue (bs : List Nat) : Nat := bs.foldl (fun a b => a * 256 + b) 0

def chunks (size : Nat) : Nat → List Nat → List (List Nat)
  | 0, _ => []
  | n + 1, bs => bs.take size :: chunks size n (bs.drop size)

/-- `struct.unpack('>' + count fields of `size` bytes, bs)`: struct.error on a wrong length -/
def unpackFields (size count : Nat) (bs : List Nat) : R (List Nat) :=
  if bs.length ≠ size * count then .error .other else .ok ((chunks size count bs).map beValue)

/-- `struct.pack('>' + one field of `size` bytes per word, *words)` -/
def packFields (size : Nat) (words : List Nat) : R (List Nat) := do
  let bs ← words.mapM (packField size)
  pure bs.flatten

/-- `int.to_bytes(n, 'big')`: OverflowError when it does not fit -/
def toBytes (n v : Nat) : R (List Nat) :=
  if v < 256 ^ n then .ok (beBytes n v) else .error .other

/-! ## word formatting -/

/-- `'%.<pad>x' % n` / `'%.<pad>X' % n` (pad 0 = `%x`) -/
def fmtHex (pad : Nat) (upper : Bool) (n : Nat) : List Char :=
  let d := Nat.toDigits 16 n
  let d := List.replicate (pad - d.length) '0' ++ d
  if upper then d.map Char.toUpper else d

/-- `'%d' % n` -/
def fmtDec (n : Nat) : List Char := Nat.toDigits 10 n

/-! ## IPv4 (strategy/ipv4.py:148-234) -/
namespace V4

def width : Nat := 32

/-- `ipv4.int_to_words` (its own spelling; ValueError out of range) -/
def intToWords (v : Nat) : R (List Nat) :=
  if v ≤ 2 ^ 32 - 1 then .ok [v >>> 24, (v >>> 16) &&& 0xff, (v >>> 8) &&& 0xff, v &&& 0xff]
  else .error .value

/-- `ipv4.words_to_int`: `struct.unpack('>I', struct.pack('4B', *words))[0]` -/
def wordsToInt (words : List Nat) : R Nat :=
  if !validWords words Gen.ipv4WordSize Gen.ipv4NumWords then .error .value else do
  let bs ← packFields 1 words
  let ws ← unpackFields 4 1 bs
  pure (ws.headD 0)

/-- `struct.pack('>I', int_val)` -/
def intToPacked (v : Nat) : R (List Nat) := packField 4 v

/-- `struct.unpack('>I', packed_int)[0]` -/
def packedToInt (bs : List Nat) : R Nat := do
  let ws ← unpackFields 4 1 bs
  pure (ws.headD 0)

/-- `ipv4.int_to_arpa` -/
def intToArpa (v : Nat) : R (List Char) := do
  let words ← intToWords v
  let toks := (words.map fmtDec).reverse ++ ["in-addr".toList, "arpa".toList, []]
  pure (['.'].intercalate toks)

def intToBits (v : Nat) (sep : Option (List Char)) : R (List Char) :=
  Codec.intToBits v Gen.ipv4WordSize Gen.ipv4NumWords (sep.getD Gen.ipv4WordSep)

def bitsToInt (s : List Char) : R Int := Codec.bitsToInt s width Gen.ipv4WordSep
def validBits (s : List Char) : Bool := Codec.validBits s width Gen.ipv4WordSep

end V4

/-! ## IPv6 (strategy/ipv6.py:146-262) -/
namespace V6

def width : Nat := 128

/-- `ipv6.int_to_words(int_val)` with the module defaults -/
def intToWords (v : Nat) : R (List Nat) := Codec.intToWords v Gen.ipv6WordSize Gen.ipv6NumWords

def wordsToInt (words : List Nat) : R Nat := Codec.wordsToInt words Gen.ipv6WordSize Gen.ipv6NumWords

/-- `words = int_to_words(int_val, 4, 32); struct.pack('>4I', *words)` -/
def intToPacked (v : Nat) : R (List Nat) := do
  let words ← Codec.intToWords v 32 4
  packFields 4 words

/-- `struct.unpack('>4I', packed_int)` then the or/shift fold with 32-bit words -/
def packedToInt (bs : List Nat) : R Nat := do
  let ws ← unpackFields 4 4 bs
  pure (orShift 32 ws.reverse 0 0)

/-- `int_to_str(int_val, ipv6_verbose)`: packed → `'>8H'` → word_fmt, joined with ':' -/
def intToStrVerbose (v : Nat) : R (List Char) :=
  match intToPacked v with
  | .error _ => .error .value
  | .ok p =>
    match unpackFields 2 8 p with
    | .error _ => .error .value
    | .ok words => .ok (Gen.ipv6WordSep.intercalate (words.map (fmtHex Gen.ipv6VerbosePad Gen.ipv6VerboseUpper)))

/-- `ipv6.int_to_arpa` -/
def intToArpa (v : Nat) : R (List Char) := do
  let addr ← intToStrVerbose v
  let toks := (replaceDel [':'] addr).reverse.map (fun c => [c])
  pure (['.'].intercalate (toks ++ ["ip6".toList, "arpa".toList, []]))

def intToBits (v : Nat) (sep : Option (List Char)) : R (List Char) :=
  Codec.intToBits v Gen.ipv6WordSize Gen.ipv6NumWords (sep.getD Gen.ipv6WordSep)

def bitsToInt (s : List Char) : R Int := Codec.bitsToInt s width Gen.ipv6WordSep
def validBits (s : List Char) : Bool := Codec.validBits s width Gen.ipv6WordSep

end V6

/-! ## EUI-48 / EUI-64 (strategy/eui48.py:219-300, eui64.py:195-275) -/
namespace E48

def width : Nat := Gen.eui48Width

/-- `struct.pack(">HI", int_val >> 32, int_val & 0xffffffff)` -/
def intToPacked (v : Nat) : R (List Nat) := do
  let hi ← packField 2 (v >>> 32)
  let lo ← packField 4 (v &&& 0xffffffff)
  pure (hi ++ lo)

/-- `struct.unpack('>6B', packed_int)` then the or/shift fold with 8-bit words -/
def packedToInt (bs : List Nat) : R Nat := do
  let ws ← unpackFields 1 6 bs
  pure (orShift 8 ws.reverse 0 0)

end E48

namespace E64

def width : Nat := Gen.eui64Width

/-- `words = int_to_words(int_val); struct.pack('>8B', *words)` (default dialect) -/
def intToPacked (v : Nat) : R (List Nat) := do
  let words ← Codec.intToWords v Gen.eui64Default.wordSize Gen.eui64Default.numWords
  packFields 1 words

def packedToInt (bs : List Nat) : R Nat := do
  let ws ← unpackFields 1 8 bs
  pure (orShift 8 ws.reverse 0 0)

end E64

/-! ## RFC 1924 (ip/rfc1924.py) -/

/-- `while int_val > 0: remainder.append(int_val % 85); int_val //= 85` -/
def b85Loop : Nat → Nat → List Nat
  | 0, _ => []
  | f + 1, n => if n > 0 then n % 85 :: b85Loop f (n / 85) else []

/-- `ipv6_to_base85` on the integer value of the address -/
def ipv6ToBase85 (v : Nat) : List Char :=
  let rem := b85Loop v v
  let enc := rem.reverse.map (fun w => Gen.base85.getD w '?')
  List.replicate (20 - enc.length) '0' ++ enc

/-- `result += BASE_85_DICT[num] * 85 ** i` over the reversed tokens; KeyError on a character
    outside the alphabet -/
def b85Sum : List Char → Nat → Nat → R Nat
  | [], _, acc => .ok acc
  | c :: t, i, acc =>
    match Gen.base85Dict.lookup c.toNat with
    | some d => b85Sum t (i + 1) (acc + d * 85 ^ i)
    | none => .error .key

/-- `base85_to_ipv6` up to the `IPAddress(result, 6)` constructor: the integer value -/
def base85ToIpv6 (s : List Char) : R Nat :=
  if s.length ≠ 20 then .error .addrFormat else do
  let r ← b85Sum s.reverse 0 0
  if r ≤ 2 ^ 128 - 1 then pure r else .error .addrFormat

/-! ## signed arguments

A Python `int` argument may be negative.  The functions below take `Int` where the Python code
takes an arbitrary int; each one applies the code's own sign test (`0 <= x` of the guards
`0 <= x <= max`, the range check of `struct.pack`, …) and hands a non-negative value to the
`Nat` function above, which applies the upper half of the same guard.  The driver runs these. -/

/-- `valid_words` on arbitrary ints: `len(words) == num_words`, then `0 <= i <= max_word` for
    every word -/
def validWordsZ (words : List Int) (ws nw : Nat) : Bool :=
  words.length == nw && words.all (fun i => decide (0 ≤ i ∧ i ≤ (2 : Int) ^ ws - 1))

/-- `int_to_words`: `if not 0 <= int_val <= max_int: raise IndexError` -/
def intToWordsZ (v : Int) (ws nw : Nat) : R (List Nat) :=
  if v < 0 then .error .index else intToWords v.toNat ws nw

/-- `words_to_int`: ValueError unless `valid_words`; valid words are non-negative -/
def wordsToIntZ (words : List Int) (ws nw : Nat) : R Nat :=
  if validWordsZ words ws nw then .ok (orShift ws (words.map Int.toNat).reverse 0 0) else .error .value

/-- `int_to_bits`: its first step is `int_to_words` -/
def intToBitsZ (v : Int) (ws nw : Nat) (sep : List Char) : R (List Char) :=
  if v < 0 then .error .index else intToBits v.toNat ws nw sep

/-- `bin(v)` for any int: `'-0b…'` for a negative one -/
def pyBinZ (v : Int) : List Char := if v < 0 then '-' :: pyBin (-v).toNat else pyBin v.toNat

/-- `int_to_bin` has no sign test: `bin_val[2:]` of `'-0b101'` is `'b101'`, so a negative int is
    refused (IndexError) only when its digit count + 1 exceeds `width`, and is otherwise
    returned as `'-0b…'` -/
def intToBinZ (v : Int) (width : Nat) : R (List Char) :=
  let b := pyBinZ v
  if (b.drop 2).length > width then .error .index else .ok b

/-- one unsigned field of `struct.pack`: struct.error for a negative argument too -/
def packFieldZ (size : Nat) (v : Int) : R (List Nat) :=
  if v < 0 then .error .other else packField size v.toNat

namespace V4
/-- `ipv4.int_to_words`: `if not 0 <= int_val <= max_int: raise ValueError` -/
def intToWordsZ (v : Int) : R (List Nat) := if v < 0 then .error .value else V4.intToWords v.toNat
/-- `ipv4.words_to_int` -/
def wordsToIntZ (words : List Int) : R Nat :=
  if !validWordsZ words Gen.ipv4WordSize Gen.ipv4NumWords then .error .value
  else V4.wordsToInt (words.map Int.toNat)
/-- `struct.pack('>I', int_val)` -/
def intToPackedZ (v : Int) : R (List Nat) := packFieldZ 4 v
/-- `ipv4.int_to_arpa`: starts with `int_to_words` -/
def intToArpaZ (v : Int) : R (List Char) := if v < 0 then .error .value else V4.intToArpa v.toNat
end V4

namespace V6
/-- `ipv6.int_to_packed`: starts with `int_to_words(int_val, 4, 32)` -/
def intToPackedZ (v : Int) : R (List Nat) := if v < 0 then .error .index else V6.intToPacked v.toNat
/-- `ipv6.int_to_arpa`: `int_to_str` turns every exception of `int_to_packed` into ValueError -/
def intToArpaZ (v : Int) : R (List Char) := if v < 0 then .error .value else V6.intToArpa v.toNat
end V6

namespace E48
/-- `struct.pack(">HI", int_val >> 32, int_val & 0xffffffff)` on any int: `>>` is the floor
    shift, `& 0xffffffff` the non-negative remainder mod 2^32 (MODELLED RUNTIME) -/
def intToPackedZ (v : Int) : R (List Nat) := do
  let hi ← packFieldZ 2 (v >>> 32)
  let lo ← packFieldZ 4 (v % 4294967296)
  pure (hi ++ lo)
end E48

namespace E64
/-- `eui64.int_to_packed`: starts with `int_to_words` -/
def intToPackedZ (v : Int) : R (List Nat) := if v < 0 then .error .index else E64.intToPacked v.toNat
end E64

/-! ## RFC 1924: the text that `base85_to_ipv6` returns -/

/-- `base85_to_ipv6(addr)` = `str(IPAddress(result, 6))`: the integer of `base85ToIpv6`
    printed by `ipv6.int_to_str` with the default (compact) dialect, i.e. the function
    `AddrParse.intToStr be 6` that property C01 is about -/
def base85ToIpv6Text (be : AddrParse.Backend) (s : List Char) : R (List Char) := do
  let r ← base85ToIpv6 s
  pure (AddrParse.intToStr be 6 r)


end NV.Codec
